#!/usr/bin/env python3
"""C17 — Duden list, text, number and sorting functions meet their specification.
Proof: coq/Props/C17.v (one refinement theorem per covered function: the Gallina transcription of the DDP body /
C primitive equals the Coq list-library expression of its doc comment on the documented domain; `_refuted` +
`_partial` where the real code violates its documentation).
Tie: (a) one generated driver program per covered function and call form, compiled by kddp; it reads its cases from
the command line, calls the function and prints result AND arguments afterwards; every observation is judged
directly against the doc-comment specification (checks/c17_spec.py, Python list/str programs) and compared with the
extracted Coq model; (b) the source text of every covered DDP function body and C primitive is hashed against
models/c17_sources.json (transcription drift)."""
import hashlib
import itertools
import json
import os
import re
import subprocess
import sys

sys.path.insert(0, os.path.dirname(os.path.abspath(__file__)))
import vlib
from vlib import Check, Build, log
import c17_ddp as D
import c17_spec as S

PID = "C17"
ALPHA = "aä€😀"          # 1, 2, 3, 4 bytes
BATCH = 2000


# ------------------------------------------------------------------------------------------------
# case grids
# ------------------------------------------------------------------------------------------------
def seqs(alpha, maxlen, minlen=0):
    for n in range(minlen, maxlen + 1):
        for t in itertools.product(alpha, repeat=n):
            yield list(t)


def texts(alpha, maxlen, minlen=0):
    return ["".join(t) for t in seqs(alpha, maxlen, minlen)]


def container_index(params):
    for i, k in enumerate(params):
        if k in ("ZL", "XL", "TL", "BL", "T", "KL", "YL", "ZN", "KN"):
            return i
    return None


def grid(fn, quick, rng):
    """list of argument tuples: the exhaustive part first (small to large), then random larger inputs"""
    ps = fn["params"]
    g = fn.get("grid")
    ci = container_index(ps)
    out = []
    if g == "deep":
        return [(list(l),) for l in CTX.get("deep_lists", [])]
    if g == "sort":
        mx = 7 if quick else 9
        vals = D.WERTE[:3] if ps[0] == "ZL" else D.KWERTE[:3]
        allv = D.WERTE if ps[0] == "ZL" else D.KWERTE
        out = [(l,) for l in seqs(vals, mx)]
        for _ in range(300 if quick else 3000):
            n = rng.randrange(4, 60)
            out.append(([rng.choice(allv) for _ in range(n)],))
        for n in (100, 250):    # more pending sub-ranges than the initial explicit stack (100 slots) can hold
            out.append((sorted(rng.choice(allv) for _ in range(n)),))
            out.append((sorted((rng.choice(allv) for _ in range(n)), reverse=True),))
            out.append(([allv[(i * 7) % len(allv)] for i in range(n)],))
        return out
    if g == "case":
        return [(t,) for t in texts("aÄß€öZ", 3)] + [("".join(rng.choice("abcxyzäöüÄÖÜßABCXYZ€😀 1`{@[") for _ in range(rng.randrange(4, 12))),) for _ in range(100)]
    if g == "words":
        return [(t,) for t in texts("a \n€\r", 4)] + [(t,) for t in texts("a\t\x0e", 3)]
    if g == "bytes":
        ts = texts(ALPHA, 3) + ["".join(rng.choice(ALPHA + "bz") for _ in range(rng.randrange(4, 10))) for _ in range(50)]
        return [(list(t.encode()),) for t in ts]
    if ci is None:
        # number functions
        if ps == ["Z"]:
            vals = list(range(-6, 31)) + [36, 48, 60, 97, 100, 1000] if fn["id"] in ("Teilerzerlegung", "Primfaktorzerlegung", "Fakultät") else list(range(-6, 8)) + [100, S.I64MAX, S.I64MIN + 1]
            if fn["id"] == "Primfaktorzerlegung":
                vals = [v for v in vals if v != 0] + [2 * 3 * 5 * 7 * 11 * 13, 97 * 101, 2 ** 20, 3 ** 12, 999983]   # 0 never leaves the first loop (doc silent)
            return [(v,) for v in vals]
        if ps == ["K"]:
            return [(q,) for q in range(-13, 14)]
        if ps == ["Z", "Z"]:
            r = range(-4, 6) if fn["id"] in ("Aufsteigende_Zahlen", "Absteigende_Zahlen") else list(range(-6, 13)) + [36, 48]
            return [(a, b) for a in r for b in r]
        if ps == ["Z", "Z", "Z"]:
            return [(a, b, c) for a in range(-3, 4) for b in range(-3, 4) for c in range(-3, 4)]
        if ps in (["X", "X"],):
            return [(a, b) for a in D.TEXTE[:5] for b in D.TEXTE[:5]]
        raise ValueError("no grid for %s %s" % (fn["id"], ps))
    ck = ps[ci]
    maxlen = 4
    if ck == "ZL":
        conts = list(seqs(D.WERTE[:3], 4))
        rnd = [[rng.choice(D.WERTE[:12]) for _ in range(rng.randrange(5, 12))] for _ in range(12)]
    elif ck == "KL":
        conts = list(seqs(D.KWERTE[:4], 3))
        rnd = [[rng.choice(D.KWERTE) for _ in range(rng.randrange(4, 9))] for _ in range(12)]
    elif ck == "XL":
        conts = list(seqs(D.TEXTE[:3], 3))
        rnd = [[rng.choice(D.TEXTE) for _ in range(rng.randrange(4, 9))] for _ in range(8)]
    elif ck == "TL":
        conts = list(seqs(["", "a", "ä€"], 3))
        rnd = [[rng.choice(D.TEXTE) for _ in range(rng.randrange(4, 8))] for _ in range(8)]
    elif ck == "BL":
        conts = list(seqs(list(ALPHA), 4 if len(ps) == 1 else 3))
        rnd = [[rng.choice(ALPHA) for _ in range(rng.randrange(5, 10))] for _ in range(8)]
    elif ck == "T":
        n_other = len(ps) - 1
        conts = texts(ALPHA, 4 if n_other <= 1 else (4 if not quick else 3))
        rnd = ["".join(rng.choice(ALPHA + "b") for _ in range(rng.randrange(5, 12))) for _ in range(12)]
    else:
        raise ValueError(ck)
    for phase, cs in (("exh", conts), ("rnd", rnd)):
        for c in cs:
            n = len(c)
            doms = []
            for i, k in enumerate(ps):
                if i == ci:
                    doms.append([c])
                elif k == "Z":
                    doms.append(list(range(-1, n + 3)) if phase == "exh" else sorted({-1, 0, 1, 2, n // 2, n - 1, n, n + 1, n + 2, rng.randrange(1, n + 1)}))
                elif k == "K":
                    doms.append([-2, 0, 1, 2, 4, 5])
                elif k == "B":
                    doms.append(list(ALPHA) if phase == "exh" else list(ALPHA[:2]) + ["b"])
                elif k == "X":
                    doms.append(D.TEXTE[:4])
                elif k == "T":   # needle / inserted text
                    if len(ps) == 2:
                        doms.append(texts(ALPHA, 2 if quick else 3) if phase == "exh" else [c[1:3], c[-2:], c[2:5], "ab", "ä", c + "a", c])
                    else:
                        doms.append(["", "a", "€😀"])
                elif k == ck and fn["id"].startswith("Elementweise") and phase == "exh":
                    base_vals = D.WERTE[:3] if k == "ZL" else ["", "a", "ä€"]
                    doms.append([list(t) for t in itertools.product(base_vals, repeat=n)] + [x for x in ([], [1] if k == "ZL" else ["a"]) if len(x) != n])
                elif k == ck and k in ("ZL", "XL", "TL", "KL"):
                    doms.append(list(seqs({"ZL": D.WERTE[:3], "XL": D.TEXTE[:3], "TL": ["", "a", "ä€"], "KL": D.KWERTE[:3]}[k], 2 if len(ps) > 2 or k != "ZL" else (4 if fn["id"].startswith("Elementweise") else 2))))
                elif k == "BL":
                    doms.append([[], ["a"], ["ä"], ["a", "ä"], ["€", "😀"], ["😀", "a", "ä"]])
                elif k == "Z" or k == "E":
                    doms.append([0, 1, 2, 5])
                else:
                    raise ValueError("no domain for %s in %s" % (k, fn["id"]))
            # element parameter of generic list functions is kind Z as well: distinguish by position via fn['elem']
            for j in fn.get("elem", ()):
                if ps[j] == "Z":
                    doms[j] = [0, 1, 2, 5]
            out.extend(itertools.product(*doms))
    return out



# model id -> (status, theorems of coq/Props/C17.v).  full = refinement for all arguments of the documented domain;
# refuted = the real code (and its faithful model) violates the doc comment, with what does hold (partial/bounded)
COVER = {
    "Leere_Liste": ("full", ["leere_spec"]), "Hinzufügen_Liste": ("full", ["hinzufuegen_spec"]), "Hinzufügen_Liste_Liste": ("full", ["hinzufuegen_liste_spec"]),
    "Einfügen_Liste": ("full", ["einfuegen_spec", "einfuegen_err"]), "Einfügen_Bereich_Liste": ("full", ["einfuegen_bereich_spec", "einfuegen_bereich_err"]),
    "Voranstellen_Liste": ("full", ["voranstellen_spec"]), "Voranstellen_Liste_Liste": ("full", ["voranstellen_liste_spec"]),
    "Lösche_Element": ("full", ["loesche_element_spec", "loesche_element_err"]),
    "Lösche_Bereich": ("full", ["loesche_bereich_spec", "loesche_bereich_err"]),
    "Füllen_Liste": ("full", ["fuellen_spec"]), "Index_Von_Element": ("full", ["index_von_spec", "index_von_value_spec"]),
    "Enthält_Wert": ("full", ["enthaelt_spec", "enthaelt_In"]), "Enthält_Wert_nicht": ("full", ["enthaelt_spec", "enthaelt_In"]),
    "Ist_Leer_Liste": ("full", ["ist_leer_spec"]), "Erste_N_Elemente_Liste": ("full", ["erste_n_spec", "erste_n_is_operator"]),
    "Letzten_N_Elemente_Liste": ("full", ["letzten_n_spec"]), "Liste_Spiegeln": ("full", ["spiegeln_spec", "spiegeln_value_spec"]),
    "Summe_Liste": ("full", ["summe_spec", "summe_exact"]), "Produkt_Liste": ("full", ["produkt_spec", "produkt_leer"]),
    "Elementweise_Summe": ("full", ["elementweise_summe_spec"]), "Elementweise_Differenz": ("full", ["elementweise_differenz_spec"]),
    "Elementweise_Produkt": ("full", ["elementweise_produkt_spec"]), "Aneinandergehängt_Buchstabe": ("full", ["aneinandergehaengt_spec"]),
    "Verketten_Text_Liste": ("full", ["verketten_spec"]), "Elementweise_Verketten_Text": ("full", ["elw_verketten_spec"]),
    "Aufsteigende_Zahlen": ("full", ["aufsteigende_spec"]), "Absteigende_Zahlen": ("full", ["absteigende_spec"]),
    "Erster_Buchstabe": ("full", ["erster_buchstabe_spec"]), "Nter_Buchstabe": ("full", ["nter_buchstabe_spec"]), "Letzter_Buchstabe": ("full", ["letzter_buchstabe_spec"]),
    "Entferne_Anzahl_Vorne": ("full", ["entferne_vorne_spec"]), "Entferne_Anzahl_Vorne_Mutierend": ("full", ["entferne_vorne_spec"]),
    "Entferne_Anzahl_Hinten": ("full", ["entferne_hinten_spec"]), "Entferne_Anzahl_Hinten_Mutierend": ("full", ["entferne_hinten_spec"]),
    "Trim_Anfang": ("full", ["trim_anfang_spec"]), "Trim_Anfang_Wert": ("full", ["trim_anfang_spec"]),
    "Trim_Ende": ("full", ["trim_ende_spec"]), "Trim_Ende_Wert": ("full", ["trim_ende_spec"]),
    "Trim": ("full", ["trim_spec"]), "Trim_Wert": ("full", ["trim_spec"]),
    "Text_Enthält_Buchstabe": ("full", ["text_enthaelt_buchstabe_In"]), "Text_Anzahl_Buchstabe": ("full", ["text_anzahl_buchstabe_spec"]),
    "Text_Enthält_Text": ("full", ["text_enthaelt_text_spec", "occurs_iff"]), "Text_Anzahl_Text": ("full", ["text_anzahl_text_spec"]),
    "Text_Anzahl_Text_Nicht_Überlappend": ("full", ["nicht_ueberlappend_spec"]),
    "Beginnt_Mit_Buchstabe": ("full", ["beginnt_mit_buchstabe_spec"]), "Beginnt_Mit_Text": ("full", ["beginnt_mit_text_spec", "prefix_iff"]),
    "Endet_Mit_Buchstabe": ("full", ["endet_mit_buchstabe_spec"]), "Endet_Mit_Text": ("full", ["endet_mit_text_spec", "suffix_iff"]),
    "Text_Leeren": ("full", ["text_leeren_spec"]), "Text_An_Text_Fügen": ("full", ["text_an_text_spec"]), "Buchstabe_An_Text_Fügen": ("full", ["buchstabe_an_text_spec"]),
    "Text_In_Text_Einfügen": ("full", ["text_einfuegen_spec"]),
    "Buchstabe_In_Text_Einfügen": ("full", ["buchstabe_einfuegen_spec"]),
    "Text_Vor_Text_Stellen": ("full", ["text_vor_text_spec"]), "Buchstabe_Vor_Text_Stellen": ("full", ["buchstabe_vor_text_spec"]),
    "Lösche_Text": ("full", ["loesche_text_spec"]),
    "Lösche_Text_Bereich": ("full", ["loesche_text_bereich_spec"]),
    "Fülle_Text": ("full", ["fuelle_text_spec"]),
    "Buchstaben_Text_BuchstabenListe": ("full", ["buchstaben_liste_spec"]), "Buchstaben_Text_TextListe": ("full", ["buchstaben_textliste_spec"]),
    "Text_Index_Von_Buchstabe": ("full", ["text_index_von_buchstabe_spec"]),
    "Text_Index_Von_Text": ("full", ["text_index_von_text_spec", "text_index_von_text_leer"]),
    "Ist_Text_Leer": ("full", ["ist_text_leer_spec"]),
    "Großschreiben_Wert": ("full", ["grossschreiben_text_spec"]), "Großschreiben": ("full", ["grossschreiben_text_spec"]),
    "Kleinschreiben_Wert": ("full", ["kleinschreiben_text_spec"]), "Kleinschreiben": ("full", ["kleinschreiben_text_spec"]),
    "Polster_Links": ("full", ["polster_links_spec"]), "Polster_Rechts": ("full", ["polster_rechts_spec"]),
    "Spalte": ("full", ["spalte_spec", "spalte_leer"]), "Spalte_Text": ("full", ["spalte_text_spec", "spalte_text_einzeln"]),
    "Finde_Subtext": ("full", ["finde_subtext_spec"]),
    "Verbinden_Text": ("full", ["verbinden_text_spec"]), "Verbinden_Buchstabe": ("full", ["verbinden_buchstabe_spec"]),
    "Hamming_Distanz": ("full", ["hamming_spec", "hamming_ungleich"]),
    "Verbinden_Zahl": ("full", ["verbinden_zahl_spec", "zahl_als_text_wert"]), "Levenshtein_Distanz": ("full", ["levenshtein_spec", "levenshtein_lev"]),
    "Text_Zu_ByteListe": ("full", ["text_zu_byteliste_spec"]), "ByteListe_Zu_Text": ("full (round trip)", ["byteliste_roundtrip"]),
    "Vergleiche_Text": ("full", ["vergleiche_spec"]),
    "Spalten_Spaltmenge_Text": ("full", ["spaltmenge_spec"]), "Spalten_SpaltmengeText_Text": ("full", ["spaltmenge_text_spec"]), "Text_Worte": ("full", ["text_worte_spec"]),
    "Tausche": ("full", ["tausche_spec"]), "Quicksort_Ref": ("full", ["quicksort_ref_spec"]), "Quicksort": ("full", ["quicksort_spec"]),
    "Max": ("full", ["max_spec"]), "Max3": ("full", ["max3_spec"]), "Min": ("full", ["min_spec"]), "Min3": ("full", ["min3_spec"]),
    "Clamp": ("full", ["clamp_spec"]), "Sign": ("full", ["sign_spec"]),
    "Größter_Gemeinsamer_Teiler": ("full", ["ggt_spec"]), "Kleinster_Gemeinsamer_Teiler": ("full", ["kgv_spec"]),
    "Ist_Teilbar": ("full", ["ist_teilbar_spec", "ist_teilbar_null"]), "Gerade_Zahl": ("full", ["gerade_spec"]), "Fakultät": ("full (0..20)", ["fakultaet_spec"]),
    "Teilerzerlegung": ("full", ["teiler_spec", "teiler_sorted_desc"]), "Primfaktorzerlegung": ("full", ["primfaktorzerlegung_spec"]),
    "Floor": ("full", ["floor_spec", "floor_integers"]), "Ceil": ("full", ["ceil_spec", "ceil_integers"]), "Trunc": ("full", ["trunc_spec"]),
    "Höchste_ListeZ": ("full", ["hoechste_spec"]), "Kleinste_ListeZ": ("full", ["kleinste_spec"]),
    "Mindestens_Liste": ("full", ["mindestens_spec"]), "Höchstens_Liste": ("full", ["hoechstens_spec"]),
    "Zwischen_Liste": ("full", ["zwischen_spec"]), "Absolute_Häufigkeit": ("full", ["absolute_haeufigkeit_spec"]),
}

# which Z parameters are elements (not indices)
ELEM_PARAM = {"Hinzufügen_Liste": [1], "Einfügen_Liste": [2], "Voranstellen_Liste": [1], "Füllen_Liste": [1], "Index_Von_Element": [1], "Enthält_Wert": [1],
              "Enthält_Wert_nicht": [1]}


# ------------------------------------------------------------------------------------------------
# deep-stack lists for the explicit work stack of Sortierung.ddp
# ------------------------------------------------------------------------------------------------
def deep_stack_list(n):
    """A permutation of 0..n-1 on which the iterative quicksort of Sortierung.ddp (pivot = median of first/middle/last,
    right part handled first, left part left on the stack) keeps about n/3 ranges pending: the algorithm is run on
    unassigned cells ("gas", larger than every assigned value) and at every level the ranks are handed out so that the
    pivot becomes the third smallest element of the range: two elements stay behind as a pending left range.
    The depth actually reached is measured afterwards with the extracted Coq transcription (Quicksort_Tiefe)."""
    rank = [None] * n
    a = list(range(n))            # a[pos - 1] = cell
    nxt = [0]

    def give(c):
        if rank[c] is None:
            rank[c] = nxt[0]
            nxt[0] += 1

    def less(x, y):               # value of cell x < value of cell y
        rx, ry = rank[x], rank[y]
        if rx is None and ry is None:
            raise RuntimeError("gas/gas comparison")
        if rx is None:
            return False
        if ry is None:
            return True
        return rx < ry

    def sort2(i, j):
        if less(a[j - 1], a[i - 1]):
            a[i - 1], a[j - 1] = a[j - 1], a[i - 1]

    stack = [(1, n)]
    while stack:
        li, re = stack.pop()
        if re <= li:
            i = li
        else:
            m = re - li + 1
            cells = [a[k - 1] for k in range(li, re + 1)]
            if m >= 7 and all(rank[c] is None for c in cells):
                mi = li + m // 2
                give(a[li]); give(a[li - 1]); give(a[mi - 1])      # the pending left range [second smallest, smallest] is out of order; then the pivot; a[re] stays gas
            else:
                for c in cells:
                    give(c)
            if m == 2:
                sort2(li, re)
                i = li
            else:
                mi = li + m // 2
                sort2(li, re); sort2(li, mi); sort2(mi, re)
                if m == 3:
                    i = mi
                else:
                    a[mi - 1], a[re - 1] = a[re - 1], a[mi - 1]
                    piv = a[re - 1]
                    i, j = li - 1, re
                    while True:
                        i += 1
                        while less(a[i - 1], piv):
                            i += 1
                        j -= 1
                        while j >= li and less(piv, a[j - 1]):
                            j -= 1
                        if i >= j:
                            break
                        a[i - 1], a[j - 1] = a[j - 1], a[i - 1]
                    a[i - 1], a[re - 1] = a[re - 1], a[i - 1]
        if i - 1 > li:
            stack.append((li, i - 1))
        if i + 1 < re:
            stack.append((i + 1, re))
    return rank


# ------------------------------------------------------------------------------------------------
# shapes (canonical, coarse description of the argument shape: part of every violation key)
# ------------------------------------------------------------------------------------------------
def rel(i, n):
    if i <= 0:
        return "<=0"
    if i == 1 and n == 1:
        return "=1=n"
    if i == 1:
        return "=1"
    if i < n:
        return "mid"
    if i == n:
        return "=n"
    if i == n + 1:
        return "=n+1"
    return ">n+1"


def sz(n):
    return "0" if n == 0 else "1" if n == 1 else "2+"


def shape(fn, args):
    ps = fn["params"]
    ci = container_index(ps)
    n = len(args[ci]) if ci is not None else None
    parts = []
    for i, (k, a) in enumerate(zip(ps, args)):
        if i == ci:
            parts.append("n" + sz(n))
        elif k == "Z" and ci is not None and i not in fn.get("elem", ()):
            parts.append("i" + rel(a, n))
        elif k == "K":
            parts.append("zero" if a == 0 else ("neg" if a < 0 else "pos") + ("-int" if a % 4 == 0 else "-frac"))
        elif k == "Z":
            parts.append("neg" if a < 0 else "zero" if a == 0 else "pos")
        elif k in ("T", "ZL", "XL", "TL", "BL", "KL", "YL", "ZN", "KN"):
            parts.append("m" + sz(len(a)))
        else:
            parts.append(k.lower())
    if fn.get("tag"):
        parts.append(fn["tag"](*args))
    return ",".join(parts)


# ------------------------------------------------------------------------------------------------
# running the real code
# ------------------------------------------------------------------------------------------------
def parse_output(text, nitems):
    """observations per work item from the driver's stdout (see harness/c/c17shim.c for the marker lines)"""
    toks = text.split("\n")
    obs = []
    i = 0
    while i < len(toks) and len(obs) < nitems:
        t = toks[i]
        if t.startswith("\x01X"):
            break
        if i + 1 < len(toks) and toks[i + 1].startswith("\x01"):
            m = toks[i + 1]
            if m.startswith("\x01E 1"):
                obs.append(("err",))
            elif m.startswith("\x01T"):
                obs.append(("timeout",))
            else:
                obs.append(("crash", m[1:]))
            i += 2
            continue
        if i == len(toks) - 1:
            break     # trailing partial line
        obs.append(("ok", t.split("\t")))
        i += 1
    return obs


def run_cases(b, exe, fnr, fn, forms, cases):
    """observations of the compiled driver: per case a list (one per form) of
    ('ok', fields) | ('err',) | ('crash', info) | ('timeout',)"""
    nf = len(forms)
    toks = [[D.tok(kind, a) for kind, a in zip(fn["params"], c)] or ["-"] for c in cases]
    out_obs = []
    spawns = 0
    pos = 0
    while pos < len(cases):
        chunk = toks[pos:pos + BATCH]
        argv = [str(fnr)] + [t for c in chunk for t in c]
        rc, out, err = b.run(exe, args=argv, timeout=900)
        spawns += 1
        obs = parse_output(out.decode("utf-8", "replace"), len(chunk) * nf)
        aborted = "\x01X" in out.decode("utf-8", "replace")[-8:]
        while len(obs) < len(chunk) * nf:
            obs.append(("skipped",) if aborted else ("crash", "driver ended early rc=%d %s" % (rc, err[-200:].decode("utf-8", "replace"))))
        for ci in range(len(chunk)):
            out_obs.append(obs[ci * nf:(ci + 1) * nf])
        pos += len(chunk)
    return out_obs, spawns


def expected_fields(fn, sp):
    """serialised expectation: list of str or predicates"""
    _, res, after = sp
    f = []
    if fn["res"] is None:
        f.append("")
    elif callable(res):
        f.append(res)
    else:
        f.append(D.ser(fn["res"], res))
    for kind, a in zip(fn["params"], after):
        f.append(D.ser(kind, a / 4 if kind == "K" else a))
    return f


def norm_obs(fn, fields):
    kinds = [fn["res"]] + list(fn["params"])
    return [D.norm_field(k, s) if k in ("K", "KL", "KN") else s for k, s in zip(kinds, fields)] + fields[len(kinds):]


def judge(fn, sp, ob):
    """None if the observation satisfies the specification outcome sp, else a short description"""
    if sp is None:
        return None
    if sp[0] == "err":
        return None if ob[0] == "err" else "want=err got=%s" % ob[0]
    if ob[0] != "ok":
        return "want=ok got=%s" % ob[0]
    exp = expected_fields(fn, sp)
    got = norm_obs(fn, ob[1])
    if len(got) != len(exp):
        return "want=ok got=garbled"
    for i, (e, g) in enumerate(zip(exp, got)):
        good = e(g) if callable(e) else e == g
        if not good:
            return "want=ok got=wrong-result" if i == 0 else "want=ok got=argument-%d-changed" % (i - 1)
    return None


# ------------------------------------------------------------------------------------------------
# the extracted model
# ------------------------------------------------------------------------------------------------
def m_enc(kind, v):
    if kind in ("Z", "K"):
        return "z:%d" % v
    if kind in ("T", "B"):
        return "l:" + ",".join(str(ord(c)) for c in v)
    if kind in ("ZL", "KL", "YL", "ZN", "KN"):
        return "l:" + ",".join(str(x) for x in v)
    if kind == "XL":
        return "l:" + ",".join(str(D.TEXTE.index(x)) for x in v)
    if kind == "X":
        return "z:%d" % D.TEXTE.index(v)
    if kind == "BL":
        return "l:" + ",".join(str(ord(c)) for c in v)
    if kind == "TL":
        return "L:" + "".join(",".join(str(ord(c)) for c in t) + ";" for t in v)
    raise ValueError(kind)


def m_dec(kind, s):
    """model field -> the serialisation the driver prints"""
    tag, body = s[:2], s[2:]
    ints = [int(x) for x in body.split(",") if x != ""] if tag in ("z:", "l:") else None
    if kind == "Z":
        return str(ints[0])
    if kind == "W":
        return "wahr" if ints[0] != 0 else "falsch"
    if kind == "K":
        return D.kfmt(ints[0] / 4)
    if kind == "Kfrac":
        return D.kfmt(ints[0] / ints[1]) if ints[1] != 0 else "K?Keine Zahl (NaN)"
    if kind == "B":
        return "<" + D.esc("".join(chr(c) for c in ints)) + ">"
    if kind == "T":
        return "<" + D.esc("".join(chr(c) for c in ints)) + ">"
    if kind == "X":
        return "<" + D.TEXTE[ints[0]] + ">"
    if kind in ("ZL", "YL", "ZN"):
        return "[" + "".join("%d," % x for x in ints) + "]"
    if kind in ("KL", "KN"):
        return "[" + "".join(D.kfmt(x / 4) + ";" for x in ints) + "]"
    if kind == "XL":
        return "[" + "".join("<%s>," % D.TEXTE[x] for x in ints) + "]"
    if kind == "BL":
        return "[" + "".join("<%s>," % D.esc(chr(x)) for x in ints) + "]"
    if kind == "TL":
        return "[" + "".join("<%s>," % D.esc("".join(chr(int(c)) for c in t.split(",") if c != "")) for t in body.split(";")[:-1]) + "]"
    raise ValueError(kind)


def model_run(model, fn, cases):
    """model observations in the same shape as run_cases; None where the model does not cover the function"""
    lines = []
    for c in cases:
        lines.append(fn["model"] + " " + " ".join(m_enc(k, a) for k, a in zip(fn["params"], c)))
    p = subprocess.run([model], input="\n".join(lines) + "\n", capture_output=True, text=True, timeout=900)
    outs = p.stdout.split("\n")
    res = []
    for c, o in zip(cases, outs):
        if o == "?" or o == "" or o == "U":      # not modelled / outside the model (Undef): not compared
            res.append(None)
        elif o == "E":
            res.append(("err",))
        elif o == "F":
            res.append(("fuel",))
        else:
            fs = o.split("|")
            kinds = [fn["res"]] + list(fn["params"])
            try:
                if fn["res"] is None:
                    dec = [""] + [m_dec(k, f) for k, f in zip(fn["params"], fs[1:])]
                else:
                    rk = fn["res"]
                    if rk == "K" and fs[0].count(",") == 1:
                        rk = "Kfrac"
                    dec = [m_dec(rk, fs[0])] + [m_dec(k, f) for k, f in zip(fn["params"], fs[1:])]
                res.append(("ok", dec))
            except Exception as e:  # malformed model output = no coverage, reported
                res.append(("bad", o, str(e)))
    while len(res) < len(cases):
        res.append(None)
    return res


# ------------------------------------------------------------------------------------------------
# transcription drift: hashes of the covered source texts
# ------------------------------------------------------------------------------------------------
def ddp_function_text(src, name):
    """text of the declaration of function `name` (from its 'Die ... Funktion name' line to the end of its alias block)"""
    m = re.search(r"^Die\s+(?:(?:öffentliche|oeffentliche|generische)\s+)*Funktion\s+" + re.escape(name) + r"\b", src, re.M)
    if not m:
        return None
    # the doc comment `[ ... ]` directly above the declaration is the specification: it belongs to the hashed text
    start = m.start()
    head = src[:start].rstrip()
    if head.endswith("]"):
        start = head.rfind("[")
    rest = src[start:]
    m = re.search(r"^Die\s+(?:(?:öffentliche|oeffentliche|generische)\s+)*Funktion\s+" + re.escape(name) + r"\b", rest, re.M)
    m2 = re.search(r"^\s*[Uu]nd (?:kann so benutzt werden|überlädt)[^\n]*\n((?:[ \t]+\"[^\n]*\n?|[ \t]*\n(?=[ \t]+\"))*)", rest, re.M)
    end = m2.end() if m2 else len(rest)
    return rest[:end].strip()


def c_function_text(src, name):
    m = re.search(r"^(?:static\s+)?[A-Za-z_][A-Za-z0-9_ \*]*\b" + re.escape(name) + r"\s*\([^)]*\)\s*\{", src, re.M)
    if not m:
        m = re.search(r"^#define\s+" + re.escape(name) + r"\b[^\n]*", src, re.M)
        return m.group(0).strip() if m else None
    depth, i = 0, m.end() - 1
    while i < len(src):
        if src[i] == "{":
            depth += 1
        elif src[i] == "}":
            depth -= 1
            if depth == 0:
                return src[m.start():i + 1]
        i += 1
    return None


C_PRIMS = {"lists.c": ["grow_if_needed", "efficient_list_append", "efficient_list_prepend", "efficient_list_append_list", "efficient_list_prepend_list",
                       "efficient_list_delete_range", "efficient_list_insert", "efficient_list_insert_range", "Aneinandergehaengt_Buchstabe_Ref"],
           "strings.c": ["Text_Zu_ByteListe", "ByteListe_Zu_Text"],
           "text_iterator.c": ["TextIterator_von_Text", "TextIterator_Zuende", "TextIterator_Buchstabe", "TextIterator_Naechster"]}
# private helpers the covered functions are built from
DDP_HELPERS = {"Sortierung": ["drei_werte_sortieren", "vom_stack_nehmen", "auf_den_stack_legen", "quicksort_iter_impl", "quicksort_iter"],
               "Zeichen": ["Ist_Klein", "Ist_Deutscher_Buchstabe", "Großgeschrieben", "Kleingeschrieben"],
               "Zahlen": ["MinZahl", "MaxZahl"], "Mathe": [],
               "TextIterator": ["TextIterator_Index", "TextIterator_als_Zahl", "TextIterator_Plus"]}


DDP_GLOBALS = {"Sortierung": [("stack", r"^Die Zahlen Liste stack ist[^\n]*"), ("stack_top", r"^Die Zahl stack_top ist[^\n]*")],
               "Texte": [("leerzeichen", r"^Die Buchstaben Liste leerzeichen ist[^.]*\.")]}


def source_hashes(repo):
    hs = {}
    cache = {}
    def src(path):
        if path not in cache:
            cache[path] = open(os.path.join(repo, path), encoding="utf-8").read()
        return cache[path]
    wanted = {}
    for fn in S.FNS:
        for nm in fn["names"].values():
            wanted.setdefault(fn["module"], set()).add(nm)
    for mod, names in DDP_HELPERS.items():
        wanted.setdefault(mod, set()).update(names)
    for mod in sorted(wanted):
        text = src("lib/stdlib/Duden/%s.ddp" % mod)
        for nm in sorted(wanted[mod]):
            t = ddp_function_text(text, nm)
            if t is None and any(nm in C_PRIMS[c] for c in C_PRIMS):
                continue
            hs["%s.ddp:%s" % (mod, nm)] = hashlib.sha256(t.encode()).hexdigest()[:16] if t is not None else "MISSING"
    for mod, pats in DDP_GLOBALS.items():
        text = src("lib/stdlib/Duden/%s.ddp" % mod)
        for nm, pat in pats:
            m = re.search(pat, text, re.M | re.S)
            hs["%s.ddp:global %s" % (mod, nm)] = hashlib.sha256(m.group(0).encode()).hexdigest()[:16] if m else "MISSING"
    for cf, names in C_PRIMS.items():
        text = src("lib/stdlib/source/DDP/" + cf)
        for nm in names:
            t = c_function_text(text, nm)
            hs["%s:%s" % (cf, nm)] = hashlib.sha256(t.encode()).hexdigest()[:16] if t is not None else "MISSING"
    return hs



CTX = {}


def process_fn(fi):
    """worker (forked): everything about one function entry; returns picklable summaries only"""
    fn = S.FNS[fi]
    b, quick, seed, only, corpus = CTX["b"], CTX["quick"], CTX["seed"], CTX["only"], CTX["corpus"]
    if only:
        cs = [tuple(o[2]) for o in only if o[0] == fn["id"]]
    else:
        rng = __import__("random").Random("%d/%s" % (seed, fn["id"]))
        cs = [tuple(c[2]) for c in corpus if c[0] == fn["id"]] + grid(fn, quick, rng)
    sps = []
    for c in cs:
        try:
            sps.append(fn["spec"](*c))
        except S.Err:
            sps.append(("err",))
    ms = model_run(CTX["model"], fn, cs) if CTX["have_model"] else [None] * len(cs)
    # every cell predicted to end in a Laufzeitfehler costs one fork of the driver: keep a bounded number per
    # argument shape (more of them in the thorough tier); the same for cells only the model speaks about
    cap = 2 if quick else 8
    seen = {}
    keep = []
    for c, sp, mo in zip(cs, sps, ms):
        pred_err = (sp is not None and sp[0] == "err") or (mo is not None and mo[0] == "err") or (sp is None and mo is None)
        if pred_err and not only:
            k = shape(fn, c)
            seen[k] = seen.get(k, 0) + 1
            if seen[k] > cap:
                continue
        keep.append((c, sp, mo))
    st = dict(cases=0, specified=0, unspecified=0, forms=[], model_compared=0)
    res = dict(id=fn["id"], model=fn["model"], st=st, n_spec=0, n_unspec=0, n_err=0, spawns=0, count=0, distinct=set(), gap=0, mismatch=[], best={})
    best = res["best"]
    for (forms, o, base, nr) in CTX["by_fn"][fn["id"]]:
        cases = keep
        if o != 0 and quick and len(cases) > 1500:
            cases = cases[::4]
        for v in forms:
            st["forms"].append("%s/O%d" % (v, o))
        obs_all, sp_n = run_cases(b, base, nr, fn, forms, [c[0] for c in cases])
        res["spawns"] += sp_n
        for (c, sp, mo), obs in zip(cases, obs_all):
            if sp is not None:
                res["distinct"].add(hashlib.sha1(repr((fn["id"], c)).encode()).digest()[:8])
            if mo is None:
                res["gap"] += 1
            for v, ob in zip(forms, obs):
                if ob[0] == "skipped":
                    st["skipped"] = st.get("skipped", 0) + 1
                    continue
                st["cases"] += 1
                res["count"] += 1
                if sp is None:
                    res["n_unspec"] += 1
                    st["unspecified"] += 1
                else:
                    res["n_spec"] += 1
                    st["specified"] += 1
                    if sp[0] == "err":
                        res["n_err"] += 1
                bad = judge(fn, sp, ob)
                if bad:
                    key = "fn=%s form=%s shape=%s %s" % (fn["id"], v, shape(fn, c), bad)
                    size = sum(len(D.tok(k, a)) for k, a in zip(fn["params"], c))
                    if key not in best or size < best[key][0]:
                        toks = [D.tok(k, a) for k, a in zip(fn["params"], c)]
                        best[key] = (size, "%s %s called with %s: specification %s, executable %s" % (fn["names"][v], fn["tmpl"], list(c), _show_sp(fn, sp), _show_ob(ob)),
                                     dict(function=fn["id"], form=v, args=list(c), opt=o, ddp_function=fn["names"][v], module=fn["module"], argv=toks,
                                          expected=_show_sp(fn, sp), observed=_show_ob(ob), source=D.program([(fn, [v])]),
                                          how="kddp kompiliere prog.ddp -O %d (source above, linked with harness/c/c17shim.c); ./prog 0 %s" % (o, " ".join("'%s'" % t for t in toks))))
                # model vs implementation (observables only)
                if mo is not None:
                    st["model_compared"] += 1
                    same = (mo[0] == ob[0] == "err") or (mo[0] == "ok" and ob[0] == "ok" and mo[1] == norm_obs(fn, ob[1])) or (mo[0] == "fuel" and ob[0] == "timeout")
                    # a cell where the executable violates the specification is reported as such (above); the
                    # correspondence obligation concerns the cells where it satisfies it or where the documentation is silent
                    if not same and not bad and len(res["mismatch"]) < 5:
                        res["mismatch"].append((fn["id"], v, o, list(c), mo, ob, bad))
    return res


# ------------------------------------------------------------------------------------------------
def main():
    ck = Check(PID, "proof")
    b = Build()
    ck.cov["trusted_base"] = vlib.TRUSTED_COMMON + [
        "the Gallina models are hand transcriptions of the DDP bodies of Listen/Texte/Sortierung/Mathe/Statistik/Zeichen.ddp and of lists.c/strings.c; "
        "they are tied to /repo by the grid runs below and by the source hashes in models/c17_sources.json",
        "language built-ins used by the Duden bodies (index, slice, concatenation, comparison, for/while loops, casts) are modelled at value level "
        "(slices and index checks as in C06's Rt/Bounds.v); kddp, LLVM, gcc, libc are outside the model (differentially tested on the grid)",
        "the specification oracle (checks/c17_spec.py) is my reading of the German doc comments; where a comment is silent the case is only compared with the model",
        "driver programs decode their arguments with built-ins only and reach the executable through the command line (UTF-8 argv, Text -> Zahl cast of the runtime)",
    ]
    # the Coq build + audit of Props/C17.v (about a minute, mostly Print Assumptions) runs beside the harness
    import threading
    coq_thread = threading.Thread(target=ck.coq)
    coq_thread.start()
    ok, lg = b.ensure_native()
    if not ok:
        coq_thread.join()
        ck.violation("build", "kddp/runtime do not build from the current tree", dict(log=lg[-3000:]), no_input=True)
        ck.finish()
    for fn in S.FNS:
        if fn["model"] in ELEM_PARAM:
            fn["elem"] = ELEM_PARAM[fn["model"]]
    sc = vlib.scratch()
    os.environ.setdefault("C17_DEATHS", "200" if ck.quick else "4000")

    # ---- (b) transcription drift -----------------------------------------------------------------
    hs = source_hashes(vlib.REPO)
    ref_path = os.path.join(vlib.VERIF, "models", "c17_sources.json")
    ref = json.load(open(ref_path)) if os.path.exists(ref_path) else {}
    drift = sorted(k for k in set(hs) | set(ref) if hs.get(k) != ref.get(k))
    ck.cov["source_hashes"] = dict(file="models/c17_sources.json", entries=len(hs), changed=drift)

    # ---- replay of one stored case -----------------------------------------------------------------
    only = None
    if ck.replay:
        rp = json.load(open(ck.replay))
        rp = rp.get("replay", rp)
        only = [(rp["function"], rp["form"], rp["args"], rp.get("opt", 0))]
    corpus_dir = os.path.join(vlib.VERIF, "corpus", PID)
    corpus = []
    if os.path.isdir(corpus_dir):
        for f in sorted(os.listdir(corpus_dir)):
            if f.endswith(".json"):
                try:
                    c = json.load(open(os.path.join(corpus_dir, f)))
                    corpus.append((c["function"], c["form"], c["args"]))
                except Exception:
                    pass

    # ---- programs ----------------------------------------------------------------------------------
    shim_src = os.path.join(vlib.VERIF, "harness", "c", "c17shim.c")
    shim = os.path.join(b.dir, "bin", "c17shim-%s.o" % hashlib.sha256(open(shim_src, "rb").read()).hexdigest()[:12])
    if not os.path.exists(shim):
        p = subprocess.run(["gcc", "-O1", "-c", shim_src, "-o", shim + ".tmp%d" % os.getpid()], capture_output=True, text=True)
        if p.returncode != 0:
            coq_thread.join()
            ck.broken_obligation("harness/c/c17shim.c does not compile", p.stderr)
            ck.finish()
        os.replace(shim + ".tmp%d" % os.getpid(), shim)
    O2_FNS = ("Quicksort_Ref@tief", "Quicksort@tief", "Quicksort@Kommazahl_tief", "Einfügen_Liste", "Lösche_Bereich", "Spalte", "Text_Index_Von_Text", "Trim", "Hinzufügen_Liste@Text", "Quicksort_Ref", "Quicksort", "Liste_Spiegeln")
    # one driver program per group of functions (a kddp run costs ~2.5 CPU seconds, mostly for the Duden imports)
    groups = {}
    for fn in S.FNS:
        forms = [v for v in fn["names"] if not only or any(o[0] == fn["id"] and o[1] == v for o in only)]
        if not forms:
            continue
        if only:
            opts = sorted({o[3] for o in only if o[0] == fn["id"]})
        elif not ck.quick or fn["id"] in O2_FNS:
            opts = [0, 2]
        else:
            opts = [0]
        for o in opts:
            gname = "%s_%s" % (fn["fam"], fn["module"])
            g0 = groups.setdefault((gname, o), [])
            g0.append((fn, forms))
    jobs = []
    for (gname, o), ents in sorted(groups.items(), key=lambda kv: (kv[0][1], kv[0][0])):
        per = 12 if o == 0 else 40
        for a in range(0, len(ents), per):
            jobs.append(("%s_%d" % (gname, a // per), o, ents[a:a + per]))

    def compile_one(job):
        gname, o, ents = job
        base = os.path.join(sc, "%s_O%d" % (re.sub(r"\W", "_", gname), o))
        src = D.program(ents)
        open(base + ".ddp", "w").write(src)
        return (job, base, src, b.compile(base + ".ddp", base, opt=o, extra_objs=[shim], timeout=600))
    compiled = vlib.pmap(compile_one, jobs)
    progs = []
    for (job, base, src, r) in compiled:
        gname, o, ents = job
        if r["stage"] != "ok":
            ck.violation("compile group=%s O%d" % (gname, o), "the driver calling %s does not compile: %s" % ([e[0]["id"] for e in ents], r["out"][-700:]),
                         dict(source=src, stage=r["stage"], output=r["out"][-3000:], opt=o))
        else:
            for nr, (fn, forms) in enumerate(ents):
                progs.append((fn, forms, o, base, nr))
    log("[c17] %d driver programs compiled for %d function entries (%.0fs)" % (len(jobs), len(progs), __import__("time").time() - ck.t0))

    # ---- cases: grid -> specification -> model -> thinning -> run -> judgement, one worker process per function ----
    model = os.environ.get("C17_MODEL_BIN") or vlib.model_bin("c17")   # override: try a staged model against a patched tree
    have_model = os.path.exists(model)
    if not have_model:
        ck.broken_obligation("extracted model driver extract/_build/c17 is missing (make -C /verif setup)", "")
    by_fn = {}
    for (fn, forms, o, base, nr) in progs:
        by_fn.setdefault(fn["id"], []).append((forms, o, base, nr))
    deep_sizes = [170, 230] if ck.quick else [170, 230, 300, 400]
    deep_lists = [deep_stack_list(n) for n in deep_sizes]
    deep_info = []
    if have_model:
        mp = subprocess.run([model], input="".join("Quicksort_Tiefe l:%s\n" % ",".join(map(str, l)) for l in deep_lists), capture_output=True, text=True, timeout=300)
        for n, o in zip(deep_sizes, mp.stdout.split("\n")):
            deep_info.append(dict(elements=n, max_pending_ranges=int(o[2:]) if o.startswith("z:") else None))
        if any(d["max_pending_ranges"] is None or d["max_pending_ranges"] <= 50 for d in deep_info):
            ck.broken_obligation("the deep-stack lists no longer keep more than 50 ranges pending on quicksort's work stack (pivot rule changed?): %s" % deep_info, "")
    CTX.update(b=b, quick=ck.quick, seed=ck.seed, only=only, corpus=corpus, model=model, have_model=have_model, by_fn=by_fn, deep_lists=deep_lists)
    order = sorted(range(len(S.FNS)), key=lambda i: -len(S.FNS[i]["params"]) * 10 - len(S.FNS[i]["names"]))
    order = [i for i in order if S.FNS[i]["id"] in by_fn]
    import multiprocessing
    from concurrent.futures import ProcessPoolExecutor
    with ProcessPoolExecutor(max_workers=vlib.NCPU, mp_context=multiprocessing.get_context("fork")) as ex:
        outs = list(ex.map(process_fn, order))
    log("[c17] %d functions run and judged (%.0fs)" % (len(outs), __import__("time").time() - ck.t0))
    per_fn = {}
    n_spec = n_unspec = n_err_expected = spawns = 0
    model_gap = {}
    model_mismatch = []
    best = {}
    for r in outs:
        per_fn[r["id"]] = r["st"]
        n_spec += r["n_spec"]
        n_unspec += r["n_unspec"]
        n_err_expected += r["n_err"]
        spawns += r["spawns"]
        ck.count(r["count"])
        ck._distinct.update(r["distinct"])
        if r["gap"]:
            model_gap[r["model"]] = model_gap.get(r["model"], 0) + r["gap"]
        model_mismatch.extend(r["mismatch"])
        best.update(r["best"])
    model_mismatch = model_mismatch[:20]
    coq_thread.join()
    # report order: one key per function first (vlib prints the first ten), then the remaining ones
    rank = {}
    ordered = []
    for key in sorted(best):
        f = best[key][2]["function"]
        rank[f] = rank.get(f, 0) + 1
        ordered.append((rank[f], key))
    for _, key in sorted(ordered):
        size, what, rp = best[key]
        if ck.violation(key, what, rp):
            # persist the minimised failure
            os.makedirs(corpus_dir, exist_ok=True)
            name = hashlib.sha1(key.encode()).hexdigest()[:10] + ".json"
            with open(os.path.join(corpus_dir, name), "w") as fh:
                json.dump(dict(function=rp["function"], form=rp["form"], args=rp["args"], key=key), fh, ensure_ascii=False)
    # model/implementation disagreement: the implementation's spec violations (if any) were reported above
    if model_mismatch and not ck.violations:
        fnid, v, o, c, mo, ob, bad = model_mismatch[0]
        ck.broken_obligation("the Coq model of %s no longer describes the executable: args %s form %s O%d model %s executable %s "
                             "(no specification violation found on the grid: re-synchronise coq/Lib with the source)" % (fnid, c, v, o, mo, _show_ob(ob)), json.dumps(model_mismatch[:5], ensure_ascii=False, default=str))
    if drift and not ck.violations and not only:
        ck.broken_obligation("source text of covered functions changed since the model was transcribed (models/c17_sources.json): %s; behaviour on the grid "
                             "is unchanged, the transcription in coq/Lib must be re-synchronised and the hashes refreshed" % drift[:8], "")

    # ---- evidence ----------------------------------------------------------------------------------
    covered_models = sorted({fn["model"] for fn in S.FNS if per_fn.get(fn["id"], {}).get("model_compared")})
    spec_only = sorted({fn["model"] for fn in S.FNS} - set(covered_models))
    all_public = {}
    for mod in ("Listen", "Texte", "Sortierung", "Zahlen", "Mathe", "Statistik", "Zeichen"):
        text = open(os.path.join(vlib.REPO, "lib/stdlib/Duden/%s.ddp" % mod), encoding="utf-8").read()
        all_public[mod] = re.findall(r"^Die\s+(?:öffentliche|oeffentliche)\s+(?:generische\s+)?Funktion\s+([^\s]+)", text, re.M)
    reached = {nm for fn in S.FNS for nm in fn["names"].values()}
    uncovered = {mod: [n for n in names if n not in reached] for mod, names in all_public.items()}
    ck.cov.update(dict(
        violation_keys=sorted(best)[:400],
        deep_stack=dict(note="adversarial lists for the 3-median pivot rule; depth = largest number of ranges simultaneously on the explicit work stack, measured with the extracted Coq transcription (Quicksort_Tiefe); the Duden's stack holds 50 ranges before it has to grow; run through Quicksort_Ref (both aliases), Quicksort (Zahl, value and expression form) and Quicksort at Kommazahl, -O0 and -O2",
                        lists=deep_info),
        model_mismatches=[dict(function=m[0], form=m[1], opt=m[2], args=m[3], model=str(m[4]), executable=str(m[5])) for m in model_mismatch],
        programs=len(jobs), process_spawns=spawns, functions_exercised=len(reached), function_entries=len(S.FNS),
        specified_cases=n_spec, unspecified_cases_model_only=n_unspec, expected_laufzeitfehler=n_err_expected,
        covered_by_proof_and_grid={m: dict(status=COVER.get(m, ("model only", []))[0], theorems=["C17_" + t for t in COVER.get(m, ("", []))[1]]) for m in covered_models},
        covered_by_specification_oracle_only=spec_only,
        uncovered_public_functions=uncovered, model_gaps=model_gap,
        per_function=per_fn,
        exhaustive=True,
        rule="per function: every list of length <= 4 over {0,1,2} (Text lists: length <= 3 over {'', 'a', 'ä'}) x every index/count in -1..len+2 x element "
             "values; every text of length <= 4 over {a, ä, €, 😀} x every needle of length <= %d / separator letter; sorting: every list of length <= %d over 3 "
             "values plus random lists up to 60 and sorted/reversed lists of 100 and 250 elements; numbers: small signed grids; plus seeded random longer inputs. "
             "distinct_nontrivial = distinct (function, arguments) cells for which the documentation determines the outcome" % (2 if ck.quick else 3, 7 if ck.quick else 9)))
    ck.sample(dict(function="Einfügen_Liste", args=[[0, 1], 3, 5], expected="[0,1,5]"))
    ck.sample(dict(function="Text_Index_Von_Text", args=["xxxa", "ab"], expected=-1))
    ck.sample(dict(function="Quicksort", args=[[2, 0, 1, 0]], expected="[0,0,1,2] and the argument unchanged"))
    ck.finish(explanation="Every covered Duden function is transcribed into Gallina (coq/Lib/*Fns.v) and proved against the Coq list library "
              "(coq/Props/C17.v: _spec full, _refuted + _partial/_bounded where the real code violates its doc comment). One compiled driver per "
              "function group calls the real function on the whole grid and prints result and arguments afterwards; each observation is judged by "
              "the doc-comment oracle (c17_spec.py) and compared with the extracted model; source hashes of all covered bodies guard the transcription.")


def _show_sp(fn, sp):
    if sp[0] == "err":
        return "Laufzeitfehler"
    f = expected_fields(fn, sp)
    return "result %s, arguments afterwards %s" % ("<relation>" if callable(f[0]) else f[0], f[1:])


def _show_ob(ob):
    if ob[0] == "ok":
        return "result %s, arguments afterwards %s" % (ob[1][0], ob[1][1:])
    return "Laufzeitfehler" if ob[0] == "err" else str(ob)


if __name__ == "__main__":
    main()
