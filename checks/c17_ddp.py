"""C17 helper: generation of the DDP driver programs (one per covered Duden function and call form),
token encoding of arguments and canonical serialisation of observations.

A driver reads K command-line tokens per case, decodes them with language built-ins only (no Duden
function under test is used for decoding or printing), calls the function, then prints one line
    <result> TAB <arg0 after the call> TAB <arg1 after the call> ...
A Laufzeitfehler ends the process; the number of complete lines tells which case raised it."""

# values addressed by the letters a.. of a list token; the first three are the exhaustive alphabet
WERTE = [0, 1, 2, -1, 5, -7, 100, 3, 4, 6, 7, 8, 9, 10, -2, -3, 50, -50, 1000, 12, 60, 97, 36, 48, 2147483648, -4294967296]
KWERTE = [0, 2, 4, -2, 1, -3, 6, 8, -4, 5, 3, 10, -6, 7, -1, 12]      # quarters: 0, 0.5, 1, -0.5, 0.25 ...
TEXTE = ["", "a", "ä", "€", "😀", "aa", "aä", "€a", "b", "ab"]         # elements of Text lists (letters a..)
LETTERS = "abcdefghijklmnopqrstuvwxyz"

KINDS = {
    # kind: (declaration prefix, decode expression over token expression X, show statement over variable V)
    "Z": ("Die Zahl", "({X}) als Zahl", "Schreibe die Zahl {V}."),
    "T": ("Der Text", "{X}", "ZEIGET {V}."),
    "B": ("Der Buchstabe", "({X}) an der Stelle 1", "ZEIGEB {V}."),
    "W": ("Der Wahrheitswert", None, "Schreibe den Wahrheitswert {V}."),
    "ZL": ("Die Zahlen Liste", "ZLVON ({X})", "ZEIGEZL {V}."),
    "TL": ("Die Text Liste", "TLVON ({X})", "ZEIGETL {V}."),
    "XL": ("Die Text Liste", "XLVON ({X})", "ZEIGETL {V}."),     # Text list with elements from TEXTE (generic list functions at T = Text)
    "X": ("Der Text", "TEXTE an der Stelle ((({X}) an der Stelle 1) als Zahl minus 96)", "ZEIGET {V}."),
    "BL": ("Die Buchstaben Liste", "BLVON ({X})", "ZEIGEBL {V}."),
    "K": ("Die Kommazahl", "(({X}) als Zahl) durch 4", "Schreibe die Kommazahl {V}."),
    "KL": ("Die Kommazahlen Liste", "KLVON ({X})", "ZEIGEKL {V}."),
    "YL": ("Die Byte Liste", "YLVON ({X})", "ZEIGEYL {V}."),
    "ZN": ("Die Zahlen Liste", "ZNVON ({X})", "ZEIGEZL {V}."),      # long lists of arbitrary non-negative numbers "12,7,300,"
    "KN": ("Die Kommazahlen Liste", "KNVON ({X})", "ZEIGEKL {V}."),  # the same as quarters
}
COPY = {"ZN": "KOPIEZL", "KN": "KOPIEKL", "ZL": "KOPIEZL", "TL": "KOPIETL", "XL": "KOPIETL", "BL": "KOPIEBL", "T": "KOPIET", "X": "KOPIET", "KL": "KOPIEKL", "YL": "KOPIEYL"}


def _lit_list(vals, fmt):
    return "eine Liste, die aus " + ", ".join(fmt(v) for v in vals) + " besteht"


def _zlit(v):
    if v == -2**63:
        return "(1 um 63 Bit nach Links verschoben)"
    return str(v) if v >= 0 else "(-%d)" % -v


PRELUDE_FUNCS = '''
Die Zahlen Liste WERTE ist %s.
Die Zahlen Liste KWERTE ist %s.
Die Text Liste TEXTE ist %s.

Die Funktion f_zlvon mit dem Parameter s vom Typ Text, gibt eine Zahlen Liste zurück, macht:
	Die Zahlen Liste r ist eine leere Zahlen Liste.
	Für jeden Buchstaben c in s, Speichere r verkettet mit (WERTE an der Stelle ((c als Zahl) minus 96)) in r.
	Gib r zurück.
Und kann so benutzt werden:
	"ZLVON <s>"

Die Funktion f_klvon mit dem Parameter s vom Typ Text, gibt eine Kommazahlen Liste zurück, macht:
	Die Kommazahlen Liste r ist eine leere Kommazahlen Liste.
	Für jeden Buchstaben c in s, Speichere r verkettet mit ((KWERTE an der Stelle ((c als Zahl) minus 96)) durch 4) in r.
	Gib r zurück.
Und kann so benutzt werden:
	"KLVON <s>"

Die Funktion f_znvon mit dem Parameter s vom Typ Text, gibt eine Zahlen Liste zurück, macht:
	Die Zahlen Liste r ist eine leere Zahlen Liste.
	Die Zahl acc ist 0.
	Für jeden Buchstaben c in s, mache:
		Wenn c gleich ',' ist, dann:
			Speichere r verkettet mit acc in r.
			Speichere 0 in acc.
		Sonst:
			Speichere acc mal 10 plus ((c als Zahl) minus 48) in acc.
	Gib r zurück.
Und kann so benutzt werden:
	"ZNVON <s>"

Die Funktion f_knvon mit dem Parameter s vom Typ Text, gibt eine Kommazahlen Liste zurück, macht:
	Die Kommazahlen Liste r ist eine leere Kommazahlen Liste.
	Die Zahl acc ist 0.
	Für jeden Buchstaben c in s, mache:
		Wenn c gleich ',' ist, dann:
			Speichere r verkettet mit (acc durch 4) in r.
			Speichere 0 in acc.
		Sonst:
			Speichere acc mal 10 plus ((c als Zahl) minus 48) in acc.
	Gib r zurück.
Und kann so benutzt werden:
	"KNVON <s>"

Die Funktion f_xlvon mit dem Parameter s vom Typ Text, gibt eine Text Liste zurück, macht:
	Die Text Liste r ist eine leere Text Liste.
	Für jeden Buchstaben c in s, Speichere r verkettet mit (TEXTE an der Stelle ((c als Zahl) minus 96)) in r.
	Gib r zurück.
Und kann so benutzt werden:
	"XLVON <s>"

Die Funktion f_blvon mit dem Parameter s vom Typ Text, gibt eine Buchstaben Liste zurück, macht:
	Die Buchstaben Liste r ist eine leere Buchstaben Liste.
	Für jeden Buchstaben c in s, Speichere r verkettet mit c in r.
	Gib r zurück.
Und kann so benutzt werden:
	"BLVON <s>"

Die Funktion f_ylvon mit dem Parameter s vom Typ Text, gibt eine Byte Liste zurück, macht:
	Die Byte Liste r ist eine leere Byte Liste.
	Die Zahl acc ist 0.
	Die Zahl k ist 0.
	Für jeden Buchstaben c in s, mache:
		Die Zahl d ist c als Zahl minus 48.
		Wenn d größer als 9 ist, Speichere d minus 39 in d.
		Speichere acc mal 16 plus d in acc.
		Erhöhe k um 1.
		Wenn k gleich 2 ist, dann:
			Speichere r verkettet mit (acc als Byte) in r.
			Speichere 0 in acc.
			Speichere 0 in k.
	Gib r zurück.
Und kann so benutzt werden:
	"YLVON <s>"

Die Funktion f_tlvon mit dem Parameter s vom Typ Text, gibt eine Text Liste zurück, macht:
	Die Text Liste r ist eine leere Text Liste.
	Der Text cur ist "".
	Für jeden Buchstaben c in s, mache:
		Wenn c gleich ';' ist, dann:
			Speichere r verkettet mit cur in r.
			Speichere "" in cur.
		Sonst:
			Speichere cur verkettet mit c in cur.
	Gib r zurück.
Und kann so benutzt werden:
	"TLVON <s>"

Die Funktion f_zeiget mit dem Parameter t vom Typ Text, gibt nichts zurück, macht:
	Schreibe den Buchstaben '<'.
	Die Zahl lim ist (die Länge von t) plus 2.
	Für jeden Buchstaben c in t, mache:
		Verringere lim um 1.
		Wenn lim kleiner als 0 ist, dann:
			Schreibe den Text "!ILL-FORMED-TEXT".
			Verlasse die Funktion.
		Wenn c gleich '\\n' ist, Schreibe den Text "\\\\n".
		Wenn aber c gleich '\\t' ist, Schreibe den Text "\\\\t".
		Sonst Schreibe den Buchstaben c.
	Schreibe den Buchstaben '>'.
Und kann so benutzt werden:
	"ZEIGET <t>"

Die Funktion f_zeigeb mit dem Parameter t vom Typ Buchstabe, gibt nichts zurück, macht:
	Schreibe den Buchstaben '<'.
	Wenn t gleich '\\n' ist, Schreibe den Text "\\\\n".
	Wenn aber t gleich '\\t' ist, Schreibe den Text "\\\\t".
	Sonst Schreibe den Buchstaben t.
	Schreibe den Buchstaben '>'.
Und kann so benutzt werden:
	"ZEIGEB <t>"

Die Funktion f_zeigezl mit dem Parameter l vom Typ Zahlen Liste, gibt nichts zurück, macht:
	Schreibe den Buchstaben '['.
	Für jede Zahl z in l, mache:
		Schreibe die Zahl z.
		Schreibe den Buchstaben ','.
	Schreibe den Buchstaben ']'.
Und kann so benutzt werden:
	"ZEIGEZL <l>"

Die Funktion f_zeigeyl mit dem Parameter l vom Typ Byte Liste, gibt nichts zurück, macht:
	Schreibe den Buchstaben '['.
	Für jeden Byte z in l, mache:
		Schreibe die Zahl (z als Zahl).
		Schreibe den Buchstaben ','.
	Schreibe den Buchstaben ']'.
Und kann so benutzt werden:
	"ZEIGEYL <l>"

Die Funktion f_zeigekl mit dem Parameter l vom Typ Kommazahlen Liste, gibt nichts zurück, macht:
	Schreibe den Buchstaben '['.
	Für jede Kommazahl z in l, mache:
		Schreibe die Kommazahl z.
		Schreibe den Buchstaben ';'.
	Schreibe den Buchstaben ']'.
Und kann so benutzt werden:
	"ZEIGEKL <l>"

Die Funktion f_zeigetl mit dem Parameter l vom Typ Text Liste, gibt nichts zurück, macht:
	Schreibe den Buchstaben '['.
	Für jeden Text z in l, mache:
		ZEIGET z.
		Schreibe den Buchstaben ','.
	Schreibe den Buchstaben ']'.
Und kann so benutzt werden:
	"ZEIGETL <l>"

Die Funktion f_zeigebl mit dem Parameter l vom Typ Buchstaben Liste, gibt nichts zurück, macht:
	Schreibe den Buchstaben '['.
	Für jeden Buchstaben z in l, mache:
		ZEIGEB z.
		Schreibe den Buchstaben ','.
	Schreibe den Buchstaben ']'.
Und kann so benutzt werden:
	"ZEIGEBL <l>"

Die Funktion f_kopiezl mit dem Parameter x vom Typ Zahlen Liste, gibt eine Zahlen Liste zurück, macht:
	Gib x zurück.
Und kann so benutzt werden:
	"KOPIEZL <x>"

Die Funktion f_kopiekl mit dem Parameter x vom Typ Kommazahlen Liste, gibt eine Kommazahlen Liste zurück, macht:
	Gib x zurück.
Und kann so benutzt werden:
	"KOPIEKL <x>"

Die Funktion f_kopieyl mit dem Parameter x vom Typ Byte Liste, gibt eine Byte Liste zurück, macht:
	Gib x zurück.
Und kann so benutzt werden:
	"KOPIEYL <x>"

Die Funktion f_kopietl mit dem Parameter x vom Typ Text Liste, gibt eine Text Liste zurück, macht:
	Gib x zurück.
Und kann so benutzt werden:
	"KOPIETL <x>"

Die Funktion f_kopiebl mit dem Parameter x vom Typ Buchstaben Liste, gibt eine Buchstaben Liste zurück, macht:
	Gib x zurück.
Und kann so benutzt werden:
	"KOPIEBL <x>"

Die Funktion f_kopiet mit dem Parameter x vom Typ Text, gibt einen Text zurück, macht:
	Gib x zurück.
Und kann so benutzt werden:
	"KOPIET <x>"
''' % (_lit_list(WERTE, _zlit), _lit_list(KWERTE, _zlit), _lit_list(TEXTE, lambda s: '"%s"' % s))


SHIM_DECL = '''
Die Funktion c17_naechster mit dem Parameter n vom Typ Zahl, gibt eine Zahl zurück,
ist in "c17shim.o" definiert
Und kann so benutzt werden:
	"NAECHSTER <n>"
'''


def program(entries):
    """DDP source of one driver. entries: list of (fn, forms); forms: list of call forms ('v' variables, 'x' expression
    arguments through an identity function, which selects the non-Referenz overload). argv[1] selects the entry,
    the cases follow; work item w = case * len(forms) + form."""
    mods = ["Duden/Ausgabe", "Duden/Laufzeit"]
    for fn, _ in entries:
        for m in fn["imports"]:
            if m not in mods:
                mods.append(m)
    s = "".join('Binde "%s" ein.\n' % m for m in mods)
    s += SHIM_DECL + PRELUDE_FUNCS
    s += "\nDie Text Liste args ist die Befehlszeilenargumente.\nDie Zahl fnr ist (args an der Stelle 2) als Zahl.\n"
    for nr, (fn, forms) in enumerate(entries):
        k = max(len(fn["params"]), 1)
        nf = len(forms)
        s += "\n[ %s ]\nWenn fnr gleich %d ist, dann:\n" % (fn["id"], nr)
        s += "\tDie Zahl nitems ist (((((die Länge von args) minus 2) durch %d) als Zahl) mal %d).\n" % (k, nf)
        s += "\tDie Zahl w ist NAECHSTER nitems.\n"
        s += "\tSolange w größer als, oder 0 ist, mache:\n"
        s += "\t\tDie Zahl form ist w modulo %d.\n" % nf
        s += "\t\tDie Zahl p ist (3 plus ((((w minus form) durch %d) als Zahl) mal %d)).\n" % (nf, k)
        for i, kind in enumerate(fn["params"]):
            decl, dec, _ = KINDS[kind]
            s += "\t\t%s a%d ist %s.\n" % (decl, i, dec.replace("{X}", "args an der Stelle (p plus %d)" % i))
        for fi, variant in enumerate(forms):
            call_args = []
            for i, kind in enumerate(fn["params"]):
                if variant == "x" and kind in COPY and i not in fn.get("refs", ()):
                    call_args.append("(%s a%d)" % (COPY[kind], i))
                else:
                    call_args.append("a%d" % i)
            call = fn["tmpl"].format(*call_args)
            s += "\t\tWenn form gleich %d ist, dann:\n" % fi
            if fn["res"] is None:
                s += "\t\t\t%s\n" % call
            else:
                rk = fn["res"]
                s += "\t\t\t%s r ist %s.\n" % (KINDS[rk][0], call)
                s += "\t\t\t%s\n" % KINDS[rk][2].replace("{V}", "r")
        for i, kind in enumerate(fn["params"]):
            s += "\t\tSchreibe den Buchstaben '\\t'.\n"
            s += "\t\t%s\n" % KINDS[kind][2].replace("{V}", "a%d" % i)
        s += "\t\tSchreibe den Buchstaben '\\n'.\n"
        s += "\t\tSpeichere (NAECHSTER nitems) in w.\n"
    return s


# ---- tokens and serialisation ------------------------------------------------------------------
def tok(kind, v):
    if kind in ("Z", "K"):
        return str(v)
    if kind in ("T", "B"):
        return v
    if kind in ("ZN", "KN"):
        return "".join("%d," % x for x in v)
    if kind == "ZL":
        return "".join(LETTERS[WERTE.index(x)] for x in v)
    if kind == "KL":
        return "".join(LETTERS[KWERTE.index(x)] for x in v)
    if kind == "XL":
        return "".join(LETTERS[TEXTE.index(x)] for x in v)
    if kind == "X":
        return LETTERS[TEXTE.index(v)]
    if kind == "TL":
        return "".join(x + ";" for x in v)
    if kind == "BL":
        return "".join(v)
    if kind == "YL":
        return "".join("%02x" % x for x in v)
    raise ValueError(kind)


def fmt_float(q):
    """a quarter numerator -> the text DDP prints for the Kommazahl q/4 (compared numerically, see parse)"""
    return repr(q / 4)


def esc(t):
    return t.replace("\n", "\\n").replace("\t", "\\t")


def kfmt(x):
    """Kommazahlen are compared to 12 significant digits (the runtime prints %.16g)"""
    return "K%.12g" % float(x)


def ser(kind, v):
    if kind == "Z":
        return str(v)
    if kind == "W":
        return "wahr" if v else "falsch"
    if kind in ("T", "B", "X"):
        return "<" + esc(v) + ">"
    if kind in ("ZL", "YL", "ZN"):
        return "[" + "".join("%d," % x for x in v) + "]"
    if kind in ("TL", "BL", "XL"):
        return "[" + "".join("<%s>," % esc(x) for x in v) + "]"
    if kind == "K":
        return kfmt(v)
    if kind in ("KL", "KN"):
        return "[" + "".join(kfmt(x / 4) + ";" for x in v) + "]"
    raise ValueError(kind)


def norm_field(kind, s):
    """normalise a printed field so that Kommazahlen compare numerically"""
    def fl(x):
        x = x.replace(",", ".")
        try:
            return kfmt(float(x))
        except ValueError:
            return "K?" + x
    if kind == "K":
        return fl(s)
    if kind in ("KL", "KN"):
        body = s[1:-1] if s.startswith("[") and s.endswith("]") else s
        return "[" + "".join(fl(x) + ";" for x in body.split(";") if x != "") + "]"
    return s
