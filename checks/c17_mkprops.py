#!/usr/bin/env python3
"""Regenerates coq/Props/C17.v from the lemma statements of coq/Lib/*Proofs.v (as printed by Check), so that the
statements in Props are verbatim the proved ones.  usage: c17_mkprops.py <coq root> > Props/C17.v   (build Lib first)"""
import json, os, re, subprocess, sys, tempfile

LEMMAS = """
leere_spec hinzufuegen_spec hinzufuegen_liste_spec voranstellen_spec voranstellen_liste_spec
einfuegen_spec einfuegen_err einfuegen_bereich_spec einfuegen_bereich_err
loesche_element_spec loesche_element_err loesche_bereich_spec loesche_bereich_err
fuellen_spec index_von_spec index_von_value_spec enthaelt_spec enthaelt_In ist_leer_spec
erste_n_spec erste_n_is_operator letzten_n_spec spiegeln_spec spiegeln_value_spec
summe_spec summe_exact produkt_spec produkt_leer elementweise_summe_spec elementweise_differenz_spec elementweise_produkt_spec
aufsteigende_spec absteigende_spec verketten_spec aneinandergehaengt_spec elw_verketten_spec
tausche_spec quicksort_ref_spec quicksort_spec
max_spec max3_spec min_spec min3_spec clamp_spec sign_spec ggt_spec kgv_spec ist_teilbar_spec ist_teilbar_null gerade_spec fakultaet_spec
teiler_spec teiler_sorted_desc primfaktorzerlegung_spec trunc_spec floor_spec floor_integers ceil_spec ceil_integers hoechste_spec kleinste_spec
mindestens_spec hoechstens_spec zwischen_spec absolute_haeufigkeit_spec
erster_buchstabe_spec letzter_buchstabe_spec nter_buchstabe_spec entferne_vorne_spec entferne_hinten_spec
trim_anfang_spec trim_ende_spec trim_spec text_enthaelt_buchstabe_In text_anzahl_buchstabe_spec
text_enthaelt_text_spec occurs_iff text_anzahl_text_spec nicht_ueberlappend_spec
beginnt_mit_buchstabe_spec endet_mit_buchstabe_spec beginnt_mit_text_spec prefix_iff endet_mit_text_spec suffix_iff
text_an_text_spec buchstabe_an_text_spec text_vor_text_spec buchstabe_vor_text_spec text_leeren_spec
text_einfuegen_spec buchstabe_einfuegen_spec loesche_text_spec loesche_text_bereich_spec
fuelle_text_spec buchstaben_liste_spec buchstaben_textliste_spec text_index_von_buchstabe_spec
text_index_von_text_spec text_index_von_text_leer ist_text_leer_spec grossschreiben_text_spec kleinschreiben_text_spec
polster_links_spec polster_rechts_spec spalte_spec spalte_leer spalte_text_spec spalte_text_einzeln finde_subtext_spec
verbinden_text_spec verbinden_buchstabe_spec verbinden_zahl_spec zahl_als_text_wert levenshtein_spec levenshtein_lev text_zu_byteliste_spec byteliste_roundtrip hamming_spec hamming_ungleich vergleiche_spec spaltmenge_spec spaltmenge_text_spec text_worte_spec
""".split()

# non-vacuity: the theorem applied to concrete arguments with every hypothesis discharged
NV = {
    'einfuegen_spec': 'Z [1;2] 2 9 ltac:(nv)', 'einfuegen_err': 'Z [1;2] 0 9 ltac:(nv)',
    'einfuegen_bereich_spec': 'Z [1;2] 2 [7] ltac:(nv)', 'einfuegen_bereich_err': 'Z [1;2] 5 [7] ltac:(nv)',
    'loesche_element_spec': 'Z [1;2] 2 ltac:(nv)', 'loesche_element_err': 'Z [1;2] 0 ltac:(nv)',
    'loesche_bereich_spec': 'Z [1;2;3] 2 3 ltac:(nv) ltac:(nv) ltac:(nv)', 'loesche_bereich_err': 'Z [1;2;3] 2 5 ltac:(nv)',
    'enthaelt_In': 'Z Z.eqb [1;2] 2 Z.eqb_eq', 'erste_n_spec': 'Z [1;2;3] 2 ltac:(nv)', 'letzten_n_spec': 'Z [1;2;3] 2 ltac:(nv)',
    'summe_exact': '[1;2] ltac:(unfold in_i64, two63; cbn; lia)', 'produkt_spec': '[2;3] ltac:(nv)',
    'elementweise_summe_spec': '[1] [2] ltac:(nv)', 'elementweise_differenz_spec': '[1] [2] ltac:(nv)', 'elementweise_produkt_spec': '[1] [2] ltac:(nv)',
    'aufsteigende_spec': '1 3 ltac:(nv)', 'absteigende_spec': '3 1 ltac:(nv)', 'elw_verketten_spec': '[[1]] [[2]] ltac:(nv)',
    'clamp_spec': '5 3 1 ltac:(nv)', 'kgv_spec': '4 (-6) ltac:(nv) ltac:(unfold in_i64, two63; cbn; lia)',
    'ist_teilbar_spec': '4 2 ltac:(nv)', 'fakultaet_spec': '5 ltac:(nv)', 'teiler_spec': '6 ltac:(nv)', 'primfaktorzerlegung_spec': '12 ltac:(nv)',
    'floor_spec': '(-9) 4 ltac:(nv)', 'floor_integers': '(-8) 4 ltac:(nv) ltac:(exists (-2); lia)',
    'ceil_spec': '(-9) 4 ltac:(nv)', 'ceil_integers': '(-8) 4 ltac:(nv) ltac:(exists (-2); lia)',
    'hoechste_spec': '[1;2] ltac:(nv) ltac:(repeat constructor; unfold in_i64, two63; lia)',
    'kleinste_spec': '[1;2] ltac:(nv) ltac:(repeat constructor; unfold in_i64, two63; lia)',
    'nter_buchstabe_spec': '1 [97] ltac:(nv)',
    'text_enthaelt_text_spec': '[97;98] [98] ltac:(nv)', 'text_anzahl_text_spec': '[97;98] [98] ltac:(nv)', 'nicht_ueberlappend_spec': '[97;98] [98] ltac:(nv)',
    'beginnt_mit_text_spec': '[97;98] [97] ltac:(nv)', 'endet_mit_text_spec': '[97;98] [98] ltac:(nv)',
    'loesche_text_spec': '[97;98] 1 ltac:(nv)', 'loesche_text_bereich_spec': '[97;98;99] 2 3 ltac:(nv) ltac:(nv) ltac:(nv)',
    'text_index_von_text_spec': '[99;99;99;97] [97;98] ltac:(nv)',
    'spalte_spec': '[97;44] 44 ltac:(nv)',
    'spalte_text_spec': '[97;98;99;98;99] [98;99] ltac:(nv)',
    'finde_subtext_spec': '[97;98;97;97] [97] ltac:(nv)',
    'levenshtein_lev': '[107;105] [115;105] ltac:(unfold two63; cbn; lia)',
    'zahl_als_text_wert': '(-42) ltac:(unfold in_i64, two63; lia)', 'byteliste_roundtrip': '[97;228;8364;128512] ltac:(repeat constructor; unfold skalar; lia)',
    'hamming_spec': '[97] [98] ltac:(nv)', 'hamming_ungleich': '[97] [] ltac:(nv)',
    'spaltmenge_spec': '[98] ltac:(reflexivity) [97;98]', 'spaltmenge_text_spec': '[97;98] [98] ltac:(reflexivity)',
}

HDR = '''From Coq Require Import List ZArith Bool Lia Permutation Sorted.
From DDP Require Import Lib.Base Lib.BaseProofs Lib.ListFns Lib.ListProofs Lib.NumFns Lib.NumProofs Lib.SortFns Lib.SortProofs Lib.TextFns Lib.TextProofs Lib.TextSearchProofs Lib.ExtraFns Lib.ExtraProofs.
Import ListNotations.
Open Scope Z_scope.
'''


def main():
    root = sys.argv[1]
    with tempfile.TemporaryDirectory() as d:
        open(os.path.join(d, "chk.v"), "w").write(HDR + "Set Printing Width 100000.\nSet Printing Depth 100000.\n" + "".join("Check @%s.\n" % n for n in LEMMAS))
        p = subprocess.run(["coqc", "-Q", root, "DDP", "chk.v"], cwd=d, capture_output=True, text=True)
        if p.returncode != 0:
            sys.stderr.write(p.stderr[-3000:])
            sys.exit(1)
    types = {}
    for blk in re.split(r"\n(?=@?[A-Za-z_][A-Za-z0-9_']*\s*(?:\n\s+)?:)", p.stdout):
        m = re.match(r"\s*@?([A-Za-z_][A-Za-z0-9_']*)\s*:\s*(.*)$", blk.strip(), re.S)
        if m:
            types[m.group(1)] = " ".join(m.group(2).split())
    out = '''(* C17 — Duden list, text, number and sorting functions meet their specification.
   One refinement theorem per covered function: the Gallina transcription of the DDP body / C primitive (coq/Lib/*Fns.v)
   equals the Coq list-library expression of its doc comment on the documented domain (_spec).  Every theorem is a full statement
   (no bounded ones are left); loops are handled by invariants in coq/Lib/*Proofs.v, fuel exhaustion is excluded there.
   args_unchanged: value parameters cannot change in a functional model (a function cannot modify its argument);
   the harness checks it on the real code by printing every argument after the call.
   The statements below are the full statements of the lemmas of coq/Lib/*Proofs.v (as printed by Check; regenerate
   with checks/c17_mkprops.py); every theorem with hypotheses is followed by a non-vacuity Example that applies it
   to concrete arguments with all hypotheses discharged. *)
''' + HDR + '''
Ltac nv := cbn; first [lia | discriminate | reflexivity | (unfold len; cbn; lia) | (intros H; discriminate H) | (left; discriminate) | (right; discriminate)].
Ltac ov := repeat (apply Forall_cons; [cbn; auto 10|]); apply Forall_nil.

'''
    for n in LEMMAS:
        out += "Theorem C17_%s : %s.\nProof. exact (@%s). Qed.\nPrint Assumptions C17_%s.\n" % (n, types[n], n, n)
        if n in NV:
            out += "Example C17_%s_nonvacuous := C17_%s %s.\n" % (n, n, NV[n])
        out += "\n"
    sys.stdout.write(out)


if __name__ == "__main__":
    main()
