"""C17 helper: the covered Duden functions, their call forms and their SPECIFICATION as read from the doc
comments, written as tiny Python list/str programs (the independent oracle of the check).

spec(args) returns
   ("ok", result, after)  result = expected value (or a predicate on the printed value for relations),
                          after  = expected values of all arguments after the call
   ("err",)               the documentation promises a Laufzeitfehler
   None                   the documentation is silent for these arguments (only model == implementation is checked)
"""
import math

I64MIN, I64MAX = -2**63, 2**63 - 1


class Err(Exception):
    pass


def clamp(v, lo, hi):
    t = lo if v < lo else v
    return hi if t > hi else t


def sl(x, i1, i2):
    """the language's slice operator `x im Bereich von i1 bis i2` (C06): clamped, crossed bounds raise"""
    n = len(x)
    if n == 0:
        return x[:0]
    a, b = clamp(i1, 1, n), clamp(i2, 1, n)
    if b < a:
        raise Err()
    return x[a - 1:b]


def ok(res, *after):
    return ("ok", res, list(after))


def in64(v):
    return I64MIN <= v <= I64MAX


FNS = []


def F(id, names, module, params, res, tmpl, spec, refs=(), fam="list", imports=None, grid=None, note=None, model=None, tag=None):
    """names: {'v': ddp function reached with variable arguments, 'x': with expression arguments} """
    FNS.append(dict(id=id, names=names, module=module, params=params, res=res, tmpl=tmpl, spec=spec, refs=tuple(refs), fam=fam,
                    imports=imports or ["Duden/" + module], grid=grid, note=note, model=model or id, tag=tag))


# ================================================================================================
# Listen.ddp — generic list functions, instantiated at T = Zahl (ZL/Z) and T = Text (XL/X)
# ================================================================================================
def _gen_list(suffix, L, E):
    def f(id, names, params, res, tmpl, spec, refs=(), **kw):
        ps = [dict(L=L, E=E).get(p, p) for p in params]
        r = dict(L=L, E=E).get(res, res)
        F(id + suffix, names, "Listen", ps, r, tmpl, spec, refs=refs, fam="list", model=id, **kw)

    f("Leere_Liste", {"v": "Leere_Liste"}, ["L"], None, "Leere {0}.", lambda l: ok(None, []), refs=[0])
    f("Hinzufügen_Liste", {"v": "Hinzufügen_Liste"}, ["L", "E"], None, "Füge {1} an {0} an.", lambda l, x: ok(None, l + [x], x), refs=[0])
    f("Hinzufügen_Liste_Liste", {"v": "Hinzufügen_Liste_Liste", "x": "Hinzufügen_Liste_Liste"}, ["L", "L"], None, "Füge {1} an {0} an.",
      lambda l, o: ok(None, l + o, o), refs=[0])

    def einf(l, i, x):
        # "Fügt ein Element vor einem Index ... ein. Ist der Index invalide wird ein Laufzeitfehler ausgelöst"
        if 1 <= i <= len(l) + 1:
            return ok(None, l[:i - 1] + [x] + l[i - 1:], i, x)
        return ("err",)
    f("Einfügen_Liste", {"v": "Einfügen_Liste"}, ["L", "Z", "E"], None, "Setze {2} an die Stelle {1} von {0}.", einf, refs=[0])

    def einfb(l, i, r):
        if 1 <= i <= len(l) + 1:
            return ok(None, l[:i - 1] + r + l[i - 1:], i, r)
        return ("err",)
    f("Einfügen_Bereich_Liste", {"v": "Einfügen_Bereich_Liste", "x": "Einfügen_Bereich_Liste"}, ["L", "Z", "L"], None,
      "Setze die Elemente in {2} an die Stelle {1} von {0}.", einfb, refs=[0])
    f("Voranstellen_Liste", {"v": "Voranstellen_Liste"}, ["L", "E"], None, "Stelle {1} vor {0}.", lambda l, x: ok(None, [x] + l, x), refs=[0])
    f("Voranstellen_Liste_Liste", {"v": "Voranstellen_Liste_Liste", "x": "Voranstellen_Liste_Liste"}, ["L", "L"], None, "Stelle {1} vor {0}.",
      lambda l, o: ok(None, o + l, o), refs=[0])

    def loe(l, i):
        # "Entfernt das Element an dem gegeben Index ... Ist der Index invalide wird ein Laufzeitfehler ausgelöst"
        if 1 <= i <= len(l):
            return ok(None, l[:i - 1] + l[i:], i)
        return ("err",)
    f("Lösche_Element", {"v": "Lösche_Element"}, ["L", "Z"], None, "Lösche das Element an der Stelle {1} aus {0}.", loe, refs=[0])

    def loeb(l, s, e):
        # "Entfernt alle Elemente aus der Liste im Bereich [start, end] (inklusiv). Ist der Index invalide wird ein Laufzeitfehler ausgelöst"
        if 1 <= s <= e <= len(l):
            return ok(None, l[:s - 1] + l[e:], s, e)
        return ("err",)
    f("Lösche_Bereich", {"v": "Lösche_Bereich"}, ["L", "Z", "Z"], None, "Lösche alle Elemente von {1} bis {2} aus {0}.", loeb, refs=[0])
    f("Füllen_Liste", {"v": "Füllen_Liste"}, ["L", "E"], None, "Fülle {0} mit {1}.", lambda l, x: ok(None, [x] * len(l), x), refs=[0])
    f("Index_Von_Element", {"v": "Index_Von_Element_Ref", "x": "Index_Von_Element"}, ["L", "E"], "Z", "(der Index von {1} in {0})",
      lambda l, x: ok(l.index(x) + 1 if x in l else -1, l, x))
    f("Enthält_Wert", {"v": "Enthält_Wert_Ref", "x": "Enthält_Wert"}, ["L", "E"], "W", "({0} {1} enthält)", lambda l, x: ok(x in l, l, x))
    f("Enthält_Wert_nicht", {"v": "Enthält_Wert_Ref", "x": "Enthält_Wert"}, ["L", "E"], "W", "({0} {1} nicht enthält)", lambda l, x: ok(x not in l, l, x))
    f("Ist_Leer_Liste", {"v": "Ist_Leer_Liste_Ref", "x": "Ist_Leer_Liste"}, ["L"], "W", "({0} leer ist)", lambda l: ok(len(l) == 0, l))

    def erste(l, n):
        # "Gibt liste bis zum n. Element zurück." -> the slice operator, whatever n
        try:
            return ok(sl(l, 1, n), l, n)
        except Err:
            return ("err",)
    f("Erste_N_Elemente_Liste", {"v": "Erste_N_Elemente_Liste_Ref", "x": "Erste_N_Elemente_Liste"}, ["L", "Z"], "L", "(die ersten {1} Elemente von {0})", erste)

    def letzte(l, n):
        # alias "die letzten <n> Elemente"; the comment's formula (len - n) is off by one against the name:
        # only 1 <= n <= len is unambiguous
        if 1 <= n <= len(l):
            return ok(l[len(l) - n:], l, n)
        return None
    f("Letzten_N_Elemente_Liste", {"v": "Letzten_N_Elemente_Liste_Ref", "x": "Letzten_N_Elemente_Liste"}, ["L", "Z"], "L", "(die letzten {1} Elemente von {0})", letzte)
    f("Liste_Spiegeln", {"v": "Liste_Spiegeln_Ref", "x": "Liste_Spiegeln"}, ["L"], "L", "({0} gespiegelt)", lambda l: ok(l[::-1], l))


_gen_list("", "ZL", "Z")
_gen_list("@Text", "XL", "X")


def _summe(l):
    s = sum(l)
    return ok(s, l) if in64(s) else None


def _produkt(l):
    if not l:
        return ok(0, l)          # "f({}) = 0"
    p = math.prod(l)
    return ok(p, l) if in64(p) else None


F("Summe_Liste", {"v": "Summe_Liste", "x": "Summe_Liste"}, "Listen", ["ZL"], "Z", "(die Summe aller Elemente in {0})", _summe)
F("Produkt_Liste", {"v": "Produkt_Liste", "x": "Produkt_Liste"}, "Listen", ["ZL"], "Z", "(das Produkt aller Elemente in {0})", _produkt)


def _elw(op):
    def f(a, b):
        if len(a) != len(b):
            return None          # "Beide Listen müssen gleich lang sein."
        r = [op(x, y) for x, y in zip(a, b)]
        return ok(r, a, b) if all(in64(v) for v in r) else None
    return f


F("Elementweise_Summe", {"v": "Elementweise_Summe"}, "Listen", ["ZL", "ZL"], "ZL", "(jedes Element aus {0} mit {1} addiert)", _elw(lambda x, y: x + y))
F("Elementweise_Differenz", {"v": "Elementweise_Differenz"}, "Listen", ["ZL", "ZL"], "ZL", "(jedes Element aus {0} mit {1} subtrahiert)", _elw(lambda x, y: x - y))
F("Elementweise_Produkt", {"v": "Elementweise_Produkt"}, "Listen", ["ZL", "ZL"], "ZL", "(jedes Element aus {0} mit {1} multipliziert)", _elw(lambda x, y: x * y))
F("Aneinandergehängt_Buchstabe", {"v": "Aneinandergehaengt_Buchstabe_Ref", "x": "Aneinandergehängt_Buchstabe"}, "Listen", ["BL"], "T", "({0} aneinandergehängt)",
  lambda l: ok("".join(l), l))
F("Verketten_Text_Liste", {"v": "Verketten_Text_Liste_Ref", "x": "Verketten_Text_Liste"}, "Listen", ["TL"], "T", "(alle Texte in {0} aneinandergehängt)",
  lambda l: ok("".join(l), l))
F("Elementweise_Verketten_Text", {"v": "Elementweise_Verketten_Text_Ref", "x": "Elementweise_Verketten_Text"}, "Listen", ["TL", "TL"], "TL",
  "(jeden Text aus {0} mit {1} verkettet)", lambda a, b: ok([x + y for x, y in zip(a, b)], a, b) if len(a) == len(b) else None)
F("Aufsteigende_Zahlen", {"v": "Aufsteigende_Zahlen"}, "Listen", ["Z", "Z"], "ZL", "(eine aufsteigende Zahlen Liste von {0} bis {1})",
  lambda s, e: ok(list(range(s, e + 1)), s, e) if s <= e else None)
F("Absteigende_Zahlen", {"v": "Absteigende_Zahlen"}, "Listen", ["Z", "Z"], "ZL", "(eine absteigende Zahlen Liste von {0} bis {1})",
  lambda s, e: ok(list(range(s, e - 1, -1)), s, e) if s >= e else None)


# ================================================================================================
# Texte.ddp
# ================================================================================================
def T(id, names, params, res, tmpl, spec, refs=(), **kw):
    F(id, names if isinstance(names, dict) else {"v": names}, "Texte", params, res, tmpl, spec, refs=refs, fam="text", **kw)


T("Erster_Buchstabe", {"v": "Erster_Buchstabe", "x": "Erster_Buchstabe"}, ["T"], "B", "(der erste Buchstabe von {0})", lambda t: ok(t[0], t) if t else None)
T("Nter_Buchstabe", "Nter_Buchstabe", ["Z", "T"], "B", "(der {0}. Buchstabe von {1})", lambda n, t: ok(t[n - 1], n, t) if 1 <= n <= len(t) else None)
T("Letzter_Buchstabe", "Letzter_Buchstabe", ["T"], "B", "(der letzte Buchstabe von {0})", lambda t: ok(t[-1], t) if t else None)


def _vorne(t, n):
    return t[max(n, 0):]


def _hinten(t, n):
    return t[:max(0, len(t) - max(n, 0))]


T("Entferne_Anzahl_Vorne_Mutierend", "Entferne_Anzahl_Vorne_Mutierend", ["T", "Z"], None, "Entferne {1} Buchstaben am Anfang von {0}.", lambda t, n: ok(None, _vorne(t, n), n), refs=[0])
T("Entferne_Anzahl_Hinten_Mutierend", "Entferne_Anzahl_Hinten_Mutierend", ["T", "Z"], None, "Entferne {1} Buchstaben am Ende von {0}.", lambda t, n: ok(None, _hinten(t, n), n), refs=[0])
T("Entferne_Anzahl_Vorne", {"v": "Entferne_Anzahl_Vorne", "x": "Entferne_Anzahl_Vorne"}, ["T", "Z"], "T", "({0} mit den ersten {1} Buchstaben entfernt)", lambda t, n: ok(_vorne(t, n), t, n))
T("Entferne_Anzahl_Hinten", {"v": "Entferne_Anzahl_Hinten", "x": "Entferne_Anzahl_Hinten"}, ["T", "Z"], "T", "({0} mit den letzten {1} Buchstaben entfernt)", lambda t, n: ok(_hinten(t, n), t, n))
T("Trim_Anfang", "Trim_Anfang", ["T", "B"], None, "Entferne alle {1} vor {0}.", lambda t, z: ok(None, t.lstrip(z), z), refs=[0])
T("Trim_Anfang_Wert", {"v": "Trim_Anfang_Wert", "x": "Trim_Anfang_Wert"}, ["T", "B"], "T", "({0} mit allen {1} davor entfernt)", lambda t, z: ok(t.lstrip(z), t, z))
T("Trim_Ende", "Trim_Ende", ["T", "B"], None, "Entferne alle {1} nach {0}.", lambda t, z: ok(None, t.rstrip(z), z), refs=[0])
T("Trim_Ende_Wert", {"v": "Trim_Ende_Wert", "x": "Trim_Ende_Wert"}, ["T", "B"], "T", "({0} mit allen {1} danach entfernt)", lambda t, z: ok(t.rstrip(z), t, z))
T("Trim", "Trim", ["T", "B"], None, "Entferne alle {1} vor und nach {0}.", lambda t, z: ok(None, t.strip(z), z), refs=[0])
T("Trim_Wert", {"v": "Trim_Wert", "x": "Trim_Wert"}, ["T", "B"], "T", "({0} mit allen {1} davor und danach entfernt)", lambda t, z: ok(t.strip(z), t, z))
T("Text_Enthält_Buchstabe", {"v": "Text_Enthält_Buchstabe", "x": "Text_Enthält_Buchstabe"}, ["T", "B"], "W", "({0} {1} enthält)", lambda t, z: ok(z in t, t, z))
T("Text_Anzahl_Buchstabe", "Text_Anzahl_Buchstabe", ["T", "B"], "Z", "(die Anzahl der {1} Buchstaben in {0})", lambda t, z: ok(t.count(z), t, z))


def _occ(t, s):
    return [i + 1 for i in range(len(t) - len(s) + 1) if t[i:i + len(s)] == s]


T("Text_Enthält_Text", {"v": "Text_Enthält_Text", "x": "Text_Enthält_Text"}, ["T", "T"], "W", "({0} {1} enthält)", lambda t, s: ok(s in t, t, s) if s else None)
T("Text_Anzahl_Text", "Text_Anzahl_Text", ["T", "T"], "Z", "(die Anzahl der Subtexte {1} in {0})", lambda t, s: ok(len(_occ(t, s)), t, s) if s else None)
T("Text_Anzahl_Text_Nicht_Überlappend", "Text_Anzahl_Text_Nicht_Überlappend", ["T", "T"], "Z", "(die Anzahl der nicht überlappenden Subtexte {1} in {0})",
  lambda t, s: ok(t.count(s), t, s) if s else None)
T("Beginnt_Mit_Buchstabe", "Beginnt_Mit_Buchstabe", ["T", "B"], "W", "({1} am Anfang von {0} steht)", lambda t, z: ok(t.startswith(z), t, z))
T("Beginnt_Mit_Text", "Beginnt_Mit_Text", ["T", "T"], "W", "({1} am Anfang von {0} steht)", lambda t, s: ok(t.startswith(s), t, s) if s else None)
T("Endet_Mit_Buchstabe", "Endet_Mit_Buchstabe", ["T", "B"], "W", "({1} am Ende von {0} steht)", lambda t, z: ok(t.endswith(z), t, z))
T("Endet_Mit_Text", "Endet_Mit_Text", ["T", "T"], "W", "({1} am Ende von {0} steht)", lambda t, s: ok(t.endswith(s), t, s) if s else None)
T("Text_Leeren", "Text_Leeren", ["T"], None, "Leere {0}.", lambda t: ok(None, ""), refs=[0])
T("Text_An_Text_Fügen", "Text_An_Text_Fügen", ["T", "T"], None, "Füge {1} an {0} an.", lambda t, e: ok(None, t + e, e), refs=[0])
T("Buchstabe_An_Text_Fügen", "Buchstabe_An_Text_Fügen", ["T", "B"], None, "Füge {1} an {0} an.", lambda t, e: ok(None, t + e, e), refs=[0])


def _tein(t, i, e):
    # "Fügt ... vor dem gegebenen Index ein. Ein Index kleiner als 1 fügt am Anfang, ein Index größer als die Länge des Textes am Ende ein."
    p = clamp(i, 1, len(t) + 1)
    return ok(None, t[:p - 1] + e + t[p - 1:], i, e)


T("Text_In_Text_Einfügen", "Text_In_Text_Einfügen", ["T", "Z", "T"], None, "Setze {2} an die Stelle {1} von {0}.", _tein, refs=[0])
T("Buchstabe_In_Text_Einfügen", "Buchstabe_In_Text_Einfügen", ["T", "Z", "B"], None, "Setze {2} an die Stelle {1} von {0}.", _tein, refs=[0])
T("Text_Vor_Text_Stellen", "Text_Vor_Text_Stellen", ["T", "T"], None, "Stelle {1} vor {0}.", lambda t, e: ok(None, e + t, e), refs=[0])
T("Buchstabe_Vor_Text_Stellen", "Buchstabe_Vor_Text_Stellen", ["T", "B"], None, "Stelle {1} vor {0}.", lambda t, e: ok(None, e + t, e), refs=[0])
T("Lösche_Text", "Lösche_Text", ["T", "Z"], None, "Lösche das Element an der Stelle {1} aus {0}.",
  lambda t, i: ok(None, t[:i - 1] + t[i:], i) if 1 <= i <= len(t) else None, refs=[0])
T("Lösche_Text_Bereich", "Lösche_Text_Bereich", ["T", "Z", "Z"], None, "Lösche alle Elemente im Bereich von {1} bis {2} aus {0}.",
  lambda t, s, e: ok(None, t[:s - 1] + t[e:], s, e) if 1 <= s <= e <= len(t) else None, refs=[0])
T("Fülle_Text", "Fülle_Text", ["T", "B"], None, "Fülle {0} mit {1}.", lambda t, z: ok(None, z * len(t), z), refs=[0],
  tag=lambda t, z: "shrinks" if any(len(c.encode()) > len(z.encode()) for c in t) else "no-shrink")
T("Buchstaben_Text_BuchstabenListe", {"v": "Buchstaben_TextRef_BuchstabenListe", "x": "Buchstaben_Text_BuchstabenListe"}, ["T"], "BL", "(die Buchstaben in {0})", lambda t: ok(list(t), t))
T("Buchstaben_Text_TextListe", {"v": "Buchstaben_TextRef_TextListe", "x": "Buchstaben_Text_TextListe"}, ["T"], "TL", "(die Buchstaben in {0} als Text Liste)", lambda t: ok(list(t), t))
T("Text_Index_Von_Buchstabe", {"v": "Text_Index_Von_Buchstabe_Ref", "x": "Text_Index_Von_Buchstabe"}, ["T", "B"], "Z", "(der Index von {1} in {0})",
  lambda t, z: ok(t.find(z) + 1 if z in t else -1, t, z))
T("Text_Index_Von_Text", {"v": "Text_Index_Von_Text", "x": "Text_Index_Von_Text"}, ["T", "T"], "Z", "(der Index von {1} in {0})",
  lambda t, s: ok(t.find(s) + 1 if s in t else -1, t, s) if s else None)
T("Ist_Text_Leer", {"v": "Ist_Text_Leer_Ref", "x": "Ist_Text_Leer"}, ["T"], "W", "({0} leer ist)", lambda t: ok(t == "", t))

_DE_LOW = "abcdefghijklmnopqrstuvwxyzäöü"
_DE_UP = "ABCDEFGHIJKLMNOPQRSTUVWXYZÄÖÜ"


def _gross(t):
    # Zeichen.Großgeschrieben: "... großgeschriebene Variante ... den selben Buchstaben wenn ... kein deutscher Buchstabe"
    return "".join(_DE_UP[_DE_LOW.index(c)] if c in _DE_LOW else c for c in t)


def _klein(t):
    return "".join(_DE_LOW[_DE_UP.index(c)] if c in _DE_UP else c for c in t)


T("Großschreiben_Wert", {"v": "Großschreiben_Wert", "x": "Großschreiben_Wert"}, ["T"], "T", "({0} groß geschrieben)", lambda t: ok(_gross(t), t), grid="case")
T("Großschreiben", "Großschreiben", ["T"], None, "Schreibe {0} groß.", lambda t: ok(None, _gross(t)), refs=[0], grid="case")
T("Kleinschreiben_Wert", {"v": "Kleinschreiben_Wert", "x": "Kleinschreiben_Wert"}, ["T"], "T", "({0} klein geschrieben)", lambda t: ok(_klein(t), t), grid="case")
T("Kleinschreiben", "Kleinschreiben", ["T"], None, "Schreibe {0} klein.", lambda t: ok(None, _klein(t)), refs=[0], grid="case")
T("Polster_Links", {"v": "Polster_Links", "x": "Polster_Links"}, ["T", "B", "Z"], "T", "({0} mit {2} {1} links gepolstert)", lambda t, z, n: ok(z * max(0, n - len(t)) + t, t, z, n))
T("Polster_Rechts", {"v": "Polster_Rechts", "x": "Polster_Rechts"}, ["T", "B", "Z"], "T", "({0} mit {2} {1} rechts gepolstert)", lambda t, z, n: ok(t + z * max(0, n - len(t)), t, z, n))
T("Spalte", {"v": "Spalte", "x": "Spalte"}, ["T", "B"], "TL", "({0} an {1} gespalten)", lambda t, z: ok(t.split(z), t, z) if t else None,
  tag=lambda t, z: "single-trailing-separator" if len(t) >= 2 and t[-1] == z and t[-2] != z else "other")
T("Spalte_Text", {"v": "Spalte_Text", "x": "Spalte_Text"}, ["T", "T"], "TL", "({0} an {1} gespalten)", lambda t, s: ok(t.split(s), t, s) if t and s else None,
  tag=lambda t, s: "separator-occurs" if s and s in t else "separator-absent")


def _finde(t, s):
    # "Gibt alle Indizes des gegebenen Subtextes im Text zurück. Die Suche wird nach jedem Fund hinter dem Fund fortgesetzt"
    if not t or not s:
        return None
    greedy, nxt = [], 1
    for i in _occ(t, s):
        if i >= nxt:
            greedy.append(i)
            nxt = i + len(s)
    return ok(greedy, t, s)


T("Finde_Subtext", "Finde_Subtext", ["T", "T"], "ZL", "(alle Indizes vom Subtext {1} in {0})", _finde,
  tag=lambda t, s: "equal-length" if len(t) == len(s) else "occurs-at-end" if s and t.endswith(s) else "other")
T("Verbinden_Text", {"v": "Verbinden_Text", "x": "Verbinden_Text"}, ["TL", "B"], "T", "({0} mit dem Trennzeichen {1} zum Text verbunden)", lambda l, z: ok(z.join(l), l, z))
T("Verbinden_Buchstabe", {"v": "Verbinden_Buchstabe", "x": "Verbinden_Buchstabe"}, ["BL", "B"], "T", "({0} mit dem Trennzeichen {1} zum Text verbunden)", lambda l, z: ok(z.join(l), l, z))
T("Verbinden_Zahl", {"v": "Verbinden_Zahl", "x": "Verbinden_Zahl"}, ["ZL", "B"], "T", "({0} mit dem Trennzeichen {1} zum Text verbunden)", lambda l, z: ok(z.join(map(str, l)), l, z))
T("Hamming_Distanz", "Hamming_Distanz", ["T", "T"], "Z", "(die Hamming-Distanz zwischen {0} und {1})",
  lambda a, b: ok(sum(1 for x, y in zip(a, b) if x != y) if len(a) == len(b) else -1, a, b))


def _lev(a, b):
    prev = list(range(len(b) + 1))
    for i, x in enumerate(a, 1):
        cur = [i]
        for j, y in enumerate(b, 1):
            cur.append(min(prev[j] + 1, cur[j - 1] + 1, prev[j - 1] + (x != y)))
        prev = cur
    return prev[-1]


T("Levenshtein_Distanz", "Levenshtein_Distanz", ["T", "T"], "Z", "(die Levenshtein-Distanz zwischen {0} und {1})", lambda a, b: ok(_lev(a, b), a, b), imports=["Duden/Texte"])


def _vergl(a, b):
    if a == b:
        return ok(0, a, b)
    n = min(len(a), len(b))
    for i in range(n):
        if a[i] != b[i]:
            sgn = 1 if ord(a[i]) > ord(b[i]) else -1
            return ok(lambda printed, sgn=sgn: printed.lstrip("-").isdigit() and int(printed) * sgn > 0, a, b)
    # same prefix: "-1 wenn text2 und 1 wenn text1 länger ist"
    return ok(1 if len(a) > len(b) else -1, a, b)


T("Vergleiche_Text", {"v": "Vergleiche_Text", "x": "Vergleiche_Text"}, ["T", "T"], "Z", "({0} mit {1} verglichen)", _vergl)


def _spaltmenge(t, m):
    if not t:
        return None
    if not m:
        return ok([t], t, m)
    out, cur = [], ""
    for c in t:
        if c in m:
            if cur:
                out.append(cur)
            cur = ""
        else:
            cur += c
    if cur:
        out.append(cur)
    return ok(out, t, m)


T("Spalten_Spaltmenge_Text", {"v": "Spalten_Spaltmenge_Text_Ref", "x": "Spalten_Spaltmenge_Text"}, ["T", "BL"], "TL", "({0} anhand der Spaltmenge {1} gespalten)", _spaltmenge)
T("Spalten_SpaltmengeText_Text", "Spalten_SpaltmengeText_Text", ["T", "T"], "TL", "({0} anhand der Spaltmenge {1} gespalten)", lambda t, m: _spaltmenge(t, m))
T("Text_Worte", {"v": "Text_Worte_Ref", "x": "Text_Worte"}, ["T"], "TL", "(die Worte in {0})", lambda t: (lambda r: ok(r[1], t) if r else None)(_spaltmenge(t, " \n\t\r\x0d\x0e")), grid="words")
T("Text_Zu_ByteListe", {"v": "Text_Zu_ByteListe", "x": "Text_Zu_ByteListe_Wert"}, ["T"], "YL", "(die Bytes von {0})", lambda t: ok(list(t.encode()), t))


def _bytes_text(b):
    try:
        return ok(bytes(b).decode("utf-8"), b)
    except UnicodeDecodeError:
        return None


T("ByteListe_Zu_Text", {"v": "ByteListe_Zu_Text", "x": "ByteListe_Zu_Text_Wert"}, ["YL"], "T", "(die Bytes {0} als Text)", _bytes_text, grid="bytes")


# ================================================================================================
# Sortierung.ddp
# ================================================================================================
F("Tausche", {"v": "Tausche"}, "Sortierung", ["Z", "Z"], None, "Tausche {0} und {1}.", lambda a, b: ok(None, b, a), refs=[0, 1], fam="sort")
F("Tausche@Text", {"v": "Tausche"}, "Sortierung", ["X", "X"], None, "Tausche {0} und {1}.", lambda a, b: ok(None, b, a), refs=[0, 1], fam="sort", model="Tausche")
F("Quicksort_Ref", {"v": "Quicksort_Ref"}, "Sortierung", ["ZL"], None, "Sortiere {0}.", lambda l: ok(None, sorted(l)), refs=[0], fam="sort", grid="sort")
F("Quicksort_Ref_b", {"v": "Quicksort_Ref"}, "Sortierung", ["ZL"], None, "Sortiere {0} mit quick-sort.", lambda l: ok(None, sorted(l)), refs=[0], fam="sort", grid="sort", model="Quicksort_Ref")
F("Quicksort", {"v": "Quicksort", "x": "Quicksort"}, "Sortierung", ["ZL"], "ZL", "({0} sortiert)", lambda l: ok(sorted(l), l), fam="sort", grid="sort")
# deep-stack family: adversarial lists that keep more than 50 ranges pending on the module-level work stack
F("Quicksort_Ref@tief", {"v": "Quicksort_Ref"}, "Sortierung", ["ZN"], None, "Sortiere {0}.", lambda l: ok(None, sorted(l)), refs=[0], fam="sort", grid="deep", model="Quicksort_Ref")
F("Quicksort_Ref_b@tief", {"v": "Quicksort_Ref"}, "Sortierung", ["ZN"], None, "Sortiere {0} mit quick-sort.", lambda l: ok(None, sorted(l)), refs=[0], fam="sort", grid="deep", model="Quicksort_Ref")
F("Quicksort@tief", {"v": "Quicksort", "x": "Quicksort"}, "Sortierung", ["ZN"], "ZN", "({0} sortiert)", lambda l: ok(sorted(l), l), fam="sort", grid="deep", model="Quicksort")
F("Quicksort@Kommazahl_tief", {"v": "Quicksort"}, "Sortierung", ["KN"], "KN", "({0} sortiert)", lambda l: ok(sorted(l), l), fam="sort", grid="deep", model="Quicksort")
F("Quicksort@Kommazahl", {"v": "Quicksort"}, "Sortierung", ["KL"], "KL", "({0} sortiert)", lambda l: ok(sorted(l), l), fam="sort", grid="sort", model="Quicksort")


# ================================================================================================
# Mathe.ddp / Statistik.ddp
# ================================================================================================
def N(id, module, params, res, tmpl, spec, **kw):
    F(id, {"v": id}, module, params, res, tmpl, spec, fam="num", **kw)


N("Max", "Mathe", ["Z", "Z"], "Z", "(die größere Zahl von {0} und {1})", lambda a, b: ok(max(a, b), a, b))
N("Max3", "Mathe", ["Z", "Z", "Z"], "Z", "(die größere Zahl von {0}, {1} und {2})", lambda a, b, c: ok(max(a, b, c), a, b, c))
N("Min", "Mathe", ["Z", "Z"], "Z", "(die kleinere Zahl von {0} und {1})", lambda a, b: ok(min(a, b), a, b))
N("Min3", "Mathe", ["Z", "Z", "Z"], "Z", "(die kleinere Zahl von {0}, {1} und {2})", lambda a, b, c: ok(min(a, b, c), a, b, c))
# parameters (wert, max, min), alias "<wert> zwischen <min> und <max>"
N("Clamp", "Mathe", ["Z", "Z", "Z"], "Z", "({0} zwischen {2} und {1})", lambda w, mx, mn: ok(mx if w > mx else mn if w < mn else w, w, mx, mn) if mn <= mx else None)
N("Sign", "Mathe", ["Z"], "Z", "(das Vorzeichen von {0})", lambda w: ok((w > 0) - (w < 0), w))
N("Größter_Gemeinsamer_Teiler", "Mathe", ["Z", "Z"], "Z", "(der größte gemeinsame Teiler von {0} und {1})", lambda a, b: ok(math.gcd(a, b), a, b))
N("Kleinster_Gemeinsamer_Teiler", "Mathe", ["Z", "Z"], "Z", "(das kleinste gemeinsame Vielfache von {0} und {1})",
  lambda a, b: ok(abs(a * b) // math.gcd(a, b), a, b) if (a, b) != (0, 0) and abs(a * b) < 2**50 else None)
N("Ist_Teilbar", "Mathe", ["Z", "Z"], "W", "({0} durch {1} teilbar ist)", lambda a, b: ok(a % b == 0, a, b) if b != 0 else None)
N("Gerade_Zahl", "Mathe", ["Z"], "W", "({0} eine gerade Zahl ist)", lambda x: ok(x % 2 == 0, x))
N("Fakultät", "Mathe", ["Z"], "Z", "({0} Fakultät)", lambda x: ok(math.factorial(x), x) if 0 <= x <= 20 else None)


def _teiler(z):
    if z < 1:
        return None
    from c17_ddp import ser
    want = sorted(d for d in range(1, z + 1) if z % d == 0)
    return ok(lambda printed: sorted(int(x) for x in printed[1:-1].split(",") if x) == want and printed.startswith("["), z)


def _prim(z):
    if z < 2:
        return None
    fs, n, d = [], z, 2
    while d * d <= n:
        while n % d == 0:
            fs.append(d)
            n //= d
        d += 1
    if n > 1:
        fs.append(n)
    return ok(lambda printed: sorted(int(x) for x in printed[1:-1].split(",") if x) == fs, z)


N("Teilerzerlegung", "Mathe", ["Z"], "ZL", "(alle Teiler von {0})", _teiler)
N("Primfaktorzerlegung", "Mathe", ["Z"], "ZL", "(die Primfaktoren von {0})", _prim)
N("Floor", "Mathe", ["K"], "K", "({0} nach unten gerundet)", lambda q: ok(float(math.floor(q / 4)), q))
N("Ceil", "Mathe", ["K"], "K", "({0} nach oben gerundet)", lambda q: ok(float(math.ceil(q / 4)), q))
N("Trunc", "Mathe", ["K"], "K", "({0} trunkiert)", lambda q: ok(float(math.trunc(q / 4)), q))
N("Höchste_ListeZ", "Statistik", ["ZL"], "Z", "(der höchste Wert aus {0})", lambda l: ok(max(l), l) if l else None)
N("Kleinste_ListeZ", "Statistik", ["ZL"], "Z", "(der kleinste Wert aus {0})", lambda l: ok(min(l), l) if l else None)
# "Summe der relativen Häufigkeiten aller Zahlen größer als, oder x" / "kleiner als, oder x" / "zwischen x und y"
N("Mindestens_Liste", "Statistik", ["K", "KL"], "K", "(wie viel Prozent der Zahlen aus {1} mindestens {0} sind)",
  lambda x, l: ok(sum(1 for z in l if z >= x) / len(l), x, l) if l else None)
N("Höchstens_Liste", "Statistik", ["K", "KL"], "K", "(wie viel Prozent der Zahlen aus {1} höchstens {0} sind)",
  lambda x, l: ok(sum(1 for z in l if z <= x) / len(l), x, l) if l else None)
N("Zwischen_Liste", "Statistik", ["K", "K", "KL"], "K", "(wie viel Prozent der Zahlen aus {2} zwischen {0} und {1} sind)",
  lambda x, y, l: ok(sum(1 for z in l if x <= z <= y) / len(l), x, y, l) if l else None)
N("Absolute_Häufigkeit", "Statistik", ["KL", "K"], "Z", "(die absolute Häufigkeit von {1} in {0})", lambda l, x: ok(l.count(x), l, x))
