#!/usr/bin/env python3
"""C18 — foreign C functions see the published value representation.
Proof: coq/Props/C18.v (declared IR signature = published C signature at ABI-class level for every
signature and arity; ownership discipline of the emitted call plan; extern symbols are not mangled).
Tie: generated extern signatures (arity 0..6, 12 parameter kinds by value and by Referenz, 13 result
kinds, plus generic extern functions with T Liste by value / T Listen Referenz / T Referenz) with a GENERATED C callee written against the runtime headers; a DDP caller in the declaring and
in an importing module passes boundary values as variables, elements, fields and temporaries. Judged
directly (Python oracle): the callee saw exactly the passed values, Referenz parameters mutate exactly
the caller's storage, by-value arguments are private copies, stdout as expected, every block the
callee saw for a by-value argument is released exactly once after the call with its true size, the
result is owned by the caller, the whole allocation ledger balances, no ASan report. Compared with the
extracted model: the IR signature kddp declares (textual IR, struct bodies resolved), the C prototype
(against the header by static assertions compiled with gcc), the order/position of the caller-side
frees right after the call."""
import json
import os
import re
import struct
import subprocess
import sys

sys.path.insert(0, os.path.dirname(os.path.abspath(__file__)))
import vlib
import c18_stdlib
from vlib import Check, Build, log

PID = "C18"
CORPUS = os.path.join(vlib.VERIF, "corpus", PID)
I64MIN, I64MAX = -2**63, 2**63 - 1
ENTRY_MARK, EXIT_MARK = 7777, 7778

# ---- kinds -------------------------------------------------------------------------------------
# ty: type expression of the Coq model (driver syntax); ddp/ref: spelling as parameter type; ret: with
# article; decl: variable declaration head; c: header type
KINDS = {
    "Z": dict(ty="Z", ddp="Zahl", ref="Zahlen Referenz", ret="eine Zahl", decl="Die Zahl", c="ddpint", prim=True),
    "K": dict(ty="K", ddp="Kommazahl", ref="Kommazahlen Referenz", ret="eine Kommazahl", decl="Die Kommazahl", c="ddpfloat", prim=True),
    "B": dict(ty="B", ddp="Byte", ref="Byte Referenz", ret="einen Byte", decl="Der Byte", c="ddpbyte", prim=True),
    "W": dict(ty="W", ddp="Wahrheitswert", ref="Wahrheitswert Referenz", ret="einen Wahrheitswert", decl="Der Wahrheitswert", c="ddpbool", prim=True),
    "C": dict(ty="C", ddp="Buchstabe", ref="Buchstaben Referenz", ret="einen Buchstaben", decl="Der Buchstabe", c="ddpchar", prim=True),
    "T": dict(ty="T", ddp="Text", ref="Text Referenz", ret="einen Text", decl="Der Text", c="ddpstring", prim=False),
    "ZL": dict(ty="L(Z)", ddp="Zahlen Liste", ref="Zahlen Listen Referenz", ret="eine Zahlen Liste", decl="Die Zahlen Liste", c="ddpintlist", prim=False),
    "TL": dict(ty="L(T)", ddp="Text Liste", ref="Text Listen Referenz", ret="eine Text Liste", decl="Die Text Liste", c="ddpstringlist", prim=False),
    "P": dict(ty="S(Z,T)", ddp="Paar", ref="Paar Referenz", ret="ein Paar", decl="Das Paar", c="Paar", prim=False),
    "V": dict(ty="V", ddp="Variable", ref="Variablen Referenz", ret="eine Variable", decl="Die Variable", c="ddpany", prim=False),
    # a typedef of a primitive and an alias of Text: transparent for the representation
    "ID": dict(ty="N(Z)", ddp="Kennung", ref="Kennung Referenz", ret="eine Kennung", decl="Die Kennung", c="ddpint", prim=True),
    "NT": dict(ty="N(T)", ddp="Titel", ref="Titel Referenz", ret="einen Titel", decl="Der Titel", c="ddpstring", prim=False),
}
# lists of every element kind: "<plural> Liste" / "<plural> Listen Referenz"
ELEMS = ["Z", "K", "B", "W", "C", "T", "V", "P", "ID", "NT"]
PLURAL = {"Z": "Zahlen", "K": "Kommazahlen", "B": "Byte", "W": "Wahrheitswert", "C": "Buchstaben", "T": "Text", "V": "Variablen", "P": "Paar", "ID": "Kennung", "NT": "Titel"}
CLIST = {"Z": "ddpintlist", "K": "ddpfloatlist", "B": "ddpbytelist", "W": "ddpboollist", "C": "ddpcharlist", "T": "ddpstringlist", "V": "ddpanylist", "P": "PaarListe",
         "ID": "ddpintlist", "NT": "ddpstringlist"}
for _e in ELEMS:
    KINDS[_e + "L"] = dict(ty="L(%s)" % KINDS[_e]["ty"], ddp=PLURAL[_e] + " Liste", ref=PLURAL[_e] + " Listen Referenz", ret="eine %s Liste" % PLURAL[_e],
                           decl="Die %s Liste" % PLURAL[_e], c=CLIST[_e], prim=False)
LISTS = [e + "L" for e in ELEMS]
# what the parser must record for a parameter of that kind (sigx spec)
FRONT = {"Z": "Z", "K": "K", "B": "B", "W": "W", "C": "C", "T": "T", "V": "V", "P": "S:Paar", "ID": "D:Kennung(Z)", "NT": "A:Titel(T)", "GE": "G", "GL": "L(G)"}
for _e in ELEMS:
    FRONT[_e + "L"] = "L(%s)" % FRONT[_e]

# parameters of GENERIC extern functions that mention the type parameter T (instantiated per call with Zahl or Text)
GENERIC_KINDS = {
    "GL": dict(ty=None, ddp="T Liste", ref="T Listen Referenz", ret="eine T Liste", c="ddpgenericlist", prim=False),
    "GE": dict(ty=None, ddp=None, ref="T Referenz", ret=None, c="void", prim=False),
}
KINDS.update(GENERIC_KINDS)
CORE = ["Z", "K", "B", "W", "C", "T", "ZL", "TL", "P", "V"]
MORE_LISTS = [l for l in LISTS if l not in ("ZL", "TL")]


def resolve_kind(k, T):
    if k == "GL":
        return "ZL" if T == "Z" else "TL"
    if k == "GE":
        return T
    return k


def resolve_fn(fn, T):
    """the instantiation of a generic function for T in {Z, T}: concrete kinds, the mutation/return script of that T"""
    if not fn.get("generic"):
        return fn
    r = dict(fn)
    r["generic"] = False
    r["params"] = [[resolve_kind(k, T), ref] for k, ref in fn["params"]]
    r["newvals"] = [(nv[T] if isinstance(nv, dict) else nv) for nv in fn["newvals"]]
    r["ret"] = resolve_kind(fn["ret"], T) if fn["ret"] is not None else None
    r["retval"] = fn["retval"][T] if isinstance(fn["retval"], dict) else fn["retval"]
    return r
ALLK = CORE + ["ID", "NT"] + MORE_LISTS

TEXTS = ["", "a", "häß€😀", "Hallo Welt", "x" * 17, "Der schnelle braune Fuchs springt hinüber", "ß"]
ZS = [0, -1, 1, 42, I64MIN, I64MAX, 255, 256, -2**32, 2**31]
KS = [0.0, 0.5, -2.25, 1024.0, 0.1, 123456789.125]
KS_RET = KS + [-0.0, 5e-324, 1.7976931348623157e308]
BS = [0, 1, 127, 128, 255]
CS = [ord("a"), ord("Z"), ord("ß"), ord("€"), ord("😀"), ord(" ")]
ZLS = [[], [0], [1, -1, I64MAX], [I64MIN], list(range(1, 10))]
TLS = [[], [""], ["", "ä", "xyz"], ["a", "bb", "ccc", "dddd", "e", "f", "g", "h", "i"]]


def rnd_value(rng, k, ret=False):
    """a boundary value of kind k as a JSON-able tagged list"""
    if k in ("Z", "ID"):
        return [k, rng.choice(ZS)]
    if k == "K":
        return [k, rng.choice(KS_RET if ret else KS)]
    if k == "B":
        return [k, rng.choice(BS)]
    if k == "W":
        return [k, rng.choice([True, False])]
    if k == "C":
        return [k, rng.choice(CS)]
    if k in ("T", "NT"):
        return [k, rng.choice(TEXTS)]
    if k == "ZL":
        return [k, list(rng.choice(ZLS))]
    if k == "TL":
        return [k, list(rng.choice(TLS))]
    if k == "P":
        return [k, [rng.choice(ZS), rng.choice(TEXTS)]]
    if k == "V":
        ik = rng.choice(["Z", "T", "ZL"])
        return [k, rnd_value(rng, ik)]
    if k in LISTS:
        e = k[:-1]
        return [k, [rnd_value(rng, e)[1] for _ in range(rng.choice([0, 1, 2, 3, 9]))]]
    raise ValueError(k)


# ---- rendering -----------------------------------------------------------------------------------
def fbits(x):
    return struct.unpack("<Q", struct.pack("<d", x))[0]


def render(v, side):
    """what the C callee (side 'c') resp. the DDP caller (side 'd') prints for a value"""
    k, x = v
    if k in ("Z", "ID", "B"):
        return str(x)
    if k == "K":
        return "%.16g/%016x" % (x, fbits(x)) if side == "c" else "%.16g" % x
    if k == "W":
        return ("1" if x else "0") if side == "c" else ("wahr" if x else "falsch")
    if k == "C":
        return str(x) if side == "c" else chr(x)
    if k in ("T", "NT"):
        return "T[%s]" % x
    if k in LISTS:
        return "[%d:%s]" % (len(x), "".join(render([k[:-1], e], side) + "," for e in x))
    if k == "P":
        return "{%d|T[%s]}" % (x[0], x[1])
    if k == "V":
        tag = {"Z": "Z", "T": "T", "ZL": "L"}[x[0]]
        return tag + ":" + render(x, side)
    raise ValueError(k)


def nblocks(v):
    """heap blocks owned by a value (what a release of it frees)"""
    k, x = v
    if k in ("T", "NT"):
        return 1 if x else 0
    if k in LISTS:
        return (1 if x else 0) + sum(nblocks([k[:-1], e]) for e in x)
    if k == "P":
        return 1 if x[1] else 0
    if k == "V":
        return nblocks(x) + (1 if x[0] == "ZL" else 0)
    return 0


# ---- DDP expressions ---------------------------------------------------------------------------
def ddp_int(z):
    if z == I64MIN:
        return "(-9223372036854775807 minus 1)"
    return "(%d)" % z if z < 0 else str(z)


def ddp_float(x):
    s = repr(float(x))
    if "e" in s or "inf" in s or "nan" in s:
        raise ValueError("no literal for %r" % x)
    s = s.replace(".", ",")
    return "(%s)" % s if s.startswith("-") else s


def ddp_char(c):
    return "'%s'" % chr(c)


def ddp_expr(v, top=False):
    """expression producing value v (a fresh temporary for non-primitives); top: no enclosing parens needed"""
    k, x = v
    if k == "Z":
        return ddp_int(x)
    if k == "ID":
        return "(%s als Kennung)" % ddp_int(x)
    if k == "K":
        return ddp_float(x)
    if k == "B":
        return "(%d als Byte)" % x
    if k == "W":
        return "wahr" if x else "falsch"
    if k == "C":
        return ddp_char(x)
    if k in ("T", "NT"):
        return '"%s"' % x
    if k in LISTS:
        s = "eine leere %s Liste" % PLURAL[k[:-1]] if not x else "eine Liste, die aus %s besteht" % ", ".join(ddp_expr([k[:-1], e]) for e in x)
        return s if top else "(%s)" % s
    if k == "P":
        s = "ein Paar aus %s und \"%s\"" % (ddp_int(x[0]), x[1])
        return s if top else "(%s)" % s
    if k == "V":
        return ddp_expr(x, top=True) if top else "(%s als Variable)" % ddp_expr(x)
    raise ValueError(k)


def ddp_show(k, name):
    """statements printing variable `name` of kind k in the canonical form"""
    if k == "Z":
        return ["Schreibe die Zahl %s." % name]
    if k == "ID":
        return ["Schreibe die Zahl (%s als Zahl)." % name]
    if k == "K":
        return ["Schreibe die Kommazahl %s." % name]
    if k == "B":
        return ["Schreibe den Byte %s." % name]
    if k == "W":
        return ["Schreibe den Wahrheitswert %s." % name]
    if k == "C":
        return ["Schreibe den Buchstaben %s." % name]
    return ["zeige_%s %s." % ({"NT": "T", "NTL": "TL"}.get(k, k), name)]


DECLS = '''Binde "Duden/Ausgabe" ein.

Wir nennen die öffentliche Kombination aus
	der öffentlichen Zahl x mit Standardwert 0,
	dem öffentlichen Text t mit Standardwert "",
ein Paar,
und erstellen sie so:
	"ein Paar aus <x> und <t>"

Wir definieren eine Kennung öffentlich als eine Zahl.
Wir nennen einen Text öffentlich auch einen Titel.

Die öffentliche Funktion zeige_T mit dem Parameter t vom Typ Text Referenz, gibt nichts zurück, macht:
	Schreibe den Text "T[".
	Schreibe den Text t.
	Schreibe den Text "]".
Und kann so benutzt werden:
	"zeige_T <t>"

Die öffentliche Funktion zeige_ZL mit dem Parameter l vom Typ Zahlen Listen Referenz, gibt nichts zurück, macht:
	Schreibe den Text "[".
	Schreibe die Zahl (die Länge von l).
	Schreibe den Text ":".
	Für jede Zahl i von 1 bis (die Länge von l), mache:
		Schreibe die Zahl (l an der Stelle i).
		Schreibe den Text ",".
	Schreibe den Text "]".
Und kann so benutzt werden:
	"zeige_ZL <l>"

Die öffentliche Funktion zeige_TL mit dem Parameter l vom Typ Text Listen Referenz, gibt nichts zurück, macht:
	Schreibe den Text "[".
	Schreibe die Zahl (die Länge von l).
	Schreibe den Text ":".
	Für jede Zahl i von 1 bis (die Länge von l), mache:
		zeige_T (l an der Stelle i).
		Schreibe den Text ",".
	Schreibe den Text "]".
Und kann so benutzt werden:
	"zeige_TL <l>"

Die öffentliche Funktion zeige_P mit dem Parameter p vom Typ Paar Referenz, gibt nichts zurück, macht:
	Schreibe den Text "{".
	Schreibe die Zahl (x von p).
	Schreibe den Text "|".
	zeige_T (t von p).
	Schreibe den Text "}".
Und kann so benutzt werden:
	"zeige_P <p>"

Die öffentliche Funktion zeige_V mit dem Parameter v vom Typ Variablen Referenz, gibt nichts zurück, macht:
	Wenn v eine Zahl ist, dann:
		Schreibe den Text "Z:".
		Schreibe die Zahl (v als Zahl).
	Wenn v ein Text ist, dann:
		Der Text vt ist v als Text.
		Schreibe den Text "T:".
		zeige_T vt.
	Wenn v eine Zahlen Liste ist, dann:
		Die Zahlen Liste vl ist v als Zahlen Liste.
		Schreibe den Text "L:".
		zeige_ZL vl.
Und kann so benutzt werden:
	"zeige_V <v>"

'''

def _ddp_list_helper(k):
    e = k[:-1]
    one = "(l an der Stelle i)"
    return ("Die öffentliche Funktion zeige_%s mit dem Parameter l vom Typ %s, gibt nichts zurück, macht:\n" % (k, KINDS[k]["ref"])
            + '\tSchreibe den Text "[".\n\tSchreibe die Zahl (die Länge von l).\n\tSchreibe den Text ":".\n'
            + "\tFür jede Zahl i von 1 bis (die Länge von l), mache:\n" + "".join("\t\t%s\n" % st for st in ddp_show(e, one))
            + '\t\tSchreibe den Text ",".\n\tSchreibe den Text "]".\nUnd kann so benutzt werden:\n\t"zeige_%s <l>"\n\n' % k)


DECLS += "".join(_ddp_list_helper(k) for k in ("KL", "BL", "WL", "CL", "VL", "PL", "IDL"))

PNAMES = ["pa", "pb", "pc", "pd", "pe", "pf"]


def ddp_extern_decl(fn, cfile):
    ps = fn["params"]
    s = "Die öffentliche %sFunktion %s" % ("generische " if fn.get("generic") else "", fn["name"])
    if ps:
        names = PNAMES[:len(ps)]
        types = [KINDS[k]["ref"] if r else KINDS[k]["ddp"] for k, r in ps]
        # "(<Typ>)" is accepted for by-value parameters; never for T (a parenthesised name is looked up as a declared type)
        types = [("(%s)" % t) if (not r and fn.get("paren") and i < len(fn["paren"]) and fn["paren"][i]) else t for i, ((k, r), t) in enumerate(zip(ps, types))]
        if len(ps) == 1:
            s += " mit dem Parameter %s vom Typ %s" % (names[0], types[0])
        else:
            s += " mit den Parametern %s und %s vom Typ %s und %s" % (", ".join(names[:-1]), names[-1], ", ".join(types[:-1]), types[-1])
        s += ","
    s += " gibt %s zurück,\n" % ("nichts" if fn["ret"] is None else KINDS[fn["ret"]]["ret"])
    s += 'ist in "%s" definiert\nund kann so benutzt werden:\n\t"%s"\n\n' % (cfile, " ".join([fn["name"]] + ["<%s>" % n for n in PNAMES[:len(ps)]]))
    return s


# ---- C callee ------------------------------------------------------------------------------------
C_PRELUDE = r'''/* generated by /verif/checks/c18.py against the published runtime headers */
#include "DDP/ddptypes.h"
#include "DDP/ddpmemory.h"
#include <stdint.h>
#include <stdio.h>
#include <string.h>
typedef struct { ddpint x; ddpstring t; } Paar;
extern ddpvtable ddpint_vtable, ddpstring_vtable, ddpintlist_vtable;
static void mark(size_t n) { void *m = ddp_reallocate(NULL, 0, n); ddp_reallocate(m, n, 0); }
static void pr_Z(ddpint v) { printf("%lld", (long long)v); }
static void pr_K(ddpfloat v) { uint64_t b; memcpy(&b, &v, 8); printf("%.16g/%016llx", v, (unsigned long long)b); }
static void pr_B(ddpbyte v) { printf("%u", (unsigned)v); }
static void pr_W(const void *p) { unsigned char raw; memcpy(&raw, p, 1); printf("%u", (unsigned)raw); }
static void pr_C(ddpchar v) { printf("%d", (int)v); }
static void pr_T(const ddpstring *s) {
	if (s->str == NULL) { printf(s->cap == 0 ? "T[]" : "T[!nullcap]"); return; }
	printf("T[%s]", s->str);
	if ((ddpint)strlen(s->str) + 1 > s->cap) printf("!cap");
}
static void pr_ZL(const ddpintlist *l) {
	printf("[%lld:", (long long)l->len);
	for (ddpint i = 0; i < l->len; i++) printf("%lld,", (long long)l->arr[i]);
	printf("]");
	if (l->len > l->cap || (l->cap > 0 && l->arr == NULL)) printf("!cap");
}
static void pr_TL(const ddpstringlist *l) {
	printf("[%lld:", (long long)l->len);
	for (ddpint i = 0; i < l->len; i++) { pr_T(&l->arr[i]); printf(","); }
	printf("]");
	if (l->len > l->cap || (l->cap > 0 && l->arr == NULL)) printf("!cap");
}
static void pr_P(const Paar *p) { printf("{%lld|", (long long)p->x); pr_T(&p->t); printf("}"); }
static void pr_V(const ddpany *a) {
	if (a->vtable_ptr == NULL) { printf("V:leer"); return; }
	if (a->vtable_ptr == &ddpint_vtable) { ddpint z; memcpy(&z, a->value, 8); printf("Z:"); pr_Z(z); }
	else if (a->vtable_ptr == &ddpstring_vtable) { printf("T:"); pr_T((const ddpstring *)a->value); }
	else if (a->vtable_ptr == &ddpintlist_vtable) { printf("L:"); pr_ZL((const ddpintlist *)a->value_ptr); }
	else printf("?:%lld", (long long)a->vtable_ptr->type_size);
}
/* heap blocks behind a value, reported on stderr: @<tag> <param> <ptr> <size> */
static void blk(const char *tag, int i, const void *p, long long size) { if (p) fprintf(stderr, "@%s %d %p %lld\n", tag, i, p, size); }
static void blk_T(const char *tag, int i, const ddpstring *s) { blk(tag, i, s->str, s->cap); }
static void blk_ZL(const char *tag, int i, const ddpintlist *l) { blk(tag, i, l->arr, l->cap * (long long)sizeof(ddpint)); }
static void blk_TL(const char *tag, int i, const ddpstringlist *l) {
	for (ddpint j = 0; j < l->len; j++) blk_T(tag, i, &l->arr[j]);
	blk(tag, i, l->arr, l->cap * (long long)sizeof(ddpstring));
}
static void blk_P(const char *tag, int i, const Paar *p) { blk_T(tag, i, &p->t); }
static void blk_V(const char *tag, int i, const ddpany *a) {
	if (a->vtable_ptr == &ddpstring_vtable) blk_T(tag, i, (const ddpstring *)a->value);
	else if (a->vtable_ptr == &ddpintlist_vtable) { blk_ZL(tag, i, (const ddpintlist *)a->value_ptr); blk(tag, i, a->value_ptr, (long long)sizeof(ddpintlist)); }
}
/* constructors / setters that respect the ownership rules of the runtime */
static void mk_T(ddpstring *s, const char *lit) { ddp_string_from_constant(s, (char *)lit); }
static void set_T(ddpstring *s, const char *lit) { ddp_free_string(s); mk_T(s, lit); }
static void mk_ZL(ddpintlist *l, ddpint n, const ddpint *vals) {
	if (n == 0) { *l = DDP_EMPTY_LIST(ddpintlist); return; }
	l->arr = DDP_ALLOCATE(ddpint, n); memcpy(l->arr, vals, sizeof(ddpint) * n); l->len = n; l->cap = n;
}
static void set_ZL(ddpintlist *l, ddpint n, const ddpint *vals) { ddp_free_ddpintlist(l); mk_ZL(l, n, vals); }
static void mk_TL(ddpstringlist *l, ddpint n, const char *const *vals) {
	if (n == 0) { *l = DDP_EMPTY_LIST(ddpstringlist); return; }
	l->arr = DDP_ALLOCATE(ddpstring, n); l->len = n; l->cap = n;
	for (ddpint i = 0; i < n; i++) mk_T(&l->arr[i], vals[i]);
}
static void set_TL(ddpstringlist *l, ddpint n, const char *const *vals) { ddp_free_ddpstringlist(l); mk_TL(l, n, vals); }
static void mk_P(Paar *p, ddpint x, const char *t) { p->x = x; mk_T(&p->t, t); }
static void set_P(Paar *p, ddpint x, const char *t) { p->x = x; set_T(&p->t, t); }
static void mk_VZ(ddpany *a, ddpint z) { *a = DDP_EMPTY_ANY; a->vtable_ptr = &ddpint_vtable; memcpy(a->value, &z, 8); }
static void mk_VT(ddpany *a, const char *t) { *a = DDP_EMPTY_ANY; a->vtable_ptr = &ddpstring_vtable; mk_T((ddpstring *)a->value, t); }
static void mk_VL(ddpany *a, ddpint n, const ddpint *vals) {
	*a = DDP_EMPTY_ANY; a->vtable_ptr = &ddpintlist_vtable;
	a->value_ptr = DDP_ALLOCATE(ddpintlist, 1); mk_ZL((ddpintlist *)a->value_ptr, n, vals);
}
/* scribbling over a private copy (allocation sizes unchanged) */
static void scr_T(ddpstring *s) { if (s->str && s->str[0] && (unsigned char)s->str[0] < 0x80) s->str[0] = '#'; }
static void scr_ZL(ddpintlist *l) { if (l->len > 0) l->arr[0] = 777; }
static void scr_TL(ddpstringlist *l) { if (l->len > 0) scr_T(&l->arr[0]); }
static void scr_P(Paar *p) { p->x = 777; scr_T(&p->t); }
static void scr_V(ddpany *a) {
	if (a->vtable_ptr == &ddpint_vtable) { ddpint z = 777; memcpy(a->value, &z, 8); }
	else if (a->vtable_ptr == &ddpstring_vtable) scr_T((ddpstring *)a->value);
	else if (a->vtable_ptr == &ddpintlist_vtable) scr_ZL((ddpintlist *)a->value_ptr);
}
'''


def _c_list_helpers():
    out = ["typedef struct { Paar *arr; ddpint len; ddpint cap; } PaarListe;"]
    spec = {  # elem C type, print one element, blocks of one element, release one element, scribble
        "K": ("ddpfloat", "pr_K(l->arr[i]);", None, None, "l->arr[0] = 777.0;"),
        "B": ("ddpbyte", "pr_B(l->arr[i]);", None, None, "l->arr[0] = 77;"),
        "W": ("ddpbool", "pr_W(&l->arr[i]);", None, None, "l->arr[0] = !l->arr[0];"),
        "C": ("ddpchar", "pr_C(l->arr[i]);", None, None, "l->arr[0] = '#';"),
        "V": ("ddpany", "pr_V(&l->arr[i]);", "blk_V(tag, p, &l->arr[i]);", "ddp_free_any(&l->arr[i]);", "scr_V(&l->arr[0]);"),
        "P": ("Paar", "pr_P(&l->arr[i]);", "blk_P(tag, p, &l->arr[i]);", "ddp_free_string(&l->arr[i].t);", "scr_P(&l->arr[0]);"),
    }
    for e, (et, pr, bl, fr, sc) in spec.items():
        lt, k = CLIST[e], e + "L"
        out.append("static void pr_%s(const %s *l) {\n\tprintf(\"[%%lld:\", (long long)l->len);\n\tfor (ddpint i = 0; i < l->len; i++) { %s printf(\",\"); }\n\tprintf(\"]\");\n"
                   "\tif (l->len > l->cap || (l->cap > 0 && l->arr == NULL)) printf(\"!cap\");\n}" % (k, lt, pr))
        out.append("static void blk_%s(const char *tag, int p, const %s *l) {\n%s\tblk(tag, p, l->arr, l->cap * (long long)sizeof(%s));\n}"
                   % (k, lt, ("\tfor (ddpint i = 0; i < l->len; i++) %s\n" % bl) if bl else "", et))
        out.append("static void free_%s(%s *l) {\n%s\tddp_reallocate(l->arr, sizeof(%s) * l->cap, 0);\n}"
                   % (k, lt, ("\tfor (ddpint i = 0; i < l->len; i++) %s\n" % fr) if fr else "", et))
        out.append("static void scr_%s(%s *l) { if (l->len > 0) { %s } }" % (k, lt, sc))
    return "\n".join(out) + "\n"


C_PRELUDE += _c_list_helpers()
C_ELEM = {"Z": "ddpint", "K": "ddpfloat", "B": "ddpbyte", "W": "ddpbool", "C": "ddpchar", "T": "ddpstring", "V": "ddpany", "P": "Paar", "ID": "ddpint", "NT": "ddpstring"}


def c_int(z):
    return "(-9223372036854775807LL-1)" if z == I64MIN else "%dLL" % z


def c_str(s):
    return '"' + "".join("\\x%02x" % b for b in s.encode()) + '"'


def c_make(v, dest, setter):
    """C statement storing value v into *dest (setter: release the previous content first)"""
    k, x = v
    pre = "set_" if setter else "mk_"
    if k in ("Z", "ID"):
        return "*%s = %s;" % (dest, c_int(x))
    if k == "K":
        return "*%s = %s;" % (dest, float(x).hex() if x == x else "0.0/0.0")
    if k == "B":
        return "*%s = (ddpbyte)%d;" % (dest, x)
    if k == "W":
        return "*%s = %s;" % (dest, "true" if x else "false")
    if k == "C":
        return "*%s = (ddpchar)%d;" % (dest, x)
    if k in ("T", "NT"):
        return "%sT(%s, %s);" % (pre, dest, c_str(x))
    if k in ("ZL", "IDL"):
        return "%sZL(%s, %d, (const ddpint[]){%s});" % (pre, dest, len(x), ", ".join([c_int(e) for e in x] or ["0"]))
    if k in LISTS and k not in ("TL", "NTL"):
        e = k[:-1]
        body = "".join(" " + c_make([e, ev], "(&d_->arr[%d])" % i, False) for i, ev in enumerate(x))
        return "{ %s *d_ = %s; %sd_->len = %d; d_->cap = %d; d_->arr = %s;%s }" % (
            CLIST[e], dest, ("free_%s(d_); " % k) if setter else "", len(x), len(x), ("DDP_ALLOCATE(%s, %d)" % (C_ELEM[e], len(x))) if x else "NULL", body)
    if k in ("TL", "NTL"):
        return "%sTL(%s, %d, (const char *const[]){%s});" % (pre, dest, len(x), ", ".join([c_str(e) for e in x] or ['""']))
    if k == "P":
        return "%sP(%s, %s, %s);" % (pre, dest, c_int(x[0]), c_str(x[1]))
    if k == "V":
        fr = "ddp_free_any(%s); " % dest if setter else ""
        ik, ix = x
        if ik == "Z":
            return fr + "mk_VZ(%s, %s);" % (dest, c_int(ix))
        if ik == "T":
            return fr + "mk_VT(%s, %s);" % (dest, c_str(ix))
        return fr + "mk_VL(%s, %d, (const ddpint[]){%s});" % (dest, len(ix), ", ".join([c_int(e) for e in ix] or ["0"]))
    raise ValueError(k)


def c_suffix(k):
    return {"NT": "T", "NTL": "TL", "IDL": "ZL"}.get(k, k)


def c_proto(fn):
    """prototype written from the published convention (independent of the Coq model)"""
    ps = []
    g = "_g" if fn.get("generic") else ""
    if fn["ret"] == "GL":
        ps.append("ddpgenericlist *ret_g")
    elif fn["ret"] is not None and not KINDS[fn["ret"]]["prim"]:
        ps.append("%s *ret" % KINDS[fn["ret"]]["c"])
    for (k, r), n in zip(fn["params"], PNAMES):
        if k == "GL":
            ps.append(("ddpgenericlistref %s_g" if r else "ddpgenericlist *%s_g") % n)
        elif k == "GE":
            ps.append("ddpgenericref %s_g" % n)
        elif KINDS[k]["prim"] and not r:
            ps.append("%s %s" % (KINDS[k]["c"], n))
        else:
            ps.append("%s *%s" % (KINDS[k]["c"], n))
    rt = KINDS[fn["ret"]]["c"] if fn["ret"] is not None and KINDS[fn["ret"]]["prim"] else "void"
    return "%s %s(%s)" % (rt, fn["name"], ", ".join(ps) if ps else "void")


def c_body(fn):
    """statements of a callee with concrete parameter kinds"""
    L = ["\tmark(%d);" % ENTRY_MARK, '\tfprintf(stderr, "@E 0 %s 0\\n");' % fn["name"]]
    ps = list(zip(fn["params"], PNAMES))
    for i, ((k, r), n) in enumerate(ps):
        if not KINDS[k]["prim"]:
            L.append('\tblk_%s("%s", %d, %s);' % (c_suffix(k), "R" if r else "A", i, n))

    def pr(k, r, n):
        if k == "W":
            return "pr_W(%s);" % (n if r else "&" + n)
        if KINDS[k]["prim"]:
            return "pr_%s(%s%s);" % ({"ID": "Z"}.get(k, k), "*" if r else "", n)
        return "pr_%s(%s);" % (c_suffix(k), n)
    L.append('\tprintf(">%s(");' % fn["name"])
    for (k, r), n in ps:
        L.append("\t" + pr(k, r, n) + ' printf(",");')
    L.append('\tprintf(")\\n");')
    for i, ((k, r), n) in enumerate(ps):
        if r:
            L.append("\t" + c_make(fn["newvals"][i], n, True))
            if not KINDS[k]["prim"]:
                L.append('\tblk_%s("N", %d, %s);' % (c_suffix(k), i, n))
    L.append('\tprintf("<%s(");' % fn["name"])
    for (k, r), n in ps:
        if not r and not KINDS[k]["prim"]:
            L.append("\t" + pr(k, r, n) + ' printf(",");')
    L.append('\tprintf(")\\n");')
    for (k, r), n in ps:
        if not r and not KINDS[k]["prim"]:
            L.append("\tscr_%s(%s);" % (c_suffix(k), n))
    rk = fn["ret"]
    if rk is not None and not KINDS[rk]["prim"]:
        L.append("\t" + c_make(fn["retval"], "ret", False))
        L.append('\tblk_%s("X", -1, ret);' % c_suffix(rk))
    elif rk is not None:
        L.append("\t%s rv;" % KINDS[rk]["c"])
        L.append("\t" + c_make(fn["retval"], "(&rv)", False))
    L.append("\tfflush(stdout);")
    L.append("\tmark(%d);" % EXIT_MARK)
    if rk is not None and KINDS[rk]["prim"]:
        L.append("\treturn rv;")
    return L


def c_function(fn):
    if not fn.get("generic"):
        return "\n".join([c_proto(fn) + " {"] + c_body(fn) + ["}"]) + "\n"
    # a generic callee does not know T; the first parameter (a Zahl) tells it: 0 = Zahl, otherwise Text
    L = [c_proto(fn) + " {"]
    for T, cond in (("Z", "\tif (%s == 0) {" % PNAMES[fn.get("tag", 0)]), ("T", "\t} else {")):
        rfn = resolve_fn(fn, T)
        L.append(cond)
        for ((k, r), (rk_, _)), n in zip(zip(fn["params"], rfn["params"]), PNAMES):
            if k in GENERIC_KINDS:
                L.append("\t\t%s *%s = (%s *)%s_g;" % (KINDS[rk_]["c"], n, KINDS[rk_]["c"], n))
        if fn["ret"] == "GL":
            L.append("\t\t%s *ret = (%s *)ret_g;" % (KINDS[rfn["ret"]]["c"], KINDS[rfn["ret"]]["c"]))
        L += ["\t" + l for l in c_body(rfn)]
    L += ["\t}", "}"]
    return "\n".join(L) + "\n"


# ---- signature / call generation ----------------------------------------------------------------
def sig_key(fn):
    return "%sret=%s params=%s" % ("generic " if fn.get("generic") else "", fn["ret"] or "-", ",".join(("r:" if r else "v:") + k for k, r in fn["params"]) or "-")


def model_line(fn, kinds, T=None):
    if fn.get("generic"):
        rfn = resolve_fn(fn, T)
        ps = []
        for (k, r), (rk_, _) in zip(fn["params"], rfn["params"]):
            tag = ("gr:" if r else "gv:") if k in GENERIC_KINDS else ("r:" if r else "v:")
            ps.append(tag + KINDS[rk_]["ty"])
        ret = "-" if fn["ret"] is None else (("GL:" if fn["ret"] == "GL" else "") + KINDS[rfn["ret"]]["ty"])
        return "GEN %s %s %s %s" % (fn["name"], ret, kinds or "-", " ".join(ps))
    return "%s %s %s %s" % (fn["name"], "-" if fn["ret"] is None else KINDS[fn["ret"]]["ty"], kinds or "-",
                            " ".join(("r:" if r else "v:") + KINDS[k]["ty"] for k, r in fn["params"]))


def gen_call(rng, fn):
    """one call: per parameter a mode and a value.
    by value: 'lit' (temporary / literal), 'var', 'elem' (list element), 'field' (Kombination field);
    Referenz: 'var', 'elem', 'field'. 'same:<j>' = the variable already passed for parameter j."""
    args = []
    for i, (k, r) in enumerate(fn["params"]):
        v = rnd_value(rng, k)
        modes = ["var"]
        if k in ELEMS:
            modes += ["elem"]
        if k in ("Z", "T"):
            modes += ["field"]
        if not r:
            modes += ["lit", "lit"]
        m = rng.choice(modes)
        # the same variable by value and by Referenz in one call
        if rng.random() < 0.15:
            for j in range(i):
                if fn.get("_tag", -1) in (i, j):
                    continue
                (kj, rj), aj = fn["params"][j], args[j]
                if kj == k and rj != r and aj["mode"] == "var" and not any(a["mode"] == "same:%d" % j for a in args):
                    m, v = "same:%d" % j, aj["value"]
                    break
        el = None
        if m == "elem":
            pos = rng.randrange(3)
            others = [rnd_value(rng, k)[1] for _ in range(3)]
            others[pos] = v[1]
            el = dict(pos=pos, items=others)
        elif m == "field":
            el = dict(other=(rng.choice(TEXTS) if k == "Z" else rng.choice(ZS)))
        elif m == "var" and k in LISTS and len(v[1]) >= 2 and rng.random() < 0.6:
            el = dict(grown=True)   # built by appending: capacity > length
        args.append(dict(mode=m, value=v, extra=el))
    use = "bind"
    if fn["ret"] is not None:
        use = rng.choice(["bind", "bind", "bind", "inline", "drop"])
    return dict(args=args, use=use)


def gen_function(rng, name, params, ret, ncalls=2):
    fn = dict(name=name, params=[list(p) for p in params], ret=ret)
    fn["paren"] = [(not r) and k not in GENERIC_KINDS and rng.random() < 0.12 for k, r in params]
    generic = any(k in GENERIC_KINDS for k, _ in params) or ret in GENERIC_KINDS
    if generic:
        fn["generic"] = True
        fn["tag"] = max(i for i, (k, r) in enumerate(params) if k == "Z" and not r and i in (0, len(params) - 1))
        fn["newvals"] = [({T: rnd_value(rng, resolve_kind(k, T)) for T in ("Z", "T")} if k in GENERIC_KINDS else rnd_value(rng, k)) if r else None for k, r in params]
        fn["retval"] = ({T: rnd_value(rng, resolve_kind(ret, T), ret=True) for T in ("Z", "T")} if ret in GENERIC_KINDS else rnd_value(rng, ret, ret=True)) if ret is not None else None
        fn["calls"] = []
        for n in range(ncalls):
            T = "ZT"[n % 2] if ncalls > 1 else rng.choice("ZT")
            rfn = resolve_fn(fn, T)
            rfn["_tag"] = fn["tag"]
            c = gen_call(rng, rfn)
            c["T"] = T
            c["args"][fn["tag"]] = dict(mode="lit", value=["Z", 0 if T == "Z" else 1], extra=None)   # tells the callee what T is
            fn["calls"].append(c)
        return fn
    fn["newvals"] = [rnd_value(rng, k) if r else None for k, r in params]
    fn["retval"] = rnd_value(rng, ret, ret=True) if ret is not None else None
    fn["calls"] = [gen_call(rng, fn) for _ in range(ncalls)]
    return fn


def gen_generic_signatures(rng, n):
    """generic extern signatures: the first or the last parameter is a Zahl (tells the C callee what T is), the others
    include at least one that mentions T: "T Liste" by value, "T Listen Referenz", "T Referenz"."""
    GLv, GLr, GEr = ("GL", False), ("GL", True), ("GE", True)
    forms = [[GLv], [GLr], [GEr], [GLv, GLr], [GLv, GEr], [GLr, GLv], [("T", False), GLv], [GLv, ("ZL", False)], [GLv, GLv],
             [("TL", True), GLv, GEr], [GEr, GLv, ("P", False)]]
    rets = ["T", None, "Z", "GL", "ZL", "W", "P", "V", "GL", "TL", "K"]   # GL: "eine T Liste" as result
    out = []
    for i, f in enumerate(forms):
        for j in range(2):
            out.append(([("Z", False)] + f if j == 0 else f + [("Z", False)], rets[(2 * i + j) % len(rets)]))
    pool = [GLv, GLv, GLv, GLr, GEr] + [(k, ref) for k in CORE for ref in (False, True)]
    while len(out) < n:
        ps = [rng.choice(pool) for _ in range(rng.choice([1, 2, 3, 4, 5]))]
        if not any(k in GENERIC_KINDS for k, _ in ps):
            ps[rng.randrange(len(ps))] = rng.choice([GLv, GLv, GLr, GEr])
        out.append(([("Z", False)] + ps if rng.random() < 0.5 else ps + [("Z", False)], rng.choice(CORE + [None, None, "GL", "GL"])))
    return out[:max(n, 2 * len(forms))]


def gen_signatures(rng, n):
    """systematic part (every kind by value and by Referenz, every result kind, arity 0 and 1) + random arities 2..6"""
    rets = CORE + [None, "ID", "NT"] + MORE_LISTS
    out = []
    for r in rets:
        out.append(([], r))
    pk = [(k, ref) for k in ALLK for ref in (False, True)]
    for i, p in enumerate(pk):
        out.append(([p], rets[i % len(rets)]))
    # every core kind by value and by Referenz at the last position behind an out-pointer and without
    for i, p in enumerate(pk):
        out.append(([rng.choice(pk), p], rets[(i * 5 + 3) % len(rets)]))
    while len(out) < n:
        ar = rng.choice([2, 3, 3, 4, 4, 5, 6, 6])
        pool = [(k, ref) for k in (CORE * 3 + ["ID", "NT"] + MORE_LISTS) for ref in (False, True)]
        out.append(([rng.choice(pool) for _ in range(ar)], rng.choice(CORE * 2 + [None, None, "ID", "NT"] + MORE_LISTS)))
    return out[:max(n, len(rets) + 2 * len(pk))]


# ---- DDP caller + expected output -----------------------------------------------------------------
def build_caller(group, in_function):
    """statements of the caller and the expected stdout, plus per call the data the ledger judgement needs"""
    stm, exp, calls = [], [], []
    cn = 0
    for gfn in group:
        for call in gfn["calls"]:
            fn = resolve_fn(gfn, call.get("T"))
            cn += 1
            pre = "c%d" % cn
            decl, argx, dumps = [], [], []      # declarations, argument expressions, (label, kind, name, value_after)
            entry_vals, kinds = [], ""
            varname = {}
            for i, ((k, r), a) in enumerate(zip(fn["params"], call["args"])):
                v, m = a["value"], a["mode"]
                after = fn["newvals"][i] if r else v
                nm = "%s_%s" % (pre, PNAMES[i])
                temp = False
                if m == "lit":
                    argx.append(ddp_expr(v))
                    temp = not KINDS[k]["prim"]
                elif m == "var":
                    if a.get("extra") and a["extra"].get("grown"):
                        decl.append("%s %s ist %s." % (KINDS[k]["decl"], nm, ddp_expr([k, v[1][:1]], top=True)))
                        for e_ in v[1][1:]:
                            decl.append("Speichere %s verkettet mit %s in %s." % (nm, ddp_expr([k[:-1], e_]), nm))
                    else:
                        decl.append("%s %s ist %s." % (KINDS[k]["decl"], nm, ddp_expr(v, top=True)))
                    argx.append(nm)
                    varname[i] = nm
                    dumps.append([nm, k, nm, after, i])
                elif m.startswith("same:"):
                    j = int(m[5:])
                    argx.append(varname[j])
                    # the variable is dumped once; its final value is the Referenz side's new value
                    for d in dumps:
                        if d[4] == j:
                            d[3] = fn["newvals"][i] if r else fn["newvals"][j]
                elif m == "elem":
                    lk = k + "L"
                    items = list(a["extra"]["items"])
                    decl.append("%s %s ist %s." % (KINDS[lk]["decl"], nm, ddp_expr([lk, items], top=True)))
                    argx.append("(%s an der Stelle %d)" % (nm, a["extra"]["pos"] + 1))
                    items2 = list(items)
                    items2[a["extra"]["pos"]] = after[1]
                    dumps.append([nm, lk, nm, [lk, items2], i])
                elif m == "field":
                    o = a["extra"]["other"]
                    pv = [v[1], o] if k == "Z" else [o, v[1]]
                    decl.append("%s %s ist %s." % (KINDS["P"]["decl"], nm, ddp_expr(["P", pv], top=True)))
                    argx.append("(%s von %s)" % ("x" if k == "Z" else "t", nm))
                    pv2 = [after[1], o] if k == "Z" else [o, after[1]]
                    dumps.append([nm, "P", nm, ["P", pv2], i])
                entry_vals.append(v)
                kinds += "t" if temp else "v"
            callx = " ".join([fn["name"]] + argx)
            rk = fn["ret"]
            body = list(decl)
            line = ""
            if rk is None:
                body.append("%s." % callx)
            elif call["use"] == "bind":
                body.append("%s %s_r ist (%s)." % (KINDS[rk]["decl"], pre, callx))
                body.append('Schreibe den Text "r=".')
                body += ddp_show(rk, pre + "_r")
                line += "r=" + render(fn["retval"], "d")
            elif call["use"] == "inline":
                # the result is consumed as a temporary by another expression
                cx = "(%s)" % callx
                if rk in ("Z", "K", "B", "W", "C"):
                    body.append(ddp_show(rk, cx)[0])
                    line += render(fn["retval"], "d")
                elif rk == "ID":
                    body.append("Schreibe die Zahl (%s als Zahl)." % cx)
                    line += render(fn["retval"], "d")
                elif rk in ("T", "NT"):
                    body.append("Schreibe den Text %s." % cx)
                    line += fn["retval"][1]
                elif rk in LISTS:
                    body.append("Schreibe die Zahl (die Länge von %s)." % cx)
                    line += "%d" % len(fn["retval"][1])
                elif rk == "P":
                    body.append("Schreibe die Zahl (x von %s)." % cx)
                    line += "%d" % fn["retval"][1][0]
                else:  # Variable: type test consumes the temporary
                    body.append("Schreibe den Wahrheitswert (%s eine Zahl ist)." % cx)
                    line += "wahr" if fn["retval"][1][0] == "Z" else "falsch"
                body.append('Schreibe den Text "=i".')
                line += "=i"
            else:  # drop: expression statement, the result must still be released
                body.append("%s." % callx)
            for (label, k, name, after, _) in dumps:
                body.append('Schreibe den Text ";%s=".' % label)
                body += ddp_show(k, name)
                line += ";%s=%s" % (label, render(after, "d"))
            body.append('Schreibe den Text "\\n".')
            stm += body
            exp.append(">%s(%s)" % (fn["name"], "".join(render(v, "c") + "," for v in entry_vals)))
            exp.append("<%s(%s)" % (fn["name"], "".join(render(a["value"], "c") + "," for (k, r), a in zip(fn["params"], call["args"]) if not r and not KINDS[k]["prim"])))
            exp.append(line)
            byval = [(i, nblocks(a["value"])) for i, ((k, r), a) in enumerate(zip(fn["params"], call["args"])) if not r and not KINDS[k]["prim"]]
            calls.append(dict(fn=gfn, T=call.get("T"), call=call, kinds=kinds, byval=byval, retblocks=(nblocks(fn["retval"]) if rk is not None else 0), n=cn))
    if in_function:
        text = "Die Funktion lauf gibt nichts zurück, macht:\n" + "".join("\t" + s + "\n" for s in stm) + 'Und kann so benutzt werden:\n\t"lauf_los"\n\nlauf_los.\n'
    else:
        text = "".join(s + "\n" for s in stm)
    return text, "\n".join(exp) + "\n", calls


# ---- ledger ---------------------------------------------------------------------------------------
def parse_ledger(path):
    ev = []
    try:
        for l in open(path):
            f = l.split()
            if len(f) == 4:
                ev.append((f[0], int(f[1]), int(f[2]), f[3]))
    except OSError:
        return None
    return ev


def judge_ledger(ev, stderr_text, calls):
    """returns (spec_errors, model_errors). spec: balance, exactly-once with true size, by-value argument blocks
    released after the call, result blocks owned by the caller. model: the releases of the by-value argument blocks
    are the first events after the call, in parameter order."""
    spec, model = [], []
    live = {}
    alloc_at, free_at = {}, {}
    entries, exits = [], []
    for idx, (p, old, new, res) in enumerate(ev):
        if p == "(nil)" and old == 0:
            if new == 0:
                continue
            if res in live:
                spec.append("allocator returned live block %s at event %d" % (res, idx))
            live[res] = new
            alloc_at[(res, idx)] = new
            if new == ENTRY_MARK:
                entries.append(idx)
            if new == EXIT_MARK:
                exits.append(idx)
            continue
        if p not in live:
            spec.append("event %d: release/resize of %s (size %d) which is not a live block (double free or foreign pointer)" % (idx, p, old))
            continue
        if live[p] != old:
            spec.append("event %d: block %s has size %d but is released/resized with size %d" % (idx, p, live[p], old))
        del live[p]
        if new != 0:
            live[res] = new
    if live:
        spec.append("%d block(s) never released: %s" % (len(live), sorted(live.items())[:4]))
    # per-call records from stderr
    recs, cur = [], None
    for l in stderr_text.splitlines():
        if not l.startswith("@"):
            continue
        f = l.split()
        if f[0] == "@E":
            cur = dict(name=f[2], A=[], R=[], N=[], X=[])
            recs.append(cur)
        elif cur is not None and f[0][1:] in ("A", "R", "N", "X"):
            cur[f[0][1:]].append((int(f[1]), f[2], int(f[3])))
    if len(recs) != len(calls) or len(entries) != len(calls) or len(exits) != len(calls):
        spec.append("expected %d calls, callee reported %d, ledger has %d entry / %d exit markers" % (len(calls), len(recs), len(entries), len(exits)))
        return spec, model

    def events_of(ptr, lo, hi):
        return [i for i in range(lo, hi) if ev[i][0] == ptr and not (ev[i][0] == "(nil)")]
    for c, rec, e, x in zip(calls, recs, entries, exits):
        nxt = len(ev)
        what = "call %d of %s" % (c["n"], sig_key(c["fn"]))
        want = sum(nb for _, nb in c["byval"])
        if len(rec["A"]) != want:
            spec.append("%s: callee saw %d heap blocks behind its by-value arguments, the passed values own %d" % (what, len(rec["A"]), want))
        # every by-value block: allocated before the call, untouched during it, released exactly once after it
        afterx = x + 2  # the exit marker is an allocation followed by its release
        for (pi, ptr, size) in rec["A"]:
            during = events_of(ptr, e, afterx)
            if during:
                spec.append("%s: block %s of by-value argument %d is released/resized during the call" % (what, ptr, pi))
                continue
            later = events_of(ptr, afterx, nxt)
            if not later:
                spec.append("%s: block %s (size %d) of by-value argument %d is never released by the caller" % (what, ptr, size, pi))
                continue
            f = ev[later[0]]
            if f[2] != 0 or f[1] != size:
                spec.append("%s: block %s of by-value argument %d: next event after the call is %s, expected a release of size %d" % (what, ptr, pi, f, size))
        # model: these releases are the first (non-empty) events after the call, in parameter order
        k = afterx
        got_order = []
        aset = {ptr: pi for (pi, ptr, size) in rec["A"]}
        seen = 0
        while k < len(ev) and seen < len(rec["A"]):
            p, old, new, res = ev[k]
            k += 1
            if p == "(nil)" and old == 0 and new == 0:
                continue
            if new == 0 and p in aset:
                got_order.append(aset[p])
                seen += 1
                continue
            model.append("%s: event %s interleaves the caller-side releases (released so far: %s)" % (what, ev[k - 1], got_order))
            break
        if got_order != sorted(got_order):
            model.append("%s: by-value arguments are released in the order %s, the model releases in parameter order" % (what, got_order))
        # result blocks: created during the call, not released together with the arguments
        if len(rec["X"]) != c["retblocks"]:
            spec.append("%s: result owns %d block(s), expected %d" % (what, len(rec["X"]), c["retblocks"]))
        for (_, ptr, size) in rec["X"]:
            if any(ev[i][0] == ptr for i in range(afterx, min(k, len(ev)))):
                spec.append("%s: result block %s is released together with the arguments" % (what, ptr))
    return spec, model


# ---- textual IR -----------------------------------------------------------------------------------
def ir_types(text):
    defs = {}
    for m in re.finditer(r"^(%[\w.\-]+) = type (.*)$", text, re.M):
        defs[m.group(1)] = m.group(2).strip()
    return defs


def ir_resolve(t, defs, depth=0):
    """structural form of an LLVM type as the model driver prints it"""
    t = t.strip()
    if depth > 12:
        return "?"
    n = 0
    while t.endswith("*"):
        t = t[:-1].strip()
        n += 1
    if t.startswith("{"):
        inner = t[1:t.rindex("}")]
        parts, d, cur = [], 0, ""
        for ch in inner:
            if ch in "{[(":
                d += 1
            if ch in "}])":
                d -= 1
            if ch == "," and d == 0:
                parts.append(cur)
                cur = ""
            else:
                cur += ch
        if cur.strip():
            parts.append(cur)
        base = "{" + ",".join(ir_resolve(p, defs, depth + 1) for p in parts) + "}"
    elif t.startswith("["):
        m = re.match(r"\[(\d+) x (.*)\]$", t)
        base = "[%s x %s]" % (m.group(1), ir_resolve(m.group(2), defs, depth + 1))
    elif t.startswith("%"):
        base = ir_resolve(defs.get(t, "?"), defs, depth + 1) if t in defs else "?" + t
    else:
        base = t
    return base + "*" * n


def ir_signature(text, name, defs):
    m = re.search(r"^declare\s+(?:[a-z_]+\s+)*?([^@\n]*?)\s*@%s\((.*)\)" % re.escape(name), text, re.M)
    if not m:
        return None
    ret = m.group(1).strip().split()[-1] if m.group(1).strip() else "void"
    params, d, cur = [], 0, ""
    for ch in m.group(2):
        if ch in "{[(":
            d += 1
        if ch in "}])":
            d -= 1
        if ch == "," and d == 0:
            params.append(cur)
            cur = ""
        else:
            cur += ch
    if cur.strip():
        params.append(cur)
    # drop parameter attributes / names
    clean = []
    for p in params:
        toks = p.strip().split()
        ty = toks[0]
        i = 1
        while i < len(toks) and (ty.count("{") > ty.count("}") or ty.count("[") > ty.count("]") or toks[i] in ("x",) or toks[i - 1] == "x"):
            ty += " " + toks[i]
            i += 1
        clean.append(ir_resolve(ty, defs))
    return "%s (%s)" % (ir_resolve(ret, defs), ";".join(clean))


def abi_top(sig):
    """register-level view of a printed signature: every pointer is just a pointer"""
    m = re.match(r"(.*?) \((.*)\)$", sig)
    if not m:
        return sig
    def cls(t):
        return "ptr" if t.endswith("*") else t
    return "%s (%s)" % (cls(m.group(1)), ";".join(cls(p) for p in m.group(2).split(";") if p))


# ---- regenerated tables (coq/Gen/AbiTables.v) --------------------------------------------------------
C_BASE = {"int64_t": "CInt64", "double": "CDouble", "uint8_t": "CUInt8", "bool": "CBool", "int32_t": "CInt32", "char": "CChar", "void": "CVoid", "ddpvtable": "CVtable"}
GO_BASE = {"i64": "LI64", "types.I64": "LI64", "types.Double": "LDouble", "i8": "LI8", "types.I8": "LI8", "types.I1": "LI1", "i32": "LI32", "types.I32": "LI32"}
PRIMS = [("PZahl", "ddpint"), ("PKommazahl", "ddpfloat"), ("PByte", "ddpbyte"), ("PWahrheitswert", "ddpbool"), ("PBuchstabe", "ddpchar")]


def _strip_c_comments(t):
    t = re.sub(r"/\*.*?\*/", "", t, flags=re.S)
    return re.sub(r"//[^\n]*", "", t)


def translate_abi_tables():
    """re-extracts from /repo the finite tables the model depends on: the five typedefs and the struct bodies of
    ddptypes.h, the primitive IR types of helper.go and the struct bodies the compiler builds. Returns (text, error)."""
    try:
        hdr = _strip_c_comments(open(os.path.join(vlib.REPO, "lib/runtime/include/DDP/ddptypes.h")).read())
        helper = open(os.path.join(vlib.REPO, "src/compiler/helper.go")).read()
        irs = open(os.path.join(vlib.REPO, "src/compiler/ir_string_type.go")).read()
        ira = open(os.path.join(vlib.REPO, "src/compiler/ir_any_type.go")).read()
        irl = open(os.path.join(vlib.REPO, "src/compiler/list_types.go")).read()
        irk = open(os.path.join(vlib.REPO, "src/compiler/ir_struct_type.go")).read()
    except OSError as e:
        return None, "source file missing: %s" % e
    # -- header typedefs
    tdef = {}
    for m in re.finditer(r"typedef\s+(\w+)\s+(ddpint|ddpfloat|ddpbyte|ddpbool|ddpchar)\s*;", hdr):
        tdef[m.group(2)] = m.group(1)
    for _, n in PRIMS:
        if tdef.get(n) not in C_BASE:
            return None, "ddptypes.h: typedef of %s not understood (%r)" % (n, tdef.get(n))
    macro = dict(re.findall(r"#define\s+(\w+)\s+(\d+)\s*$", hdr, re.M))

    def cexpr(base, stars):
        if base in tdef:
            t = C_BASE[tdef[base]]
        elif base in C_BASE:
            t = C_BASE[base]
        else:
            return None
        for _ in range(stars):
            t = "CPtr %s" % t if " " not in t else "CPtr (%s)" % t
        return t
    structs = {}
    for m in re.finditer(r"typedef\s+struct\s*\{(.*?)\}\s*(\w+)\s*;", hdr, re.S):
        body, name = m.group(1), m.group(2)
        fields, depth, cur = [], 0, ""
        for ch in body:
            if ch == "{":
                depth += 1
            if ch == "}":
                depth -= 1
            if ch == ";" and depth == 0:
                fields.append(" ".join(cur.split()))
                cur = ""
            else:
                cur += ch
        structs[name] = [f for f in fields if f]

    def names_of(fs):
        return [f.split()[-1].lstrip("*") for f in fs]

    def field(f, elem=None):
        u = re.match(r"union \{ void \*(\w+); uint8_t (\w+)\[(\w+)\]; \}$", f)
        if u:
            n = u.group(3)
            n = int(macro.get(n, n)) if (macro.get(n, n)).isdigit() else -1
            return "CAnyUnion" if n == 16 else None
        m2 = re.match(r"(?:const )?(\w+) ?(\**) ?(\w+)$", f)
        if not m2:
            return None
        if elem is not None and m2.group(1) == elem[0] and m2.group(2) == "*":
            return "CPtr e"
        return cexpr(m2.group(1), len(m2.group(2)))
    out = {}
    for name in ("ddpstring", "ddpany"):
        if name not in structs:
            return None, "ddptypes.h: struct %s not found" % name
        fs = [field(f) for f in structs[name]]
        if None in fs:
            return None, "ddptypes.h: field of %s not understood: %s" % (name, structs[name])
        out[name] = fs
    if "ddpgenericlist" not in structs:
        return None, "ddptypes.h: struct ddpgenericlist not found"
    gl = [field(f) for f in structs["ddpgenericlist"]]
    if None in gl or names_of(structs["ddpgenericlist"]) != ["arr", "len", "cap"]:
        return None, "ddptypes.h: ddpgenericlist not understood: %s" % structs["ddpgenericlist"]
    out["genericlist"] = [g if " " not in g or g.startswith("CPtr C") and g.count(" ") == 1 else g for g in gl]
    shapes = set()
    for lname, ename in (("ddpintlist", "ddpint"), ("ddpfloatlist", "ddpfloat"), ("ddpbytelist", "ddpbyte"), ("ddpboollist", "ddpbool"),
                         ("ddpcharlist", "ddpchar"), ("ddpstringlist", "ddpstring"), ("ddpanylist", "ddpany")):
        if lname not in structs:
            return None, "ddptypes.h: struct %s not found" % lname
        fs = [field(f, elem=(ename,)) for f in structs[lname]]
        if None in fs:
            return None, "ddptypes.h: field of %s not understood: %s" % (lname, structs[lname])
        shapes.add(tuple(fs))
    if len(shapes) != 1:
        return None, "ddptypes.h: the list structs do not share one shape: %s" % sorted(shapes)
    out["list"] = list(shapes.pop())
    # -- compiler
    gop = {}
    for _, n in PRIMS:
        m = re.search(r"^\s*%s\s*=\s*([\w.]+)\s*$" % n, helper, re.M)
        if not m or m.group(1) not in GO_BASE:
            return None, "helper.go: IR type of %s not understood" % n
        gop[n] = GO_BASE[m.group(1)]
    if not re.search(r"^\s*i8ptr\s*=\s*ptr\(i8\)\s*$", helper, re.M) or not re.search(r"^\s*i8\s*=\s*types\.I8\s*$", helper, re.M):
        return None, "helper.go: i8ptr is no longer ptr(types.I8)"

    def go_struct(text, anchor):
        i = text.find(anchor)
        if i < 0:
            return None
        j = text.find("types.NewStruct(", i)
        if j < 0 or j - i > 200:
            return None
        k, depth = j + len("types.NewStruct("), 1
        start = k
        while k < len(text) and depth:
            depth += text[k] == "("
            depth -= text[k] == ")"
            k += 1
        body = re.sub(r"//[^\n]*", "", text[start:k - 1])
        parts, depth, cur = [], 0, ""
        for ch in body:
            depth += ch == "("
            depth -= ch == ")"
            if ch == "," and depth == 0:
                parts.append(cur.strip())
                cur = ""
            else:
                cur += ch
        if cur.strip():
            parts.append(cur.strip())
        return parts
    arr = re.search(r"any_value_type\s*=\s*types\.NewArray\((\d+),\s*(\w+)\)", ira)

    def goexpr(tok):
        if tok == "i8ptr":
            return "LPtr LI8"
        if tok in gop:
            return gop[tok]
        if tok in GO_BASE:
            return GO_BASE[tok]
        if tok == "any_value_type" and arr and arr.group(2) in GO_BASE:
            return "LArray %s %s" % (arr.group(1), GO_BASE[arr.group(2)])
        if tok == "list.elementType.PtrType()":
            return "LPtr e"
        return None
    gout = {}
    try:
        irg = open(os.path.join(vlib.REPO, "src/compiler/ir_generic_list_type.go")).read()
    except OSError as e:
        return None, "source file missing: %s" % e
    for key, text, anchor in (("ddpstring", irs, 'NewTypeDef("ddpstring"'), ("ddpany", ira, 'NewTypeDef("ddpany"'), ("list", irl, "list.typ = c.mod.NewTypeDef(name"),
                              ("genericlist", irg, 'NewTypeDef("ddpgenericlist"')):
        parts = go_struct(text, anchor)
        if not parts:
            return None, "compiler: construction of the %s struct type not found" % key
        fs = [goexpr(t) for t in parts]
        if None in fs:
            return None, "compiler: field of the %s struct type not understood: %s" % (key, parts)
        gout[key] = fs
    if not re.search(r"types\.NewStruct\(\s*mapSlice\(structType\.fieldIrTypes, func\(t ddpIrType\) types\.Type \{ return t\.IrType\(\) \}\)\.\.\.", irk):
        return None, "ir_struct_type.go: a Kombination is no longer the struct of its field types in declaration order"
    # -- field roles: position of each named field in the header struct / index constant of the compiler
    def names(sname):
        out_ = []
        for f in structs[sname]:
            u = re.match(r"union \{ void \*(\w+); uint8_t (\w+)\[(\w+)\]; \}$", f)
            out_.append(u.group(2) if u else f.split()[-1].lstrip("*"))
        return out_
    roles_h = {}
    ln = [names(l) for l in ("ddpintlist", "ddpfloatlist", "ddpbytelist", "ddpboollist", "ddpcharlist", "ddpstringlist", "ddpanylist")]
    if any(x != ln[0] for x in ln) or sorted(ln[0]) != ["arr", "cap", "len"]:
        return None, "ddptypes.h: list structs do not have the fields arr, len, cap in one common order: %s" % ln
    roles_h["list"] = [ln[0].index(r) for r in ("arr", "len", "cap")]
    sn, an = names("ddpstring"), names("ddpany")
    if sorted(sn) != ["cap", "str"] or sorted(an) != ["value", "vtable_ptr"]:
        return None, "ddptypes.h: unexpected fields in ddpstring/ddpany: %s %s" % (sn, an)
    roles_h["string"] = [sn.index("str"), sn.index("cap")]
    roles_h["any"] = [an.index("vtable_ptr"), an.index("value")]
    roles_g = {}
    for key, text, consts in (("list", irl, ("list_arr_field_index", "list_len_field_index", "list_cap_field_index")),
                              ("string", irs, ("string_str_field_index", "string_cap_field_index")),
                              ("any", ira, ("any_vtable_ptr_index", "any_value_index"))):
        vals = []
        for cst in consts:
            m = re.search(r"^\s*%s\s*=\s*(\d+)\s*$" % cst, text, re.M)
            if not m:
                return None, "compiler: constant %s not found" % cst
            vals.append(int(m.group(1)))
        roles_g[key] = vals
    lines = ["(* GENERATED by checks/c18.py (translate_abi_tables) from /repo on every run - do not edit.",
             "   Sources: lib/runtime/include/DDP/ddptypes.h, src/compiler/helper.go, ir_string_type.go, ir_any_type.go, list_types.go *)",
             "From Coq Require Import List.", "Import ListNotations.", "From DDP Require Import Lower.AbiTypes.", ""]
    lines.append("Definition hdr_prim (p : prim) : cty :=\n  match p with " + " | ".join("%s => %s" % (c, C_BASE[tdef[n]]) for c, n in PRIMS) + " end.")
    lines.append("Definition hdr_string_fields : list cty := [%s]." % "; ".join(out["ddpstring"]))
    lines.append("Definition hdr_any_fields : list cty := [%s]." % "; ".join(out["ddpany"]))
    lines.append("Definition hdr_list_fields (e : cty) : list cty := [%s]." % "; ".join(out["list"]))
    lines.append("Definition hdr_genericlist_fields : list cty := [%s]." % "; ".join(out["genericlist"]))
    lines.append("Definition go_genericlist_fields : list llty := [%s]." % "; ".join(gout["genericlist"]))
    lines.append("Definition go_prim (p : prim) : llty :=\n  match p with " + " | ".join("%s => %s" % (c, gop[n]) for c, n in PRIMS) + " end.")
    lines.append("Definition go_string_fields : list llty := [%s]." % "; ".join(gout["ddpstring"]))
    lines.append("Definition go_any_fields : list llty := [%s]." % "; ".join(gout["ddpany"]))
    lines.append("Definition go_list_fields (e : llty) : list llty := [%s]." % "; ".join(gout["list"]))
    lines.append("(* position of the fields (arr, len, cap) / (str, cap) / (vtable_ptr, value): header order vs. the compiler's *_field_index constants *)")
    for key in ("list", "string", "any"):
        lines.append("Definition hdr_%s_roles : list nat := [%s]." % (key, "; ".join(map(str, roles_h[key]))))
        lines.append("Definition go_%s_roles : list nat := [%s]." % (key, "; ".join(map(str, roles_g[key]))))
    return "\n".join(lines) + "\n", None


def regen_abi_tables(ck):
    text, err = translate_abi_tables()
    if err:
        ck.broken_obligation("translator for Gen/AbiTables.v: " + err, "")
        return False
    path = os.path.join(vlib.COQ, "Gen", "AbiTables.v")
    old = open(path).read() if os.path.exists(path) else ""
    if text != old:
        log("[gen] Gen/AbiTables.v changed -> rebuilding dependants")
        open(path, "w").write(text)
    return True


# ---- header probe -----------------------------------------------------------------------------------
HEADER_FIELDS = {
    "ddpstring": ["str", "cap"], "ddpany": ["vtable_ptr", None], "ddpintlist": ["arr", "len", "cap"],
    "ddpstringlist": ["arr", "len", "cap"],
}


def header_probe(b, sc, model):
    """ties c_ty of the model to the real header: for every kind, static assertions (compiled with gcc against
    /repo's ddptypes.h) that the header type has exactly the fields the model says, at the offsets and with the
    types the model says. Returns error text or None."""
    q = "".join("TY %s\n" % KINDS[k]["ty"] for k in ALLK)
    out = subprocess.run([model], input=q, capture_output=True, text=True, timeout=60).stdout.splitlines()
    if len(out) != len(ALLK) or not all(l.startswith("TY ") for l in out):
        return "the extracted model driver gave no representation table"
    ctext = {k: l.split(" | ")[1] for k, l in zip(ALLK, out)}
    names = {"struct{char*;int64_t;}": "ddpstring", "struct{ddpvtable*;union{void*;uint8_t[16];};}": "ddpany"}

    def fields(s):
        inner = s[len("struct{"):-1]
        parts, d, cur = [], 0, ""
        for ch in inner:
            if ch == "{":
                d += 1
            if ch == "}":
                d -= 1
            if ch == ";" and d == 0:
                parts.append(cur)
                cur = ""
            else:
                cur += ch
        return parts
    L = ['#include "DDP/ddptypes.h"', "#include <stddef.h>", "typedef struct { ddpint x; ddpstring t; } Paar;",
         "#define SAME(a, b) _Static_assert(__builtin_types_compatible_p(a, b), #a \" is not \" #b)"]
    prim = {"Z": "ddpint", "K": "ddpfloat", "B": "ddpbyte", "W": "ddpbool", "C": "ddpchar"}
    for k, hdr in prim.items():
        L.append("SAME(%s, %s);" % (hdr, ctext[k]))

    def ctype_name(t):
        # model text of a field type -> C type expression (named header structs for nested structs)
        stars = len(t) - len(t.rstrip("*"))
        base = t.rstrip("*")
        if base.startswith("struct{"):
            if base not in names:
                return None
            base = names[base]
        return base + "*" * stars
    gq = subprocess.run([model], input="GEN x - vv gv:L(Z) gr:Z\n", capture_output=True, text=True, timeout=60).stdout
    gm = re.search(r"\| C x void \((struct\{.*\})\*;([^;]*)\) \|", gq)
    if not gm or gm.group(2) != "void*":
        return "the extracted model gives no published signature for generic parameters: %r" % gq[:200]
    ctext["GLIST"] = gm.group(1)
    for k, hdr, fnames in (("T", "ddpstring", ["str", "cap"]), ("ZL", "ddpintlist", ["arr", "len", "cap"]),
                           ("TL", "ddpstringlist", ["arr", "len", "cap"]), ("V", "ddpany", ["vtable_ptr", "value"]),
                           ("KL", "ddpfloatlist", ["arr", "len", "cap"]), ("BL", "ddpbytelist", ["arr", "len", "cap"]), ("WL", "ddpboollist", ["arr", "len", "cap"]),
                           ("CL", "ddpcharlist", ["arr", "len", "cap"]), ("VL", "ddpanylist", ["arr", "len", "cap"]),
                           ("GLIST", "ddpgenericlist", ["arr", "len", "cap"])):
        fs = fields(ctext[k])
        if len(fs) != len(fnames):
            return "model %s has %d fields, header %s has %d" % (k, len(fs), hdr, len(fnames))
        off = 0
        for f, fn_ in zip(fs, fnames):
            if f.startswith("union{"):
                L.append("_Static_assert(sizeof(((%s *)0)->%s) == 16, \"%s.%s\");" % (hdr, fn_, hdr, fn_))
                L.append("_Static_assert(sizeof(((%s *)0)->value_ptr) == 8 && offsetof(%s, value_ptr) == offsetof(%s, value), \"union\");" % (hdr, hdr, hdr))
                size = 16
            else:
                ct = ctype_name(f)
                if ct is None:
                    return "model field type %s has no header name" % f
                L.append("SAME(__typeof__(((%s *)0)->%s), %s);" % (hdr, fn_, ct))
                size = 8
            L.append("_Static_assert(offsetof(%s, %s) == %d, \"offset of %s.%s\");" % (hdr, fn_, off, hdr, fn_))
            off += size
        L.append("_Static_assert(sizeof(%s) == %d, \"sizeof %s\");" % (hdr, off, hdr))
    if ctext["P"] != "struct{int64_t;struct{char*;int64_t;};}" or ctext["ID"] != ctext["Z"] or ctext["NT"] != ctext["T"]:
        return "model representation of Kombination / typedef / alias changed: %s" % ctext
    L.append("_Static_assert(offsetof(Paar, x) == 0 && offsetof(Paar, t) == 8 && sizeof(Paar) == 24, \"Paar\");")
    L.append("SAME(ddpintref, ddpint *); SAME(ddpfloatref, ddpfloat *); SAME(ddpbyteref, ddpbyte *); SAME(ddpboolref, ddpbool *);")
    L.append("SAME(ddpgenericref, void *); SAME(ddpgenericlistref, ddpgenericlist *);")
    L.append("SAME(ddpcharref, ddpchar *); SAME(ddpstringref, ddpstring *); SAME(ddpanyref, ddpany *); SAME(ddpintlistref, ddpintlist *); SAME(ddpstringlistref, ddpstringlist *);")
    src = os.path.join(sc, "probe.c")
    open(src, "w").write("\n".join(L) + "\n")
    p = subprocess.run(["gcc", "-std=gnu11", "-c", "-I" + os.path.join(vlib.REPO, "lib/runtime/include"), src, "-o", src + ".o"], capture_output=True, text=True)
    if p.returncode != 0:
        return "header probe fails: " + p.stderr[-1500:]
    return None


def c_proto_from_model(fn, cpart):
    """the model's c_sig text -> prototype with header names, comparable with c_proto(fn)"""
    m = re.match(r"C (\S+) (\S+) \((.*)\)$", cpart.strip())
    if not m:
        return None
    sub = [("struct{void*;int64_t;int64_t;}", "ddpgenericlist"), ("struct{struct{char*;int64_t;}*;int64_t;int64_t;}", "ddpstringlist"), ("struct{int64_t*;int64_t;int64_t;}", "ddpintlist"),
           ("struct{struct{ddpvtable*;union{void*;uint8_t[16];};}*;int64_t;int64_t;}", "ddpanylist"), ("struct{struct{int64_t;struct{char*;int64_t;};}*;int64_t;int64_t;}", "PaarListe"),
           ("struct{double*;int64_t;int64_t;}", "ddpfloatlist"), ("struct{uint8_t*;int64_t;int64_t;}", "ddpbytelist"), ("struct{bool*;int64_t;int64_t;}", "ddpboollist"),
           ("struct{int32_t*;int64_t;int64_t;}", "ddpcharlist"),
           ("struct{int64_t;struct{char*;int64_t;};}", "Paar"), ("struct{ddpvtable*;union{void*;uint8_t[16];};}", "ddpany"), ("struct{char*;int64_t;}", "ddpstring"),
           ("int64_t", "ddpint"), ("double", "ddpfloat"), ("uint8_t", "ddpbyte"), ("bool", "ddpbool"), ("int32_t", "ddpchar")]

    def nm(t):
        for a, b_ in sub:
            t = re.sub(r"\b%s\b" % a, b_, t) if re.match(r"^\w+$", a) else t.replace(a, b_)
        return t
    ps = [p for p in nm(m.group(3)).split(";") if p]
    return "%s %s(%s)" % (nm(m.group(2)), m.group(1), ", ".join(ps) if ps else "void")


def proto_shape(fn):
    """c_proto without parameter names, in the spelling of c_proto_from_model"""
    ps = []
    if fn["ret"] is not None and not KINDS[fn["ret"]]["prim"]:
        ps.append("%s*" % KINDS[fn["ret"]]["c"])
    for k, r in fn["params"]:
        ps.append(KINDS[k]["c"] if KINDS[k]["prim"] and not r else KINDS[k]["c"] + "*")
    rt = KINDS[fn["ret"]]["c"] if fn["ret"] is not None and KINDS[fn["ret"]]["prim"] else "void"
    return "%s %s(%s)" % (rt, fn["name"], ", ".join(ps) if ps else "void")


# ---- one group = one pair of programs ---------------------------------------------------------------
def write_group(gdir, group, in_function):
    os.makedirs(gdir, exist_ok=True)
    cfile = "callee.c"
    csrc = C_PRELUDE + "\n" + "\n".join(c_function(fn) for fn in group)
    open(os.path.join(gdir, cfile), "w").write(csrc)
    decls = DECLS + "".join(ddp_extern_decl(fn, cfile) for fn in group)
    caller, expected, calls = build_caller(group, in_function)
    open(os.path.join(gdir, "a.ddp"), "w").write(decls + caller)
    open(os.path.join(gdir, "d.ddp"), "w").write(decls)
    open(os.path.join(gdir, "b.ddp"), "w").write('Binde "Duden/Ausgabe" ein.\nBinde "d" ein.\n\n' + caller)
    return dict(csrc=csrc, decls=decls, caller=caller, expected=expected, calls=calls)


def run_group(b, gdir, group, in_function, opts, asan, want_ir):
    """build + run both variants; returns list of result dicts"""
    g = write_group(gdir, group, in_function)
    res = dict(g=g, runs=[], ir={}, cc=None)
    inc = "-I" + os.path.join(vlib.REPO, "lib/runtime/include")
    cmd = ["gcc", "-std=gnu11", "-O1", "-g", "-Wall", "-Wno-unused-function", "-c", inc, os.path.join(gdir, "callee.c"), "-o", os.path.join(gdir, "callee.o")]
    p = subprocess.run(cmd, capture_output=True, text=True)
    if p.returncode != 0 or p.stderr.strip():
        res["cc"] = p.stderr[-2000:]
        if p.returncode != 0:
            return res
    if asan:
        subprocess.run(cmd[:-3] + ["-fsanitize=address", "-fno-omit-frame-pointer", os.path.join(gdir, "callee.c"), "-o", os.path.join(gdir, "callee_asan.o")], capture_output=True, text=True)
    for variant, src in (("decl", "a.ddp"), ("import", "b.ddp")):
        for o in opts[variant]:
            exe = os.path.join(gdir, "%s_O%d" % (variant, o))
            r = b.compile(os.path.join(gdir, src), exe, opt=o, cwd=gdir, extra_objs=[os.path.join(gdir, "callee.o")])
            if r["stage"] == "kddp" and r["rc"] == -9:   # overloaded machine: once more with a generous limit
                r = b.compile(os.path.join(gdir, src), exe, opt=o, cwd=gdir, extra_objs=[os.path.join(gdir, "callee.o")], timeout=900)
            run = dict(variant=variant, opt=o, asan=False, compile=r)
            if r["stage"] == "ok":
                led = exe + ".ledger"
                rc, out, err = b.run(exe, ledger=led, cwd=gdir, timeout=30)
                if rc == -9:
                    rc, out, err = b.run(exe, ledger=led, cwd=gdir, timeout=300)
                run.update(rc=rc, out=out.decode("utf-8", "replace"), err=err.decode("utf-8", "replace"), ledger=parse_ledger(led))
            res["runs"].append(run)
        if asan:
            exe = os.path.join(gdir, "%s_asan" % variant)
            r = b.compile(os.path.join(gdir, src), exe, opt=0, asan=True, cwd=gdir, extra_objs=[os.path.join(gdir, "callee_asan.o")])
            if r["stage"] == "kddp" and r["rc"] == -9:
                r = b.compile(os.path.join(gdir, src), exe, opt=0, asan=True, cwd=gdir, extra_objs=[os.path.join(gdir, "callee_asan.o")], timeout=900)
            run = dict(variant=variant, opt=0, asan=True, compile=r)
            if r["stage"] == "ok":
                led = exe + ".ledger"
                rc, out, err = b.run(exe, ledger=led, cwd=gdir, timeout=60)
                if rc == -9:
                    rc, out, err = b.run(exe, ledger=led, cwd=gdir, timeout=600)
                run.update(rc=rc, out=out.decode("utf-8", "replace"), err=err.decode("utf-8", "replace"), ledger=parse_ledger(led))
            res["runs"].append(run)
    if want_ir:
        env = dict(os.environ, DDPPATH=b.dir)
        for variant, src, extra in (("decl", "a.ddp", []), ("import", "b.ddp", ["--module-linken=false"])):
            ll = os.path.join(gdir, variant + ".ll")
            try:
                p = subprocess.run([b.kddp, "kompiliere", src, "-o", ll, "-O", "0"] + extra, capture_output=True, text=True, env=env, cwd=gdir, timeout=900)
            except subprocess.TimeoutExpired:
                res["ir"][variant] = None
                continue
            if p.returncode == 0 and os.path.exists(ll):
                text = open(ll).read()
                defs = ir_types(text)
                res["ir"][variant] = {fn["name"]: ir_signature(text, fn["name"], defs) for fn in group}
            else:
                res["ir"][variant] = None
    return res


def judge_run(run, g):
    """direct judgement of one executed variant: list of (what, detail)"""
    bad = []
    if run["compile"]["stage"] == "kddp":
        return [("compile", "kddp rejects the program: " + run["compile"]["out"][-600:])]
    if run["compile"]["stage"] == "link":
        return [("link", "the extern symbols do not link against the C callee: " + run["compile"]["out"][-600:])]
    if run["asan"] and (run["rc"] == 97 or "AddressSanitizer" in run["err"] or "LeakSanitizer" in run["err"]):
        bad.append(("asan", run["err"][-1200:]))
    if run["rc"] != 0:
        bad.append(("exit", "exit status %d, stderr %s" % (run["rc"], [l for l in run["err"].splitlines() if not l.startswith("@")][-5:])))
    if run["out"] != g["expected"]:
        el, ol = g["expected"].splitlines(), run["out"].splitlines()
        for i in range(max(len(el), len(ol))):
            e_ = el[i] if i < len(el) else "<missing>"
            o_ = ol[i] if i < len(ol) else "<missing>"
            if e_ != o_:
                bad.append(("stdout", "line %d: expected %r, got %r" % (i + 1, e_, o_)))
                break
    return bad


SIGX = None
SP_NAMES = {"N1": ("Paar", "S:Paar"), "N2": ("Kennung", "D:Kennung(Z)"), "N3": ("Titel", "A:Titel(T)"), "N4": ("T", "G")}
SP_FORMS = ["value", "ref", "listvalue", "listref", "parenvalue", "parenlistvalue"]


def spelling_leg(ck, model, sc, stats):
    """exhaustive: every base type x every form of spelling. The words come from the model's [spelled]; parser.Parse (sigx)
    must record exactly what the spelling means (direct judgement) and what the model's parse_reference_type yields."""
    cases = [(bse, f) for bse in ["Z", "K", "B", "W", "C", "T", "V", "N1", "N2", "N3", "N4"] for f in SP_FORMS]
    out = subprocess.run([model], input="".join("SP %s %s\n" % c for c in cases), capture_output=True, text=True, timeout=60).stdout.splitlines()
    if len(out) != len(cases):
        ck.broken_obligation("the extracted model does not answer the spelling queries", "\n".join(out[:5]))
        return

    def to_front(spec):
        for n, (_, fr) in SP_NAMES.items():
            spec = spec.replace(n, fr)
        return spec
    decls, rows = [], []
    for i, ((bse, f), l) in enumerate(zip(cases, out)):
        toks, parsed, meant = [x.strip() for x in l[3:].split("|")]
        generic = bse == "N4"
        if generic and f in ("value", "parenvalue", "parenlistvalue"):
            continue   # a by-value type parameter is rejected for extern functions; "(T ...)" is looked up as a declared name
        words = " ".join(SP_NAMES[w][0] if w in SP_NAMES else w for w in toks.split(" ")).replace("( ", "(").replace(" )", ")")
        name = "sp_%d" % i
        decls.append('Die öffentliche %sFunktion %s mit dem Parameter pa vom Typ %s, gibt nichts zurück,\nist in "sp.c" definiert\nund kann so benutzt werden:\n\t"%s <pa>"\n\n'
                     % ("generische " if generic else "", name, words, name))
        rows.append((name, bse, f, words, parsed, meant, decls[-1]))
    d = os.path.join(sc, "spelling")
    os.makedirs(d, exist_ok=True)
    head = DECLS[:DECLS.index("Die öffentliche Funktion zeige_T")]
    open(os.path.join(d, "sp.ddp"), "w").write(head + "".join(decls))
    p = subprocess.run([SIGX, os.path.join(d, "sp.ddp")], capture_output=True, text=True, timeout=120)
    table = {l.split(" ")[1]: l.split(" ")[5:] for l in p.stdout.splitlines() if l.startswith("F ")}
    nerr = [l for l in p.stdout.splitlines() if l.startswith("E ")]
    if p.returncode != 0 or not nerr:
        ck.violation("frontend-spelling parse", "parser.Parse fails on the spelling module: %s" % (p.stdout + p.stderr)[-400:], dict(source=head + "".join(decls)))
        return
    for name, bse, f, words, parsed, meant, decl in rows:
        ck.count()
        ck.nontrivial(("spelling", bse, f))
        got = table.get(name)
        want = "pa:%s" % to_front(meant)
        if got != [want]:
            ck.violation("frontend-spelling base=%s form=%s" % (bse, f), "a parameter declared '%s' is recorded as %s (name:type:IsReference), it means %s" % (words, got, want),
                         dict(declaration=decl, detail="sigx: %s" % got))
        m = parsed.split(" ")
        if not (len(m) == 3 and "pa:" + to_front(m[0]) == want and m[1] == "diag=0" and m[2] == "rest=1"):
            stats["model_mismatch"].append("spelling '%s': model parses %s, meant %s" % (words, parsed, meant))
        elif got is not None and got != ["pa:" + to_front(m[0])]:
            stats["model_mismatch"].append("spelling '%s': model parses %s, parser.Parse records %s" % (words, parsed, got))
    if int(nerr[0].split()[1]) != 0 and not ck.violations:
        ck.violation("frontend-spelling diagnostics", "parser.Parse reports %s diagnostic(s) on declarations that only vary the spelling of parameter types" % nerr[0].split()[1],
                     dict(source=head + "".join(decls)))
    stats["spellings"] = len(rows)


def judge_frontend(gdir, group):
    """frontend tie: what parser.Parse records for every declared function (sigx over the declaring module) against the
    signature that was spelled: extern/generic flag, result type, and per parameter name, type and IsReference."""
    if not SIGX:
        return []
    p = subprocess.run([SIGX, os.path.join(gdir, "d.ddp")], capture_output=True, text=True, timeout=120)
    table, nerr = {}, None
    for l in p.stdout.splitlines():
        f = l.split(" ")
        if f[0] == "F":
            table[f[1]] = f[2:]
        elif f[0] == "E":
            nerr = int(f[1])
    bad = []
    if p.returncode != 0 or nerr is None:
        return [(group[0], "-", "parser.Parse fails on the declaring module: %s" % (p.stdout + p.stderr)[-400:])]
    if nerr:
        bad.append((group[0], "-", "parser.Parse reports %d diagnostic(s) on a well-formed declaring module" % nerr))
    for fn in group:
        want = ["extern=1", "generic=%d" % (1 if fn.get("generic") else 0), "ret=%s" % ("N" if fn["ret"] is None else FRONT[fn["ret"]])]
        want += ["%s:%s:%d" % (n, FRONT[k], 1 if r else 0) for (k, r), n in zip(fn["params"], PNAMES)]
        got = table.get(fn["name"])
        if got != want:
            if not got or len(got) != len(want):
                bad.append((fn, "-", "the parser records %s for the declaration, which says %s" % (got, want)))
                continue
            i = [w != g_ for w, g_ in zip(want, got)].index(True)
            if i >= 3:
                bad.append((fn, want[i].split(":")[0], "parameter %s declared '%s': the parser records %s (name:type:IsReference), the declaration says %s"
                            % (want[i].split(":")[0], ddp_param_spelling(fn, i - 3), got[i], want[i])))
            else:
                bad.append((fn, want[i].split("=")[0], "the parser records %s, the declaration says %s" % (got[i], want[i])))
    return bad


def ddp_param_spelling(fn, i):
    k, r = fn["params"][i]
    t = KINDS[k]["ref"] if r else KINDS[k]["ddp"]
    return "(%s)" % t if (not r and fn.get("paren") and i < len(fn["paren"]) and fn["paren"][i]) else t


def check_group(ck, b, model, sc, gi, group, in_function, opts, asan, stats, shrink=True, want_ir=True):
    if len(ck.violations) >= 10:   # systematically broken tree: enough replays, do not burn the time budget
        stats["skipped_groups"] = stats.get("skipped_groups", 0) + 1
        return
    gdir = os.path.join(sc, "g%d" % gi)
    res = run_group(b, gdir, group, in_function, opts, asan, want_ir=want_ir)
    g = res["g"]
    failed = []  # (class, canonical what, detail, run)
    if res["cc"]:
        failed.append(("callee", "gcc rejects or warns about the generated callee", res["cc"], None))
    for fn, pname, detail in judge_frontend(gdir, group):
        stats["frontend_mismatch"] = stats.get("frontend_mismatch", 0) + 1
        f1 = dict(fn)
        f1["calls"] = fn["calls"][:1]
        key = "frontend-signature %s param=%s" % (sig_key(fn), pname)
        if ck.violation(key, detail, dict(spec=dict(functions=[f1], in_function=in_function), declaration=ddp_extern_decl(fn, "callee.c"), detail=detail,
                                          how="parser.Parse on the declaration; harness/go/cmd/sigx prints the recorded parameter table")):
            os.makedirs(CORPUS, exist_ok=True)
            import hashlib
            sp = dict(functions=[f1], in_function=in_function)
            with open(os.path.join(CORPUS, hashlib.sha1(json.dumps(sp, sort_keys=True, default=str).encode()).hexdigest()[:12] + ".json"), "w") as fh:
                json.dump(sp, fh, ensure_ascii=False, default=str)
    stats["frontend_compared"] = stats.get("frontend_compared", 0) + len(group)
    for run in res["runs"]:
        ck.count(len(g["calls"]))
        stats["runs"] += 1
        for what, detail in judge_run(run, g):
            failed.append((what, what, detail, run))
        if run["compile"]["stage"] == "ok" and run.get("ledger") is not None and run["rc"] == 0:
            spec, mdl = judge_ledger(run["ledger"], run["err"], g["calls"])
            stats["ledger_events"] += len(run["ledger"])
            for s in spec[:3]:
                failed.append(("ledger", "ledger", s, run))
            if mdl and not spec:
                stats["model_ledger_disagreements"].append("%s O%d: %s" % (run["variant"], run["opt"], mdl[0]))
        elif run["compile"]["stage"] == "ok" and run.get("ledger") is None:
            failed.append(("ledger", "ledger", "no ledger written", run))
    # model correspondence: IR signature and prototype
    q = "\n".join(model_line(c["fn"], c["kinds"], c.get("T")) for c in g["calls"]) + "\n"
    mo = subprocess.run([model], input=q, capture_output=True, text=True, timeout=120).stdout.splitlines()
    for c, line in zip(g["calls"], mo):
        parts = line.split(" | ")
        fn = c["fn"]
        irm = {"decl": parts[0].split(" ", 2)[2], "import": parts[5].split(" ", 2)[2]}
        stats["model_cases"] += 1
        if parts[2] != "ABI 1" or not parts[4].startswith("RUN ok"):
            stats["model_mismatch"].append("model self-check fails for %s: %s" % (sig_key(fn), line))
        pm = c_proto_from_model(fn, parts[1])
        if pm != proto_shape(fn):
            stats["model_mismatch"].append("published convention: model prototype %r, oracle %r (%s)" % (pm, proto_shape(fn), sig_key(fn)))
        freed = re.search(r"freed=(\S*)", parts[4])
        mfreed = [int(x) for x in freed.group(1).split(",") if x] if freed else None
        if mfreed != [i for i, _ in c["byval"]]:
            stats["model_mismatch"].append("model releases parameters %s, oracle expects %s (%s)" % (mfreed, [i for i, _ in c["byval"]], sig_key(fn)))
        for variant in ("decl", "import"):
            irs = res["ir"].get(variant)
            if irs is None:
                continue
            real = irs.get(fn["name"])
            stats["ir_compared"] += 1
            if real != irm[variant]:
                if real is not None and abi_top(real) == abi_top(irm[variant]):
                    # same registers/stack slots, different pointee spelling: the model no longer matches the code
                    stats["model_mismatch"].append("IR signature of %s in module=%s: kddp %s, model %s (same ABI classes at top level)" % (sig_key(fn), variant, real, irm[variant]))
                else:
                    failed.append(("ir-signature", "ir-signature", "module=%s: kddp declares %s(%s), published convention/model: %s" % (variant, fn["name"], real, irm[variant]), dict(variant=variant, opt=0, asan=False)))
    for fn in group:
        for c in fn["calls"]:
            ck.nontrivial((sig_key(fn), json.dumps(c, sort_keys=True, default=str)))
        stats["sigs"].add(sig_key(fn))
        stats["arity"][len(fn["params"])] = stats["arity"].get(len(fn["params"]), 0) + 1
        for k, r in fn["params"]:
            stats["param_kinds"][("r:" if r else "v:") + k] = stats["param_kinds"].get(("r:" if r else "v:") + k, 0) + 1
        stats["ret_kinds"][fn["ret"] or "-"] = stats["ret_kinds"].get(fn["ret"] or "-", 0) + 1
    if not failed:
        return
    # shrink: one function with one call, built only in the failing flavour
    culprit = None
    cls0, _, _, run0 = failed[0]
    stats["shrunk"] = stats.get("shrunk", 0) + 1
    if shrink and stats["shrunk"] <= 4 and (len(group) > 1 or any(len(fn["calls"]) > 1 for fn in group)):
        v0 = run0["variant"] if run0 else "decl"
        sopts = {"decl": [], "import": []}
        if run0 and not run0.get("asan"):
            sopts[v0] = [run0["opt"]]
        if cls0 in ("callee", "ir-signature"):
            sopts = {"decl": [0], "import": []}
        cand = []
        for fn in group:
            for c in fn["calls"]:
                f1 = dict(fn)
                f1["calls"] = [c]
                cand.append(f1)
        for j, f1 in enumerate(cand):
            sub = check_single(b, model, os.path.join(sc, "g%d_s%d" % (gi, j)), f1, in_function, sopts, bool(run0 and run0.get("asan")), cls0 == "ir-signature", v0)
            if sub:
                culprit = (f1, sub, os.path.join(sc, "g%d_s%d" % (gi, j)))
                break
    if culprit:
        f1, sub, sdir = culprit
        cls, detail, run = sub
        report(ck, f1, cls, detail, run, in_function, sdir)
    else:
        cls, what, detail, run = failed[0]
        report(ck, group[0] if len(group) == 1 else None, cls, detail, run, in_function, gdir, group=group)


def check_single(b, model, gdir, fn, in_function, opts, asan, want_ir, asan_variant="decl"):
    res = run_group(b, gdir, [fn], in_function, opts, False, want_ir=want_ir)
    g = res["g"]
    if res["cc"]:
        return ("callee", res["cc"], None)
    if asan:
        res2 = run_group(b, gdir + "a", [fn], in_function, {"decl": [], "import": []}, True, want_ir=False)
        res["runs"] += [r for r in res2["runs"] if r["variant"] == asan_variant]
    for run in res["runs"]:
        bad = judge_run(run, g)
        if bad:
            return (bad[0][0], bad[0][1], run)
        if run["compile"]["stage"] == "ok" and run.get("ledger") is not None and run["rc"] == 0:
            spec, _ = judge_ledger(run["ledger"], run["err"], g["calls"])
            if spec:
                return ("ledger", spec[0], run)
    if want_ir:
        mo = subprocess.run([model], input=model_line(fn, g["calls"][0]["kinds"], g["calls"][0].get("T")) + "\n", capture_output=True, text=True, timeout=60).stdout.splitlines()
        mparts = mo[0].split(" | ")
        irm = {"decl": mparts[0].split(" ", 2)[2], "import": mparts[5].split(" ", 2)[2]}
        for variant in ("decl", "import"):
            irs = res["ir"].get(variant)
            if irs is not None and irs.get(fn["name"]) != irm[variant]:
                return ("ir-signature", "module=%s: kddp declares %s, published convention/model: %s" % (variant, irs.get(fn["name"]), irm[variant]), dict(variant=variant, opt=0, asan=False))
    return None


def report(ck, fn, cls, detail, run, in_function, gdir, group=None):
    variant = run["variant"] if run else "-"
    opt = run["opt"] if run else 0
    if fn is not None:
        call = fn["calls"][0]
        modes = ",".join(a["mode"].split(":")[0] for a in call["args"]) or "-"
        key = "%s %s args=%s use=%s module=%s O%d%s" % (cls, sig_key(fn), modes, call["use"], variant, opt, " asan" if run and run.get("asan") else "")
    else:
        key = "%s group-of-%d module=%s O%d" % (cls, len(group), variant, opt)
    files = {}
    for f in ("callee.c", "a.ddp", "d.ddp", "b.ddp"):
        try:
            files[f] = open(os.path.join(gdir, f)).read()
        except OSError:
            pass
    spec = dict(functions=[fn] if fn is not None else group, in_function=in_function)
    replay = dict(spec=spec, files=files, detail=detail,
                  how="gcc -c -I/repo/lib/runtime/include callee.c; kddp kompiliere %s -o x.o -O %d; link with callee.o, libddpstdlib, libddpruntime (see checks/vlib.py Build.compile); DDP_LEDGER=ledger ./x; ./check C18 --replay <this file>" % ("a.ddp" if variant == "decl" else "b.ddp", opt))
    if run and "out" in run:
        replay.update(stdout=run["out"][-3000:], stderr=run["err"][-3000:])
    if ck.violation(key, detail, replay) and fn is not None:
        os.makedirs(CORPUS, exist_ok=True)
        import hashlib
        h = hashlib.sha1(json.dumps(spec, sort_keys=True, default=str).encode()).hexdigest()[:12]
        with open(os.path.join(CORPUS, h + ".json"), "w") as fh:
            json.dump(spec, fh, ensure_ascii=False, default=str)


def load_corpus():
    out = []
    if os.path.isdir(CORPUS):
        for f in sorted(os.listdir(CORPUS)):
            try:
                out.append(json.load(open(os.path.join(CORPUS, f))))
            except Exception:
                continue
    return out


def main():
    ck = Check(PID, "proof")
    b = Build()
    ck.cov["trusted_base"] = vlib.TRUSTED_COMMON + [
        "Lower/Abi.v transcribes compiler.go VisitFuncDecl 557-605 / declareImportedFuncDecl 2187-2228 / VisitFuncCall 2015-2117, helper.go toIrType/toIrParamType/mangledNameDecl and ddptypes.h; tied on every run by: header static assertions (gcc), the textual IR signature of every generated function in both modules, the executed calls",
        "ABI classes: LLVM i1 and C bool are identified (one byte holding 0/1; LLVM passes i1 without zeroext — the callee prints the raw byte it received), the vtable pointer is an untyped byte pointer; x86-64 SysV lowering of both sides by LLVM 14 and gcc is outside the model and only differentially tested",
        "kddp emits no zeroext/signext on i1/i8/i32 parameters and results; the callees here are compiled by gcc, which does not rely on the caller's extension of sub-register arguments (a clang-compiled callee would) — not exercised",
        "generic extern functions: modelled at parameter level (T Liste by value -> ddpgenericlist*, any Referenz mentioning T -> i8*, generic list result -> ddpgenericlist out-slot) and generated with T in {Zahl, Text}; the C callee learns T from a Zahl parameter; agreement with the header only up to untyped pointers (theorem C18_generic_sig_lowering_compat); Windows is outside the model and the generator",
        "frontend: Lower/TypeSpelling.v transcribes parser.parseReferenceType for one type without type arguments (no 'Zahl-Vektor' forms, one level of parentheses); tied by harness/go/cmd/sigx (parser.Parse's parameter table) on every generated declaration and on the exhaustive base x form table",
        "stdlib sweep: C harness generated from sigx tables of lib/stdlib/Duden (Regex, Komprimierung, Netzwerk, generic functions and Programm_Beenden/Warte/Lies_* skipped); Fehlerbehandlung callbacks are stubs; only crashes that the control call with \"x\" does not show are reported; Windows branches are not exercised",
        "caller-side ownership is observed through the --wrap=ddp_reallocate ledger and the block addresses the generated callee reports on stderr; sha256 of the module name is an opaque function in the mangling model (unmangled extern symbols are observed by the link step)",
    ]
    import time
    t0 = time.time()
    regen_abi_tables(ck)
    ck.coq()
    log("[c18] coq build + audit %.0fs" % (time.time() - t0))
    t0 = time.time()
    ok, lg = b.ensure_native()
    if not ok:
        ck.violation("build", "kddp/runtime do not build from the current tree", dict(log=lg[-3000:]), no_input=True)
        ck.finish()
    # the driver of the extracted model follows the (possibly regenerated) tables
    subprocess.run(["flock", os.path.join(vlib.COQ, ".make.lock"), "make", "--no-print-directory", "-C", os.path.join(vlib.VERIF, "extract"), "_build/c18"],
                   capture_output=True, text=True, timeout=600)
    global SIGX
    SIGX, lg = b.ensure_go("sigx")
    if not SIGX:
        ck.broken_obligation("frontend harness sigx does not build against /repo", lg)
    model = vlib.model_bin("c18")
    if not os.path.exists(model):
        ck.broken_obligation("extracted model driver extract/_build/c18 missing", "")
        ck.finish()
    sc = vlib.scratch()
    stats = dict(runs=0, ledger_events=0, model_cases=0, ir_compared=0, model_mismatch=[], model_ledger_disagreements=[], sigs=set(), arity={}, param_kinds={}, ret_kinds={})
    perr = header_probe(b, sc, model)
    if perr:
        ck.violation("header-layout", "the published header no longer has the representation the model (and the compiler) assume: " + perr, dict(detail=perr), no_input=False)

    if SIGX:
        spelling_leg(ck, model, sc, stats)
    # the Duden's own C functions and the empty Text in both published representations
    if SIGX and not ck.replay:
        try:
            c18_stdlib.sweep(ck, b, sc, SIGX, stats)
        except Exception as e:
            import traceback
            ck.broken_obligation("stdlib sweep failed: %s" % e, traceback.format_exc()[-1500:])

    # replay mode
    if ck.replay:
        spec = json.load(open(ck.replay))["replay"]["spec"]
        check_group(ck, b, model, sc, 0, spec["functions"], spec["in_function"], dict(decl=[0, 2], **{"import": [0, 2]}), True, stats, shrink=False)
        ck.finish()

    nsig = 170 if ck.quick else 3000
    per_group = 6 if ck.quick else 10
    sigs = gen_signatures(ck.rng, nsig)
    fns = [gen_function(ck.rng, "f_%d" % (i + 1), ps, ret) for i, (ps, ret) in enumerate(sigs)]
    # generic extern functions (declared once from the generic declaration, called with T = Zahl and T = Text)
    gsigs = gen_generic_signatures(ck.rng, 24 if ck.quick else 400)
    gfns = [gen_function(ck.rng, "g_%d" % (i + 1), ps, ret) for i, (ps, ret) in enumerate(gsigs)]
    fns = fns + gfns
    groups = [fns[i:i + per_group] for i in range(0, len(fns), per_group)]
    jobs = []
    gi = 0
    # corpus of minimised past failures first (packed into groups, functions renamed)
    for inf in (False, True):
        cf = []
        for spec in load_corpus():
            if bool(spec.get("in_function")) == inf:
                for fn in spec["functions"]:
                    fn = dict(fn)
                    fn["name"] = "k_%d" % (len(cf) + 1)
                    cf.append(fn)
        for i in range(0, len(cf), per_group):
            gi += 1
            jobs.append((gi, cf[i:i + per_group], inf, dict(decl=[0, 2], **{"import": [0, 2]}), False, True))
        stats["corpus_functions"] = stats.get("corpus_functions", 0) + len(cf)
    for n, grp in enumerate(groups):
        gi += 1
        if ck.quick:
            opts = dict(decl=[0] if n % 2 == 0 else [2], **{"import": [2] if n % 2 == 0 else [0]})
        else:
            opts = dict(decl=[0, 2] if n % 4 else [0, 1, 2], **{"import": [0, 2]})
        asan = (n % 8 == 0) if ck.quick else (n % 6 == 0)
        jobs.append((gi, grp, n % 3 == 1, opts, asan, ck.quick or n % 2 == 0))

    def one(job):
        gi_, grp, inf, opts, asan, want_ir = job
        try:
            check_group(ck, b, model, sc, gi_, grp, inf, opts, asan, stats, want_ir=want_ir)
        except Exception as e:  # harness error, never silently dropped
            import traceback
            stats["model_mismatch"].append("harness error in group %d: %s %s" % (gi_, e, traceback.format_exc()[-600:]))
    log("[c18] native build %.0fs; %d groups" % (time.time() - t0, len(jobs)))
    t0 = time.time()
    vlib.pmap(one, jobs)
    log("[c18] groups done in %.0fs" % (time.time() - t0))
    if stats["model_mismatch"] and not ck.violations:
        ck.broken_obligation("correspondence model <-> oracle/code fails: " + stats["model_mismatch"][0], "\n".join(stats["model_mismatch"][:10]))
    if stats["model_ledger_disagreements"] and not ck.violations:
        ck.broken_obligation("the caller-side releases do not follow the model's call plan (the direct ownership judgement holds): " + stats["model_ledger_disagreements"][0],
                             "\n".join(stats["model_ledger_disagreements"][:10]))
    ck.cov.update(dict(
        signatures=len(stats["sigs"]), functions=len(fns), corpus_functions=stats.get("corpus_functions", 0), skipped_groups=stats.get("skipped_groups", 0), frontend_signatures_compared=stats.get("frontend_compared", 0), spellings_exhaustive=stats.get("spellings", 0),
        stdlib_sweep=dict(functions=stats.get("stdlib_functions_with_text"), text_parameters=stats.get("stdlib_text_parameters"), calls=stats.get("stdlib_calls"), crashes=stats.get("stdlib_crashes")), groups=len(groups), executed_programs=stats["runs"], ledger_events=stats["ledger_events"],
        model_cases=stats["model_cases"], ir_signatures_compared=stats["ir_compared"], arity=dict(sorted(stats["arity"].items())),
        param_kinds=dict(sorted(stats["param_kinds"].items())), ret_kinds=dict(sorted(stats["ret_kinds"].items())), exhaustive=False,
        rule="evaluation = one executed extern call (2 calls per function, both modules, per opt level); distinct non-trivial = distinct (signature, argument modes and values, result use); every call passes at least the call itself through the C callee and the ledger; systematic part: arity 0 with every result kind, arity 1 and last-of-2 with every kind by value and by Referenz; random part arity 2..6; generic extern functions (T = Zahl and T = Text per function, type tag first or last, with and without out-pointer); argument modes literal/temporary, variable, list element, Kombination field, same variable by value and by Referenz; result bound, consumed inline or dropped; callers at top level and inside a function"))
    ck.sample(dict(signature="ret=NT params=v:T,r:B", call='Der Byte b ist (255 als Byte). Der Titel r ist (f "x" b).', expect="out-slot first, Text copy claimed from the literal and released by args[1+1] after the call (the +1 of the free loop), b mutated through the pointer"))
    ck.sample(dict(signature="ret=T params=-", module="importing", expect="declare void @f(%ddpstring*) also through declareImportedFuncDecl; result Text owned by the caller and released once"))
    ck.sample(dict(signature="ret=T params=v:Z,r:TL,v:P", call="f (-1) tl (ein Paar aus 0 und \"häß€😀\")", expect="callee prints -1, the list, the Paar; tl replaced through the reference; copy of the Paar released after the call"))
    ck.finish(explanation="Frontend tie: C18_declared_spelling_parses (every spelling of every base type parses to the type and IsReference flag it spells; exhaustive spelling leg + "
              "per-group comparison of parser.Parse's parameter table with the declared signature). Stdlib sweep: every Duden C function with a Text parameter is called with the empty Text "
              "as {NULL,0} and as {\"\\0\",1} under ASan. Generic extern functions: C18_generic_sig_lowering_compat, C18_generic_declaration_generalises, C18_generic_extern_call_ownership (full). "
              "Found by this check and fixed in /repo (76f45a7): a generic extern function with a generic list as result could not be called; such results are now part of the normal groups. "
              "The theorems of Props/C18.v are full (no _partial/_refuted): C18_sig_lowering_is_abi (both declaration sites, every signature/arity, "
              "ABI-class equality with the published C signature), C18_published_convention, C18_extern_call_ownership (the emitted plan runs without ownership error for every "
              "signature and temporary/variable mix; by-value non-primitive arguments copied/claimed before and released exactly once after; result owned), C18_reference_untouched, "
              "C18_extern_not_mangled.")


if __name__ == "__main__":
    main()
