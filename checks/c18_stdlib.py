"""C18 — sweep over the Duden's own C functions (the first consumers of the published value representation):
every extern function of lib/stdlib/Duden that takes a Text by value or by Referenz is called from a generated C
harness (prototypes written from the published convention, parameter tables from parser.Parse via sigx) with the
EMPTY Text in both published representations — {NULL, 0} and {"\\0", 1} — under ASan, each call in its own process
inside a scratch directory. A crash (signal, ASan report) that the same call with the Text "x" does not show is a
violation. Skipped: Duden/Regex, Duden/Komprimierung (not built here), Duden/Netzwerk (sockets cannot be sandboxed),
generic functions."""
import os
import re
import subprocess

import vlib
from vlib import log

SKIP_MODULES = {"Regex", "Komprimierung", "Netzwerk"}
# functions whose effect cannot be confined to the scratch directory / that block
SKIP_FUNCS = {"Programm_Beenden", "Warte", "Lies_Buchstabe", "Lies_Zeile"}
PRIM_C = {"Z": "ddpint", "K": "ddpfloat", "B": "ddpbyte", "W": "ddpbool", "C": "ddpchar"}
LIST_C = {"Z": "ddpintlist", "K": "ddpfloatlist", "B": "ddpbytelist", "W": "ddpboollist", "C": "ddpcharlist", "T": "ddpstringlist", "V": "ddpanylist"}


def strip_named(spec):
    """typedefs and aliases are transparent for the representation"""
    while True:
        m = re.match(r"^[DA]:[^()]*\((.*)\)$", spec)
        if not m:
            return spec
        spec = m.group(1)


def ctype(spec, structs):
    spec = strip_named(spec)
    if spec in PRIM_C:
        return PRIM_C[spec]
    if spec == "T":
        return "ddpstring"
    if spec == "V":
        return "ddpany"
    if spec.startswith("S:"):
        return "K_" + re.sub(r"\W", "_", spec[2:])
    if spec.startswith("L("):
        e = strip_named(spec[2:-1])
        if e in LIST_C:
            return LIST_C[e]
        return "ddpgenericlist"   # list of Kombinationen: same shape, only ever passed empty here
    return None


def is_prim(spec):
    return strip_named(spec) in PRIM_C


def collect(b, sigx):
    """(module, name, ret, [(pname, spec, isref)]) for every non-generic extern Duden function; struct tables"""
    funcs, structs = [], {}
    ddir = os.path.join(vlib.REPO, "lib/stdlib/Duden")
    env = dict(os.environ, DDPPATH=b.dir)
    for f in sorted(os.listdir(ddir)):
        mod = f[:-4]
        if not f.endswith(".ddp") or mod in SKIP_MODULES:
            continue
        p = subprocess.run([sigx, os.path.join(ddir, f)], capture_output=True, text=True, env=env, timeout=120, cwd=ddir)
        for l in p.stdout.splitlines():
            t = l.split(" ")
            if t[0] == "F" and t[2] == "extern=1" and t[3] == "generic=0":
                ps = []
                for x in t[5:]:
                    n, rest = x.split(":", 1)
                    spec, r = rest.rsplit(":", 1)
                    ps.append((n, spec, r == "1"))
                funcs.append((mod, t[1], t[4][4:], ps))
            elif t[0] == "S":
                structs[t[1]] = [tuple(x.split(":", 1)) for x in t[2:]]
    return funcs, structs


def gen_harness(funcs, structs):
    """C source + the list of cases (fn index, name, module, text parameter index, parameter name)"""
    L = ['#include "DDP/ddptypes.h"', '#include "DDP/ddpmemory.h"', "#include <stdio.h>", "#include <stdlib.h>", "#include <string.h>", ""]
    done = set()

    def emit_struct(name):
        if name in done or name not in structs:
            return
        done.add(name)
        for fname, fspec in structs[name]:
            s = strip_named(fspec)
            if s.startswith("S:"):
                emit_struct(s[2:])
            if s.startswith("L(S:"):
                pass
        fields = []
        for fname, fspec in structs[name]:
            ct = ctype(fspec, structs) or "ddpany"
            fields.append("%s f_%s;" % (ct, re.sub(r"\W", "_", fname)))
        L.append("typedef struct { %s } K_%s;" % (" ".join(fields), re.sub(r"\W", "_", name)))
    for n in sorted(structs):
        emit_struct(n)
    L.append("/* Duden/Fehlerbehandlung.ddp functions the C library calls back (extern sichtbar); DDP callees release their parameters */")
    L.append("void Loesche_Fehler(void) {}")
    L.append("void Setze_Fehler(ddpstring *f) { ddp_free_string(f); }")
    L.append("static void set_text(ddpstring *t, int rep) {")
    L.append("\tif (rep == 0) { t->str = NULL; t->cap = 0; }                                   /* DDP_EMPTY_STRING */")
    L.append("\telse if (rep == 1) { t->str = DDP_ALLOCATE(char, 1); t->str[0] = 0; t->cap = 1; } /* what C producers also make */")
    L.append("\telse ddp_string_from_constant(t, \"x\");                                          /* control */")
    L.append("}")
    cases, usable = [], []
    for fi, (mod, name, ret, ps) in enumerate(funcs):
        if name in SKIP_FUNCS:
            continue
        tparams = [i for i, (n, spec, r) in enumerate(ps) if strip_named(spec) == "T"]
        if not tparams:
            continue
        cts = [ctype(spec, structs) for _, spec, _ in ps]
        rct = None if ret == "N" else ctype(ret, structs)
        if None in cts or (ret != "N" and rct is None):
            continue
        proto = []
        if ret != "N" and not is_prim(ret):
            proto.append("%s *" % rct)
        for (n, spec, r), ct in zip(ps, cts):
            proto.append(ct if (is_prim(spec) and not r) else ct + " *")
        L.append("extern %s %s(%s);" % (rct if ret != "N" and is_prim(ret) else "void", name, ", ".join(proto) or "void"))
        body = ["static void call_%d(int which, int rep) {" % fi]
        args = []
        if ret != "N" and not is_prim(ret):
            body.append("\t%s ret; memset(&ret, 0, sizeof ret);" % rct)
            args.append("&ret")
        for i, ((n, spec, r), ct) in enumerate(zip(ps, cts)):
            v = "a%d" % i
            body.append("\t%s %s; memset(&%s, 0, sizeof %s);" % (ct, v, v, v))
            if strip_named(spec) == "T":
                body.append("\tset_text(&%s, which == %d ? rep : 2);" % (v, i))
            elif strip_named(spec) == "C":
                body.append("\t%s = 'a';" % v)
            args.append(v if (is_prim(spec) and not r) else "&" + v)
        body.append("\t%s(%s);" % (name, ", ".join(args)))
        body.append("}")
        L += body
        usable.append(fi)
        for ti in tparams:
            cases.append((fi, name, mod, ti, ps[ti][0], ps[ti][2]))
    L.append("int main(int argc, char **argv) {")
    L.append("\tif (argc < 4) return 2;")
    L.append("\tint fn = atoi(argv[1]), which = atoi(argv[2]), rep = atoi(argv[3]);")
    L.append("\tswitch (fn) {")
    for fi in usable:
        L.append("\tcase %d: call_%d(which, rep); break;" % (fi, fi))
    L.append("\tdefault: return 2;")
    L.append("\t}")
    L.append("\tfflush(stdout);")
    L.append("\treturn 0;")
    L.append("}")
    return "\n".join(L) + "\n", cases


def sweep(ck, b, sc, sigx, stats):
    funcs, structs = collect(b, sigx)
    src, cases = gen_harness(funcs, structs)
    d = os.path.join(sc, "stdlib_sweep")
    box = os.path.join(d, "box")
    os.makedirs(box, exist_ok=True)
    cfile = os.path.join(d, "sweep.c")
    open(cfile, "w").write(src)
    exe = os.path.join(d, "sweep")
    cmd = ["gcc", "-O1", "-g", "-std=gnu11", "-fsanitize=address", "-fno-omit-frame-pointer", "-w",
           "-I" + os.path.join(vlib.REPO, "lib/runtime/include"), "-I" + os.path.join(vlib.REPO, "lib/stdlib/include"), cfile,
           os.path.join(b.lib, "ddp_list_types_defs.o"), os.path.join(b.lib, "shim.o"), "-Wl,--wrap=setlocale", "-Wl,--wrap=ddp_reallocate",
           "-L" + b.lib, "-lddpstdlib_asan", "-lddpruntime_asan", "-lm", "-o", exe]
    p = subprocess.run(cmd, capture_output=True, text=True, timeout=600)
    if p.returncode != 0:
        ck.broken_obligation("the stdlib sweep harness does not link against the published prototypes: " + p.stderr[-600:], p.stderr[-3000:])
        return
    env = dict(os.environ, ASAN_OPTIONS="detect_leaks=0:exitcode=97:abort_on_error=0", HOME=box, TMPDIR=box)

    def run(case, rep):
        fi, name, mod, ti, pn, isref = case
        try:
            q = subprocess.run([exe, str(fi), str(ti), str(rep)], capture_output=True, stdin=subprocess.DEVNULL, env=env, cwd=box, timeout=20)
            return q.returncode, q.stderr[-1500:].decode("utf-8", "replace")
        except subprocess.TimeoutExpired:
            return -999, "timeout"

    def crashed(rc, err):
        # SIGPIPE (-13) is the parent of Programm_Ausfuehren writing to a child that already exited: not a representation issue
        return (rc < 0 and rc not in (-999, -13)) or rc == 97 or "AddressSanitizer" in err

    jobs = [(c, rep) for c in cases for rep in (0, 1, 2)]
    results = vlib.pmap(lambda j: run(*j), jobs)
    res = {(j[0][0], j[0][3], j[1]): r for j, r in zip(jobs, results)}
    nbad = 0
    for c in cases:
        fi, name, mod, ti, pn, isref = c
        ctrl = res[(fi, ti, 2)]
        for rep, repname in ((0, "{NULL,0}"), (1, '{"\\0",1}')):
            rc, err = res[(fi, ti, rep)]
            ck.count()
            ck.nontrivial(("stdlib", name, pn, rep))
            if crashed(rc, err) and not crashed(*ctrl):
                nbad += 1
                what = "Duden/%s: the C function %s crashes when its Text parameter %s (%s) is the empty Text in the representation %s (rc %d): %s" % (
                    mod, name, pn, "Referenz" if isref else "by value", repname, rc, (err.strip().splitlines() or ["killed by signal"])[0][:300])
                ck.violation("stdlib-empty-text module=%s fn=%s param=%s rep=%s" % (mod, name, pn, "null" if rep == 0 else "nul"), what,
                             dict(function=name, module="Duden/" + mod, parameter=pn, representation=repname, exit=rc, stderr=err,
                                  how="C harness calling %s with %s for %s and \"x\" for every other Text (checks/c18_stdlib.py)" % (name, repname, pn)))
    stats["stdlib_functions_with_text"] = len({c[1] for c in cases})
    stats["stdlib_text_parameters"] = len(cases)
    stats["stdlib_calls"] = len(jobs)
    stats["stdlib_crashes"] = nbad
    log("[c18] stdlib sweep: %d functions, %d Text parameters, %d calls, %d crash(es) on the empty Text" % (stats["stdlib_functions_with_text"], len(cases), len(jobs), nbad))
