#!/usr/bin/env python3
"""C19 — every literal denotes its written value.
Proof: coq/Props/C19.v (splice loop of parseString = unit-wise translation for every body; scanner and parser
agree on escapes; char literals; ParseInt on digit strings; decimal literals correctly rounded, via Flocq).
Tie: regenerated escape tables (genlit -> coq/Gen/LitEscapes.v); the real scanner (one NextToken) and the real
parser.Parse (harness litx) against the extracted model (extract/c19_driver.ml) on the same literals; a Python
oracle (spec_scan/spec_denote/int()/float()) judges the implementation directly; compiled `Schreibe <literal>`
programs are compared with the written value byte for byte."""
import itertools
import json
import os
import struct
import subprocess
import sys
from fractions import Fraction

sys.path.insert(0, os.path.dirname(os.path.abspath(__file__)))
import vlib
from vlib import Check, Build, log

PID = "C19"
ALPHA = ["z", '"', "'", "\\", "a", "b", "n", "r", "t", "\n", "ä", "\U0001d11e"]
ESC = {"a": "\a", "b": "\b", "n": "\n", "r": "\r", "t": "\t", "\\": "\\"}


# ---- the specification (independent of model and implementation) -----------------------------------
def esc_val(e, q):
    if e == q:
        return q
    return ESC.get(e)


def spec_scan(src, q):
    """src = text after the opening quote. -> (body, rest, unknown_escapes) or None if unterminated"""
    i, bad = 0, 0
    while i < len(src):
        c = src[i]
        if c == q:
            return src[:i], src[i + 1:], bad
        if c == "\\":
            if i + 1 < len(src) and esc_val(src[i + 1], q) is not None:
                i += 2
                continue
            bad += 1
        i += 1
    return None


def complete_body(t, q):
    """is t exactly the body of the literal q+t+q (no unescaped quote inside, no backslash eating the closing quote)"""
    sp = spec_scan(t + q, q)
    return sp is not None and sp[0] == t and sp[1] == ""


def spec_denote(body, q):
    out, i = [], 0
    while i < len(body):
        c = body[i]
        if c == "\\":
            if i + 1 >= len(body):
                return None
            v = esc_val(body[i + 1], q)
            if v is None:
                return None
            out.append(v)
            i += 2
        else:
            out.append(c)
            i += 1
    return "".join(out)


def spec_escape(s, q):
    inv = {v: k for k, v in ESC.items()}
    return "".join("\\" + inv[c] if c in inv else ("\\" + q if c == q else c) for c in s)


def fbits(x):
    return struct.unpack("<Q", struct.pack("<d", x))[0]


def hx(s):
    b = s.encode("utf-8") if isinstance(s, str) else s
    return b.hex() if b else "-"


def unhx(h):
    return b"" if h == "-" else bytes.fromhex(h)


_seen_cls = {}


def viol(ck, cls, key, what, rep):
    """report the first (shortest: inputs are enumerated by length) witness of a deviation class; count the others.
    A witness suppressed as known finding does not use up the class."""
    if cls in _seen_cls:
        _seen_cls[cls] += 1
        return False
    if ck.violation(key, what, rep):
        _seen_cls[cls] = 0
        return True
    return False


# ---- tools -------------------------------------------------------------------------------------------
def run_tool(exe, lines, args=()):
    p = subprocess.run([exe] + list(args), input=("\n".join(lines) + "\n").encode(), capture_output=True, timeout=1200)
    if p.returncode != 0:
        raise RuntimeError("%s failed: %s" % (exe, p.stderr.decode(errors="replace")[-2000:]))
    return p.stdout.decode().splitlines()


def run_sharded(exe, lines, header=0):
    """run a line-per-case tool over many cases in parallel shards; `header` = lines the tool prints first"""
    if len(lines) < 4000:
        return run_tool(exe, lines)[header:]
    n = vlib.NCPU
    size = (len(lines) + n - 1) // n
    chunks = [lines[i:i + size] for i in range(0, len(lines), size)]
    outs = vlib.pmap(lambda ch: run_tool(exe, ch)[header:], chunks)
    return [l for o in outs for l in o]


class Tools:
    def __init__(self, litx, model):
        self.litx, self.model = litx, model
        hdr = run_tool(litx, [])[0].split()
        self.tt = {kv.split("=")[0]: int(kv.split("=")[1]) for kv in hdr[1:]}
        self.MAL = str(self.tt["MALFORMED_LITERAL"])

    def impl(self, lines):
        return run_sharded(self.litx, lines, header=1)

    def mod(self, lines):
        return run_sharded(self.model, lines)

    def whole(self, lines):
        """whole programs with imports: DDPPATH points at the tree's Duden"""
        env = dict(os.environ, DDPPATH=os.path.join(vlib.REPO, "lib", "stdlib"))
        n = vlib.NCPU
        size = max(1, (len(lines) + n - 1) // n)
        chunks = [lines[i:i + size] for i in range(0, len(lines), size)]

        def one(ch):
            p = subprocess.run([self.litx], input=("\n".join(ch) + "\n").encode(), capture_output=True, timeout=1200, env=env)
            if p.returncode != 0:
                raise RuntimeError("litx failed: %s" % p.stderr.decode(errors="replace")[-2000:])
            return p.stdout.decode().splitlines()[1:]
        return [l for o in vlib.pmap(one, chunks) for l in o]


def parse_P(line):
    """'P <n> <codes> items...' -> (n, [codes], [items]) ; None for PANIC/ERR"""
    f = line.split()
    if len(f) < 3 or f[1] in ("PANIC", "ERR"):
        return None
    codes = [] if f[2] == "-" else f[2].split(",")
    return int(f[1]), codes, f[3:]


def decl_text(body):
    return 'Der Text t ist "%s".' % body


def decl_char(body):
    return "Der Buchstabe b ist '%s'." % body


# ---- legs --------------------------------------------------------------------------------------------
def regen_tables(b, ck):
    exe, lg = b.ensure_go("genlit")
    if not exe:
        ck.broken_obligation("translator genlit does not build against /repo", lg)
        return False
    p = subprocess.run([exe, vlib.REPO], capture_output=True, text=True)
    if p.returncode != 0:
        ck.broken_obligation("translator genlit no longer recognises scanEscape/parseString/parseChar in /repo: " + p.stderr.strip()[-300:], p.stderr)
        return False
    path = os.path.join(vlib.COQ, "Gen", "LitEscapes.v")
    old = open(path).read() if os.path.exists(path) else ""
    if p.stdout != old:
        log("[gen] Gen/LitEscapes.v changed -> rebuilding dependants")
        open(path, "w").write(p.stdout)
    ck.cov["regenerated_tables"] = [l for l in p.stdout.splitlines() if l.startswith("Definition")]
    return True


def leg_texts(ck, T, texts, stats):
    """all given texts: scanner on "text and 'text ; parser on complete one-literal declarations"""
    for q, kind, mk, mkdecl in (('"', "text", "S", decl_text), ("'", "char", "C", decl_char)):
        # --- scanner (one NextToken)
        impl = T.impl(["T " + hx(q + t) for t in texts])
        mod = T.mod(["%s %s" % (mk, hx(t)) for t in texts])
        ck.count(len(texts))
        want_type = T.tt["STRING"] if q == '"' else T.tt["CHAR"]
        for t, il, ml in zip(texts, impl, mod):
            f = il.split()
            m = ml.split()
            sp = spec_scan(t, q)
            i_closed = f[0] == "T" and len(f) == 4 and int(f[1]) == want_type
            i_lit = unhx(f[2]).decode("utf-8", "replace") if i_closed else None
            i_n = int(f[3]) if len(f) == 4 and f[0] == "T" else -1
            # specification
            if (sp is not None) != i_closed or (sp is not None and i_lit != q + sp[0] + q):
                viol(ck, "delimit-" + kind, "scanner delimits %s literal wrongly: %r" % (kind, q + t),
                             "NextToken on %r gives %s, the literal should %s" % (q + t, il, "be %r" % (q + sp[0] + q) if sp else "be unterminated"),
                             dict(source=q + t, source_hex=hx(q + t), implementation=il, expected_literal=(q + sp[0] + q) if sp else None, how="litx: T <hex>"))
                continue
            if sp is not None and kind == "text" and (sp[2] > 0) != (i_n > 0):
                viol(ck, "scan-escape", "scanner escape validation wrong: %r" % (q + t),
                             "NextToken on %r reported %d diagnostics, body has %d unknown escapes" % (q + t, i_n, sp[2]),
                             dict(source=q + t, source_hex=hx(q + t), implementation=il, unknown_escapes=sp[2], how="litx: T <hex>"))
                continue
            if sp is not None and kind == "char":
                d = spec_denote(sp[0], q)
                ok = d is not None and len(d) == 1
                if ok != (i_n == 0):
                    viol(ck, "scan-char", "scanner char validation wrong: %r" % (q + t),
                                 "NextToken on %r reported %d diagnostics, the body %s exactly one character" % (q + t, i_n, "denotes" if ok else "does not denote"),
                                 dict(source=q + t, source_hex=hx(q + t), implementation=il, how="litx: T <hex>"))
                    continue
            # model
            m_closed = m[1] == "1"
            agree = m_closed == i_closed and int(m[4]) == i_n
            if agree and i_closed:
                agree = unhx(m[2]).decode("utf-8", "replace") == i_lit[1:-1] and int(m[3]) == len(t) - len(i_lit) + 1
            if not agree:
                stats["model_mismatch"].append(("scan " + kind, q + t, il, ml))
            if sp is not None and ("\\" in sp[0] or any(ord(c) > 127 for c in sp[0])):
                ck.nontrivial(("scan", q, t))
        # --- parser on complete declarations (the text is exactly the body)
        comp = [t for t in texts if complete_body(t, q)]
        impl = T.impl(["P " + hx(mkdecl(t)) for t in comp])
        mod = T.mod(["%s %s" % (mk, hx(t + q + ".")) for t in comp])
        ck.count(len(comp))
        stats["complete_" + kind] = len(comp)
        for t, il, ml in zip(comp, impl, mod):
            pr = parse_P(il)
            m = ml.split()
            d = spec_denote(t, q)
            if kind == "char" and d is not None and len(d) != 1:
                d = None
            src = mkdecl(t)
            rep = dict(source=src, source_hex=hx(src), implementation=il, how="litx: P <hex>  (parser.Parse, items = initial values)")
            if pr is None:
                viol(ck, "parse-fail-" + kind, "parser fails on %s literal %r" % (kind, src), "parser.Parse: %s" % il, rep)
                continue
            n, codes, items = pr
            if d is not None:
                want = "S:" + hx(d) if kind == "text" else "C:%d" % ord(d)
                stats["accepted_" + kind] += 1
                if n != 0 or items != [want]:
                    rep["expected"] = want
                    if viol(ck, "value-" + kind, "%s literal %r evaluates wrongly" % (kind, q + t + q),
                                    "%r: parser gives %s with %d diagnostics, written value is %s" % (src, items, n, want), rep):
                        persist("text", t)
                    continue
            else:
                stats["rejected_" + kind] += 1
                if n == 0 or T.MAL not in codes:
                    if viol(ck, "accept-" + kind, "%s literal %r with unknown escape/shape accepted without diagnostic" % (kind, q + t + q),
                                    "%r: diagnostics %s, items %s" % (src, codes, items), rep):
                        persist("text", t)
                    continue
            # model: value and number of diagnostics (scanner's + first of the parser's)
            if kind == "text":
                want_items = ["S:" + m[5]] if m[0] == "S" and len(m) == 7 else None
                want_n = int(m[4]) + min(1, int(m[6])) if want_items else -1
            else:
                want_items = ["C:" + m[5]]
                want_n = int(m[4]) + min(1, int(m[6]))
            if items != want_items or n != want_n or any(c != T.MAL for c in codes):
                stats["model_mismatch"].append(("parse " + kind, src, il, ml))
            if "\\" in t or any(ord(c) > 127 for c in t):
                ck.nontrivial(("parse", q, t))


def leg_single_chars(ck, T, cps, stats):
    """every given scalar value as a plain character literal, in batches of declarations"""
    B = 2000
    batches = [cps[i:i + B] for i in range(0, len(cps), B)]

    def want_item(c):
        return "C:%d" % c

    def prog(batch):
        return "\n".join("Der Buchstabe b%d ist '%s'." % (i, chr(c)) for i, c in enumerate(batch))
    impl = T.impl(["P " + hx(prog(bt)) for bt in batches])
    mod = T.mod(["C " + hx(chr(c) + "'.") for c in cps])
    ck.count(len(cps))
    bad_mod = [c for c, ml in zip(cps, mod) if ml.split()[:1] != ["C"] or ml.split()[1:] != ["1", hx(chr(c)), "1", "0", str(c), "0"]]
    special = {39, 92}
    for c in bad_mod:
        if c not in special:
            stats["model_mismatch"].append(("single char", chr(c), "-", mod[cps.index(c)]))
    for bt, il in zip(batches, impl):
        pr = parse_P(il)
        plain = [c for c in bt if c not in special]
        if pr is not None and not any(c in special for c in bt) and pr[0] == 0 and pr[2] == [want_item(c) for c in bt]:
            for c in bt:
                if c > 127:
                    ck.nontrivial(("chr", c))
            continue
        # some literal of the batch misbehaves (or the batch contains ' or \): one program per literal
        single = T.impl(["P " + hx("Der Buchstabe b ist '%s'." % chr(c)) for c in bt])
        for c, sl in zip(bt, single):
            p1 = parse_P(sl)
            src = "Der Buchstabe b ist '%s'." % chr(c)
            rep = dict(source=src, source_hex=hx(src), codepoint=c, implementation=sl, how="litx: P <hex>")
            if c in special:
                if p1 is not None and p1[0] == 0:
                    viol(ck, "single-char-accept", "char literal '%s' (unescaped) accepted" % chr(c), "%r accepted: %s" % (src, sl), rep)
                continue
            if p1 is None or p1[0] != 0 or p1[2] != [want_item(c)]:
                viol(ck, "single-char-value", "char literal U+%04X evaluates wrongly" % c, "%r: %s, written value is %d" % (src, sl, c), rep)


def int_cases(ck):
    vals = set()
    for v in (0, 1, 7, 42, 2**31 - 1, 2**31, 2**32, 2**53, 2**62, 2**63 - 2, 2**63 - 1, 2**63, 2**63 + 1, 2**64 - 1, 2**64, 2**64 + 1,
              10**18, 10**19 - 1, 10**19, 10**19 + 1, 1844674407370955161, 1844674407370955162, 2**65, 2**127, 2**128):
        vals.add(str(v))
    for d in range(10):
        vals.add("1844674407370955161" + str(d))
        vals.add("1844674407370955162" + str(d))
        vals.add("922337203685477580" + str(d))
        vals.add("92233720368547758" + str(d) + "7")
    for n in range(1, 26):
        vals.add("9" * n)
        vals.add("1" + "0" * (n - 1))
        vals.add("1" * n)
    base = sorted(vals)
    for s in base:
        for z in (1, 2, 5, 20):
            vals.add("0" * z + s)
    vals.add("0" * 30)
    rng = ck.rng
    nr = 3000 if ck.quick else 60000
    for _ in range(nr):
        r = rng.random()
        if r < 0.4:
            n = rng.randint(1, 25)
            vals.add("".join(rng.choice("0123456789") for _ in range(n)))
        elif r < 0.8:
            vals.add(str(2**63 + rng.randint(-10**6, 10**6)))
        else:
            vals.add(str(rng.choice((2**63, 2**64, 10**19)) + rng.randint(-10**12, 10**12)))
    return sorted(vals, key=lambda s: (len(s), s))


def leg_ints(ck, T, stats):
    lits = int_cases(ck)
    ok = [s for s in lits if int(s) < 2**63]
    rej = [s for s in lits if int(s) >= 2**63]
    B = 500
    batches = [ok[i:i + B] for i in range(0, len(ok), B)]
    impl = T.impl(["P " + hx("\n".join("Die Zahl z%d ist %s." % (i, s) for i, s in enumerate(bt))) for bt in batches])
    mod = T.mod(["I " + s for s in lits])
    ck.count(len(lits))
    for s, ml in zip(lits, mod):
        v = int(s)
        if ml != ("I %d 0" % v if v < 2**63 else "I 0 1"):
            stats["model_mismatch"].append(("int", s, "-", ml))

    def judge(lits1):
        srcs = ["Die Zahl z ist %s." % s for s in lits1]
        outs = T.impl(["P " + hx(src) for src in srcs])
        for s, src, il in zip(lits1, srcs, outs):
            pr = parse_P(il)
            rep = dict(source=src, source_hex=hx(src), implementation=il, how="litx: P <hex>")
            if int(s) < 2**63:
                if pr is None or pr[0] != 0 or pr[2] != ["I:%d" % int(s)]:
                    viol(ck, "int-value", "int literal %s evaluates wrongly" % s, "%r: %s, written value is %d" % (src, il, int(s)), rep)
            else:
                if pr is None or pr[0] == 0 or T.MAL not in pr[1]:
                    viol(ck, "int-range", "int literal %s out of range accepted" % s, "%r: %s but %d > 2^63-1" % (src, il, int(s)), rep)
                elif pr[0] != 1 or pr[2] != ["I:0"]:
                    stats["model_mismatch"].append(("int", s, il, "I 0 1"))
    redo = []
    for bt, il in zip(batches, impl):
        pr = parse_P(il)
        if pr is not None and pr[0] == 0 and pr[2] == ["I:%d" % int(s) for s in bt]:
            for s in bt:
                if len(s) >= 18 or s[0] == "0":
                    ck.nontrivial(("int", s))
            continue
        redo += bt
    judge(redo + rej)
    for s in rej:
        ck.nontrivial(("int", s))
    stats["ints"] = dict(accepted=len(ok), rejected=len(rej))
    # signed literals  -digits : every value in [-2^63, 2^63-1] must be obtained, everything below rejected
    mags = {str(v) for v in (0, 1, 42, 2**31, 2**62, 2**63 - 2, 2**63 - 1, 2**63, 2**63 + 1, 2**63 + 2, 2**64 - 1, 2**64, 10**19, 10**18, 2**65)}
    mags |= {"922337203685477580" + str(d) for d in range(10)}
    mags |= {"0" * z + m for m in list(mags) for z in (1, 3)}
    for _ in range(400 if ck.quick else 5000):
        mags.add(str(2**63 + ck.rng.randint(-10**4, 10**4)))
    mags = sorted(mags, key=lambda m: (len(m), m))
    outs = T.impl(["P " + hx("Die Zahl z ist -%s." % m) for m in mags])
    mod = T.mod(["N " + m for m in mags])
    ck.count(len(mags))
    for m, il, ml in zip(mags, outs, mod):
        src = "Die Zahl z ist -%s." % m
        pr = parse_P(il)
        v = -int(m)
        rep = dict(source=src, source_hex=hx(src), implementation=il, how="litx: P <hex>")
        got = None      # value of the initialiser: IntLit (the smallest Zahl) or negation of an IntLit
        if pr is not None and len(pr[2]) == 1:
            it = pr[2][0]
            if it.startswith("-I:"):
                got = -int(it[3:])
            elif it.startswith("I:"):
                got = int(it[2:])
        if v >= -2**63:
            if pr is None or pr[0] != 0 or got != v:
                viol(ck, "negint-reject", "int literal -%s rejected" % m if (pr is None or pr[0]) else "int literal -%s evaluates wrongly" % m,
                     "%r is within the 64-bit range (value %d) but: %s" % (src, v, il), rep)
                continue
        else:
            if pr is None or pr[0] == 0 or T.MAL not in pr[1]:
                viol(ck, "negint-range", "int literal -%s out of range accepted" % m, "%r: %s but %d < -2^63" % (src, il, v), rep)
                continue
        want = "N %d 0" % v if v >= -2**63 else "N 0 1"
        if ml != want or (pr is not None and (pr[0], got) != ((0, v) if v >= -2**63 else (1, 0))):
            stats["model_mismatch"].append(("negated int", "-" + m, il, ml))
        ck.nontrivial(("negint", m))
    stats["ints"]["signed"] = len(mags)
    # the smallest Zahl inside an expression
    src = "Die Zahl z ist -9223372036854775808 plus 1."
    il = T.impl(["P " + hx(src)])[0]
    pr = parse_P(il)
    ck.count()
    import re as _re
    if pr is None or pr[0] != 0 or len(pr[2]) != 1 or not _re.fullmatch(r"\(I:-9223372036854775808,op\d+,I:1\)", pr[2][0]):
        viol(ck, "negint-expr", "int literal -9223372036854775808 inside an expression parses wrongly", "%r: %s" % (src, il),
             dict(source=src, source_hex=hx(src), implementation=il, how="litx: P <hex>"))


def float_cases(ck):
    rng = ck.rng
    ex = []
    ips = [str(i) for i in range(10)] + ["%02d" % i for i in range(100)] + ["%03d" % i for i in range(1000)]
    fps = ips
    if ck.quick:
        # quick: every literal with <=3+2 or <=2+3 digits, and a seeded sample of the 3+3 remainder (thorough: all of <=3+3)
        ex = [a + "," + b for a in ips for b in fps if len(a) <= 2 or len(b) <= 2]
        ex += [rng.choice(ips[110:]) + "," + rng.choice(fps[110:]) for _ in range(100000)]
    else:
        ex = [a + "," + b for a in ips for b in fps]
    rnd = set()
    nr = 30000 if ck.quick else 400000
    for _ in range(nr):
        a = rng.randint(1, 12)
        bmax = 13 - a if a < 12 else 1
        bl = rng.randint(1, max(1, min(12, bmax)))
        rnd.add("".join(rng.choice("0123456789") for _ in range(a)) + "," + "".join(rng.choice("0123456789") for _ in range(bl)))
    hard = set()
    # exact midpoints between adjacent doubles (decimal expansions are finite), and their neighbours
    nh = 200 if ck.quick else 3000
    for k in range(nh):
        # mostly moderate exponents (literals of <= 60 digits); every 12th an extreme one (up to ~1100 digits)
        e = rng.choice([rng.randint(-1074, -1000), rng.randint(900, 1023)]) if k % 12 == 0 else rng.choice([rng.randint(-60, 70), rng.randint(-30, 30)])
        m = rng.getrandbits(52) | (1 << 52)
        lo = Fraction(m) * Fraction(2) ** (e - 52)
        hi = Fraction(m + 1) * Fraction(2) ** (e - 52)
        mid = (lo + hi) / 2
        for x in (mid, lo, hi):
            s = frac_to_decimal(x)
            if s is None or len(s) > 1200:
                continue
            hard.add(s)
            hard.add(bump(s, +1))
            hard.add(bump(s, -1))
    for s in ("0,0", "0,5", "1,0", "9007199254740993,0", "9007199254740992,5", "9007199254740991,5", "179769313486231570" + "0" * 291 + ",0",
              "17976931348623157" + "9" * 292 + ",9", "17976931348623158" + "0" * 292 + ",0", "1" + "0" * 308 + ",0", "1" + "0" * 309 + ",0", "9" * 400 + ",9",
              "0," + "0" * 322 + "1", "0," + "0" * 323 + "24703282292062327208", "0," + "0" * 323 + "24703282292062327209", "0," + "0" * 323 + "49406564584124654",
              "0," + "0" * 400 + "1", "0," + "0" * 307 + "22250738585072014", "0," + "0" * 307 + "22250738585072011", "4,35", "0,1", "0,2", "0,3", "2,675", "1,005",
              "123456789012345678,9", "0,000001", "1,7976931348623157", "00000,50000"):
        hard.add(s)
    return ex, sorted(rnd), sorted(hard)


def frac_to_decimal(x):
    """exact decimal expansion digits,digits of a dyadic rational >= 0 (None if too long)"""
    ip = x.numerator // x.denominator
    fr = x - ip
    k = 0
    d = fr.denominator
    while d % 2 == 0:
        d //= 2
        k += 1
    if d != 1 or k > 1100:
        return None
    num = fr.numerator * 5 ** k   # fr = num / 10^k
    fs = str(num).rjust(k, "0") if k else "0"
    return "%d,%s" % (ip, fs)


def bump(s, delta):
    """neighbouring decimal: append a digit that moves the value slightly up / down"""
    if delta > 0:
        return s + "1"
    ip, fp = s.split(",")
    n = int(ip + fp)
    if n == 0:
        return s
    t = str(n * 10 - 1).rjust(len(ip) + len(fp) + 1, "0")
    return t[:len(ip)] + "," + t[len(ip):]


def py_float(s):
    """(bits, ok): Python's correctly rounded conversion of the written decimal"""
    x = float(s.replace(",", "."))
    if x == float("inf"):
        return None
    return fbits(x)


def leg_floats(ck, T, stats):
    ex, rnd, hard = float_cases(ck)
    allc = ex + rnd + hard
    want = [py_float(s) for s in allc]
    mod = T.mod(["F " + s for s in allc])
    ck.count(len(allc))
    for s, w, ml in zip(allc, want, mod):
        if ml != ("F %016x 0" % w if w is not None else "F 0000000000000000 1"):
            stats["model_mismatch"].append(("float", s, "-", ml + " python=%s" % ("%016x" % w if w is not None else "inf")))
    ok = [(s, w) for s, w in zip(allc, want) if w is not None]
    rej = [s for s, w in zip(allc, want) if w is None]
    # accepted ones in batched programs (sizes bounded by source length)
    batches, cur, size = [], [], 0
    for s, w in ok:
        cur.append((s, w))
        size += len(s) + 30
        if len(cur) >= 2000 or size > 400000:
            batches.append(cur)
            cur, size = [], 0
    if cur:
        batches.append(cur)
    impl = T.impl(["P " + hx("\n".join("Die Kommazahl k%d ist %s." % (i, s) for i, (s, _) in enumerate(bt))) for bt in batches])

    def judge(cases1):
        srcs = ["Die Kommazahl k ist %s." % s for s, _ in cases1]
        outs = T.impl(["P " + hx(src) for src in srcs])
        for (s, w), src, il in zip(cases1, srcs, outs):
            pr = parse_P(il)
            short = s if len(s) < 60 else s[:25] + "...(%d digits)" % (len(s) - 1)
            rep = dict(source=src, source_hex=hx(src), implementation=il, how="litx: P <hex>")
            if w is not None:
                if pr is None or pr[0] != 0 or pr[2] != ["F:%016x" % w]:
                    rep["expected_bits"] = "%016x" % w
                    viol(ck, "float-value", "decimal literal %s evaluates wrongly" % short, "%s: %s, correctly rounded value has bits %016x" % (short, il, w), rep)
            else:
                if pr is None or pr[0] == 0 or T.MAL not in pr[1]:
                    viol(ck, "float-range", "decimal literal %s out of range accepted" % short, "%s: %s but the value rounds to infinity" % (short, il), rep)
    redo = []
    for bt, il in zip(batches, impl):
        pr = parse_P(il)
        if pr is not None and pr[0] == 0 and pr[2] == ["F:%016x" % w for _, w in bt]:
            continue
        redo += bt
    if len(redo) > 50000:      # a systematic deviation: the first batches are enough to name inputs
        redo = redo[:50000]
    judge(redo + [(s, None) for s in rej])
    for s, w in ok:
        if w & ((1 << 30) - 1):      # not a short dyadic value: rounding really happened
            ck.nontrivial(("float", s))
    stats["floats"] = dict(exhaustive_3_3=len(ex), random_to_12_digits=len(rnd), midpoints_and_extremes=len(hard), rejected_overflow=len(rej))


class InfraError(Exception):
    pass


# ---- every literal class in every syntactic position ----------------------------------------------------
TY = {
    "Z": dict(decl="Die Zahl %s ist %s.", typ="Zahl", ret="eine Zahl", lst="Die Zahlen Liste %s ist eine Liste, die aus %s, %s besteht.", fill="7", zero="0"),
    "K": dict(decl="Die Kommazahl %s ist %s.", typ="Kommazahl", ret="eine Kommazahl", lst="Die Kommazahlen Liste %s ist eine Liste, die aus %s, %s besteht.", fill="2,5", zero="0,0"),
    "T": dict(decl="Der Text %s ist %s.", typ="Text", ret="einen Text", lst="Die Text Liste %s ist eine Liste, die aus %s, %s besteht.", fill='"f"', zero='""'),
    "B": dict(decl="Der Buchstabe %s ist %s.", typ="Buchstabe", ret="einen Buchstaben", lst="Die Buchstaben Liste %s ist eine Liste, die aus %s, %s besteht.", fill="'f'", zero=None),
}


def prelude(ty):
    t = TY[ty]
    return ('Binde "Duden/Ausgabe" ein.\n'
            "Die Funktion idf mit dem Parameter p vom Typ %(typ)s, gibt %(ret)s zurück, macht:\n\tGib p zurück.\nUnd kann so benutzt werden:\n\t\"idf <p>\"\n"
            "Die Funktion zweif mit den Parametern a und p vom Typ %(typ)s und %(typ)s, gibt %(ret)s zurück, macht:\n\tGib p zurück.\nUnd kann so benutzt werden:\n\t\"zweif <a> und <p>\"\n"
            "Die generische Funktion gid mit dem Parameter p vom Typ T, gibt ein T zurück, macht:\n\tGib p zurück.\nUnd kann so benutzt werden:\n\t\"gid <p>\"\n") % t


def positions(ty):
    """name -> (L -> program text after the prelude,
                'x' if variable x holds the literal's value / '' if the statement prints it itself / None if nothing is printed,
                is the literal node visible in the main module's AST)"""
    t = TY[ty]
    F = t["fill"]

    def d(e):
        return t["decl"] % ("x", e)
    ps = {
        "initialiser": (lambda L: d(L), "x", True),
        "bare argument of a Duden alias": (lambda L: "Schreibe %s." % L, "", True),
        "bare argument of a Duden alias (auf eine Zeile)": (lambda L: "Schreibe %s auf eine Zeile." % L, None, True),
        "bare argument of a user alias": (lambda L: d("idf %s" % L), "x", True),
        "parenthesised argument of a Duden alias": (lambda L: "Schreibe (%s)." % L, "", True),
        "parenthesised argument of a user alias": (lambda L: d("idf (%s)" % L), "x", True),
        "second argument of a user alias": (lambda L: d("zweif %s und %s" % (F, L)), "x", True),
        "list literal element": (lambda L: (t["lst"] % ("l", F, L)) + "\n" + d("l an der Stelle 2"), "x", True),
        "falls operand (then)": (lambda L: d("%s, falls wahr, ansonsten %s" % (L, F)), "x", True),
        "falls operand (else)": (lambda L: d("%s, falls falsch, ansonsten %s" % (F, L)), "x", True),
        "return value": (lambda L: "Die Funktion rr gibt %s zurück, macht:\n\tGib %s zurück.\nUnd kann so benutzt werden:\n\t\"rr\"\n" % (t["ret"], L) + d("rr"), "x", True),
        "assigned value": (lambda L: d(F) + "\nSpeichere %s in x." % L, "x", True),
        "condition operand": (lambda L: "Wenn %s gleich %s ist, dann:\n\tSchreibe 1.\n" % (L, F), None, True),
        "comparison operand": (lambda L: "Der Wahrheitswert w ist %s ungleich %s ist." % (F, L), None, True),
        "argument of a generic function": (lambda L: d("gid %s" % L), "x", True),
        "body of a generic function": (lambda L: "Die generische Funktion gk mit dem Parameter q vom Typ T, gibt %s zurück, macht:\n\tGib %s zurück.\nUnd kann so benutzt werden:\n\t\"gk <q>\"\n" % (t["ret"], L) + d("gk 1"), "x", False),
    }
    if ty in ("Z", "K"):
        ps["left operand of plus"] = (lambda L: d("%s plus %s" % (L, t["zero"])), "x", True)
        ps["right operand of plus"] = (lambda L: d("%s plus %s" % (t["zero"], L)), "x", True)
        ps["loop end"] = (lambda L: "Für jede %s i von %s bis %s, mache:\n\tSchreibe 1.\n" % (t["typ"], t["zero"], L), None, True)
        ps["loop start"] = (lambda L: "Für jede %s i von %s bis %s, mache:\n\tSchreibe 1.\n" % (t["typ"], L, t["zero"]), None, True)
        ps["loop step"] = (lambda L: "Für jede %s i von %s bis %s mit Schrittgröße %s, mache:\n\tSchreibe 1.\n" % (t["typ"], t["zero"], t["zero"], L), None, True)
    if ty == "Z":
        ps["repeat count"] = (lambda L: "Wiederhole:\n\tSchreibe 1.\n%s Mal.\n" % L, None, True)
        ps["list size"] = (lambda L: "Die Zahlen Liste l ist %s Mal 7." % L, None, True)
    if ty == "T":
        ps["operand of verkettet mit"] = (lambda L: d('%s verkettet mit ""' % L), "x", True)
    return ps


def position_literals(ck):
    """(type, spelling, expected AST item or None if the literal must be rejected, printed bytes)"""
    out = []

    def z(sp):
        neg = sp.startswith("-")
        v = int(sp)
        if -2**63 <= v < 2**63:
            it = "I:%d" % v if (not neg or v == -2**63) else "-I:%d" % -v
            out.append(("Z", sp, it, str(v).encode()))
        else:
            out.append(("Z", sp, None, None))
    for sp in ("0", "42", "007", "9223372036854775807", "09223372036854775807", "-1", "-9223372036854775807", "-9223372036854775808", "-09223372036854775808",
               "9223372036854775808", "9223372036854775809", "-9223372036854775809", "18446744073709551616", "10000000000000000000", "-18446744073709551616",
               "9" * 25, "-" + "9" * 25, "09223372036854775808"):
        z(sp)
    for _ in range(4 if ck.quick else 40):
        z(str(2**63 + ck.rng.randint(-3, 3) + ck.rng.choice((0, 0, 2**63))))
        z("-" + str(2**63 + ck.rng.randint(-3, 3)))

    def k(sp):
        x = float(sp.replace(",", "."))
        if x in (float("inf"), float("-inf")):
            out.append(("K", sp, None, None))
        else:
            it = ("-F:%016x" % fbits(-x)) if sp.startswith("-") else "F:%016x" % fbits(x)
            out.append(("K", sp, it, ("%.16g" % x).encode()))
    for sp in ("0,1", "1,5", "-2,675", "17976931348623157" + "0" * 292 + ",0", "0," + "0" * 400 + "1", "1" + "0" * 309 + ",0", "-1" + "0" * 309 + ",0", "9" * 400 + ",9",
               "17976931348623158" + "0" * 292 + ",0", "9007199254740993,0"):
        k(sp)
    for body, ok in (("a", 1), ("ä", 1), ("\U0001d11e", 1), ("\\n", 1), ("\\'", 1), ("\\\\", 1), ('"', 1), ("\\x", 0), ("ab", 0), ("", 0), ('\\"', 0)):
        dn = spec_denote(body, "'") if ok else None
        out.append(("B", "'%s'" % body, "C:%d" % ord(dn) if ok else None, dn.encode() if ok else None))
    for body, ok in (("a\\nb", 1), ('\\"', 1), ("ä\U0001d11e", 1), ("", 1), ("\\\\n", 1), ("'", 1), ("a\\tb\\\\", 1), ("a\\xb", 0), ("\\'", 0), ("a\\ä", 0)):
        dn = spec_denote(body, '"') if ok else None
        out.append(("T", '"%s"' % body, "S:" + hx(dn) if ok else None, dn.encode() if ok else None))
    return out


def leg_positions(ck, b, T, stats):
    lits = position_literals(ck)
    cases = []   # (type, position, spelling, expected item, printed, source, print var, visible)
    for ty, sp, it, pr in lits:
        for name, (mk, var, vis) in positions(ty).items():
            cases.append((ty, name, sp, it, pr, prelude(ty) + mk(sp) + "\n", var, vis))
    outs = T.whole(["W " + hx(c[5]) for c in cases])
    ck.count(len(cases))
    npos = {ty: len(positions(ty)) for ty in TY}
    stats["positions"] = dict(cases=len(cases), literals=len(lits), positions_per_type=npos, accepted=sum(1 for c in cases if c[3]), rejected=sum(1 for c in cases if not c[3]))
    kind = {"Z": "int", "K": "decimal", "T": "text", "B": "char"}
    for (ty, name, sp, it, pr, src, var, vis), ol in zip(cases, outs):
        f = ol.split()
        short = sp if len(sp) < 50 else sp[:24] + "...(%d chars)" % len(sp)
        rep = dict(source=src, source_hex=hx(src), position=name, literal=sp, implementation=ol[:400], how="litx: W <hex> (DDPPATH=<repo>/lib/stdlib): '#errors faulty codes literal-nodes'")
        if len(f) < 4 or f[1] in ("PANIC", "ERR"):
            viol(ck, "position-fail", "parser fails on %s literal %s as %s" % (kind[ty], short, name), ol[:300], rep)
            continue
        n, faulty, items = int(f[1]), f[2] == "1", f[4:]
        if it is None:
            if n == 0 or not faulty:
                viol(ck, "position-accept-" + ty, "%s literal %s accepted as %s" % (kind[ty], short, name),
                     "the literal cannot be read (out of range / unknown escape) but as %s it gives %d error diagnostics, faulty=%s, literal nodes %s" % (name, n, faulty, items[:6]), rep)
        else:
            if n != 0 or faulty or (vis and it not in items):
                viol(ck, "position-value-" + ty, "%s literal %s wrong as %s" % (kind[ty], short, name),
                     "as %s: %d error diagnostics, faulty=%s, literal nodes %s; expected the node %s and no diagnostic" % (name, n, faulty, items[:8], it), rep)
        ck.nontrivial(("pos", name, sp))
    # compiled: rejected literals must not compile, accepted ones must print their value (positions that expose it)
    ok, lg = b.ensure_native()
    if not ok:
        return
    sd = vlib.scratch()
    rej = [c for c in cases if c[3] is None and c[2] in (("9223372036854775808", "-9223372036854775809", "1" + "0" * 309 + ",0") if ck.quick else
                                                         ("9223372036854775808", "-9223372036854775809", "1" + "0" * 309 + ",0", "'\\x'", '"a\\xb"', "18446744073709551616"))]
    acc = [c for c in cases if c[3] is not None and c[6] is not None and len(c[2]) < 40]
    if ck.quick:
        acc = [c for c in acc if c[2] in ("9223372036854775807", "-9223372036854775808", "-2,675", "'\\n'", '"a\\nb"')]

    def comp(i_c):
        i, c = i_c
        p = os.path.join(sd, "q%d.ddp" % i)
        src = c[5] + ("Schreibe x.\n" if c[6] == "x" else "")
        try:
            open(p, "w", encoding="utf-8", newline="").write(src)
            r = b.compile(p, os.path.join(sd, "q%d" % i))
            if r["stage"] != "ok":
                return ("compile", r["stage"], r["out"][-300:])
            rc, out, err = b.run(os.path.join(sd, "q%d" % i))
            return ("ran", rc, out)
        except OSError as e:
            raise InfraError("cannot compile/run programs: %s" % e)
    res = vlib.pmap(comp, list(enumerate(rej + acc)))
    ck.count(len(res))
    stats["positions"]["compiled"] = dict(rejected=len(rej), accepted=len(acc))
    for c, r in zip(rej + acc, res):
        ty, name, sp, it, pr, src, var, vis = c
        short = sp if len(sp) < 50 else sp[:24] + "...(%d chars)" % len(sp)
        full = src + ("Schreibe x.\n" if var == "x" else "")
        if it is None:
            if not (r[0] == "compile" and r[1] == "kddp"):
                viol(ck, "position-compiled-accept", "%s literal %s compiles as %s" % (kind[ty], short, name),
                     "kddp must reject the program, got %s" % (r,), dict(source=full, position=name, literal=sp, got=str(r)[:400], how="Build().compile(src): kddp must fail"))
        else:
            if not (r[0] == "ran" and r[1] == 0 and r[2] == pr):
                viol(ck, "position-compiled-value", "compiled %s literal %s prints wrongly as %s" % (kind[ty], short, name),
                     "prints %s, the written value is %r" % (r, pr), dict(source=full, position=name, literal=sp, expected_stdout_hex=pr.hex(), got=str(r)[:400], how="Build().compile(src) + run, compare stdout"))


# ---- end to end: compiled programs ------------------------------------------------------------------
def leg_e2e(ck, b, texts, stats, corpus=()):
    ok, lg = b.ensure_native()
    if not ok:
        ck.violation("native-build", "kddp/runtime do not build from /repo: " + lg[-400:], dict(log=lg[-3000:]), no_input=True)
        return
    rng = ck.rng
    sd = vlib.scratch()
    items = []   # (kind, source statement, expected bytes, description)
    valid = [t for t in texts if complete_body(t, '"') and spec_denote(t, '"') is not None]
    short = [t for t in valid if len(t) <= (2 if ck.quick else 3)]
    longer = [t for t in valid if len(t) > (2 if ck.quick else 3)]
    rng.shuffle(longer)
    pick = [t for t in corpus if complete_body(t, '"') and spec_denote(t, '"') is not None] + short + longer[:(250 if ck.quick else 2000)]
    for _ in range(150 if ck.quick else 1000):
        s = "".join(rng.choice(ALPHA + ["€", "Z", " ", "\t", "\r"]) for _ in range(rng.randint(3, 12)))
        pick.append(spec_escape(s, '"'))
    for t in pick:
        d = spec_denote(t, '"')
        items.append(("text", 'Schreibe den Text "%s".' % t, d.encode(), '"%s"' % t))
    chars = [c for c in ALPHA if c not in ("'", "\\")] + [chr(x) for x in (0x20AC, 0x5A, 0x20, 9, 0x7F, 0x7FF, 0x800, 0xFFFF, 0x10000, 0x10FFFF, 0xD7FF, 0xE000, 1, 0x22)]
    chars += [chr(rng.choice([rng.randint(1, 0x7f), rng.randint(0x80, 0x7ff), rng.randint(0x800, 0xd7ff), rng.randint(0xe000, 0xffff), rng.randint(0x10000, 0x10ffff)])) for _ in range(60 if ck.quick else 800)]
    for c in chars:
        if c in ("'", "\\"):
            continue
        items.append(("char", "Schreibe den Buchstaben '%s'." % c, c.encode(), "'%s'" % c))
    for e in ("a", "b", "n", "r", "t", "\\", "'"):
        items.append(("char", "Schreibe den Buchstaben '\\%s'." % e, esc_val(e, "'").encode(), "'\\%s'" % e))
    ints = [s for s in int_cases(ck) if int(s) < 2**63]
    rng.shuffle(ints)
    ints = ["0", "9223372036854775807", "09223372036854775807", "9223372036854775806", "4294967296", "007"] + ints[:(80 if ck.quick else 1000)]
    for s in ints:
        items.append(("int", "Schreibe die Zahl %s." % s, str(int(s)).encode(), s))
    items.append(("int", "Schreibe die Zahl -9223372036854775807.", b"-9223372036854775807", "-9223372036854775807"))
    items.append(("int", "Schreibe die Zahl -9223372036854775808.", b"-9223372036854775808", "-9223372036854775808"))
    items.append(("int", "Schreibe die Zahl (-9223372036854775808 plus 1).", b"-9223372036854775807", "(-9223372036854775808 plus 1)"))
    items.append(("int", "Schreibe die Zahl -09223372036854775808.", b"-9223372036854775808", "-09223372036854775808"))
    ex, rnd, hard = float_cases(ck)
    hs = [s for s in hard if len(s) < 400]
    rng.shuffle(hs)
    fl = hs[:(120 if ck.quick else 1500)] + rnd[:(100 if ck.quick else 1500)] + [ex[i] for i in range(0, len(ex), 9973 if ck.quick else 499)]
    for s in fl:
        w = py_float(s)
        if w is None:
            continue
        items.append(("float", "Schreibe die Kommazahl %s." % s, ("%.16g" % float(s.replace(",", "."))).encode(), s))
    items.append(("bool", "Schreibe den Wahrheitswert wahr.", b"wahr", "wahr"))
    items.append(("bool", "Schreibe den Wahrheitswert falsch.", b"falsch", "falsch"))
    B = 120
    batches = [items[i:i + B] for i in range(0, len(items), B)]
    # list literals (one fixed program; element literals of every kind)
    listprog = ('Binde "Duden/Ausgabe" ein.\n'
                'Die Zahlen Liste lz ist eine Liste, die aus 3, 9223372036854775807, 007 besteht.\n'
                'Die Kommazahlen Liste lk ist eine Liste, die aus 3,25, 0,1, 100,0 besteht.\n'
                'Die Wahrheitswert Liste lw ist eine Liste, die aus wahr, falsch, wahr besteht.\n'
                "Die Buchstaben Liste lb ist eine Liste, die aus 'd', '\\t', 'ä', '\\'' besteht.\n"
                'Die Text Liste lt ist eine Liste, die aus "a\\"b", "\\\\n", "", "\U0001d11e\\n" besteht.\n'
                'Schreibe lz.\nSchreibe \'|\'.\nSchreibe lk.\nSchreibe \'|\'.\nSchreibe lw.\nSchreibe \'|\'.\nSchreibe lb.\nSchreibe \'|\'.\nSchreibe lt.\n')
    listwant = "3, 9223372036854775807, 7|3.25, 0.1, 100|wahr, falsch, wahr|d, \t, ä, '|a\"b, \\n, , \U0001d11e\n".encode()

    def run_prog(idx_src, retry=True):
        idx, src = idx_src
        p = os.path.join(sd, "p%d.ddp" % idx)
        try:
            open(p, "w", encoding="utf-8", newline="").write(src)
            r = b.compile(p, os.path.join(sd, "p%d" % idx))
            if r["stage"] != "ok":
                return ("compile", r["out"][-600:])
            rc, out, err = b.run(os.path.join(sd, "p%d" % idx))
            return ("ran", rc, out, err)
        except OSError as e:
            # the shared build cache of this tree was pruned by a concurrent check: rebuild once and retry
            if retry and not os.path.exists(b.kddp):
                log("[c19] build products vanished (%s); rebuilding" % e)
                os.makedirs(sd, exist_ok=True)
                if b.ensure_native()[0]:
                    return run_prog(idx_src, retry=False)
            raise InfraError("cannot compile/run programs: %s" % e)

    def prog_of(bt):
        return 'Binde "Duden/Ausgabe" ein.\n' + "\n".join(st for _, st, _, _ in bt) + "\n"
    res = vlib.pmap(run_prog, [(i, prog_of(bt)) for i, bt in enumerate(batches)] + [(len(batches), listprog)])
    ck.count(len(items) + 1)
    lr = res[-1]
    # Kommazahl output uses the locale's decimal separator; the sandbox shim runs in C.utf8 ('.')
    lout = lr[2] if lr[0] == "ran" else b""
    if lr[0] != "ran" or lr[1] != 0 or lout != listwant:
        ck.violation("list literals print wrongly", "list program: %r, expected %r" % (lr[1:3] if lr[0] == "ran" else lr, listwant),
                     dict(source=listprog, expected_stdout_hex=listwant.hex(), got=str(lr)[:800], how="Build().compile + run"))
    nid = len(batches) + 1
    for bt, r in zip(batches, res):
        want = b"".join(w for _, _, w, _ in bt)
        if r[0] == "ran" and r[1] == 0 and r[2] == want:
            for k, st, w, desc in bt:
                if k in ("text", "char") and ("\\" in desc or any(ord(c) > 127 for c in desc)):
                    ck.nontrivial(("e2e", desc))
            continue
        # find literals of the batch that misbehave by bisection (at most 3 localisations per run)
        stats["e2e_failing_batches"] = stats.get("e2e_failing_batches", 0) + 1
        if stats.get("e2e_localised", 0) >= 3:
            continue
        stats["e2e_localised"] = stats.get("e2e_localised", 0) + 1

        def bad(sub):
            nonlocal nid
            nid += 1
            rr = run_prog((nid, prog_of(sub)))
            return not (rr[0] == "ran" and rr[1] == 0 and rr[2] == b"".join(w for _, _, w, _ in sub))
        cur = list(bt)
        while len(cur) > 1:
            half = cur[:len(cur) // 2]
            if bad(half):
                cur = half
            elif bad(cur[len(cur) // 2:]):
                cur = cur[len(cur) // 2:]
            else:
                break       # only the combination fails
        culprits = cur if len(cur) == 1 else []
        nid += 1
        singles = [run_prog((nid, prog_of(culprits)))] if culprits else []
        bt = culprits if culprits else bt
        found = False
        for (k, st, w, desc), sr in zip(bt, singles):
            if sr[0] == "ran" and sr[1] == 0 and sr[2] == w:
                continue
            found = True
            if k == "text":
                body = desc[1:-1]

                def fails(bd):
                    nonlocal nid
                    nid += 1
                    r1 = run_prog((nid, 'Binde "Duden/Ausgabe" ein.\nSchreibe den Text "%s".\n' % bd))
                    return not (r1[0] == "ran" and r1[1] == 0 and r1[2] == spec_denote(bd, '"').encode())
                body = shrink_units(body, fails)
                persist("text", body)
                nid += 1
                st, w, desc = 'Schreibe den Text "%s".' % body, spec_denote(body, '"').encode(), '"%s"' % body
                sr = run_prog((nid, prog_of([(k, st, w, desc)])))
            short = desc if len(desc) < 60 else desc[:30] + "...(%d chars)" % len(desc)
            viol(ck, "e2e-" + k, "compiled %s literal %s prints wrongly" % (k, short),
                         "`%s` prints %r, the written value is %r" % (st if len(st) < 200 else st[:200] + "...", sr[2] if sr[0] == "ran" else sr, w),
                         dict(source=prog_of([(k, st, w, desc)]), expected_stdout_hex=w.hex(), got=str(sr)[:600], how="Build().compile(src) + run, compare stdout"))
        if not found:
            ck.violation("compiled literals interfere", "a batch of %d Schreibe statements prints %r..., expected %r..." % (len(bt), (r[2][:80] if r[0] == "ran" else r), want[:80]),
                         dict(source=prog_of(bt), expected_stdout_hex=want.hex(), got=str(r)[:600], how="Build().compile(src) + run"))
    stats["e2e"] = dict(programs=len(batches) + 1, literals=len(items), texts=len(pick), chars=len(chars) + 7, ints=len(ints) + 1, floats=sum(1 for i in items if i[0] == "float"))


def persist(kind, text):
    """keep a minimised failing literal under corpus/C19 (run first by every later check)"""
    import hashlib
    if os.path.realpath(vlib.REPO) != "/repo":
        return      # mutation experiments (VERIF_REPO=copy) must not leave their failures in the corpus of the real tree
    d = os.path.join(vlib.VERIF, "corpus", PID)
    os.makedirs(d, exist_ok=True)
    f = os.path.join(d, hashlib.sha1((kind + "\0" + text).encode()).hexdigest()[:12] + ".json")
    if not os.path.exists(f):
        json.dump(dict(kind=kind, text=text), open(f, "w"), ensure_ascii=False)


def units(body):
    out, i = [], 0
    while i < len(body):
        if body[i] == "\\" and i + 1 < len(body):
            out.append(body[i:i + 2])
            i += 2
        else:
            out.append(body[i])
            i += 1
    return out


def shrink_units(body, fails, budget=40):
    """greedy removal of units (characters / escape pairs) while `fails(body)` stays true"""
    us = units(body)
    changed = True
    while changed and budget > 0:
        changed = False
        for i in range(len(us)):
            cand = us[:i] + us[i + 1:]
            budget -= 1
            if cand and fails("".join(cand)):
                us = cand
                changed = True
                break
            if budget <= 0:
                break
    return "".join(us)


def run_corpus(ck, T):
    d = os.path.join(vlib.VERIF, "corpus", PID)
    if not os.path.isdir(d):
        return []
    texts = []
    for f in sorted(os.listdir(d)):
        try:
            j = json.load(open(os.path.join(d, f)))
        except Exception:
            continue
        if j.get("kind") == "text":
            texts.append(j["text"])
    return texts


_t = [0.0]


def lap(what):
    import time
    now = time.time()
    if _t[0]:
        log("[c19] %-14s %.1fs" % (what, now - _t[0]))
    _t[0] = now


def replay_mode(ck, b, T):
    """./check C19 --replay replay/C19_n.json : re-run the recorded input on the current tree and show both sides"""
    j = json.load(open(ck.replay))
    r = j.get("replay", {})
    print("key:      ", j.get("key"))
    print("recorded: ", r.get("implementation", r.get("got")))
    rc = 0
    if "source_hex" in r:
        mode = "T" if str(r.get("how", "")).startswith("litx: T") else "P"
        now = T.impl(["%s %s" % (mode, r["source_hex"])])[0]
        print("now:      ", now)
        rc = 1 if now == r.get("implementation") else 0
    elif "source" in r and "expected_stdout_hex" in r and b.ensure_native()[0]:
        sd = vlib.scratch()
        p = os.path.join(sd, "replay.ddp")
        open(p, "w", encoding="utf-8", newline="").write(r["source"])
        c = b.compile(p, os.path.join(sd, "replay"))
        out = b.run(os.path.join(sd, "replay")) if c["stage"] == "ok" else c
        print("now:      ", out)
        print("expected stdout:", bytes.fromhex(r["expected_stdout_hex"]))
        rc = 0 if c["stage"] == "ok" and out[1] == bytes.fromhex(r["expected_stdout_hex"]) else 1
    print("still failing" if rc else "no longer failing")
    sys.exit(rc)


def main():
    lap("start")
    ck = Check(PID, "proof")
    b = Build()
    ck.cov["trusted_base"] = vlib.TRUSTED_COMMON + [
        "Flocq 4.1 (Bdiv_correct_aux, generic rounding) and the Coq Reals axioms listed under axioms_reported: only C19_parse_float_correctly_rounded depends on them",
        "strconv.ParseFloat / ParseInt, utf8.DecodeRune* are Go library code: modelled (decode_rune, parse_uint_loop, dec_to_sf), tied by the correspondence on bit patterns / values only",
        "the scanner part of the model works on code points (source passed utf8.Valid); the byte-level scanner is C13's",
        "Python str/int/float()/'%.16g' as the specification oracle (float() is correctly rounded)",
        "code generation and runtime for literals (newInt, NewFloat, NewCString, ddp_string_from_constant, Schreibe_*) are not modelled: covered by the compiled-program leg only; U+0000 inside literals is outside the alphabet (C strings)",
    ]
    ck.assumptions += [
        "sources are valid UTF-8 (scanner.New rejects everything else before the first token)",
        "U+0000 inside a text literal is outside the alphabet: the constant reaches the runtime as a C string",
        "printed Kommazahl: '%.16g' of the C library in the sandbox's C.utf8 locale (decimal point), compared with Python's '%.16g'",
    ]
    ok_tab = regen_tables(b, ck)
    lap("tables")
    ck.coq()
    lap("coq")
    subprocess.run(["make", "-s", "-C", os.path.join(vlib.VERIF, "extract"), "_build/c19"], capture_output=True, timeout=600)
    litx, lg = b.ensure_go("litx")
    model = vlib.model_bin("c19")
    if not litx:
        ck.violation("harness-build", "litx does not build against /repo: " + lg[-500:], dict(log=lg[-3000:]), no_input=True)
        ck.finish()
    if not os.path.exists(model) or not ok_tab:
        ck.broken_obligation("extracted model driver missing (make setup)", "")
        ck.finish()
    T = Tools(litx, model)
    if ck.replay:
        replay_mode(ck, b, T)
    stats = dict(model_mismatch=[], accepted_text=0, rejected_text=0, accepted_char=0, rejected_char=0)

    L = 4 if ck.quick else 5
    corpus = run_corpus(ck, T)
    texts = list(corpus)
    for n in range(0, L + 1):
        texts += ["".join(p) for p in itertools.product(ALPHA, repeat=n)]
    lap("build")
    leg_texts(ck, T, texts, stats)
    lap("texts")
    # every single character
    if ck.quick:
        cps = [c for c in range(0, 0x10000) if not 0xD800 <= c < 0xE000] + list(range(0x10000, 0x110000, 17)) + [0x10FFFF, 0x10FFFE]
    else:
        cps = [c for c in range(0, 0x110000) if not 0xD800 <= c < 0xE000]
    leg_single_chars(ck, T, cps, stats)
    lap("chars")
    leg_ints(ck, T, stats)
    lap("ints")
    leg_floats(ck, T, stats)
    lap("floats")
    try:
        leg_positions(ck, b, T, stats)
        lap("positions")
        leg_e2e(ck, b, texts, stats, corpus)
    except InfraError as e:
        # not evidence about the property: the leg is reported as not run, the verdict comes from the other legs
        log("[c19] WARNING end-to-end leg did not complete: %s" % e)
        stats["e2e"] = "NOT RUN: %s" % e
    lap("e2e")

    mm = stats.pop("model_mismatch")
    if mm and not ck.violations:
        k, src, il, ml = mm[0]
        ck.broken_obligation("correspondence model vs implementation fails (%s) on %r: implementation %s, model %s (%d disagreements; the implementation satisfied the specification on every input explored)"
                             % (k, src if len(src) < 200 else src[:200], il, ml, len(mm)), "")
    ck.cov.update(stats)
    ck.cov["model_disagreements"] = len(mm)
    ck.cov["further_witnesses_per_class"] = dict(_seen_cls)
    ck.cov["exhaustive"] = dict(
        texts="all %d strings of length <= %d over %d symbols (z \" ' \\ a b n r t LF ä U+1D11E), as text and as character literal, scanner and parser" % (len(texts), L, len(ALPHA)),
        decimals=("all 232100 literals with <=3+2 or <=2+3 digits, plus 100000 sampled 3+3 ones (%d cases; the full 1232100 are enumerated in the thorough tier)"
                  if ck.quick else "all %d literals with 1-3 + 1-3 digits (leading zeros included)") % stats["floats"]["exhaustive_3_3"],
        characters="%d scalar values as plain character literal (%s)" % (len(cps), "BMP + every 17th astral" if ck.quick else "all"))
    ck.cov["rule"] = ("inputs: literal spellings; non-trivial = text/char with an escape or a multi-byte character, integer with >= 18 digits or leading zero or out of range, "
                      "decimal whose double is not a short dyadic value, compiled literal with escape/multi-byte; distinct by spelling")
    ck.sample(dict(literal='"a\\n\\\\n\\"ä"', parser="S:610a5c6e22c3a4", model="S 1 .. 0 610a5c6e22c3a4 0"))
    ck.sample(dict(literal="9223372036854775808", parser="P 1 1005 I:0", model="I 0 1"))
    ck.sample(dict(literal="0,1", parser="F:3fb999999999999a", model="F 3fb999999999999a 0"))
    ck.finish("theorems full: strings, chars, signed and unsigned ints, decimals (correct rounding proved against Flocq); none refuted; "
              "codegen/runtime of literals only by the compiled leg")


if __name__ == "__main__":
    main()
