#!/usr/bin/env python3
"""C20 — duplicate aliases are always rejected; declared aliases stay callable.
Proof: coq/Props/C20.v (ordered map and trie refine an association list for every history, key
equality is an equivalence). Tie: the real alias_trie with the parser's real key predicates
(verif hook) and the extracted model run the same histories; a Python association list (the
specification) judges every answer of the implementation directly. Histories contain forks: Y copies
the trie (generic instantiation), Puts (unconditional Inserts) and Declares hit the copy, Z returns
to the original, which must answer as if the fork had never happened."""
import itertools
import os
import re
import subprocess
import sys

sys.path.insert(0, os.path.dirname(os.path.abspath(__file__)))
import vlib
from vlib import Check, Build, log

PID = "C20"


def regen_tokens(b, ck):
    exe, lg = b.ensure_go("gentables")
    if not exe:
        ck.broken_obligation("translator gentables does not build against /repo", lg)
        return None
    out = subprocess.run([exe], capture_output=True, text=True).stdout
    path = os.path.join(vlib.COQ, "Gen", "Tokens.v")
    old = open(path).read() if os.path.exists(path) else ""
    if out != old:
        log("[gen] Gen/Tokens.v changed -> rebuilding dependants")
        open(path, "w").write(out)
    tt = {}
    for l in out.splitlines():
        if l.startswith("Definition tt_"):
            name = l.split()[1][3:]
            tt[name] = int(l.split(":=")[1].strip(" ."))
    return tt


# ---- vocabulary --------------------------------------------------------------------------------
def canon(spec):
    """canonical form of GetUnderlying(type): aliases resolved everywhere on the list spine"""
    if spec[0] == "L":
        return "L(" + canon(spec[2:-1]) + ")"
    if spec[0] == "A":
        inner = spec[spec.index("(") + 1:-1]
        return canon(inner)
    if spec[0] == "D":
        return spec[:spec.index("(")]
    return spec


def make_vocab(tt):
    toks = []  # dicts: kind 'T' (tt, lit) or 'P' (ref, spec)
    for lit in ("a", "b", "zeige", "Zeige"):
        toks.append(dict(kind="T", tt=tt["IDENTIFIER"], lit=lit))
    toks.append(dict(kind="T", tt=tt["SYMBOL"], lit="!"))
    toks.append(dict(kind="T", tt=tt["INT"], lit="1"))
    toks.append(dict(kind="T", tt=tt["INT"], lit="10"))
    toks.append(dict(kind="T", tt=tt["STRING"], lit='"a"'))
    toks.append(dict(kind="T", tt=tt["COMMA"], lit=","))       # literal ignored for these kinds
    toks.append(dict(kind="T", tt=tt["COMMA"], lit=";"))       # equal to the previous one by tokenEqual
    toks.append(dict(kind="T", tt=tt["NEGATE"], lit="-"))
    specs = ["Z", "T", "K", "C", "B", "W", "L(Z)", "L(T)", "SPunkt#1", "SPunkt#2", "SPunkt#3", "SKreis#4", "L(SPunkt#1)", "L(SPunkt#2)",
             "AZahlAlias#5(Z)", "AHausnummer#9(Z)", "AXylophon#10(C)", "AAnfang#11(T)", "DPunkt#6(Z)", "DPunkt#7(T)", "APunkt#8(SPunkt#2)", "V", "L(AZahlAlias#5(Z))"]
    for s in specs:
        for ref in (0, 1):
            toks.append(dict(kind="P", ref=ref, spec=s))
    toks.append(dict(kind="PN"))   # placeholder whose type failed to parse (no AliasInfo / AliasInfo without a type:
    toks.append(dict(kind="PN"))   # triex alternates the two flavours by vocabulary index)
    return toks


def py_tok_eq(a, b):
    """the property's notion: same token kind; placeholders: same parameter type; literal kinds: same literal"""
    if a["kind"] != b["kind"]:
        return False
    if a["kind"] == "PN":
        return True
    if a["kind"] == "P":
        return a["ref"] == b["ref"] and canon(a["spec"]) == canon(b["spec"])
    if a["tt"] != b["tt"]:
        return False
    if a["tt"] in LITKINDS:
        return a["lit"] == b["lit"]
    return True


LITKINDS = set()
ARGKINDS = set()   # token kinds the parser's key generator accepts as a (one-token) argument of a placeholder


def py_match(q, ck):
    """does the call token q fit the pattern token ck? placeholders stand for any argument token"""
    if ck["kind"] in ("P", "PN") and q["kind"] == "T" and q["tt"] in ARGKINDS:
        return True
    return py_tok_eq(ck, q)


def vocab_lines(toks, ranks=None):
    ls = []
    ids = {}
    for i, t in enumerate(toks):
        if t["kind"] == "T":
            ls.append("T %d %d %s" % (i, t["tt"], t["lit"].encode().hex()))
        elif t["kind"] == "PN":
            ls.append("PN %d" % i)
        else:
            ls.append("P %d %d %s" % (i, t["ref"], t["spec"]))
            if ranks is not None:
                c = canon(t["spec"])
                tid = ids.setdefault(c, len(ids) + 1)
                ls.append("PM %d %d %d %d %d" % (i, t["ref"], 1 if c.startswith("L") else 0, ranks[i], tid))
    return ls


# ---- specification oracle -------------------------------------------------------------------
def opkeys(op):
    """token indices an operation talks about"""
    if op[0] in ("D", "P"):
        return op[2]
    if op[0] in ("L", "S"):
        return op[1]
    return []


def spec_run(toks, hist, stats=None):
    """association list keyed by token sequences; returns expected output lines (None for Search).
    Fork isolation is modelled here independently of the Coq model: Y pushes the current list and continues on a
    copy of it, Z throws the copy away and pops (no open fork: no-op); P (Put) replaces the value of an equal key
    or adds the pair."""
    out = []
    store = []
    stack = []
    closed_forks = 0

    def same(k0, ks):
        return len(k0) == len(ks) and all(py_tok_eq(x, y) for x, y in zip(k0, ks))

    def find(st, ks):
        for k0, v in st:
            if same(k0, ks):
                return v
        return None

    for op in hist:
        if op[0] == "Y":
            stack.append(store)
            store = list(store)
            out.append("Y")
            continue
        if op[0] == "Z":
            if stack:
                store = stack.pop()
                closed_forks += 1
            out.append("Z")
            continue
        ks = [toks[i] for i in opkeys(op)]
        if stats is not None and closed_forks and not stack:
            stats["observations_on_original_after_fork"] = stats.get("observations_on_original_after_fork", 0) + 1
        if op[0] == "D":
            f = find(store, ks)
            if f is not None:
                out.append("R %d" % f)
            else:
                store.append((ks, op[1]))
                out.append("D")
        elif op[0] == "P":
            if stats is not None and stack:
                parent = stack[-1]
                if find(parent, ks) is not None:
                    kind = "put_in_fork_on_key_bound_in_original"
                elif any(len(k0) > len(ks) and same(k0[:len(ks)], ks) for k0, _ in parent):
                    kind = "put_in_fork_on_strict_prefix_of_original_key"
                elif any(0 < len(k0) < len(ks) and same(k0, ks[:len(k0)]) for k0, _ in parent):
                    kind = "put_in_fork_on_extension_of_original_key"
                else:
                    kind = "put_in_fork_on_new_key"
                stats[kind] = stats.get(kind, 0) + 1
            for n, (k0, v) in enumerate(store):
                if same(k0, ks):
                    store[n] = (k0, op[1])
                    break
            else:
                store.append((ks, op[1]))
            out.append("U")
        elif op[0] == "L":
            f = find(store, ks)
            out.append("F -" if f is None else "F %d" % f)
        else:
            # every bound non-empty pattern that a prefix of the call instantiates, as a multiset
            vals = []
            for k0, v in store:
                if 0 < len(k0) <= len(ks) and all(py_match(y, x) for x, y in zip(k0, ks[:len(k0)])):
                    vals.append(v)
            if stats is not None:
                if any(x["kind"] != "T" and y["kind"] == "T" for k0, v in store if 0 < len(k0) <= len(ks) and all(py_match(y, x) for x, y in zip(k0, ks[:len(k0)])) for x, y in zip(k0, ks)):
                    stats["searches_matching_a_placeholder_by_an_argument"] = stats.get("searches_matching_a_placeholder_by_an_argument", 0) + 1
                if len(vals) >= 2:
                    stats["searches_returning_several_aliases"] = stats.get("searches_returning_several_aliases", 0) + 1
            out.append(("M", sorted(vals)))
    return out


def hist_lines(hist):
    ls = ["H"]
    for op in hist:
        if op[0] == "D":
            ls.append("D %d %s" % (op[1], " ".join(map(str, op[2]))))
        elif op[0] == "P":   # Put; the line letter is U because P lines declare placeholders of the vocabulary
            ls.append("U %d %s" % (op[1], " ".join(map(str, op[2]))))
        elif op[0] in ("Y", "Z"):
            ls.append(op[0])
        else:
            ls.append("%s %s" % (op[0], " ".join(map(str, op[1]))))
    return ls


def run_tool(exe, lines):
    p = subprocess.run([exe], input="\n".join(lines) + "\n", capture_output=True, text=True, timeout=600)
    if p.returncode != 0:
        raise RuntimeError("%s failed: %s" % (exe, p.stderr[-2000:]))
    return p.stdout.splitlines()


def split_hist(outlines):
    hs = []
    for l in outlines:
        if l == "H":
            hs.append([])
        elif hs:
            hs[-1].append(l)
    return hs


def conforms(spec, got):
    """does an implementation/model transcript satisfy the specification?"""
    if len(spec) != len(got):
        return False
    for s, g in zip(spec, got):
        if isinstance(s, tuple):
            if not g.startswith("M") or g == "M !":
                return False
            if sorted(int(x) for x in g.split()[1:]) != s[1]:
                return False
        elif s != g:
            return False
    return True


def gen_histories(ck, toks, n_random):
    rng = ck.rng
    P = [i for i, t in enumerate(toks) if t["kind"] in ("P", "PN")]
    T = [i for i, t in enumerate(toks) if t["kind"] == "T"]
    alike = [i for i in P if "Punkt" in toks[i].get("spec", "")]
    hists = []
    # exhaustive small: every insertion order of every 4-subset of the print-alike pool (value placeholders), prefix token shared
    pool = [i for i in alike if toks[i].get("ref", 1) == 0][:7]
    sub_sz = 4 if ck.quick else 5
    for sub in itertools.combinations(pool, sub_sz):
        for perm in itertools.permutations(sub):
            h = []
            for n, k in enumerate(perm):
                h.append(("D", n + 1, [T[2], k]))
            for k in sub:
                h.append(("L", [T[2], k]))
                h.append(("D", 99, [T[2], k]))
            h.append(("S", [T[2], perm[0], T[0]]))
            hists.append(h)
    # exhaustive small: pairs of placeholders that are EQUAL though spelled differently (type alias vs. its target,
    # also inside lists) among every choice of 2..3 other sibling placeholders, every insertion order: the second
    # spelling must be rejected as a duplicate and must find the first one's value
    vals = [i for i in P if toks[i].get("ref", 1) == 0]
    eqpairs = [(a, c) for a in vals for c in vals if a != c and py_tok_eq(toks[a], toks[c])]
    others = [i for i in vals if toks[i]["spec"] in ("Z", "T", "K", "C", "B", "SPunkt#1", "L(T)", "DPunkt#6(Z)")]
    for (a, c) in eqpairs:
        sibs_pool = [o for o in others if not py_tok_eq(toks[o], toks[a])]
        combos = list(itertools.combinations(sibs_pool, 2)) + (list(itertools.combinations(sibs_pool, 3)) if not ck.quick else list(itertools.combinations(sibs_pool, 3))[::4])
        for sibs in combos:
            for perm in itertools.permutations(list(sibs) + [a]):
                h = [("D", n + 1, [T[2], k]) for n, k in enumerate(perm)]
                h.append(("D", 99, [T[2], c]))
                h.append(("L", [T[2], c]))
                h.append(("L", [T[2], a]))
                hists.append(h)
    # exhaustive small, calls: after a common prefix one alias has a literal word and others a placeholder at the same
    # position (then different tails); every declaration order; calls whose argument at that position is that very
    # word, another identifier, a number/string/symbol or a non-argument token: Search must return exactly the aliases
    # the call instantiates - a literal sibling that matches must not hide the placeholder siblings nor vice versa.
    words = [T[0], T[1], T[4], T[5]]          # a, b, !, 1  (IDENTIFIER sorts before, SYMBOL/INT after ALIAS_PARAMETER)
    phs = [vals[0], vals[2], alike[0]] if len(vals) > 2 else vals[:1]
    for w in words:
        for ph1 in phs:
            for ph2 in (None, [p for p in phs if p != ph1][0]):
                decls = [[T[2], w, T[1]], [T[2], ph1, T[4]], [T[2], w], [T[2], ph1]]
                if ph2 is not None:
                    decls = decls[:3] + [[T[2], ph2, T[4], T[0]]]
                for perm in itertools.permutations(range(len(decls))):
                    h = [("D", i + 1, decls[i]) for i in perm]
                    for arg in (w, T[0], T[5], T[7], T[8]):
                        for tail in ([T[4]], [T[1]], [T[4], T[0]], []):
                            h.append(("S", [T[2], arg] + tail))
                    hists.append(h)
    # exhaustive small, forks: every insertion order of every 3-subset of the print-alike pool; then a fork (what
    # generateGenericContext + the parse of the instantiated body do on the copy) that Puts, on keys of the original,
    # an equal key / a print-alike but different key / a strict prefix / an extension, and Declares new keys; then,
    # back on the original, Lookup + Search + Declare of every key the fork touched. Shapes: plain, nested, two in a row.
    for sub in itertools.combinations(pool, 3):
        rest = [k for k in pool if k not in sub]
        for pn, perm in enumerate(itertools.permutations(sub)):
            other = rest[pn % len(rest)]
            base = [("D", n + 1, [T[2], k]) for n, k in enumerate(perm)]
            inner1 = [("P", 51, [T[2], perm[0]]), ("P", 52, [T[2], other]), ("P", 53, [T[2]]), ("P", 54, [T[2], perm[1], T[0]]),
                      ("D", 55, [T[0], perm[2]]), ("D", 56, [T[2], perm[2]]), ("L", [T[2], perm[0]]), ("L", [T[2], perm[1]])]
            inner2 = [("P", 61, [T[2], perm[1]]), ("P", 62, [T[2], perm[0]]), ("L", [T[2], perm[0]]), ("D", 63, [T[2], perm[2], T[0]])]
            touched = [[T[2], k] for k in sub] + [[T[2], other], [T[2]], [T[2], perm[1], T[0]], [T[0], perm[2]], [T[2], perm[2], T[0]]]
            after = []
            for k in touched:
                after.append(("L", k))
            after.append(("S", [T[2], perm[1], T[0]]))
            for n, k in enumerate(touched):
                after.append(("D", 90 + n, k))
            shape = pn % 3
            if shape == 0:
                h = base + [("Y",)] + inner1 + [("Z",)] + after
            elif shape == 1:    # nested: the inner fork must see the outer fork's Puts, the outer not the inner's
                h = base + [("Y",)] + inner1[:4] + [("Y",)] + inner2 + [("Z",)] + inner1[4:] + [("Z",)] + after
            else:               # two forks in a row: the second starts from the original again
                h = base + [("Y",)] + inner1 + [("Z",), ("L", [T[2], perm[0]]), ("Y",)] + inner2 + [("L", [T[2], other]), ("Z",)] + after
            hists.append(h)
    # forks Putting a key that is EQUAL though spelled differently (type alias vs. its target): must not leak either
    for (a, c) in eqpairs:
        sibs_pool = [o for o in others if not py_tok_eq(toks[o], toks[a])]
        for sibs in list(itertools.combinations(sibs_pool, 2))[::3]:
            for perm in itertools.permutations(list(sibs) + [a]):
                h = [("D", n + 1, [T[2], k]) for n, k in enumerate(perm)]
                h += [("Y",), ("P", 70, [T[2], c]), ("L", [T[2], a]), ("P", 71, [T[2]]), ("Z",),
                      ("L", [T[2], c]), ("L", [T[2], a]), ("L", [T[2]]), ("D", 99, [T[2], c]), ("S", [T[2], a])]
                hists.append(h)
    n_exh = len(hists)
    def call_of(k):
        """a call of pattern k: placeholders mostly replaced by argument tokens (preferring words that occur
        literally in the key pool, so that literal siblings match too)"""
        out = []
        for i in k:
            if toks[i]["kind"] != "T" and rng.random() < 0.8:
                out.append(rng.choice(T[:8]))
            else:
                out.append(i)
        return out
    # random structured histories, with forks (nested up to depth 3), Puts inside and after-fork observations
    for _ in range(n_random):
        h = []
        keypool = []
        for _ in range(rng.randint(2, 7)):
            ln = rng.randint(1, 4)
            src = rng.choice([alike, P, T, P + T, alike + T[:3]])
            keypool.append([rng.choice(src) for _ in range(ln)])
        # prefix-related keys
        if keypool and rng.random() < 0.6:
            k = rng.choice(keypool)
            keypool.append(k + [rng.choice(P + T)])
            keypool.append(k[:max(1, len(k) - 1)])
        val = 1
        depth = 0
        forked = False
        for _ in range(rng.randint(3, 18)):
            r = rng.random()
            k = rng.choice(keypool)
            if depth == 0:
                if r < 0.45:
                    h.append(("D", val, k)); val += 1
                elif r < 0.68:
                    h.append(("L", k))
                elif r < 0.80:
                    h.append(("S", call_of(k) + [rng.choice(P + T) for _ in range(rng.randint(0, 2))]))
                elif r < 0.83:
                    h.append(("P", val, k)); val += 1
                else:
                    h.append(("Y",)); depth += 1; forked = True
            else:
                if r < 0.36:
                    h.append(("P", val, k)); val += 1
                elif r < 0.50:
                    h.append(("D", val, k)); val += 1
                elif r < 0.68:
                    h.append(("L", k))
                elif r < 0.76:
                    h.append(("S", call_of(k) + [rng.choice(P + T) for _ in range(rng.randint(0, 2))]))
                elif r < 0.82 and depth < 3:
                    h.append(("Y",)); depth += 1
                else:
                    h.append(("Z",)); depth -= 1
        if forked and rng.random() < 0.85:   # else: a trailing open fork = "copy and continue on the copy"
            h += [("Z",)] * depth
            ks = list(keypool)
            rng.shuffle(ks)
            for k in ks[:4]:
                h.append(("L", k))
            for k in ks[:2]:
                h.append(("D", val, k)); val += 1
            h.append(("S", call_of(ks[0]) + [rng.choice(P + T)]))
        hists.append(h)
    return hists, n_exh


def shrink(toks, hist, bad):
    """greedy removal of operations while `bad(hist)` stays true"""
    cur = list(hist)
    changed = True
    while changed:
        changed = False
        for i in range(len(cur)):
            cand = cur[:i] + cur[i + 1:]
            if cand and bad(cand):
                cur = cand
                changed = True
                break
    return cur


# ---- second leg: the real parser on modules whose Kombinationen print alike -------------------------
MOD_TMPL = """Binde "Duden/Ausgabe" ein.
Wir nennen die öffentliche Kombination aus
	der öffentlichen Zahl x mit Standardwert %(i)d,
einen Punkt, und erstellen sie so:
	"ein Punkt%(i)d"

Der öffentliche Punkt p%(i)d ist ein Punkt%(i)d.

Die öffentliche Funktion zeige%(i)d mit dem Parameter p vom Typ Punkt, gibt nichts zurück, macht:
	Schreibe die Zahl %(i)d.
Und kann so benutzt werden:
	"zeige <p>"
"""


def parser_leg(ck, b):
    import json
    parsex, lg = b.ensure_go("parsex")
    ok, lg2 = b.ensure_native()
    if not parsex or not ok:
        ck.broken_obligation("parsex/kddp do not build", (lg + lg2)[-1500:])
        return
    sc = vlib.scratch()
    k = 3 if ck.quick else 4
    for i in range(1, k + 1):
        open(os.path.join(sc, "m%d.ddp" % i), "w").write(MOD_TMPL % dict(i=i))
    reqs = []
    perms = list(itertools.permutations(range(1, k + 1)))
    for n, perm in enumerate(perms):
        src = "".join('Binde zeige%d und p%d aus "m%d" ein.\n' % (i, i, i) for i in perm)
        src += "".join("zeige p%d.\n" % i for i in range(1, k + 1))
        f = os.path.join(sc, "main_%d.ddp" % n)
        open(f, "w").write(src)
        reqs.append(dict(id="perm%d" % n, file=f, ast=True, want=[("zeige%d" % i) for i in range(1, k + 1)], dup=False, src=None, perm=perm))
        # a local duplicate of module perm[0]'s alias (same pattern, same parameter type) must be rejected
        d = perm[0]
        src2 = "".join('Binde zeige%d und p%d aus "m%d" ein.\n' % (i, i, i) for i in perm if i != d)
        src2 += 'Binde zeige%d und p%d und Punkt aus "m%d" ein.\n' % (d, d, d)
        src2 += 'Die Funktion lokal mit dem Parameter p vom Typ Punkt, gibt nichts zurück, macht:\n\tSchreibe die Zahl 0.\nUnd kann so benutzt werden:\n\t"zeige <p>"\n'
        f2 = os.path.join(sc, "dup_%d.ddp" % n)
        open(f2, "w").write(src2)
        reqs.append(dict(id="dup%d" % n, file=f2, ast=False, want=None, dup=True, perm=perm))
    inp = "\n".join(json.dumps(dict(id=r["id"], file=r["file"], ast=r["ast"])) for r in reqs) + "\n"
    p = subprocess.run([parsex], input=inp, capture_output=True, text=True, env=dict(os.environ, DDPPATH=b.dir), timeout=300)
    res = {}
    for l in p.stdout.splitlines():
        try:
            o = json.loads(l); res[o["id"]] = o["obs"]
        except Exception:
            pass
    for r in reqs:
        ck.count()
        o = res.get(r["id"])
        replay = dict(modules={("m%d.ddp" % i): MOD_TMPL % dict(i=i) for i in range(1, k + 1)}, main=open(r["file"]).read())
        if o is None:
            ck.violation("parser-leg crash import-order=%s" % (r["perm"],), "the frontend died on modules exporting print-alike Kombinationen (worker gave no answer): %s" % p.stderr[-300:], replay)
            continue
        ck.nontrivial(("parserleg", r["id"]))
        if o.get("panic"):
            ck.violation("parser-leg panic import-order=%s" % (r["perm"],), "panic: %s %s" % (o["panic"][:200], o.get("panic_frames")), replay)
            continue
        errs = [d for d in (o.get("diags") or []) if d["level"] == 2]
        if r["dup"]:
            if not errs:
                ck.violation("parser-leg duplicate-accepted import-order=%s" % (r["perm"],), "a local alias coinciding with an imported one (same pattern, same parameter type) was accepted without a diagnostic", replay)
        else:
            if errs:
                ck.violation("parser-leg spurious-diagnostic import-order=%s" % (r["perm"],), "aliases with the same pattern over distinct print-alike types were diagnosed: %s" % errs[:2], replay)
                continue
            calls = re.findall(r"^\(ExprStmt\s*\n   \(FuncCall\[(\w+)\]", o.get("ast") or "", re.M)
            if calls != r["want"]:
                ck.violation("parser-leg wrong-callee import-order=%s" % (r["perm"],), "call sites resolved to %s, expected %s" % (calls, r["want"]), replay)
    # one permutation end to end
    f = reqs[0]["file"]
    exe = os.path.join(sc, "main_exe")
    r = b.compile(f, exe, cwd=sc)
    if r["stage"] == "ok":
        rc, out, err = b.run(exe)
        ck.count()
        want = "".join(str(i) for i in range(1, k + 1)).encode()
        if rc != 0 or out != want:
            ck.violation("parser-leg run", "compiled program prints %r (exit %d), expected %r" % (out, rc, want), dict(main=open(f).read()))
    ck.cov["parser_leg_programs"] = len(reqs)


def coqchk_all(ck):
    """thorough tier of this designated check: re-check every Props module (and everything it depends on) with the
    independent checker coqchk and record the axioms it reports for the whole development"""
    import glob
    mods = ["DDP.Props." + os.path.basename(f)[:-2] for f in sorted(glob.glob(os.path.join(vlib.COQ, "Props", "C*.v")))
            if os.path.exists(f[:-2] + ".vo")]
    try:
        p = subprocess.run(["coqchk", "-silent", "-o", "-Q", vlib.COQ, "DDP"] + mods, capture_output=True, text=True, timeout=3600)
    except subprocess.TimeoutExpired:
        ck.broken_obligation("coqchk over all Props modules timed out", "")
        return
    out = p.stdout + p.stderr
    axioms = []
    take = False
    for l in out.splitlines():
        if l.strip().startswith("* Axioms"):
            take = True
            continue
        if take:
            if l.strip().startswith("*") or not l.strip():
                take = False
            else:
                axioms.append(l.strip())
    ck.cov["coqchk"] = dict(modules=mods, rc=p.returncode, axioms=axioms,
                            type_in_type="relying on type-in-type: <none>" in out, unsafe_fixpoints="unsafe (co)fixpoints: <none>" in out,
                            positivity_assumed="positivity is assumed: <none>" in out)
    if not os.environ.get("VERIF_REPO"):  # a record that survives later quick runs (evidence/C20.json is rewritten by each run)
        import json, time
        with open(os.path.join(vlib.VERIF, "coqchk_report.json"), "w") as f:
            json.dump(dict(ck.cov["coqchk"], when=time.strftime("%Y-%m-%dT%H:%M:%SZ", time.gmtime()),
                           command="coqchk -silent -o -Q coq DDP <all DDP.Props.Cxx>"), f, indent=1)
    allowed = {"functional_extensionality_dep", "sig_not_dec", "sig_forall_dec", "classic", "eq_rect_eq", "proof_irrelevance", "JMeq_eq"}
    foreign = [a for a in axioms if a.split(".")[-1] not in allowed]
    if p.returncode != 0 or foreign or not (ck.cov["coqchk"]["type_in_type"] and ck.cov["coqchk"]["unsafe_fixpoints"] and ck.cov["coqchk"]["positivity_assumed"]):
        ck.broken_obligation("coqchk rejects the development or reports a foreign axiom / switched-off check: rc=%d foreign=%s" % (p.returncode, foreign), out[-3000:])


def main():
    ck = Check(PID, "proof")
    b = Build()
    ck.cov["trusted_base"] = vlib.TRUSTED_COMMON + [
        "hook src/parser/verif_export.go (build tag verif) exporting tokenEqual/tokenLess unchanged",
        "placeholder types abstracted to (IsReference, IsList, rank of printed underlying name, identity of underlying); ranks are computed from the real String() values on every run",
        "Python association list (with a stack of lists for forks) = the property's specification oracle",
    ]
    tt = regen_tokens(b, ck)
    ck.coq()
    triex, lg = b.ensure_go("triex")
    model = vlib.model_bin("c20")
    if not triex:
        ck.violation("harness-build", "triex does not build against /repo: " + lg[-500:], dict(log=lg[-3000:]), no_input=True)
        ck.finish()
    if not os.path.exists(model) or tt is None:
        ck.broken_obligation("extracted model driver missing (make setup)", "")
        ck.finish()
    global LITKINDS, ARGKINDS
    LITKINDS = {tt[k] for k in ("IDENTIFIER", "SYMBOL", "INT", "FLOAT", "CHAR", "STRING")}
    ARGKINDS = {tt[k] for k in ("INT", "FLOAT", "TRUE", "FALSE", "CHAR", "STRING", "IDENTIFIER", "SYMBOL")}
    toks = make_vocab(tt)

    # 1. key predicates on the whole vocabulary (exhaustive pairs): implementation vs model vs property
    out = run_tool(triex, vocab_lines(toks) + ["Q"])
    names = {}
    for l in out:
        f = l.split()
        if f[0] == "N" and len(f) >= 3 and f[2] != "-":
            names[int(f[1])] = bytes.fromhex(f[2])
    order = sorted(set(names.values()))
    ranks = {i: order.index(n) + 1 for i, n in names.items()}
    impl_E = [l for l in out if l.startswith("E ")]
    mod_E = [l for l in run_tool(model, vocab_lines(toks, ranks) + ["Q"]) if l.startswith("E ")]
    n = len(toks)
    ck.count(n * n)
    pred_bad = []
    for i in range(n):
        ie, il = impl_E[i].split()[2:4]
        me, ml = mod_E[i].split()[2:4]
        for j in range(n):
            want = py_tok_eq(toks[i], toks[j])
            if (ie[j] == "1") != want:
                ck.violation("tokenEqual %s~%s" % (toks[i], toks[j]), "tokenEqual(%s,%s)=%s but the property's coincidence says %s" % (toks[i], toks[j], ie[j], want),
                             dict(a=toks[i], b=toks[j], impl=ie[j], spec=want))
            if ie[j] != me[j] or il[j] != ml[j]:
                pred_bad.append((i, j, ie[j], me[j], il[j], ml[j]))
    if pred_bad:
        i, j = pred_bad[0][:2]
        ck.broken_obligation("correspondence of tok_eq/tok_less with tokenEqual/tokenLess fails on %s vs %s (impl eq/less=%s/%s model=%s/%s)" % (toks[i], toks[j], pred_bad[0][2], pred_bad[0][4], pred_bad[0][3], pred_bad[0][5]), "")

    # 2. histories
    hists, n_exh = gen_histories(ck, toks, 3000 if ck.quick else 60000)
    lines_impl = vocab_lines(toks)
    lines_mod = vocab_lines(toks, ranks)
    body = []
    for h in hists:
        body += hist_lines(h)
    impl = split_hist(run_tool(triex, lines_impl + body))
    mod = split_hist(run_tool(model, lines_mod + body))
    ck.count(len(hists))
    ops_total = 0
    kinds = {"D": 0, "L": 0, "S": 0, "P": 0, "Y": 0, "Z": 0}
    fork_stats = {}
    fork_hists = 0
    rejected = 0
    model_mismatch = None
    n_bad_hist = 0
    for idx, h in enumerate(hists):
        ops_total += len(h)
        for op in h:
            kinds[op[0]] += 1
        spec = spec_run(toks, h, fork_stats)
        fork_hists += any(op[0] == "Y" for op in h)
        rejected += sum(1 for s in spec if isinstance(s, str) and s.startswith("R"))
        if any(isinstance(s, str) and s.startswith("R") for s in spec) or len({tuple(op[2]) for op in h if op[0] in ("D", "P")}) >= 2:
            ck.nontrivial(("h", tuple(map(str, h))))
        if not conforms(spec, impl[idx]):
            n_bad_hist += 1
            if n_bad_hist > 4:      # enough replays; keep counting only
                continue
            def bad(hh):
                o = split_hist(run_tool(triex, lines_impl + hist_lines(hh)))[0]
                return not conforms(spec_run(toks, hh), o)
            small = shrink(toks, h, bad)
            o = split_hist(run_tool(triex, lines_impl + hist_lines(small)))[0]
            desc = [(op[0], [str(toks[i].get("spec", toks[i].get("lit"))) + ("&" if toks[i].get("ref") else "") for i in opkeys(op)]) for op in small]
            alike_n = len({toks[i]["spec"] for op in small for i in opkeys(op) if toks[i]["kind"] == "P"})
            key = "history print-alike=%d ops=%s" % (alike_n, desc)
            ck.violation(key, "alias trie answers %s, association-list specification says %s" % (o, spec_run(toks, small)),
                         dict(vocabulary=vocab_lines(toks), history=hist_lines(small), described=desc, implementation=o, specification=[str(x) for x in spec_run(toks, small)],
                              how="feed vocabulary+history to .cache/<hash>/bin/triex"))
        if impl[idx] != mod[idx] and model_mismatch is None:
            model_mismatch = (h, impl[idx], mod[idx])
    if model_mismatch and not ck.violations:
        h, i_o, m_o = model_mismatch
        ck.broken_obligation("correspondence trie model vs alias_trie fails on history %s: impl %s model %s" % (hist_lines(h), i_o, m_o), "")
    ck.cov.update(dict(
        histories=len(hists), exhaustive_permutation_histories=n_exh, operations=ops_total, op_kinds=kinds, rejected_declarations=rejected,
        op_kinds_legend="D declare (Contains, then Insert) / L lookup / S search / P put = Insert without Contains (line letter U) / Y fork begin = Copy / Z fork end = back to the original",
        histories_with_forks=fork_hists, scenario_coverage=fork_stats,
        vocabulary=len(toks), predicate_pairs=n * n, exhaustive=False, histories_contradicting_spec=n_bad_hist,
        rule="histories of Declare/Lookup/Search/Put/Fork(copy, inner history, back to the original; nested) over %d tokens (placeholders of 23 types x value/Referenz incl. three Kombinationen printed 'Punkt', aliases, definitions, lists); "
             "non-trivial = at least two distinct declared/put keys or a rejected duplicate; distinct by operation sequence; all insertion orders of every %d-subset of the print-alike pool enumerated, "
             "and of every 3-subset followed by a fork (plain / nested / two in a row) that Puts equal, print-alike, prefix and extension keys and is then observed from the original" % (len(toks), 4 if ck.quick else 5)))
    parser_leg(ck, b)
    if not ck.quick:
        coqchk_all(ck)
    ck.sample(dict(history=hist_lines(hists[0]), implementation=impl[0], model=mod[0]))
    ck.sample(dict(history=hist_lines(hists[-1]), implementation=impl[-1], model=mod[-1]))
    ck.finish()


if __name__ == "__main__":
    main()
