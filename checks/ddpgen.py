"""Typed program generator, DDP renderer and case-file serializer for the core language of
coq/Lang/Syntax.v (shared by C01 and the properties that reuse its programs).

AST (JSON-able nested lists; types are strings "Z" Zahl, "K" Kommazahl, "B" Byte, "W" Wahrheitswert,
"C" Buchstabe, "T" Text, "L"+t list of t):

  expr  ["int", n] ["flt", bits] ["bool", b] ["chr", cp] ["txt", [cp..]] ["var", name]
        ["un", op, e] ["bin", op, a, b] ["ter", op, a, b, c] ["cast", e, ty] ["list", [e..]] ["empty", ty]
        ["call", fname, [arg..]]           arg = ["val", e] | ["ref", name, [index-expr]?]
        un ops  Abs Len Neg Not LogicNot
        bin ops And Or Xor Concat Plus Minus Mult Div Index Pow Log LogicAnd LogicOr LogicXor Mod Shl Shr
                Eq Ne Lt Gt Le Ge SliceTo SliceFrom
        ter ops Slice (l, a, b)  Between (x, a, b)  Falls (then, cond, else)
  lval  ["lvar", name] | ["lidx", name, e]
  stmt  ["decl", ty, name, e] ["assign", lval, e] ["if", c, [then..], [else..]] ["while", c, body]
        ["dowhile", body, c] ["repeat", n, body] ["for", ty, name, from, to, step|None, body]
        ["foreach", ty, name, idxname|None, e, body] ["break"] ["continue"] ["return", e|None]
        ["block", body] ["expr", e] ["print", e]
  top   ["func", name, [[pname, ty, isref]..], retty|None, body] | ["stmt", s]
  program = [top..]
Names are strings "x<n>" (variables/parameters) and "fn<n>" (functions); the number is the Coq ident.

Public API:
  tc_type(e, scope)            type the real typechecker assigns (scope: name -> type; funcs: name -> sig)
  render_expr(e, scope) / render_program(prog) -> DDP source text (operands fully parenthesised)
  serialize(prog) -> token string for extract/_build/c01 (see extract/c01_driver.ml)
  Gen(rng, max_depth, lists, floats, funcs, avoid).program(size)   random well-typed terminating program;
                               .expr(ty, scope, depth) / .stmts(scope, n, depth, in_loop, fret) / .func(scope) are usable alone
  cell_key(e, scope) / cells_in(e, scope, set) / tname(ty)         canonical operator-cell keys (`op=DIV lhs=Byte rhs=Kommazahl`)
  literal_representable_all(e) whether every literal inside e can be written in DDP source
  float_bits(x) / bits_float(b), literal constructors I F Bo Ch Tx By V lit list_lit, BOUNDARY value sets
Conventions the renderer relies on: binder names are unique in a program (x<n>, fn<n>); blocks are non-empty; a function
with a return type ends with a `return`; Referenz arguments are variables or `variable an der Stelle index`.
"""
import struct
from decimal import Decimal

SCALARS = ["Z", "K", "B", "W", "C", "T"]
LISTS = ["L" + t for t in SCALARS]
ALLTYPES = SCALARS + LISTS
NUMERIC = ("Z", "K", "B")

TYPE_NAME = {"Z": "Zahl", "K": "Kommazahl", "B": "Byte", "W": "Wahrheitswert", "C": "Buchstabe", "T": "Text",
             "LZ": "Zahlen Liste", "LK": "Kommazahlen Liste", "LB": "Byte Liste", "LW": "Wahrheitswert Liste",
             "LC": "Buchstaben Liste", "LT": "Text Liste"}
REF_NAME = {"Z": "Zahlen Referenz", "K": "Kommazahlen Referenz", "B": "Byte Referenz", "W": "Wahrheitswert Referenz",
            "C": "Buchstaben Referenz", "T": "Text Referenz",
            "LZ": "Zahlen Listen Referenz", "LK": "Kommazahlen Listen Referenz", "LB": "Byte Listen Referenz",
            "LW": "Wahrheitswert Listen Referenz", "LC": "Buchstaben Listen Referenz", "LT": "Text Listen Referenz"}
ARTICLE = {"Z": "Die", "K": "Die", "B": "Der", "W": "Der", "C": "Der", "T": "Der"}
PRINT = {"Z": "Schreibe die Zahl", "K": "Schreibe die Kommazahl", "B": "Schreibe den Byte",
         "W": "Schreibe den Wahrheitswert", "C": "Schreibe den Buchstaben", "T": "Schreibe den Text"}
RETURNS = {"Z": "eine Zahl", "K": "eine Kommazahl", "B": "einen Byte", "W": "einen Wahrheitswert",
           "C": "einen Buchstaben", "T": "einen Text"}
FOREACH = {"Z": "jede Zahl", "K": "jede Kommazahl", "B": "jeden Byte", "W": "jeden Wahrheitswert",
           "C": "jeden Buchstaben", "T": "jeden Text"}

INT64_MIN, INT64_MAX = -2 ** 63, 2 ** 63 - 1


def is_list(t):
    return t.startswith("L")


def elem(t):
    return t[1:]


def float_bits(x):
    return struct.unpack("<Q", struct.pack("<d", x))[0]


def bits_float(b):
    return struct.unpack("<d", struct.pack("<Q", b))[0]


def wrap64(z):
    return (z + 2 ** 63) % 2 ** 64 - 2 ** 63


# ------------------------------------------------------------------------------------------------
# literal constructors
# ------------------------------------------------------------------------------------------------
def I(n):
    return ["int", n]


def F(x):
    return ["flt", float_bits(float(x))]


def Bo(b):
    return ["bool", bool(b)]


def Ch(c):
    return ["chr", ord(c) if isinstance(c, str) else c]


def Tx(s):
    return ["txt", [ord(c) for c in s] if isinstance(s, str) else list(s)]


def By(n):
    return ["cast", I(n), "B"]


def V(x):
    return ["var", x]


BOUNDARY = {
    "Z": [0, 1, -1, 2, 7, 255, 256, -128, 63, 64, 2 ** 31, 2 ** 32 + 5, INT64_MAX, INT64_MIN, INT64_MIN + 1],
    "B": [0, 1, 2, 7, 8, 127, 128, 200, 255],
    "K": [0.0, -0.0, 0.5, 1.0, -1.0, 2.0, -2.5, 255.0, 1e300, -1e300, 5e-324, 0.1, 9007199254740993.0, 3.9999999999999996],
    "W": [True, False],
    "C": [ord("a"), ord("Z"), ord(" "), 0xE4, 0x20AC, 0x1F600, 10],
    "T": ["", "a", "abc", "Hallo Welt", "äöü", "€x😀", "Übergröße", "a\nb"],
}


def lit(t, v):
    """expression denoting boundary value v of scalar type t"""
    if t == "Z":
        return I(v)
    if t == "B":
        return By(v)
    if t == "K":
        return F(v)
    if t == "W":
        return Bo(v)
    if t == "C":
        return Ch(v)
    if t == "T":
        return Tx(v)
    raise ValueError(t)


def list_lit(t, vals):
    """list of scalar type t from python values"""
    if not vals:
        return ["empty", t]
    return ["list", [lit(t, v) for v in vals]]


# ------------------------------------------------------------------------------------------------
# the typechecker's result types (src/parser/typechecker/typechecker.go 303-625), needed so that every
# generated program is accepted by the real frontend; returns None for an ill-typed expression
# ------------------------------------------------------------------------------------------------
class Scope:
    def __init__(self, vars=None, funcs=None):
        self.vars = dict(vars or {})
        self.funcs = dict(funcs or {})   # name -> (params [(n,t,ref)], ret)

    def child(self):
        return Scope(self.vars, self.funcs)


def tc_type(e, sc):
    k = e[0]
    if k == "int":
        return "Z"
    if k == "flt":
        return "K"
    if k == "bool":
        return "W"
    if k == "chr":
        return "C"
    if k == "txt":
        return "T"
    if k == "var":
        return sc.vars.get(e[1])
    if k == "un":
        op, t = e[1], tc_type(e[2], sc)
        if t is None:
            return None
        if op in ("Abs", "Neg"):
            return ("Z" if t == "B" else t) if t in NUMERIC else None
        if op == "Not":
            return "W" if t == "W" else None
        if op == "LogicNot":
            return t if t in ("Z", "B") else None
        if op == "Len":
            return "Z" if (t == "T" or is_list(t)) else None
    if k == "bin":
        op, a, b = e[1], tc_type(e[2], sc), tc_type(e[3], sc)
        if a is None or b is None:
            return None
        if op == "Concat":
            if not is_list(a) and not is_list(b) and (a == "T" or b == "T"):
                return "T" if a in ("T", "C") and b in ("T", "C") else None
            ea = elem(a) if is_list(a) else a
            eb = elem(b) if is_list(b) else b
            return "L" + ea if ea == eb and not is_list(ea) else None
        if op in ("Plus", "Minus", "Mult"):
            if a not in NUMERIC or b not in NUMERIC:
                return None
            if a == "Z" and b == "Z":
                return "Z"
            if a == "B" and b == "B":
                return "B"
            if a == "K" or b == "K":
                return "K"
            return "Z"   # Zahl with Byte (either order) is a Zahl (typechecker fixed in 5ca8f5e)
        if op == "Index":
            if b not in ("Z", "B"):
                return None
            return elem(a) if is_list(a) else ("C" if a == "T" else None)
        if op in ("SliceTo", "SliceFrom"):
            if b not in ("Z", "B"):
                return None
            return a if (is_list(a) or a == "T") else None
        if op in ("Div", "Pow", "Log"):
            return "K" if a in NUMERIC and b in NUMERIC else None
        if op in ("Mod", "LogicAnd", "LogicOr", "LogicXor"):
            if a not in ("Z", "B") or b not in ("Z", "B"):
                return None
            return "Z" if "Z" in (a, b) else "B"
        if op in ("And", "Or", "Xor"):
            return "W" if a == "W" and b == "W" else None
        if op in ("Shl", "Shr"):
            return a if a in ("Z", "B") and b in ("Z", "B") else None
        if op in ("Eq", "Ne"):
            return "W" if a == b else None
        if op in ("Lt", "Gt", "Le", "Ge"):
            return "W" if a in NUMERIC and b in NUMERIC else None
    if k == "ter":
        op = e[1]
        a, b, c = tc_type(e[2], sc), tc_type(e[3], sc), tc_type(e[4], sc)
        if a is None or b is None or c is None:
            return None
        if op == "Slice":
            return a if (is_list(a) or a == "T") and b in ("Z", "B") and c in ("Z", "B") else None
        if op == "Between":
            return "W" if a in NUMERIC and b in NUMERIC and c in NUMERIC else None
        if op == "Falls":
            return a if a == c and b == "W" else None
    if k == "cast":
        s, t = tc_type(e[1], sc), e[2]
        if s is None:
            return None
        if is_list(t):
            return t if s == elem(t) else None
        ok = {"Z": SCALARS, "K": ("T", "Z", "K", "B"), "B": ("Z", "K", "B"), "W": ("Z", "W", "B"),
              "C": ("Z", "C", "B"), "T": SCALARS}[t]
        return t if s in ok else None
    if k == "list":
        ts = [tc_type(x, sc) for x in e[1]]
        if not ts or ts[0] is None or is_list(ts[0]) or any(t != ts[0] for t in ts):
            return None
        return "L" + ts[0]
    if k == "empty":
        return "L" + e[1]
    if k == "call":
        sig = sc.funcs.get(e[1])
        return sig[1] if sig else None
    return None


# ------------------------------------------------------------------------------------------------
# rendering
# ------------------------------------------------------------------------------------------------
_ESC_C = {ord("\n"): "\\n", ord("\t"): "\\t", ord("\r"): "\\r", ord("\\"): "\\\\", 7: "\\a", 8: "\\b"}


def _chr_lit(cp):
    if cp == ord("'"):
        return "'\\''"
    if cp in _ESC_C:
        return "'" + _ESC_C[cp] + "'"
    return "'" + chr(cp) + "'"


def _txt_lit(cps):
    out = []
    for cp in cps:
        if cp == ord('"'):
            out.append('\\"')
        elif cp in _ESC_C:
            out.append(_ESC_C[cp])
        else:
            out.append(chr(cp))
    return '"' + "".join(out) + '"'


def _float_lit(bits):
    x = bits_float(bits)
    neg = bits >> 63
    s = format(Decimal(repr(abs(x))), "f")
    if "." not in s:
        s += ".0"
    s = s.replace(".", ",")
    return ("-" if neg else "") + s


def literal_representable(e):
    """Kommazahl literals cannot denote NaN/infinity; Buchstaben literals need a printable scalar value"""
    if e[0] == "flt":
        x = bits_float(e[1])
        return x == x and abs(x) != float("inf")
    if e[0] == "chr":
        return valid_cp(e[1]) and e[1] >= 32 or e[1] in (9, 10, 13, 7, 8)
    if e[0] == "txt":
        return all(valid_cp(c) and (c >= 32 or c in (9, 10, 13, 7, 8)) for c in e[1])
    return True


def valid_cp(c):
    return 1 <= c <= 0x10FFFF and not (0xD800 <= c <= 0xDFFF)


BIN_FMT = {
    "And": "{a} und {b}", "Or": "{a} oder {b}", "Xor": "entweder {a}, oder {b}",
    "Concat": "{a} verkettet mit {b}", "Plus": "{a} plus {b}", "Minus": "{a} minus {b}", "Mult": "{a} mal {b}",
    "Div": "{a} durch {b}", "Index": "{a} an der Stelle {b}", "Pow": "{a} hoch {b}",
    "Log": "der Logarithmus von {a} zur Basis {b}",
    "LogicAnd": "{a} logisch und {b}", "LogicOr": "{a} logisch oder {b}", "LogicXor": "{a} logisch kontra {b}",
    "Mod": "{a} modulo {b}", "Shl": "{a} um {b} Bit nach Links verschoben", "Shr": "{a} um {b} Bit nach Rechts verschoben",
    "Eq": "{a} gleich {b} ist", "Ne": "{a} ungleich {b} ist", "Lt": "{a} kleiner als {b} ist",
    "Gt": "{a} größer als {b} ist", "Le": "{a} kleiner als, oder {b} ist", "Ge": "{a} größer als, oder {b} ist",
    "SliceTo": "{a} bis zum {b}. Element", "SliceFrom": "{a} ab dem {b}. Element",
}
UN_FMT = {"Abs": "der Betrag von {a}", "Len": "die Länge von {a}", "Neg": "-{a}", "Not": "nicht {a}",
          "LogicNot": "logisch nicht {a}"}
TER_FMT = {"Slice": "{a} im Bereich von {b} bis {c}", "Between": "{a} zwischen {b} und {c} ist",
           "Falls": "{a}, falls {b}, ansonsten {c}"}


def is_atom(e):
    k = e[0]
    if k == "int":
        return e[1] >= 0
    if k == "flt":
        return (e[1] >> 63) == 0
    return k in ("bool", "chr", "txt", "var")


def render_expr(e):
    """the bare expression (no surrounding parentheses)"""
    k = e[0]
    if k == "int":
        n = e[1]
        if n == INT64_MIN:
            return "-9223372036854775807 minus 1"
        return str(n)
    if k == "flt":
        return _float_lit(e[1])
    if k == "bool":
        return "wahr" if e[1] else "falsch"
    if k == "chr":
        return _chr_lit(e[1])
    if k == "txt":
        return _txt_lit(e[1])
    if k == "var":
        return e[1]
    if k == "un":
        return UN_FMT[e[1]].format(a=operand(e[2]))
    if k == "bin":
        return BIN_FMT[e[1]].format(a=operand(e[2]), b=operand(e[3]))
    if k == "ter":
        return TER_FMT[e[1]].format(a=operand(e[2]), b=operand(e[3]), c=operand(e[4]))
    if k == "cast":
        return "%s als %s" % (operand(e[1]), TYPE_NAME[e[2]])
    if k == "list":
        return "eine Liste, die aus %s besteht" % ", ".join(operand(x) for x in e[1])
    if k == "empty":
        return "eine leere %s" % TYPE_NAME["L" + e[1]]
    if k == "call":
        return " ".join([e[1]] + [render_arg(a) for a in e[2]])
    raise ValueError(e)


def operand(e):
    return render_expr(e) if is_atom(e) else "(" + render_expr(e) + ")"


def render_arg(a):
    if a[0] == "val":
        return operand(a[1])
    if len(a) > 2 and a[2]:
        return "(%s an der Stelle %s)" % (a[1], operand(a[2][0]))
    return a[1]


def _ind(n):
    return "\t" * n


class Renderer:
    """needs the typechecker's types for the print aliases, so it tracks declarations while rendering"""

    def __init__(self, compound=None):
        self.lines = []
        self.compound = compound   # optional rng: render x := x op e through the compound-assignment statements

    def block(self, body, sc, ind):
        sc = sc.child()
        if not body:
            raise ValueError("empty block cannot be rendered")
        for s in body:
            self.stmt(s, sc, ind)

    def stmt(self, s, sc, ind):
        k = s[0]
        L = self.lines.append
        p = _ind(ind)
        if k == "decl":
            t = s[1]
            art = "Die" if is_list(t) else ARTICLE[t]
            L("%s%s %s %s ist %s." % (p, art, TYPE_NAME[t], s[2], operand(s[3])))
            sc.vars[s[2]] = t
        elif k == "assign":
            lv = s[1]
            if lv[0] == "lvar":
                L("%sSpeichere %s in %s." % (p, operand(s[2]), lv[1]))
            else:
                L("%sSpeichere %s in %s an der Stelle %s." % (p, operand(s[2]), lv[1], operand(lv[2])))
        elif k == "if":
            L("%sWenn %s, dann:" % (p, operand(s[1])))
            self.block(s[2], sc, ind + 1)
            if s[3]:
                L("%sSonst:" % p)
                self.block(s[3], sc, ind + 1)
        elif k == "while":
            L("%sSolange %s, mache:" % (p, operand(s[1])))
            self.block(s[2], sc, ind + 1)
        elif k == "dowhile":
            L("%sMache:" % p)
            self.block(s[1], sc, ind + 1)
            L("%sSolange %s." % (p, operand(s[2])))
        elif k == "repeat":
            L("%sWiederhole:" % p)
            self.block(s[2], sc, ind + 1)
            L("%s%s Mal." % (p, operand(s[1])))
        elif k == "for":
            t = s[1]
            step = " mit Schrittgröße %s" % operand(s[5]) if s[5] is not None else ""
            L("%sFür %s %s von %s bis %s%s, mache:" % (p, FOREACH[t], s[2], operand(s[3]), operand(s[4]), step))
            inner = sc.child()
            inner.vars[s[2]] = t
            self.block(s[6], inner, ind + 1)
        elif k == "foreach":
            t = s[1]
            idx = " mit Index %s" % s[3] if s[3] else ""
            L("%sFür %s %s%s in %s, mache:" % (p, FOREACH[t], s[2], idx, operand(s[4])))
            inner = sc.child()
            inner.vars[s[2]] = t
            if s[3]:
                inner.vars[s[3]] = "Z"
            self.block(s[5], inner, ind + 1)
        elif k == "break":
            L("%sVerlasse die Schleife." % p)
        elif k == "continue":
            L("%sFahre mit der Schleife fort." % p)
        elif k == "return":
            L("%sVerlasse die Funktion." % p if s[1] is None else "%sGib %s zurück." % (p, operand(s[1])))
        elif k == "block":
            L("%s:" % p)
            self.block(s[1], sc, ind + 1)
        elif k == "expr":
            e = s[1]
            L("%s%s." % (p, render_expr(e) if e[0] == "call" else operand(e)))
        elif k == "print":
            t = tc_type(s[1], sc)
            if t not in PRINT:
                raise ValueError("print of untypable or non-scalar expression %r (%r)" % (s[1], t))
            L("%s%s %s." % (p, PRINT[t], operand(s[1])))
        else:
            raise ValueError(s)

    def func(self, f, sc):
        _, name, params, ret, body = f
        head = "Die Funktion %s" % name
        if len(params) == 1:
            pn, pt, pr = params[0]
            head += " mit dem Parameter %s vom Typ %s" % (pn, REF_NAME[pt] if pr else TYPE_NAME[pt])
        elif params:
            names = [q[0] for q in params]
            tys = [REF_NAME[q[1]] if q[2] else TYPE_NAME[q[1]] for q in params]
            head += " mit den Parametern %s und %s vom Typ %s und %s" % (", ".join(names[:-1]), names[-1], ", ".join(tys[:-1]), tys[-1])
        if ret is None:
            rets = "nichts"
        elif is_list(ret):
            rets = "eine " + TYPE_NAME[ret]
        else:
            rets = RETURNS[ret]
        head += (", " if params else " ") + "gibt %s zurück, macht:" % rets
        self.lines.append(head)
        sc.funcs[name] = ([tuple(q) for q in params], ret)   # visible in its own body (recursion)
        inner = sc.child()
        for pn, pt, pr in params:
            inner.vars[pn] = pt
        self.block(body, inner, 1)
        self.lines.append("Und kann so benutzt werden:")
        self.lines.append('\t"%s"' % " ".join([name] + ["<%s>" % q[0] for q in params]))
        self.lines.append("")


def render_program(prog):
    r = Renderer()
    r.lines.append('Binde "Duden/Ausgabe" ein.')
    r.lines.append("")
    sc = Scope()
    for it in prog:
        if it[0] == "func":
            r.func(it, sc)
        else:
            r.stmt(it[1], sc, 0)
    return "\n".join(r.lines) + "\n"


# ------------------------------------------------------------------------------------------------
# serialization for the extracted evaluator (extract/c01_driver.ml)
# ------------------------------------------------------------------------------------------------
def _id(name):
    return str(int(name.lstrip("xfn")))


def ser_expr(e, out):
    k = e[0]
    if k == "int":
        out += ["i", str(e[1])]
    elif k == "flt":
        out += ["f", str(e[1])]
    elif k == "bool":
        out += ["b", "1" if e[1] else "0"]
    elif k == "chr":
        out += ["c", str(e[1])]
    elif k == "txt":
        out += ["t", str(len(e[1]))] + [str(c) for c in e[1]]
    elif k == "var":
        out += ["v", _id(e[1])]
    elif k == "un":
        out += ["u", e[1]]
        ser_expr(e[2], out)
    elif k == "bin":
        out += ["o", e[1]]
        ser_expr(e[2], out)
        ser_expr(e[3], out)
    elif k == "ter":
        out += ["3", e[1]]
        ser_expr(e[2], out)
        ser_expr(e[3], out)
        ser_expr(e[4], out)
    elif k == "cast":
        out.append("a")
        ser_expr(e[1], out)
        out.append(e[2])
    elif k == "list":
        out += ["l", str(len(e[1]))]
        for x in e[1]:
            ser_expr(x, out)
    elif k == "empty":
        out += ["e", e[1]]
    elif k == "call":
        out += ["k", _id(e[1]), str(len(e[2]))]
        for a in e[2]:
            if a[0] == "val":
                out.append("V")
                ser_expr(a[1], out)
            else:
                idx = a[2] if len(a) > 2 and a[2] else []
                out += ["R", _id(a[1]), str(len(idx))]
                for x in idx:
                    ser_expr(x, out)
    else:
        raise ValueError(e)


def ser_block(b, out):
    out.append(str(len(b)))
    for s in b:
        ser_stmt(s, out)


def ser_stmt(s, out):
    k = s[0]
    if k == "decl":
        out += ["D", s[1], _id(s[2])]
        ser_expr(s[3], out)
    elif k == "assign":
        out.append("A")
        if s[1][0] == "lvar":
            out += ["x", _id(s[1][1])]
        else:
            out += ["y", _id(s[1][1])]
            ser_expr(s[1][2], out)
        ser_expr(s[2], out)
    elif k == "if":
        out.append("I")
        ser_expr(s[1], out)
        ser_block(s[2], out)
        ser_block(s[3], out)
    elif k == "while":
        out.append("W")
        ser_expr(s[1], out)
        ser_block(s[2], out)
    elif k == "dowhile":
        out.append("O")
        ser_block(s[1], out)
        ser_expr(s[2], out)
    elif k == "repeat":
        out.append("N")
        ser_expr(s[1], out)
        ser_block(s[2], out)
    elif k == "for":
        out += ["F", s[1], _id(s[2])]
        ser_expr(s[3], out)
        ser_expr(s[4], out)
        if s[5] is None:
            out.append("0")
        else:
            out.append("1")
            ser_expr(s[5], out)
        ser_block(s[6], out)
    elif k == "foreach":
        out += ["E", s[1], _id(s[2])]
        if s[3]:
            out += ["1", _id(s[3])]
        else:
            out.append("0")
        ser_expr(s[4], out)
        ser_block(s[5], out)
    elif k == "break":
        out.append("B")
    elif k == "continue":
        out.append("C")
    elif k == "return":
        if s[1] is None:
            out += ["T", "0"]
        else:
            out += ["T", "1"]
            ser_expr(s[1], out)
    elif k == "block":
        out.append("K")
        ser_block(s[1], out)
    elif k == "expr":
        out.append("X")
        ser_expr(s[1], out)
    elif k == "print":
        out.append("P")
        ser_expr(s[1], out)
    else:
        raise ValueError(s)


def serialize(prog):
    out = [str(len(prog))]
    for it in prog:
        if it[0] == "func":
            _, name, params, ret, body = it
            out += ["G", _id(name), str(len(params))]
            for pn, pt, pr in params:
                out += [_id(pn), pt, "1" if pr else "0"]
            if ret is None:
                out.append("0")
            else:
                out += ["1", ret]
            ser_block(body, out)
        else:
            out.append("S")
            ser_stmt(it[1], out)
    return " ".join(out)


# ------------------------------------------------------------------------------------------------
# canonical operator cells (operator x operand types), used as violation keys and to steer the generator
# ------------------------------------------------------------------------------------------------
def tname(t):
    return TYPE_NAME[t] if not is_list(t) else TYPE_NAME[elem(t)] + "Liste"


def cell_key(e, sc):
    """`op=DIV lhs=Byte rhs=Kommazahl` for an operator node, None for other nodes / untypable operands"""
    k = e[0]
    try:
        if k == "bin":
            return "op=%s lhs=%s rhs=%s" % (e[1].upper(), tname(tc_type(e[2], sc)), tname(tc_type(e[3], sc)))
        if k == "un":
            return "op=%s operand=%s" % (e[1].upper(), tname(tc_type(e[2], sc)))
        if k == "ter":
            return "op=%s operands=%s" % (e[1].upper(), ",".join(tname(tc_type(x, sc)) for x in e[2:5]))
        if k == "cast":
            return "op=CAST from=%s to=%s" % (tname(tc_type(e[1], sc)), tname(e[2]))
    except (KeyError, TypeError):
        return None
    return None


def cells_in(e, sc, acc):
    """all operator cells occurring in expression e"""
    if not isinstance(e, list) or not e:
        return acc
    ck = cell_key(e, sc) if e[0] in ("bin", "un", "ter", "cast") else None
    if ck:
        acc.add(ck)
    for x in e[1:]:
        if isinstance(x, list):
            if x and isinstance(x[0], str):
                cells_in(x, sc, acc)
            else:
                for y in x:
                    if isinstance(y, list):
                        cells_in(y if not (y and y[0] in ("val",)) else y[1], sc, acc)
    return acc


# ------------------------------------------------------------------------------------------------
# random typed programs
# ------------------------------------------------------------------------------------------------
class Gen:
    """Random well-typed, terminating programs. Every random choice goes through self.r (a random.Random)."""

    def __init__(self, rng, max_depth=3, lists=True, floats=True, funcs=True, avoid=None, scalar_only=False):
        """avoid: predicate on cell keys (see cell_key) the generator must not produce (cells with a listed finding
        are swept by the exhaustive leg, where they are reported under their canonical key)"""
        self.avoid = avoid
        self.scalar_only = scalar_only   # only scalar variables; loops: all five forms, for-each only over list/Text literals; no functions
        if scalar_only:
            lists = funcs = False
        self.r = rng
        self.n = 0
        self.max_depth = max_depth
        self.lists = lists
        self.floats = floats
        self.use_funcs = funcs
        self.protected = set()   # loop counters the body must not assign
        self.stats = {}

    def fresh(self, prefix="x"):
        self.n += 1
        return "%s%d" % (prefix, self.n)

    def note(self, k):
        self.stats[k] = self.stats.get(k, 0) + 1

    # ---- literals -----------------------------------------------------------------------------
    def literal(self, t):
        r = self.r
        if is_list(t):
            et = elem(t)
            n = r.choice([0, 1, 2, 3, 3, 4])
            if n == 0:
                return ["empty", et]
            return ["list", [self.literal(et) for _ in range(n)]]
        if t == "Z":
            if r.random() < 0.3:
                return I(r.choice(BOUNDARY["Z"]))
            return I(r.randint(-20, 40))
        if t == "B":
            return By(r.choice(BOUNDARY["B"]) if r.random() < 0.4 else r.randint(0, 255))
        if t == "K":
            if r.random() < 0.4:
                return F(r.choice(BOUNDARY["K"]))
            return F(r.choice([r.randint(-50, 50) / 4.0, r.uniform(-1000, 1000), r.randint(-9, 9) * 0.1]))
        if t == "W":
            return Bo(r.random() < 0.5)
        if t == "C":
            return Ch(r.choice(BOUNDARY["C"]) if r.random() < 0.5 else r.randint(33, 126))
        if t == "T":
            if r.random() < 0.5:
                return Tx(r.choice(BOUNDARY["T"]))
            return Tx("".join(r.choice("abcxyzÄß€ 019") for _ in range(r.randint(0, 6))))
        raise ValueError(t)

    def small_index(self):
        r = self.r
        return I(r.choice([1, 1, 1, 2, 2, 3]) if r.random() < 0.85 else r.choice([0, 4, -1, 7, 5]))

    # ---- expressions --------------------------------------------------------------------------
    def expr(self, t, sc, d=None):
        """expression whose typechecker type is t"""
        d = self.max_depth if d is None else d
        r = self.r
        vars_t = [x for x, vt in sc.vars.items() if vt == t]
        if d <= 0 or r.random() < 0.18:
            if vars_t and r.random() < 0.6:
                return V(r.choice(vars_t))
            return self.literal(t)
        if vars_t and r.random() < 0.15:
            return V(r.choice(vars_t))
        prods = self.productions(t, sc)
        for _ in range(8):
            e = r.choice(prods)(d - 1)
            if e is not None:
                assert tc_type(e, sc) == t, (t, e, tc_type(e, sc))
                if self.avoid is not None:
                    ck = cell_key(e, sc)
                    if ck and self.avoid(ck):
                        continue
                return e
        return self.literal(t)

    def num_pair(self, kinds):
        return self.r.choice(kinds)

    def productions(self, t, sc):
        r = self.r
        E = lambda ty, d: self.expr(ty, sc, d)
        P = []

        def add(w, f):
            P.extend([f] * w)

        def falls(d):
            # kddp crashes (C02) when the two sides of a primitive `falls` leave different temporary flags:
            # keep both sides variables or both literal-only there
            if t in ("Z", "K", "B", "W", "C"):
                vs = [x for x, vt in sc.vars.items() if vt == t]
                if len(vs) >= 1 and r.random() < 0.5:
                    return ["ter", "Falls", V(r.choice(vs)), E("W", d), V(r.choice(vs))]
                return ["ter", "Falls", self.literal(t), E("W", d), self.literal(t)]
            return ["ter", "Falls", E(t, d), E("W", d), E(t, d)]
        add(1, falls)
        fcalls = [n for n, (ps, ret) in sc.funcs.items() if ret == t]
        if fcalls:
            add(2, lambda d: self.call(r.choice(fcalls), sc, d))
        if self.lists and not is_list(t):
            add(1, lambda d: ["bin", "Index", E("L" + t, d), self.small_index() if r.random() < 0.7 else E("Z", d)])
        nump = [("Z", "Z")] * 4 + [("B", "B")] * 2 + ([("K", "K"), ("K", "Z"), ("Z", "K"), ("K", "B"), ("B", "K")] if self.floats else []) + [("Z", "B"), ("B", "Z")]
        if t == "Z":
            add(6, lambda d: ["bin", r.choice(["Plus", "Minus", "Mult"]), E("Z", d), E("Z", d)])
            add(2, lambda d: ["bin", "Mod", E("Z", d), I(r.choice([1, 2, 3, 7, -3, 10, 256])) if r.random() < 0.85 else E("Z", d)])
            add(2, lambda d: ["un", r.choice(["Abs", "Neg", "LogicNot"]), E("Z", d)])
            add(1, lambda d: ["un", r.choice(["Abs", "Neg"]), E("B", d)])
            add(1, lambda d: self.mixed_zb(sc, d))
            add(2, lambda d: ["bin", r.choice(["LogicAnd", "LogicOr", "LogicXor"]), E("Z", d), E("Z", d)])
            add(2, lambda d: ["bin", r.choice(["Shl", "Shr"]), E("Z", d), I(r.choice([0, 1, 3, 8, 31, 62, 63])) if r.random() < 0.9 else E("Z", d)])
            if not self.scalar_only:
                add(2, lambda d: ["un", "Len", E(r.choice(["T"] + (LISTS if self.lists else [])), d)])
            add(3, lambda d: ["cast", E(r.choice(["B", "W"] if self.scalar_only else ["B", "W", "C"]), d), "Z"])
            if self.floats:
                add(1, lambda d: ["cast", self.bounded_float(sc, d), "Z"])
        elif t == "K":
            add(6, lambda d: self.arith_k(sc, d))
            add(4, lambda d: (lambda p: ["bin", "Div", E(p[0], d), E(p[1], d)])(r.choice(nump)))
            add(1, lambda d: (lambda p: ["bin", "Pow", E(p[0], d), E(p[1], d)])(r.choice(nump)))
            add(1, lambda d: (lambda p: ["bin", "Log", E(p[0], d), E(p[1], d)])(r.choice(nump)))
            add(2, lambda d: ["un", r.choice(["Abs", "Neg"]), E("K", d)])
            add(2, lambda d: ["cast", E(r.choice(["Z", "B"]), d), "K"])
        elif t == "B":
            add(5, lambda d: ["bin", r.choice(["Plus", "Minus", "Mult"]), E("B", d), E("B", d)])
            add(1, lambda d: ["bin", "Mod", E("B", d), By(r.choice([1, 2, 3, 7, 10, 200])) if r.random() < 0.85 else E("B", d)])
            add(1, lambda d: ["un", "LogicNot", E("B", d)])
            add(2, lambda d: ["bin", r.choice(["LogicAnd", "LogicOr", "LogicXor"]), E("B", d), E("B", d)])
            add(1, lambda d: ["bin", r.choice(["Shl", "Shr"]), E("B", d), By(r.choice([0, 1, 3, 7]))])
            add(3, lambda d: ["cast", E("Z", d), "B"])
        elif t == "W":
            add(3, lambda d: ["bin", r.choice(["And", "Or", "Xor"]), E("W", d), E("W", d)])
            add(2, lambda d: self.guarded(sc, d))
            add(1, lambda d: ["un", "Not", E("W", d)])
            eqt = SCALARS + (LISTS if self.lists else [])
            if self.scalar_only:
                eqt = ["Z", "K", "B", "W"]
            if not self.floats:
                eqt = [x for x in eqt if "K" not in x]
            add(3, lambda d: (lambda ty: ["bin", r.choice(["Eq", "Ne"]), E(ty, d), E(ty, d)])(r.choice(eqt)))
            add(4, lambda d: (lambda p: ["bin", r.choice(["Lt", "Gt", "Le", "Ge"]), E(p[0], d), E(p[1], d)])(r.choice(nump)))
            add(1, lambda d: (lambda p: ["ter", "Between", E(p[0], d), E(p[1], d), E(r.choice(p), d)])(r.choice(nump)))
            add(1, lambda d: ["cast", E(r.choice(["Z", "B"]), d), "W"])
        elif t == "C":
            add(3, lambda d: ["bin", "Index", E("T", d), self.small_index() if r.random() < 0.8 else E("Z", d)])
            add(1, lambda d: ["cast", I(r.choice([65, 97, 228, 8364, 128512, 48, 10])) if r.random() < 0.8 else E("B", d), "C"])
        elif t == "T":
            add(4, lambda d: (lambda p: ["bin", "Concat", E(p[0], d), E(p[1], d)])(r.choice([("T", "T"), ("T", "T"), ("T", "C"), ("C", "T")])))
            add(2, lambda d: ["ter", "Slice", E("T", d), self.small_index(), self.small_index()])
            add(1, lambda d: ["bin", r.choice(["SliceTo", "SliceFrom"]), E("T", d), self.small_index()])
            srcs = ["Z", "B", "W", "C"] + (["K"] if self.floats else [])
            add(3, lambda d: ["cast", E(r.choice(srcs), d), "T"])
        elif is_list(t):
            et = elem(t)
            add(3, lambda d: (lambda p: ["bin", "Concat", E(p[0], d), E(p[1], d)])(
                r.choice([(t, t), (t, et), (et, t)] + ([(et, et)] if et != "T" else []))))
            add(2, lambda d: ["ter", "Slice", E(t, d), self.small_index(), self.small_index()])
            add(1, lambda d: ["bin", r.choice(["SliceTo", "SliceFrom"]), E(t, d), self.small_index()])
            add(1, lambda d: ["cast", E(et, d), t])
            add(2, lambda d: ["list", [E(et, d) for _ in range(r.randint(1, 3))]])
        return P

    def guarded(self, sc, d):
        """short-circuit guard in front of a right operand that traps or raises a Laufzeitfehler when evaluated:
        n ungleich 0 ist und x modulo n ..., i <= Länge und l an der Stelle i ..."""
        r = self.r
        zs = [x for x, vt in sc.vars.items() if vt == "Z"]
        n = V(r.choice(zs)) if zs and r.random() < 0.6 else I(r.choice([0, 0, 3]))
        x = self.expr("Z", sc, min(d, 1))
        ls = [v for v, vt in sc.vars.items() if vt in ("LZ", "T")] if self.lists else []
        if ls and r.random() < 0.4:
            l = V(r.choice(ls))
            i = V(r.choice(zs)) if zs and r.random() < 0.5 else I(r.choice([0, 1, 2, 5, 9]))
            inb = ["bin", "And", ["bin", "Ge", i, I(1)], ["bin", "Le", i, ["un", "Len", l]]]
            elem_ok = ["bin", "Ne" if r.random() < 0.5 else "Eq", ["bin", "Index", l, i], I(1) if sc.vars[l[1]] == "LZ" else Ch(97)]
            if r.random() < 0.5:
                return ["bin", "And", inb, elem_ok]
            return ["bin", "Or", ["un", "Not", inb], elem_ok]
        test = ["bin", r.choice(["Eq", "Ne", "Lt"]), ["bin", "Mod", x, n], I(r.choice([0, 1]))]
        if r.random() < 0.5:
            return ["bin", "And", ["bin", "Ne", n, I(0)], test]
        return ["bin", "Or", ["bin", "Eq", n, I(0)], test]

    def mixed_zb(self, sc, d):
        """Zahl with Byte (either order): the result is a Zahl"""
        r = self.r
        p = r.choice([("Z", "B"), ("B", "Z")])
        op = r.choice(["Plus", "Minus", "Mult", "LogicAnd", "LogicOr", "LogicXor", "Mod"])
        rhs = self.expr(p[1], sc, d)
        if op == "Mod":
            rhs = I(r.choice([1, 3, 7])) if p[1] == "Z" else By(r.choice([1, 3, 7]))
        return ["bin", op, self.expr(p[0], sc, d), rhs]

    def arith_k(self, sc, d):
        r = self.r
        p = r.choice([("K", "K"), ("K", "K"), ("K", "Z"), ("Z", "K"), ("K", "B"), ("B", "K")])
        return ["bin", r.choice(["Plus", "Minus", "Mult"]), self.expr(p[0], sc, d), self.expr(p[1], sc, d)]

    def bounded_float(self, sc, d):
        """a Kommazahl expression that usually stays inside the Zahl range"""
        r = self.r
        if r.random() < 0.7:
            return F(r.choice([0.0, -0.0, 0.5, -0.5, 2.9, -2.9, 255.9, 1e15, -7.5, 3.9999999999999996]))
        return ["bin", "Div", self.expr("Z", sc, min(d, 1)), I(r.choice([2, 3, 4, -8]))]

    def call(self, f, sc, d):
        params, ret = sc.funcs[f]
        args = []
        used_ref = set()
        for pn, pt, pr in params:
            if pr:
                cands = [x for x, vt in sc.vars.items() if vt == pt and x not in self.protected and x not in used_ref]
                lcands = [x for x, vt in sc.vars.items() if vt == "L" + pt and x not in self.protected and x not in used_ref] if not is_list(pt) else []
                if lcands and (not cands or self.r.random() < 0.3):
                    x = self.r.choice(lcands)
                    used_ref.add(x)
                    args.append(["ref", x, [self.small_index()]])
                elif cands:
                    x = self.r.choice(cands)
                    used_ref.add(x)
                    args.append(["ref", x, []])
                else:
                    return None
            else:
                args.append(["val", self.expr(pt, sc, d)])
        self.note("call")
        return ["call", f, args]

    # ---- statements ---------------------------------------------------------------------------
    def stmts(self, sc, n, d, in_loop, fret):
        out = []
        for _ in range(n):
            s = self.stmt(sc, d, in_loop, fret)
            out.extend(s)
        if not out:
            out.append(["print", self.literal("Z")])
        return out

    def scalar_type(self):
        if self.scalar_only:
            return self.r.choice(["Z"] * 4 + ["B", "B", "W", "W"] + (["K", "K"] if self.floats else []))
        ts = ["Z"] * 4 + ["B", "B", "W", "W", "C", "T", "T"] + (["K", "K"] if self.floats else [])
        return self.r.choice(ts)

    def any_type(self):
        if self.lists and self.r.random() < 0.25:
            ts = [x for x in LISTS if self.floats or x != "LK"]
            return self.r.choice(ts)
        return self.scalar_type()

    def print_stmt(self, sc, d):
        t = self.scalar_type()
        return [["print", self.expr(t, sc, d)], ["print", Ch(10 if self.r.random() < 0.5 else 32)]]

    def stmt(self, sc, d, in_loop, fret):
        """returns a list of statements (some forms come with helper declarations)"""
        r = self.r
        x = r.random()
        if d <= 0:
            x = x * 0.6
        if x < 0.30:
            self.note("print")
            return self.print_stmt(sc, 2)
        if x < 0.45:
            t = self.any_type()
            # declaration, sometimes with an implicit numeric conversion
            src = t
            if t in NUMERIC and r.random() < 0.2:
                src = r.choice([q for q in NUMERIC if self.floats or q != "K"])
            e = self.expr(src, sc, 2) if src != "K" or t == "K" else self.bounded_float(sc, 1)
            name = self.fresh()
            s = ["decl", t, name, e]
            sc.vars[name] = t
            self.note("decl")
            return [s]
        if x < 0.58:
            cands = [(v, t) for v, t in sc.vars.items() if v not in self.protected]
            if not cands:
                return self.print_stmt(sc, 2)
            v, t = r.choice(cands)
            text_replace_ok = not (t == "T" and self.avoid is not None and self.avoid("stmt=TEXT-REPLACE old=2B new=1B"))
            if (is_list(t) or t == "T") and text_replace_ok and r.random() < 0.5:
                et = elem(t) if is_list(t) else "C"
                self.note("assign_index")
                return [["assign", ["lidx", v, self.small_index()], self.expr(et, sc, 2)]]
            src = t
            if t in NUMERIC and r.random() < 0.2:
                src = r.choice([q for q in NUMERIC if self.floats or q != "K"])
            e = self.expr(src, sc, 2) if src != "K" or t == "K" else self.bounded_float(sc, 1)
            if e == ["var", v] and self.avoid is not None and self.avoid("stmt=ASSIGN source-is-target type=%s" % tname(t)):
                e = self.literal(t)
            self.note("assign")
            return [["assign", ["lvar", v], e]]
        if x < 0.62:
            fs = [n for n, (ps, ret) in sc.funcs.items()]
            if fs:
                c = self.call(r.choice(fs), sc, 2)
                if c is not None:
                    return [["expr", c]]
            return self.print_stmt(sc, 2)
        if x < 0.72:
            self.note("if")
            th = self.stmts(sc.child(), r.randint(1, 3), d - 1, in_loop, fret)
            el = self.stmts(sc.child(), r.randint(1, 2), d - 1, in_loop, fret) if r.random() < 0.6 else []
            return [["if", self.expr("W", sc, 2), th, el]]
        if x < 0.80:
            return self.for_loop(sc, d, fret)
        if x < 0.85:
            return self.while_loop(sc, d, fret)
        if x < 0.90:
            self.note("repeat")
            body = self.stmts(sc.child(), r.randint(1, 2), d - 1, True, fret)
            cnt = I(r.choice([0, 1, 2, 3])) if r.random() < 0.8 else ["bin", "Mod", ["un", "Abs", self.expr("Z", sc, 1)], I(4)]
            return [["repeat", cnt, body]]
        if x < 0.95:
            return self.foreach_loop(sc, d, fret)
        if in_loop and x < 0.98:
            self.note("break/continue")
            return [["if", self.expr("W", sc, 1), [["break" if in_loop == "break-only" else r.choice(["break", "continue"])]], []]]
        if fret is not False and x < 0.99:
            self.note("return")
            return [["if", self.expr("W", sc, 1), [["return", None if fret is None else self.expr(fret, sc, 2)]], []]]
        self.note("block")
        return [["block", self.stmts(sc.child(), r.randint(1, 2), d - 1, in_loop, fret)]]

    def for_loop(self, sc, d, fret):
        r = self.r
        t = r.choice(["Z", "Z", "Z", "B", "B"] + (["K"] if self.floats else []))
        name = self.fresh()
        self.note("for_" + t)
        if t == "Z":
            a = r.choice([0, 1, -2, 5, 10])
            step = r.choice([None, 1, 2, -1, -3, 4])
            n = r.randint(0, 4)
            b = a + (step or 1) * n + r.choice([0, 0, 1, -1])
            frm, to = I(a), (I(b) if r.random() < 0.7 else ["bin", "Plus", I(b - 1), I(1)])
            st = None if step is None else I(step)
        elif t == "B":
            a = r.choice([0, 1, 5, 250, 253])
            step = r.choice([None, 1, 2, 3])
            n = r.randint(0, 4)
            b = a + (step or 1) * n
            frm = I(a) if r.random() < 0.5 else By(a)
            to = I(b) if (b > 255 or r.random() < 0.5) else By(b)
            st = None if step is None else (I(step) if r.random() < 0.5 else By(step))
            if r.random() < 0.2:   # downward with a Zahl step
                frm, to, st = I(a % 256), I(max(0, a % 256 - 3)), I(-1)
        else:
            a = r.choice([0.0, 0.5, -1.0, 10.0])
            step = r.choice([None, 1.0, 0.5, 0.75, -1.0, -0.25])
            n = r.randint(0, 4)
            b = a + (step or 1.0) * n
            frm, to, st = F(a), F(b), (None if step is None else F(step))
        inner = sc.child()
        inner.vars[name] = t
        if r.random() < 0.8:
            self.protected.add(name)
        body = [["print", V(name)], ["print", Ch(32)]] + self.stmts(inner, r.randint(0, 2), d - 1, True, fret)
        return [["for", t, name, frm, to, st, body]]

    def while_loop(self, sc, d, fret):
        r = self.r
        c = self.fresh()
        self.protected.add(c)
        n = r.randint(0, 4)
        inner = sc.child()
        inner.vars[c] = "Z"
        sc.vars[c] = "Z"
        body = self.stmts(inner, r.randint(1, 2), d - 1, False, fret)   # no continue: it would skip the increment
        body.append(["assign", ["lvar", c], ["bin", "Plus", V(c), I(1)]])
        cond = ["bin", "Lt", V(c), I(n)]
        if r.random() < 0.5:
            self.note("while")
            return [["decl", "Z", c, I(0)], ["while", cond, body]]
        self.note("dowhile")
        return [["decl", "Z", c, I(0)], ["dowhile", body, cond]]

    def foreach_loop(self, sc, d, fret):
        r = self.r
        if self.scalar_only:
            # the stage-4 fragment: for-each over a list literal of scalars or over a Text literal
            if r.random() < 0.6:
                et = r.choice(["Z", "Z", "B", "W"] + (["K"] if self.floats else []))
                src = ["list", [self.expr(et, sc, 1) for _ in range(r.randint(1, 3))]]
            else:
                et = "C"
                src = Tx(r.choice(["", "a", "ab", "xyz", "\u00e4\u20ac", "A b", "0\n1"]))
        elif self.lists and r.random() < 0.6:
            et = r.choice([q for q in SCALARS if self.floats or q != "K"])
            src = self.expr("L" + et, sc, 1)
        else:
            et = "C"
            src = self.expr("T", sc, 1)
        name = self.fresh()
        idx = self.fresh() if r.random() < 0.4 else None
        inner = sc.child()
        inner.vars[name] = et
        if self.scalar_only and et == "C":
            self.protected.add(name)   # no Buchstabe expressions in the scalar fragment's generator
        if idx:
            inner.vars[idx] = "Z"
        self.note("foreach")
        loop_ctx = True
        if self.avoid is not None and src[0] not in ("var", "txt", "list", "empty") and \
                self.avoid("stmt=FOREACH over=%s in=concat_tt body=continue" % ("Text" if et == "C" and src and tc_type(src, sc) == "T" else "Liste")):
            loop_ctx = "break-only"   # a listed finding: `continue` over an iterated expression with operand temporaries
        body = [["print", V(name)]] + ([["print", V(idx)]] if idx else []) + self.stmts(inner, r.randint(0, 2), d - 1, loop_ctx, fret)
        return [["foreach", et, name, idx, src, body]]

    def func(self, sc):
        r = self.r
        name = self.fresh("fn")
        params = []
        for _ in range(r.choice([0, 1, 1, 2, 2, 3])):
            pt = self.any_type()
            params.append((self.fresh(), pt, r.random() < 0.35))
        ret = r.choice([None, None] + [self.any_type() for _ in range(3)])
        inner = sc.child()
        for pn, pt, pr in params:
            inner.vars[pn] = pt
        body = self.stmts(inner, r.randint(1, 4), 2, False, ret)
        if ret is not None:
            body.append(["return", self.expr(ret, inner, 2)])
        sc.funcs[name] = (params, ret)
        self.note("func")
        return ["func", name, [list(p) for p in params], ret, body]

    def program(self, size=None):
        r = self.r
        sc = Scope()
        prog = []
        size = size or r.randint(4, 10)
        for i in range(size):
            if self.use_funcs and r.random() < 0.22:
                prog.append(self.func(sc))
            else:
                for s in self.stmt(sc, 2, False, False):
                    prog.append(["stmt", s])
        return prog


def literal_representable_all(e):
    """every literal inside e can be written in DDP source"""
    if not isinstance(e, list):
        return True
    if e and e[0] in ("flt", "chr", "txt"):
        return literal_representable(e)
    return all(literal_representable_all(x) for x in e if isinstance(x, list))
