"""Shared machinery of the /verif checks: build cache keyed by /repo's working tree, Coq build and
theorem audit, compile/link/run of DDP programs, evidence, violations and known findings."""
import fcntl
import hashlib
import json
import os
import random
import re
import shutil
import subprocess
import sys
import tempfile
import time
from concurrent.futures import ThreadPoolExecutor

VERIF = os.path.dirname(os.path.dirname(os.path.abspath(__file__)))
REPO = os.environ.get("VERIF_REPO", "/repo")
CACHE = os.path.join(VERIF, ".cache")
COQ = os.path.join(VERIF, "coq")
NCPU = int(os.environ.get("VERIF_JOBS", "16"))

GOENV = dict(os.environ, GOFLAGS="-mod=mod", GOPROXY="off", GOTOOLCHAIN="auto")
GOENV.pop("GOSUMDB", None)


def log(*a):
    print(*a, file=sys.stderr, flush=True)


# ------------------------------------------------------------------------------------------------
# hashing / build cache
# ------------------------------------------------------------------------------------------------
_SKIP_EXT = (".o", ".a", ".exe", ".ll", ".png", ".jpg", ".svg", ".md")


def _hash_tree(roots, h):
    for root in roots:
        if os.path.isfile(root):
            files = [root]
        else:
            files = []
            for d, dirs, fs in os.walk(root):
                dirs[:] = sorted(x for x in dirs if x not in (".git", "llvm-project", "llvm_build", "build"))
                for f in sorted(fs):
                    if f.endswith(_SKIP_EXT) or f == "kddp":
                        continue
                    files.append(os.path.join(d, f))
        for f in files:
            try:
                with open(f, "rb") as fh:
                    data = fh.read()
            except OSError:
                continue
            h.update(f.encode())
            h.update(hashlib.sha256(data).digest())


_repo_hash = None


def repo_hash():
    global _repo_hash
    if _repo_hash is None:
        h = hashlib.sha256()
        _hash_tree([os.path.join(REPO, p) for p in ("src", "cmd", "lib/runtime", "lib/stdlib", "go.mod", "go.sum")], h)
        _hash_tree([os.path.join(VERIF, "harness", "c", "shim.c"), os.path.join(VERIF, "tools", "buildrepo.sh")], h)
        _repo_hash = h.hexdigest()[:16]
    return _repo_hash


def _dir_hash(paths):
    h = hashlib.sha256()
    _hash_tree(paths, h)
    return h.hexdigest()[:12]


def _prune_cache(keep):
    try:
        ds = [os.path.join(CACHE, d) for d in os.listdir(CACHE) if os.path.isdir(os.path.join(CACHE, d)) and not d.startswith("run-")]
    except FileNotFoundError:
        return
    ds = [d for d in ds if os.path.basename(d) != keep]
    ds.sort(key=lambda d: os.path.getmtime(d), reverse=True)
    for d in ds[3:]:
        if time.time() - os.path.getmtime(d) > 7200:
            shutil.rmtree(d, ignore_errors=True)


class Build:
    """Build products of /repo's current working tree (shared by all checks through .cache/<hash>)."""

    def __init__(self):
        self.hash = repo_hash()
        self.dir = os.path.join(CACHE, self.hash)
        os.makedirs(self.dir, exist_ok=True)
        try:
            os.utime(self.dir, None)   # mark as in use (cache pruning goes by mtime)
        except OSError:
            pass
        self.kddp = os.path.join(self.dir, "bin", "kddp")
        self.lib = os.path.join(self.dir, "lib")

    def _locked(self, name, fn):
        lock = os.path.join(self.dir, name + ".lock")
        with open(lock, "w") as lf:
            fcntl.flock(lf, fcntl.LOCK_EX)
            try:
                return fn()
            finally:
                fcntl.flock(lf, fcntl.LOCK_UN)

    def ensure_native(self):
        """kddp + runtime + stdlib + shims. Returns (ok, logtext)."""
        def go():
            okf = os.path.join(self.dir, "BUILD_OK")
            failf = os.path.join(self.dir, "BUILD_FAIL")
            if os.path.exists(okf):
                return True, ""
            if os.path.exists(failf):
                return False, open(failf).read()
            _prune_cache(self.hash)
            t = time.time()
            p = subprocess.run([os.path.join(VERIF, "tools", "buildrepo.sh"), REPO, self.dir], capture_output=True, text=True, env=GOENV, timeout=1500)
            log("[build] native build of %s in %.0fs rc=%d" % (self.hash, time.time() - t, p.returncode))
            if p.returncode != 0 or not os.path.exists(okf):
                msg = p.stdout + p.stderr
                open(failf, "w").write(msg)
                return False, msg
            return True, ""
        return self._locked("native", go)

    def ensure_go(self, name):
        """Build harness/go/cmd/<name> against REPO with -tags verif. Returns (path|None, log)."""
        def go():
            gdir = os.path.join(self.dir, "go-" + _dir_hash([os.path.join(VERIF, "harness", "go")]))
            os.makedirs(gdir, exist_ok=True)
            out = os.path.join(gdir, name)
            failf = os.path.join(gdir, "go_%s.fail" % name)
            if os.path.exists(out):
                return out, ""
            if os.path.exists(failf):
                return None, open(failf).read()
            for old in os.listdir(self.dir):
                if old.startswith("go-") and os.path.join(self.dir, old) != gdir and time.time() - os.path.getmtime(os.path.join(self.dir, old)) > 1800:
                    shutil.rmtree(os.path.join(self.dir, old), ignore_errors=True)
            src = os.path.join(gdir, "gosrc")
            if not os.path.exists(os.path.join(src, "go.mod")):
                shutil.rmtree(src, ignore_errors=True)
                shutil.copytree(os.path.join(VERIF, "harness", "go"), src)
                gomod = open(os.path.join(REPO, "go.mod")).read()
                gomod = gomod.replace("module github.com/DDP-Projekt/Kompilierer", "module verifharness")
                gomod += "\nrequire github.com/DDP-Projekt/Kompilierer v0.0.0\nreplace github.com/DDP-Projekt/Kompilierer => %s\n" % REPO
                open(os.path.join(src, "go.mod"), "w").write(gomod)
                shutil.copy(os.path.join(REPO, "go.sum"), os.path.join(src, "go.sum"))
            t = time.time()
            p = subprocess.run(["go", "build", "-tags", "verif", "-o", out, "./cmd/" + name], cwd=src, capture_output=True, text=True, env=GOENV, timeout=900)
            log("[build] go harness %s in %.0fs rc=%d" % (name, time.time() - t, p.returncode))
            if p.returncode != 0:
                open(failf, "w").write(p.stdout + p.stderr)
                return None, p.stdout + p.stderr
            return out, ""
        return self._locked("go_" + name, go)

    def ensure_c(self, name, sources, extra=(), asan=False):
        """Build a C harness (harness/c/<sources>) against the runtime/stdlib of this tree."""
        def go():
            srcs = [os.path.join(VERIF, "harness", "c", s) for s in sources]
            out = os.path.join(self.dir, "bin", "%s-%s" % (name, _dir_hash(srcs + [os.path.join(VERIF, "harness", "c", "shim.c")])))
            if os.path.exists(out):
                return out, ""
            sfx = "_asan" if asan else ""
            cmd = ["gcc", "-O1", "-g", "-std=gnu11", "-I" + os.path.join(REPO, "lib/runtime/include"), "-I" + os.path.join(REPO, "lib/stdlib/include")]
            if asan:
                cmd += ["-fsanitize=address", "-fno-omit-frame-pointer"]
            cmd += [os.path.join(VERIF, "harness", "c", s) for s in sources]
            cmd += [os.path.join(self.lib, "shim.o"), "-Wl,--wrap=setlocale", "-Wl,--wrap=ddp_reallocate", "-L" + self.lib, "-lddpstdlib" + sfx, "-lddpruntime" + sfx, "-lm", "-o", out]
            cmd += list(extra)
            p = subprocess.run(cmd, capture_output=True, text=True, timeout=300)
            if p.returncode != 0:
                return None, p.stdout + p.stderr
            return out, ""
        return self._locked("c_" + name, go)

    # -------- DDP programs -------------------------------------------------------------------
    def compile(self, src, exe, opt=0, asan=False, cwd=None, extra_args=(), extra_objs=(), timeout=120):
        """kddp kompiliere + gcc link. Returns dict(stage, rc, out)."""
        obj = exe + ".o"
        env = dict(os.environ, DDPPATH=self.dir)
        try:
            p = subprocess.run([self.kddp, "kompiliere", src, "-o", obj, "-O", str(opt)] + list(extra_args), capture_output=True, text=True, env=env, cwd=cwd, timeout=timeout)
        except subprocess.TimeoutExpired:
            return dict(stage="kddp", rc=-9, out="timeout")
        if p.returncode != 0 or not os.path.exists(obj):
            return dict(stage="kddp", rc=p.returncode, out=p.stdout + p.stderr)
        sfx = "_asan" if asan else ""
        cmd = ["gcc", obj, os.path.join(self.lib, "main%s.o" % sfx), os.path.join(self.lib, "shim.o"), "-Wl,--wrap=setlocale", "-Wl,--wrap=ddp_reallocate"]
        cmd += list(extra_objs)
        if asan:
            cmd += ["-fsanitize=address"]
        cmd += ["-L" + self.lib, "-lddpstdlib" + sfx, "-lddpruntime" + sfx, "-lm", "-o", exe]
        l = subprocess.run(cmd, capture_output=True, text=True, timeout=timeout)
        if l.returncode != 0:
            return dict(stage="link", rc=l.returncode, out=l.stdout + l.stderr, kddp_out=p.stdout + p.stderr)
        return dict(stage="ok", rc=0, out=p.stdout + p.stderr)

    def run(self, exe, stdin=b"", timeout=10, ledger=None, args=(), cwd=None):
        env = dict(os.environ, ASAN_OPTIONS="detect_leaks=1:exitcode=97:abort_on_error=0")
        if ledger:
            env["DDP_LEDGER"] = ledger
        try:
            p = subprocess.run([exe] + list(args), input=stdin, capture_output=True, env=env, timeout=timeout, cwd=cwd)
            return p.returncode, p.stdout, p.stderr
        except subprocess.TimeoutExpired as e:
            return -9, e.stdout or b"", b"timeout"


def scratch():
    """Per-run scratch dir under .cache (removed by the caller / atexit)."""
    os.makedirs(CACHE, exist_ok=True)
    d = tempfile.mkdtemp(prefix="run-", dir=CACHE)
    import atexit
    atexit.register(lambda: shutil.rmtree(d, ignore_errors=True))
    return d


def pmap(fn, items, jobs=NCPU):
    # on an oversubscribed machine (other checks / builders running) more workers only add thrashing
    try:
        load = os.getloadavg()[0]
    except OSError:
        load = 0.0
    if load > 2 * NCPU:
        jobs = max(2, min(jobs, 4))
    elif load > NCPU:
        jobs = max(2, min(jobs, 8))
    with ThreadPoolExecutor(max_workers=jobs) as ex:
        return list(ex.map(fn, items))


# ------------------------------------------------------------------------------------------------
# Coq
# ------------------------------------------------------------------------------------------------
ALLOWED_AXIOMS = {
    # standard-library axioms accepted by the brief; each use is reported in evidence
    "functional_extensionality_dep", "FunctionalExtensionality.functional_extensionality_dep",
    "ClassicalDedekindReals.sig_forall_dec", "ClassicalDedekindReals.sig_not_dec",
    "sig_forall_dec", "sig_not_dec", "Eqdep.Eq_rect_eq.eq_rect_eq", "eq_rect_eq", "Classical_Prop.classic", "classic",
    "proof_irrelevance", "JMeq_eq", "JMeq.JMeq_eq",
}


def coq_make(timeout=1700):
    """(Re)build the whole Coq development. Returns (ok, log)."""
    lockf = os.path.join(COQ, ".make.lock")
    with open(lockf, "w") as lf:
        fcntl.flock(lf, fcntl.LOCK_EX)
        try:
            p = subprocess.run(["make", "-k", "-C", VERIF, "coq", "-j%d" % NCPU], capture_output=True, text=True, timeout=timeout)
            return p.returncode == 0, (p.stdout + p.stderr)[-6000:]
        except subprocess.TimeoutExpired:
            return False, "coq build timed out"
        finally:
            fcntl.flock(lf, fcntl.LOCK_UN)


def coq_closure(vfile, seen=None):
    """.v files of this development that vfile depends on (transitively), via its Require lines."""
    seen = set() if seen is None else seen
    if vfile in seen or not os.path.exists(vfile):
        return seen
    seen.add(vfile)
    txt = re.sub(r"\(\*.*?\*\)", "", open(vfile).read(), flags=re.S)
    for m in re.finditer(r"(?:From\s+DDP\s+)?Require\s+(?:Import\s+|Export\s+)?([^.]*(?:\.[A-Za-z_][^.]*)*)\.\s", txt):
        for name in m.group(1).split():
            name = name.strip()
            if name.startswith("DDP."):
                name = name[4:]
            cand = os.path.join(COQ, *name.split(".")) + ".v"
            if os.path.exists(cand):
                coq_closure(cand, seen)
    return seen


def coq_stale(vfile):
    """files in the closure of vfile whose .vo is missing or older than the source"""
    bad = []
    for f in coq_closure(vfile):
        vo = f[:-2] + ".vo"
        if not os.path.exists(vo) or os.path.getmtime(vo) < os.path.getmtime(f):
            bad.append(os.path.relpath(f, COQ))
    return bad


def props_audit(pid):
    """Compile Props/<pid>.v on its own, list its theorems and the axioms Print Assumptions reports.
    Returns dict(ok, theorems=[..], axioms={thm:[..]}, log)."""
    f = os.path.join(COQ, "Props", pid + ".v")
    src = open(f).read()
    thms = re.findall(r"^\s*(?:Theorem|Lemma|Corollary)\s+([A-Za-z0-9_']+)", src, re.M)
    bad = re.findall(r"\b(Admitted|admit|Axiom|Parameter|Conjecture|Abort)\b", re.sub(r"\(\*.*?\*\)", "", src, flags=re.S))
    tmpd = tempfile.mkdtemp(prefix="props-", dir=CACHE)
    try:
        shutil.copy(f, os.path.join(tmpd, pid + "_audit.v"))
        p = subprocess.run(["coqc", "-Q", COQ, "DDP", pid + "_audit.v"], cwd=tmpd, capture_output=True, text=True, timeout=900)
    finally:
        out = p.stdout + p.stderr if "p" in dir() else ""
        shutil.rmtree(tmpd, ignore_errors=True)
    ok = p.returncode == 0 and not bad
    # Print Assumptions output: either "Closed under the global context" or "Axioms:\n name : type ..."
    axioms = []
    for m in re.finditer(r"^([A-Za-z0-9_.']+)\s*:(?!=)", out, re.M):
        if m.group(1) in ("Axioms", "Warning", "Error", "File"):
            continue
        axioms.append(m.group(1))
    closed = out.count("Closed under the global context")
    foreign = [a for a in axioms if a.split(".")[-1] not in {x.split(".")[-1] for x in ALLOWED_AXIOMS}]
    if foreign:
        ok = False
    return dict(ok=ok, theorems=thms, axioms=sorted(set(axioms)), closed=closed, foreign=foreign, bad=bad, log=out[-3000:])


def grep_gate(files=None):
    """No Admitted/admit/Axiom/Parameter/… in the given files (default: the whole development)."""
    hits = []
    pat = re.compile(r"\b(Admitted|admit|Axiom|Axioms|Parameter|Parameters|Conjecture|Unset Guard Checking|bypass_check|Admit Obligations|type-in-type|impredicative-set)\b")
    if files is None:
        files = [os.path.join(d, f) for d, _, fs in os.walk(COQ) for f in fs if f.endswith(".v")]
    for f in files:
        txt = re.sub(r"\(\*.*?\*\)", "", open(f).read(), flags=re.S)
        for m in pat.finditer(txt):
            hits.append("%s: %s" % (os.path.relpath(f, COQ), m.group(1)))
    return hits


def coq_eval(vsrc, timeout=600):
    """Compile a throw-away .v (e.g. a cases file) against the built development, return stdout."""
    tmpd = tempfile.mkdtemp(prefix="cases-", dir=CACHE)
    try:
        open(os.path.join(tmpd, "cases.v"), "w").write(vsrc)
        p = subprocess.run(["coqc", "-Q", COQ, "DDP", "cases.v"], cwd=tmpd, capture_output=True, text=True, timeout=timeout)
        return p.returncode, p.stdout + p.stderr
    finally:
        shutil.rmtree(tmpd, ignore_errors=True)


def model_bin(name):
    """Path of an extracted-model OCaml driver built by `make setup` (extract/<name>)."""
    return os.path.join(VERIF, "extract", "_build", name)


# ------------------------------------------------------------------------------------------------
# Check = evidence + violations + known findings
# ------------------------------------------------------------------------------------------------
def load_known():
    out = []
    p = os.path.join(VERIF, "KNOWN_FINDINGS.jsonl")
    if os.path.exists(p):
        for l in open(p):
            l = l.strip()
            if l.startswith("{"):
                out.append(json.loads(l))
    return out


class Check:
    def __init__(self, pid, level, argv=None):
        self.pid = pid
        self.level = level
        self.t0 = time.time()
        argv = sys.argv[1:] if argv is None else argv
        self.tier = os.environ.get("VERIF_TIER", "quick")
        if "--tier" in argv:
            self.tier = argv[argv.index("--tier") + 1]
        if self.tier not in ("quick", "thorough"):
            self.tier = "quick"
        self.replay = argv[argv.index("--replay") + 1] if "--replay" in argv else None
        try:
            self.seed = int(os.environ.get("VERIF_SEED", "20260923"))
        except ValueError:
            self.seed = 20260923
        self.rng = random.Random(self.seed)
        self.cov = dict(evaluations=0, distinct_nontrivial=0, samples=[], trusted_base=[], obligations=0, discharged=0)
        self.assumptions = []
        self.violations = []   # (key, what, replay_obj, no_input)
        self.known_hit = {}
        self.known = [k for k in load_known() if k.get("property") == pid and k.get("status") == "known"]
        self.replay_dir = os.path.join(VERIF, "replay")
        os.makedirs(self.replay_dir, exist_ok=True)
        self._distinct = set()

    @property
    def quick(self):
        return self.tier == "quick"

    def count(self, n=1):
        self.cov["evaluations"] += n

    def nontrivial(self, key):
        self._distinct.add(hashlib.sha1(repr(key).encode()).digest()[:8])

    def sample(self, s, cap=6):
        if len(self.cov["samples"]) < cap:
            self.cov["samples"].append(s)

    def violation(self, key, what, replay, no_input=False):
        """key: canonical description matched against KNOWN_FINDINGS 'key' regexes."""
        for k in self.known:
            if re.search(k["key"], key):
                self.known_hit.setdefault(k["key"], (k, what))
                return False
        self.violations.append((key, what, replay, no_input))
        return True

    # -- Coq part common to every check
    def coq(self, extra_files=()):
        ok, lg = True, ""
        stale = coq_stale(os.path.join(COQ, "Props", self.pid + ".v"))
        if stale:   # something this property depends on changed (e.g. a regenerated Gen table): rebuild
            ok, lg = coq_make()
            stale = coq_stale(os.path.join(COQ, "Props", self.pid + ".v"))
        if stale:
            self.cov["coq_build"] = "FAILED"
            self.broken_obligation("coq build failed for files Props/%s.v depends on: %s" % (self.pid, stale), lg)
            return False
        if not ok:
            log("[coq] note: the development has build failures outside the dependency closure of Props/%s.v" % self.pid)
        a = props_audit(self.pid)
        self.cov["obligations"] = len(a["theorems"])
        self.cov["discharged"] = len(a["theorems"]) if a["ok"] else 0
        self.cov["theorems"] = a["theorems"]
        self.cov["axioms_reported"] = a["axioms"]
        self.cov["checker_cmd"] = "make -C /verif coq && coqc -Q /verif/coq DDP coq/Props/%s.v (Print Assumptions under every theorem)" % self.pid
        if not a["ok"]:
            self.broken_obligation("Props/%s.v does not check or depends on a foreign axiom %s %s" % (self.pid, a["foreign"], a["bad"]), a["log"])
            return False
        gate = grep_gate(sorted(coq_closure(os.path.join(COQ, "Props", self.pid + ".v"))))
        if gate:
            self.broken_obligation("grep gate: " + "; ".join(gate[:5]), "")
            return False
        return True

    def broken_obligation(self, what, logtext):
        self._broken = getattr(self, "_broken", [])
        self._broken.append((what, logtext))

    def finish(self, explanation=None):
        # broken obligations with no concrete failing input found by the check's own search
        for what, lg in getattr(self, "_broken", []):
            if not self.violations:
                self.violations.append(("broken-obligation", what, dict(obligation=what, log=lg[-2000:]), True))
        self.cov["distinct_nontrivial"] = max(self.cov["distinct_nontrivial"], len(self._distinct))
        if explanation:
            self.cov["explanation"] = explanation
        if not self.cov["samples"]:
            self.cov["samples"] = ["(no sample recorded)"]
        for kkey, (k, what) in self.known_hit.items():
            print("KNOWN-FINDING: property=%s %s" % (self.pid, k.get("what", what)))
        # a listed finding that no longer reproduces is only reported, never an alarm
        for k in self.known:
            if k["key"] not in self.known_hit:
                log("[note] known finding not reproduced in this run: %s" % k.get("what"))
        rc = 0
        seen = set()
        for i, (key, what, replay, no_input) in enumerate(self.violations):
            if key in seen:
                continue
            seen.add(key)
            path = os.path.join(self.replay_dir, "%s_%d.json" % (self.pid, len(seen)))
            with open(path, "w") as fh:
                json.dump(dict(property=self.pid, key=key, what=what, replay=replay), fh, indent=1, ensure_ascii=False, default=str)
            print("VIOLATION property=%s replay=%s%s" % (self.pid, path, " no-failing-input-found" if no_input else ""))
            log("  -> %s: %s" % (key, what))
            rc = 1
            if len(seen) >= 10:
                break
        # keys the evidence schema types: a value of another type is kept under <key>_detail and the key gets a value
        # of the schema's type (exhaustive: true only if the check said so with a boolean)
        typed = dict(evaluations=int, distinct_nontrivial=int, rule=str, samples=list, states=int, transitions=int,
                     traces_validated_against_impl=int, obligations=int, discharged=int, checker_cmd=str, trusted_base=list,
                     programs=int, disagreements_checked=int, explanation=str, exhaustive=bool)
        for k, ty in typed.items():
            if k in self.cov and (not isinstance(self.cov[k], ty) or (ty is int and isinstance(self.cov[k], bool))):
                v = self.cov.pop(k)
                self.cov[k + "_detail"] = v
                if ty is bool:
                    self.cov[k] = False
                elif ty is int:
                    self.cov[k] = sum(x for x in v.values() if isinstance(x, int) and not isinstance(x, bool)) if isinstance(v, dict) else 0
                elif ty is str:
                    self.cov[k] = json.dumps(v, ensure_ascii=False, default=str)
                elif ty is list:
                    self.cov[k] = [v]
        ev = dict(property_id=self.pid, tier=self.tier, seed=self.seed, level=self.level, coverage=self.cov,
                  assumptions=self.assumptions, wall_s=round(time.time() - self.t0, 2), violations=len(seen))
        os.makedirs(os.path.join(VERIF, "evidence"), exist_ok=True)
        tmp = os.path.join(VERIF, "evidence", self.pid + ".json.tmp")
        with open(tmp, "w") as fh:
            json.dump(ev, fh, indent=1, ensure_ascii=False, default=str)
        os.replace(tmp, os.path.join(VERIF, "evidence", self.pid + ".json"))
        sys.stdout.flush()
        sys.exit(rc)


TRUSTED_COMMON = [
    "Coq 8.16.1 kernel + coqc; vm_compute for finite-domain lemmas; no native_compute",
    "no axioms declared by this development (grep gate + Print Assumptions under every theorem of Props/)",
    "extraction with ExtrOcamlBasic only (bool/option/unit/list/prod/sumbool/sumor directives; nat, positive, N, Z stay inductive); OCaml 4.13.1",
    "hand-written Gallina model of the Go/C code: tied to /repo only by the correspondence runs and regenerated tables of this check",
    "unverified glue: Python check driver, generators, Go/C harness dumpers, canonicaliser/diff",
]
