(* Non-vacuity examples for the theorems of Props/C09.v: concrete populations on which their
   hypotheses hold and their conclusions say something. *)
From Coq Require Import List NArith ZArith Bool Arith Lia Permutation Sorted.
Import ListNotations.
From DDP Require Import Gen.Tokens Alias.OMap Alias.Trie Alias.TokKey Alias.Select Alias.SelectProofs Alias.Overload Alias.OverloadProofs.
Local Open Scope nat_scope.

Definition idt (l : list N) : tok := {| tt := tt_IDENTIFIER; lit := l; ainfo := None |}.
Definition intlit (l : list N) : tok := {| tt := tt_INT; lit := l; ainfo := None |}.
Definition strlit (l : list N) : tok := {| tt := tt_STRING; lit := l; ainfo := None |}.
Definition phd (name : list N) (isref : bool) (rank id : N) : tok :=
  {| tt := tt_ALIAS_PARAMETER; lit := name; ainfo := Some {| t_ref := isref; t_list := false; t_name := rank; t_id := id |} |}.

Definition tZ := TBase 1.
Definition tT := TBase 2.
Definition foo := idt [102; 111; 111]%N.
Definition bar := idt [98; 97; 114]%N.
Definition na := [97%N].
Definition nb := [98%N].

(* "foo <a>" (Zahl) | "foo <a>" (Zahlen Referenz) | "foo <a> bar <b>" (a Zahl, b Text) |
   "foo <b> bar <a>" of a second function whose parameters are declared in the other order *)
Definition e1 := mkAlias 1 1 [foo; phd na false 2 1] [mkParam na tZ false] false.
Definition e2 := mkAlias 2 2 [foo; phd na true 2 1] [mkParam na tZ true] false.
Definition e3 := mkAlias 3 3 [foo; phd na false 2 1; bar; phd nb false 1 2] [mkParam na tZ false; mkParam nb tT false] false.
Definition e4 := mkAlias 4 4 [foo; phd nb false 1 2; bar; phd na false 2 1] [mkParam nb tT false; mkParam na tZ false] true.
Definition epop := [e1; e2; e3; e4].

(* stream: foo vz bar "s" .   with vz a Zahl variable *)
Definition vz := idt [118; 122]%N.
Definition dot : tok := {| tt := tt_DOT; lit := []; ainfo := None |}.
Definition es1 := [foo; vz; bar; strlit [34; 115; 34]%N; dot].
Definition eargty (isref : bool) (c : nat) : option ty :=
  if Nat.eqb c 1 then Some tZ else if Nat.eqb c 3 then (if isref then None else Some tT) else None.
Definition esel (s : list tok) := select s eargty (fun _ => false) (fun _ _ => true) (TBase 5) (declare_all epop) 0.

(* the longest type-matching alias wins and its arguments are bound by name *)
Example ex_longest :
  esel es1 = Selected e3 [(na, (false, 1, 2)); (nb, (false, 3, 4))] [].
Proof. vm_compute. reflexivity. Qed.

(* foo vz .  -> both one-placeholder aliases type-match: the Referenz one is preferred *)
Example ex_ref_preferred :
  esel [foo; vz; dot] = Selected e2 [(na, (true, 1, 2))] [].
Proof. vm_compute. reflexivity. Qed.

(* foo "s" bar vz .  -> only the alias with the swapped placeholders type-matches; it is negated;
   parameter a still receives vz and b the string, by name *)
Definition es3 := [foo; strlit [34; 115; 34]%N; bar; vz; dot].
Definition eargty3 (isref : bool) (c : nat) : option ty :=
  if Nat.eqb c 3 then Some tZ else if Nat.eqb c 1 then (if isref then None else Some tT) else None.
Example ex_swapped_negated :
  select es3 eargty3 (fun _ => false) (fun _ _ => true) (TBase 5) (declare_all epop) 0
  = Selected e4 [(nb, (false, 1, 2)); (na, (false, 3, 4))] [] /\
  call_of e4 [(nb, (false, 1, 2)); (na, (false, 3, 4))] = ENot (ECall 4 [(nb, (false, 1, 2)); (na, (false, 3, 4))]).
Proof. vm_compute. split; reflexivity. Qed.

(* the hypotheses of the maximality theorems are met on this population *)
Example ex_sorted_perm : sorted_perm (candidates es1 (declare_all epop) 0) (isort (candidates es1 (declare_all epop) 0)).
Proof. apply isort_sorted_perm. Qed.
Example ex_candidates : map a_id (candidates es1 (declare_all epop) 0) = [4; 1; 3; 2]%N.
Proof. vm_compute. reflexivity. Qed.
(* generic beside concrete: "foo <a>" for a Zahlen Liste and for a T Liste, call with a Zahlen Liste *)
Example ex_nongeneric_preferred : exists b e, w_select [w_gen; w_conc] = Selected w_conc b e.
Proof. vm_compute. eauto. Qed.

(* nothing type-matches: foo "s" .  -> the first of the sorted candidates is called untyped *)
Example ex_fallback :
  exists b, select [foo; strlit [34; 115; 34]%N; dot] (fun r c => if Nat.eqb c 1 then (if r then None else Some tT) else None)
              (fun _ => false) (fun _ _ => true) (TBase 5) (declare_all epop) 0 = Fallback e2 b.
Proof. vm_compute. eauto. Qed.

(* negation marker: "x <!nicht> y" *)
Example ex_marker :
  expand_marker [120; 32; 60; 33; 110; 105; 99; 104; 116; 62; 32; 121]%N
  = Some [([120; 32; 110; 105; 99; 104; 116; 32; 121]%N, true); ([120; 32; 32; 121]%N, false)].
Proof. vm_compute. reflexivity. Qed.

(* ---- overloads: plus for (Text, Zahl), for (Text Referenz, Zahl) and generically (T, T) ---- *)
Definition o1 := mkODecl 1 [mkParam na tT false; mkParam nb tZ false] false tT.
Definition o2 := mkODecl 2 [mkParam na tT true; mkParam nb tZ false] false tT.
Definition o3 := mkODecl 3 [mkParam na (TGen 1) false; mkParam nb (TGen 1) false] true (TGen 1).
Definition otab := insert_all false [o3; o1; o2].
Example ex_table_order : map od_id otab = [2; 1; 3]%N.
Proof. vm_compute. reflexivity. Qed.
Definition is_str (t : ty) := match t with TBase 9 => true | _ => false end.
Example ex_overload_ref :       (* assignable Text operand: the Referenz overload *)
  find_overload is_str (fun _ _ => true) otab [(tT, true); (tZ, false)] None = Overloaded o2 [] [(na, 0); (nb, 1)].
Proof. vm_compute. reflexivity. Qed.
Example ex_overload_value :     (* Text literal: not assignable -> the value overload *)
  find_overload is_str (fun _ _ => true) otab [(tT, false); (tZ, false)] None = Overloaded o1 [] [(na, 0); (nb, 1)].
Proof. vm_compute. reflexivity. Qed.
Example ex_overload_builtin :   (* Zahl plus Zahl: no exact overload; the generic one needs a user-defined type *)
  find_overload is_str (fun _ _ => true) otab [(tZ, false); (tZ, false)] None = Builtin.
Proof. vm_compute. reflexivity. Qed.
Example ex_overload_generic :   (* two operands of the Kombination 9 *)
  exists e, find_overload is_str (fun _ _ => true) otab [(TBase 9, false); (TBase 9, false)] None = Overloaded o3 e [(na, 0); (nb, 1)].
Proof. vm_compute. eauto. Qed.
Example ex_otab_wf : Forall odecl_wf otab /\ osorted otab.
Proof. split; [|apply insert_all_sorted]. vm_compute. repeat constructor; intros X; (discriminate X || lia || auto). Qed.
