(* Instantiation of the trie model at the real key type (tokens) with integer values, the runners
   used by the correspondence check, the refutation of the binary-search-only lookup and
   non-vacuity examples. *)
From Coq Require Import List NArith Bool Lia.
Import ListNotations.
From DDP Require Import Gen.Tokens Alias.OMap Alias.OMapProofs Alias.Trie Alias.TrieProofs Alias.TokKey.
Open Scope N_scope.

Definition ttrie := trie tok N.
Definition c20_run (ops : list (top tok N)) : list (tout N) := trun tok_eq tok_less empty ops.

(* with a copy of the trie taken after the first k operations (generic instantiation copies it) *)
Definition c20_run_copy (ops1 ops2 : list (top tok N)) : list (tout N) :=
  let t := fold_left (fun t o => fst (tstep tok_eq tok_less t o)) ops1 empty in
  trun tok_eq tok_less (copy tok_eq tok_less t) ops2.

(* the lookup of the pinned tree (binary search only) loses the third of three print-alike keys *)
Definition lost_map : list (tok * N) :=
  set_strict tok_eq tok_less (set_strict tok_eq tok_less (set_strict tok_eq tok_less [] (ph 1 1) 1) (ph 1 2) 2) (ph 1 3) 3.
Lemma strict_lookup_loses_key :
  In (ph 1 3) (keys lost_map) /\ get_strict tok_eq tok_less lost_map (ph 1 3) = None.
Proof. vm_compute. auto. Qed.

(* ... the current lookup does not *)
Lemma fallback_lookup_finds_key :
  let m := set tok_eq tok_less (set tok_eq tok_less (set tok_eq tok_less [] (ph 1 1) 1) (ph 1 2) 2) (ph 1 3) 3 in
  get tok_eq tok_less m (ph 1 3) = Some 3.
Proof. vm_compute. reflexivity. Qed.

Definition idt (l : list N) : tok := {| tt := tt_IDENTIFIER; lit := l; ainfo := None |}.

(* non-vacuity: a population with print-alike placeholders, duplicates rejected, all callable *)
Example c20_population :
  c20_run [Declare [idt [122]; ph 1 1] 1; Declare [idt [122]; ph 1 2] 2; Declare [idt [122]; ph 1 3] 3;
           Declare [idt [122]; ph 1 3] 4; Lookup [idt [122]; ph 1 3]; Lookup [idt [122]; ph 1 1]; Lookup [idt [122]]]
  = [Declared; Declared; Declared; Rejected 3; Found (Some 3); Found (Some 1); Found None].
Proof. vm_compute. reflexivity. Qed.
