(* Instantiation of the trie model at the real key type (tokens) with integer values, the runners
   used by the correspondence check, the refutation of the binary-search-only lookup and
   non-vacuity examples. *)
From Coq Require Import List NArith Bool Lia.
Import ListNotations.
From DDP Require Import Gen.Tokens Alias.OMap Alias.OMapProofs Alias.Trie Alias.TrieProofs Alias.TokKey.
Open Scope N_scope.

(* what the parser's key generator looks at (alias.go:50-53): the child key is an ALIAS_PARAMETER,
   the call token is one of the token kinds that start an argument *)
Definition tok_isph (t : tok) : bool := tt t =? tt_ALIAS_PARAMETER.
Definition tok_isarg (t : tok) : bool :=
  (tt t =? tt_INT) || (tt t =? tt_FLOAT) || (tt t =? tt_TRUE) || (tt t =? tt_FALSE) ||
  (tt t =? tt_CHAR) || (tt t =? tt_STRING) || (tt t =? tt_IDENTIFIER) || (tt t =? tt_SYMBOL).

Lemma tok_isph_congr a b : tok_eq a b = true -> tok_isph a = tok_isph b.
Proof.
  unfold tok_eq, tok_isph. destruct (tt a =? tt b) eqn:E; [|discriminate].
  apply N.eqb_eq in E. rewrite E. reflexivity.
Qed.

Definition ttrie := trie tok N.
Definition c20_run (ops : list (top tok N)) : list (tout N) := trun tok_eq tok_less tok_isph tok_isarg empty ops.

(* one operation at a time, for the driver (a fork is one operation: Fork inner) *)
Definition c20_step (t : ttrie) (o : top tok N) : ttrie * list (tout N) := tstep tok_eq tok_less tok_isph tok_isarg t o.
Definition c20_empty : ttrie := empty.

(* the lookup of the pinned tree (binary search only) loses the third of three print-alike keys *)
Definition lost_map : list (tok * N) :=
  set_strict tok_eq tok_less (set_strict tok_eq tok_less (set_strict tok_eq tok_less [] (ph 1 1) 1) (ph 1 2) 2) (ph 1 3) 3.
Lemma strict_lookup_loses_key :
  In (ph 1 3) (keys lost_map) /\ get_strict tok_eq tok_less lost_map (ph 1 3) = None.
Proof. vm_compute. auto. Qed.

(* ... the current lookup does not *)
Lemma fallback_lookup_finds_key :
  let m := set tok_eq tok_less (set tok_eq tok_less (set tok_eq tok_less [] (ph 1 1) 1) (ph 1 2) 2) (ph 1 3) 3 in
  get tok_eq tok_less m (ph 1 3) = Some 3.
Proof. vm_compute. reflexivity. Qed.

Definition idt (l : list N) : tok := {| tt := tt_IDENTIFIER; lit := l; ainfo := None |}.

(* non-vacuity: a population with print-alike placeholders, duplicates rejected, all callable *)
Example c20_population :
  c20_run [Declare [idt [122]; ph 1 1] 1; Declare [idt [122]; ph 1 2] 2; Declare [idt [122]; ph 1 3] 3;
           Declare [idt [122]; ph 1 3] 4; Lookup [idt [122]; ph 1 3]; Lookup [idt [122]; ph 1 1]; Lookup [idt [122]]]
  = [Declared; Declared; Declared; Rejected 3; Found (Some 3); Found (Some 1); Found None].
Proof. vm_compute. reflexivity. Qed.

(* non-vacuity of the fork theorems: the generic context Puts a colliding key (and a print-alike
   one, a strict prefix and an extension) into the copy and sees its own values there; the
   original still finds ITS value, still rejects the duplicate and does not see the fork's keys;
   a nested fork sees the outer fork's Put, the outer fork does not see the nested one's *)
Example c20_fork_population :
  c20_run [Declare [idt [122]; ph 1 1] 1; Declare [idt [122]; ph 1 2] 2;
           Fork [Put [idt [122]; ph 1 1] 7; Put [idt [122]; ph 1 3] 8; Put [idt [122]] 9; Put [idt [122]; ph 1 2; idt [97]] 10;
                 Lookup [idt [122]; ph 1 1]; Lookup [idt [122]; ph 1 2];
                 Fork [Lookup [idt [122]; ph 1 1]; Put [idt [122]; ph 1 2] 11; Lookup [idt [122]; ph 1 2]];
                 Lookup [idt [122]; ph 1 2]; Declare [idt [122]; ph 1 1] 12];
           Lookup [idt [122]; ph 1 1]; Declare [idt [122]; ph 1 1] 13; Lookup [idt [122]; ph 1 2];
           Lookup [idt [122]; ph 1 3]; Lookup [idt [122]]; Lookup [idt [122]; ph 1 2; idt [97]];
           Declare [idt [122]; ph 1 3] 14; Lookup [idt [122]; ph 1 3]]
  = [Declared; Declared;
     ForkBegin; PutDone; PutDone; PutDone; PutDone; Found (Some 7); Found (Some 2);
       ForkBegin; Found (Some 7); PutDone; Found (Some 11); ForkEnd;
       Found (Some 2); Rejected 7; ForkEnd;
     Found (Some 1); Rejected 1; Found (Some 2); Found None; Found None; Found None; Declared; Found (Some 14)].
Proof. vm_compute. reflexivity. Qed.

(* the hypotheses of C20_stays_callable / C20_dup_rejected are satisfiable with a fork that Puts
   the declared key in between *)
Example c20_fork_hypotheses :
  let ops1 := [Declare [idt [122]; ph 1 2] 2] in
  let ops2 := [Fork [Put [idt [122]; ph 1 1] 7; Fork [Put [idt [122]; ph 1 1] 8]]; Lookup [idt [122]]; Fork [Put [idt [122]; ph 1 1] 9]] in
  lookup tok_eq tok_less (state_after tok N tok_eq tok_less tok_isph tok_isarg ops1) [idt [122]; ph 1 1] = None /\
  forallb (fun o => negb (is_put o)) ops2 = true /\
  lookup tok_eq tok_less (state_after tok N tok_eq tok_less tok_isph tok_isarg (ops1 ++ Declare [idt [122]; ph 1 1] 1 :: ops2)) [idt [122]; ph 1 1] = Some 1.
Proof. vm_compute. auto. Qed.

(* non-vacuity of the Search theorems: "f b z" and "f <a> q" share the prefix f and have, at the
   same position, a literal identifier and a placeholder. The call "f b q" - its argument is the
   identifier b, equal to the literal word of the sibling - finds the placeholder alias, in both
   declaration orders; "f b z" finds the literal one; a call both patterns accept ("f b" / "f <a>")
   returns both, the literal sibling first (IDENTIFIER sorts before ALIAS_PARAMETER); a
   non-argument token (a comma) does not instantiate the placeholder. *)
Definition comma : tok := {| tt := tt_COMMA; lit := []; ainfo := None |}.
Example c20_search_siblings :
  c20_run [Declare [idt [102]; idt [98]; idt [122]] 1; Declare [idt [102]; ph 1 1; idt [113]] 2;
           Search [idt [102]; idt [98]; idt [113]]; Search [idt [102]; idt [98]; idt [122]; idt [97]];
           Declare [idt [102]; idt [98]] 3; Declare [idt [102]; ph 1 1] 4; Search [idt [102]; idt [98]; idt [113]];
           Search [idt [102]; comma; idt [113]]]
  = [Declared; Declared; Matches (Some [2]); Matches (Some [1]); Declared; Declared; Matches (Some [3; 4; 2]); Matches (Some [])]
  /\ c20_run [Declare [idt [102]; ph 1 1; idt [113]] 2; Declare [idt [102]; idt [98]; idt [122]] 1;
              Search [idt [102]; idt [98]; idt [113]]]
  = [Declared; Declared; Matches (Some [2])].
Proof. vm_compute. auto. Qed.

Example c20_search_hypotheses :
  let ks := [idt [102]; ph 1 1; idt [113]] in
  let ops1 := [Declare [idt [102]; idt [98]; idt [122]] 1] in
  lookup tok_eq tok_less (state_after tok N tok_eq tok_less tok_isph tok_isarg ops1) ks = None /\ ks <> [] /\
  instantiates tok_eq tok_isph tok_isarg ks [idt [102]; idt [98]; idt [113]] = true.
Proof. vm_compute. repeat split; congruence. Qed.
