(* Model of src/parser/ordered_map/ordered_map.go: a slice of (key,value) pairs kept in ascending
   key order, looked up by binary search (probe mid: keq first, then klt) and, since the fix
   "ordered_map: fall back to a linear search", by a linear scan with keq when the binary search
   misses. Insertion is linear: before the first key that the new key is klt than. *)
From Coq Require Import List Arith Bool Lia.
Import ListNotations.

Section OMap.
Variables K V : Type.
Variable keq klt : K -> K -> bool.

Definition omap := list (K * V).

(* binarySearch(key): low, high := 0, len; loop while low < high. fuel bounds the loop. *)
Fixpoint bsearch_go (fuel : nat) (m : omap) (key : K) (low high : nat) : nat * bool :=
  match fuel with
  | 0 => (low, false)
  | S f =>
    if low <? high then
      let mid := (low + high) / 2 in
      match nth_error m mid with
      | None => (low, false)
      | Some (k, _) =>
        if keq k key then (mid, true)
        else if klt k key then bsearch_go f m key (mid + 1) high
        else bsearch_go f m key low mid
      end
    else (low, false)
  end.

(* the pinned tree's lookup: binary search only *)
Definition bsearch_strict (m : omap) (key : K) : nat * bool :=
  bsearch_go (S (length m)) m key 0 (length m).

(* linear scan: index of the first pair whose key is keq to key *)
Fixpoint lscan (m : omap) (key : K) (i : nat) : option nat :=
  match m with
  | [] => None
  | (k, _) :: r => if keq k key then Some i else lscan r key (S i)
  end.

(* the current tree's lookup: binary search, then linear fallback *)
Definition find_key (m : omap) (key : K) : nat * bool :=
  match bsearch_strict m key with
  | (i, true) => (i, true)
  | (i, false) => match lscan m key 0 with Some j => (j, true) | None => (i, false) end
  end.

Fixpoint set_nth (m : omap) (i : nat) (v : V) : omap :=
  match m, i with
  | [], _ => []
  | (k, _) :: r, 0 => (k, v) :: r
  | p :: r, S j => p :: set_nth r j v
  end.

Fixpoint ins_sorted (m : omap) (key : K) (v : V) : omap :=
  match m with
  | [] => [(key, v)]
  | (k, w) :: r => if klt key k then (key, v) :: (k, w) :: r else (k, w) :: ins_sorted r key v
  end.

Fixpoint del_nth (m : omap) (i : nat) : omap :=
  match m, i with
  | [], _ => []
  | _ :: r, 0 => r
  | p :: r, S j => p :: del_nth r j
  end.

Section WithLookup.
Variable lookup : omap -> K -> nat * bool.

Definition set_with (m : omap) (key : K) (v : V) : omap :=
  match lookup m key with
  | (i, true) => set_nth m i v
  | (_, false) => ins_sorted m key v
  end.

Definition get_with (m : omap) (key : K) : option V :=
  match lookup m key with
  | (i, true) => match nth_error m i with Some (_, v) => Some v | None => None end
  | (_, false) => None
  end.

Definition delete_with (m : omap) (key : K) : omap :=
  match lookup m key with
  | (i, true) => del_nth m i
  | (_, false) => m
  end.
End WithLookup.

Definition set := set_with find_key.
Definition get := get_with find_key.
Definition delete := delete_with find_key.
Definition set_strict := set_with bsearch_strict.
Definition get_strict := get_with bsearch_strict.
Definition delete_strict := delete_with bsearch_strict.

Definition keys (m : omap) : list K := map fst m.
Definition values (m : omap) : list V := map snd m.

(* ---- the specification: an association list looked up by keq ---- *)
Fixpoint sget (l : list (K * V)) (key : K) : option V :=
  match l with
  | [] => None
  | (k, v) :: r => if keq k key then Some v else sget r key
  end.
Fixpoint sdel (l : list (K * V)) (key : K) : list (K * V) :=
  match l with
  | [] => []
  | (k, v) :: r => if keq k key then sdel r key else (k, v) :: sdel r key
  end.
Definition sset (l : list (K * V)) (key : K) (v : V) : list (K * V) := (key, v) :: sdel l key.

Inductive op := OSet (k : K) (v : V) | OGet (k : K) | ODel (k : K).

Definition step (m : omap) (o : op) : omap * option (option V) :=
  match o with
  | OSet k v => (set m k v, None)
  | OGet k => (m, Some (get m k))
  | ODel k => (delete m k, None)
  end.
Definition step_strict (m : omap) (o : op) : omap * option (option V) :=
  match o with
  | OSet k v => (set_strict m k v, None)
  | OGet k => (m, Some (get_strict m k))
  | ODel k => (delete_strict m k, None)
  end.
Definition sstep (l : list (K * V)) (o : op) : list (K * V) * option (option V) :=
  match o with
  | OSet k v => (sset l k v, None)
  | OGet k => (l, Some (sget l k))
  | ODel k => (sdel l k, None)
  end.

Fixpoint run {S} (st : S -> op -> S * option (option V)) (s : S) (ops : list op) : list (option (option V)) :=
  match ops with
  | [] => []
  | o :: r => let '(s', out) := st s o in out :: run st s' r
  end.

End OMap.

Arguments bsearch_go {K V}.
Arguments bsearch_strict {K V}.
Arguments lscan {K V}.
Arguments find_key {K V}.
Arguments set {K V}.
Arguments get {K V}.
Arguments delete {K V}.
Arguments set_strict {K V}.
Arguments get_strict {K V}.
Arguments delete_strict {K V}.
Arguments keys {K V}.
Arguments values {K V}.
Arguments sget {K V}.
Arguments sset {K V}.
Arguments sdel {K V}.
Arguments OSet {K V}.
Arguments OGet {K V}.
Arguments ODel {K V}.
Arguments step {K V}.
Arguments step_strict {K V}.
Arguments sstep {K V}.
Arguments run {K V S}.
Arguments set_nth {K V}.
Arguments del_nth {K V}.
Arguments ins_sorted {K V}.
