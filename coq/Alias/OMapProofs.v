(* Refinement of the ordered map to an association list looked up by keq.
   Since the linear fallback, the only hypothesis is that keq is an equivalence; nothing is
   required of klt (it only decides where a new pair is stored). *)
From Coq Require Import List Arith Bool Lia.
Import ListNotations.
From DDP Require Import Alias.OMap.

Ltac dis := solve [congruence | match goal with H : _ |- _ => discriminate H end].

Section Proofs.
Variables K V : Type.
Variable keq klt : K -> K -> bool.
Hypothesis keq_refl : forall a, keq a a = true.
Hypothesis keq_sym : forall a b, keq a b = keq b a.
Hypothesis keq_trans : forall a b c, keq a b = true -> keq b c = true -> keq a c = true.

Notation omap := (list (K * V)).

Fixpoint uniq (m : omap) : Prop :=
  match m with
  | [] => True
  | (k, _) :: r => (forall k', In k' (keys r) -> keq k k' = false) /\ uniq r
  end.

Lemma bsearch_go_found fuel (m : omap) key low high i :
  bsearch_go keq klt fuel m key low high = (i, true) ->
  exists k v, nth_error m i = Some (k, v) /\ keq k key = true.
Proof.
  revert low high. induction fuel as [|f IH]; intros low high H; cbn [bsearch_go] in H; [dis|].
  destruct (low <? high); [|dis].
  destruct (nth_error m ((low + high) / 2)) as [[k v]|] eqn:E; [|dis].
  destruct (keq k key) eqn:Ek.
  - inversion H; subst. eauto.
  - destruct (klt k key); eauto.
Qed.

Lemma lscan_some (m : omap) key i j :
  lscan keq m key i = Some j ->
  exists k v, i <= j /\ nth_error m (j - i) = Some (k, v) /\ keq k key = true.
Proof.
  revert i. induction m as [|[k v] r IH]; intros i H; cbn in H; [dis|].
  destruct (keq k key) eqn:Ek.
  - inversion H; subst. exists k, v. rewrite Nat.sub_diag. auto.
  - apply IH in H. destruct H as (k' & v' & Hle & Hn & He).
    exists k', v'. split; [lia|]. split; [|exact He].
    replace (j - i) with (S (j - S i)) by lia. exact Hn.
Qed.

Lemma lscan_none (m : omap) key i :
  lscan keq m key i = None -> forall k, In k (keys m) -> keq k key = false.
Proof.
  revert i. induction m as [|[k v] r IH]; intros i H k' Hin; cbn in *; [contradiction|].
  destruct (keq k key) eqn:Ek; [dis|].
  destruct Hin as [<-|Hin]; [exact Ek|eauto].
Qed.

Lemma find_key_found (m : omap) key i :
  find_key keq klt m key = (i, true) ->
  exists k v, nth_error m i = Some (k, v) /\ keq k key = true.
Proof.
  unfold find_key, bsearch_strict. intros H.
  destruct (bsearch_go keq klt (S (length m)) m key 0 (length m)) as [i0 [|]] eqn:E.
  - inversion H; subst. eapply bsearch_go_found; eauto.
  - destruct (lscan keq m key 0) as [j|] eqn:El; [|dis].
    inversion H; subst. apply lscan_some in El. destruct El as (k & v & _ & Hn & He).
    rewrite Nat.sub_0_r in Hn. eauto.
Qed.

Lemma find_key_missing (m : omap) key i :
  find_key keq klt m key = (i, false) -> forall k, In k (keys m) -> keq k key = false.
Proof.
  unfold find_key. intros H.
  destruct (bsearch_strict keq klt m key) as [i0 [|]]; [dis|].
  destruct (lscan keq m key 0) as [j|] eqn:El; [dis|].
  eapply lscan_none; eauto.
Qed.

Lemma nth_error_in_keys (m : omap) i k v : nth_error m i = Some (k, v) -> In k (keys m).
Proof. intros H. apply nth_error_In in H. unfold keys. apply (in_map fst) in H. exact H. Qed.

Lemma sget_nth (m : omap) i k v key :
  uniq m -> nth_error m i = Some (k, v) -> keq k key = true -> sget keq m key = Some v.
Proof.
  revert i. induction m as [|[k0 v0] r IH]; intros i Hu Hn He; [destruct i; dis|].
  destruct Hu as [Hh Hr]. destruct i as [|j]; cbn in *.
  - inversion Hn; subst. rewrite He. reflexivity.
  - destruct (keq k0 key) eqn:E0.
    + exfalso. assert (keq k0 k = true) by (eapply keq_trans; [exact E0|rewrite keq_sym; exact He]).
      rewrite Hh in H; [dis|]. eapply nth_error_in_keys; eauto.
    + eauto.
Qed.

Lemma sget_none (m : omap) key :
  (forall k, In k (keys m) -> keq k key = false) -> sget keq m key = None.
Proof.
  induction m as [|[k v] r IH]; intros H; cbn; [reflexivity|].
  rewrite (H k) by (cbn; auto). apply IH. intros k' Hk. apply H. cbn; auto.
Qed.

Lemma get_is_sget (m : omap) key : uniq m -> get keq klt m key = sget keq m key.
Proof.
  intros Hu. unfold get, get_with. destruct (find_key keq klt m key) as [i [|]] eqn:E.
  - apply find_key_found in E. destruct E as (k & v & Hn & He). rewrite Hn.
    symmetry. eapply sget_nth; eauto.
  - symmetry. apply sget_none. eapply find_key_missing; eauto.
Qed.

Lemma keq_false_trans a b c : keq a b = true -> keq a c = false -> keq b c = false.
Proof.
  intros H1 H2. destruct (keq b c) eqn:E; [|reflexivity].
  rewrite (keq_trans a b c H1 E) in H2. dis.
Qed.

Lemma keys_set_nth (m : omap) i v : keys (set_nth m i v) = keys m.
Proof.
  revert i; induction m as [|[k w] r IH]; intros [|j]; cbn; try reflexivity.
  f_equal. apply IH.
Qed.

Lemma uniq_set_nth (m : omap) i v : uniq m -> uniq (set_nth m i v).
Proof.
  revert i; induction m as [|[k w] r IH]; intros [|j] Hu; cbn in *; auto.
  destruct Hu as [Hh Hr]. split; [|auto]. intros k' Hk. rewrite keys_set_nth in Hk. auto.
Qed.

Lemma sget_set_nth (m : omap) i k w v key key' :
  uniq m -> nth_error m i = Some (k, w) -> keq k key = true ->
  sget keq (set_nth m i v) key' = if keq key key' then Some v else sget keq m key'.
Proof.
  revert i. induction m as [|[k0 v0] r IH]; intros i Hu Hn He; [destruct i; dis|].
  destruct Hu as [Hh Hr]. destruct i as [|j]; cbn in *.
  - inversion Hn; subst. destruct (keq key key') eqn:E.
    + rewrite (keq_trans k key key' He E). reflexivity.
    + assert (keq k key' = false) as ->; [|reflexivity].
      destruct (keq k key') eqn:E2; [|reflexivity].
      assert (keq key key' = true) by (eapply keq_trans; [rewrite keq_sym; exact He|exact E2]). dis.
  - assert (Hk0 : keq k0 k = false) by (apply Hh; eapply nth_error_in_keys; eauto).
    destruct (keq k0 key') eqn:E0.
    + destruct (keq key key') eqn:E; [|reflexivity].
      exfalso. assert (keq k key' = true) by (eapply keq_trans; eauto).
      assert (keq k0 k = true) by (eapply keq_trans; [exact E0|rewrite keq_sym; exact H]). dis.
    + eapply IH; eauto.
Qed.

Lemma keys_ins_sorted (m : omap) key v k : In k (keys (ins_sorted klt m key v)) -> k = key \/ In k (keys m).
Proof.
  induction m as [|[k0 v0] r IH]; cbn; intros H.
  - destruct H as [<-|[]]; auto.
  - destruct (klt key k0); cbn in H.
    + destruct H as [<-|[<-|H]]; auto.
    + destruct H as [<-|H]; auto. apply IH in H. destruct H; auto.
Qed.

Lemma uniq_ins_sorted (m : omap) key v :
  uniq m -> (forall k, In k (keys m) -> keq k key = false) -> uniq (ins_sorted klt m key v).
Proof.
  induction m as [|[k0 v0] r IH]; intros Hu Hm; cbn.
  - split; [intros ? []|exact I].
  - destruct Hu as [Hh Hr]. destruct (klt key k0); cbn.
    + split; [|split; assumption]. intros k' [<-|Hk]; rewrite keq_sym; apply Hm; cbn; auto.
    + split.
      * intros k' Hk. apply keys_ins_sorted in Hk. destruct Hk as [->|Hk]; [apply Hm; cbn; auto|auto].
      * apply IH; [assumption|]. intros k Hk. apply Hm. cbn; auto.
Qed.

Lemma sget_ins_sorted (m : omap) key v key' :
  (forall k, In k (keys m) -> keq k key = false) ->
  sget keq (ins_sorted klt m key v) key' = if keq key key' then Some v else sget keq m key'.
Proof.
  induction m as [|[k0 v0] r IH]; intros Hm; cbn.
  - reflexivity.
  - destruct (klt key k0); cbn; [reflexivity|].
    destruct (keq k0 key') eqn:E0.
    + assert (keq key key' = false) as ->; [|reflexivity].
      destruct (keq key key') eqn:E; [|reflexivity].
      assert (keq k0 key = true) by (eapply keq_trans; [exact E0|rewrite keq_sym; exact E]).
      rewrite Hm in H; [dis|cbn; auto].
    + apply IH. intros k Hk. apply Hm. cbn; auto.
Qed.

Lemma keys_del_nth (m : omap) i k : In k (keys (del_nth m i)) -> In k (keys m).
Proof.
  revert i; induction m as [|[k0 v0] r IH]; intros [|j]; cbn; auto.
  intros [<-|H]; eauto.
Qed.

Lemma uniq_del_nth (m : omap) i : uniq m -> uniq (del_nth m i).
Proof.
  revert i; induction m as [|[k0 v0] r IH]; intros [|j] Hu; cbn in *; auto; destruct Hu as [Hh Hr]; auto.
  split; [|auto]. intros k' Hk. apply keys_del_nth in Hk. auto.
Qed.

Lemma sget_del_nth (m : omap) i k w key key' :
  uniq m -> nth_error m i = Some (k, w) -> keq k key = true ->
  sget keq (del_nth m i) key' = if keq key key' then None else sget keq m key'.
Proof.
  revert i. induction m as [|[k0 v0] r IH]; intros i Hu Hn He; [destruct i; dis|].
  destruct Hu as [Hh Hr]. destruct i as [|j]; cbn in *.
  - inversion Hn; subst. destruct (keq key key') eqn:E.
    + apply sget_none. intros k' Hk.
      assert (keq k key' = true) by (eapply keq_trans; eauto).
      specialize (Hh k' Hk). rewrite keq_sym. eapply keq_false_trans; [exact H|exact Hh].
    + assert (keq k key' = false) as ->; [|reflexivity].
      destruct (keq k key') eqn:E2; [|reflexivity].
      assert (keq key key' = true) by (eapply keq_trans; [rewrite keq_sym; exact He|exact E2]). dis.
  - assert (Hk0 : keq k0 k = false) by (apply Hh; eapply nth_error_in_keys; eauto).
    destruct (keq k0 key') eqn:E0.
    + destruct (keq key key') eqn:E; [|reflexivity].
      exfalso. assert (keq k key' = true) by (eapply keq_trans; eauto).
      assert (keq k0 k = true) by (eapply keq_trans; [exact E0|rewrite keq_sym; exact H]). dis.
    + eapply IH; eauto.
Qed.

(* --- algebra of the specification --- *)
Lemma sget_sdel (l : omap) key key' :
  sget keq (sdel keq l key) key' = if keq key key' then None else sget keq l key'.
Proof.
  induction l as [|[k v] r IH]; cbn; [destruct (keq key key'); reflexivity|].
  destruct (keq k key) eqn:E; cbn.
  - rewrite IH. destruct (keq key key') eqn:E2; [reflexivity|].
    assert (keq k key' = false) as ->; [|reflexivity].
    rewrite keq_sym in E. eapply keq_false_trans; eauto.
  - destruct (keq k key') eqn:E1; [|exact IH].
    assert (keq key key' = false) as ->; [|reflexivity].
    destruct (keq key key') eqn:E2; [|reflexivity].
    assert (keq k key = true) by (eapply keq_trans; [exact E1|rewrite keq_sym; exact E2]). dis.
Qed.

Lemma sget_sset (l : omap) key v key' :
  sget keq (sset keq l key v) key' = if keq key key' then Some v else sget keq l key'.
Proof. unfold sset; cbn. destruct (keq key key') eqn:E; [reflexivity|]. rewrite sget_sdel, E. reflexivity. Qed.

(* --- one step: the concrete map stays unique and observationally equal to the association list --- *)
Definition R (m l : omap) : Prop := uniq m /\ forall k, sget keq m k = sget keq l k.

Lemma R_init : R [] [].
Proof. split; [exact I|reflexivity]. Qed.

Lemma step_refines m l o :
  R m l -> snd (step keq klt m o) = snd (sstep keq l o) /\ R (fst (step keq klt m o)) (fst (sstep keq l o)).
Proof.
  intros [Hu Hobs]. destruct o as [k v|k|k]; cbn.
  - split; [reflexivity|]. unfold set, set_with.
    destruct (find_key keq klt m k) as [i [|]] eqn:E.
    + apply find_key_found in E. destruct E as (k0 & w & Hn & He).
      split; [apply uniq_set_nth; assumption|].
      intros key'. rewrite (sget_set_nth m i k0 w v k key' Hu Hn He), sget_sset, Hobs. reflexivity.
    + pose proof (find_key_missing m k i E) as Hm.
      split; [apply uniq_ins_sorted; assumption|].
      intros key'. rewrite (sget_ins_sorted m k v key' Hm), sget_sset, Hobs. reflexivity.
  - split; [|split; assumption]. rewrite get_is_sget by assumption. rewrite Hobs. reflexivity.
  - split; [reflexivity|]. unfold delete, delete_with.
    destruct (find_key keq klt m k) as [i [|]] eqn:E.
    + apply find_key_found in E. destruct E as (k0 & w & Hn & He).
      split; [apply uniq_del_nth; assumption|].
      intros key'. rewrite (sget_del_nth m i k0 w k key' Hu Hn He), sget_sdel, Hobs. reflexivity.
    + pose proof (find_key_missing m k i E) as Hm. split; [assumption|].
      intros key'. rewrite sget_sdel, <- Hobs. destruct (keq k key') eqn:E2; [|reflexivity].
      apply sget_none. intros k' Hk. specialize (Hm k' Hk). rewrite keq_sym in Hm.
      rewrite keq_sym. eapply keq_false_trans; [exact E2|exact Hm].
Qed.

(* every history of Set/Get/Delete answers exactly as the association list *)
Theorem omap_refines_assoc_list : forall ops m l,
  R m l -> run (step keq klt) m ops = run (sstep keq) l ops.
Proof.
  induction ops as [|o ops IH]; intros m l HR; cbn; [reflexivity|].
  pose proof (step_refines m l o HR) as [Hout HR'].
  destruct (step keq klt m o) as [m' out]; destruct (sstep keq l o) as [l' out']; cbn in *.
  subst out'. f_equal. apply IH. exact HR'.
Qed.

Corollary omap_history : forall ops : list (op K V), run (step keq klt) [] ops = run (sstep keq) [] ops.
Proof. intros; apply omap_refines_assoc_list, R_init. Qed.

(* invariant reachable states: keys pairwise not keq *)
Lemma uniq_reachable : forall ops m l, R m l -> uniq (fold_left (fun s o => fst (step keq klt s o)) ops m).
Proof.
  induction ops as [|o ops IH]; intros m l HR; cbn; [apply HR|].
  eapply IH. apply step_refines; eauto.
Qed.

(* --- map algebra of the concrete operations, used by the trie --- *)
Lemma uniq_set (m : omap) k v : uniq m -> uniq (set keq klt m k v).
Proof. intros Hu. pose proof (step_refines m m (OSet k v) (conj Hu (fun _ => eq_refl))) as [_ [H _]]. exact H. Qed.

Lemma get_set (m : omap) k v k' :
  uniq m -> get keq klt (set keq klt m k v) k' = if keq k k' then Some v else get keq klt m k'.
Proof.
  intros Hu. pose proof (step_refines m m (OSet k v) (conj Hu (fun _ => eq_refl))) as [_ [Hu' Ho]].
  cbn [step sstep fst snd] in *. rewrite get_is_sget by assumption. rewrite Ho, sget_sset. rewrite get_is_sget by assumption. reflexivity.
Qed.

Lemma sget_congr (m : omap) k k' : keq k k' = true -> sget keq m k = sget keq m k'.
Proof.
  intros E. induction m as [|[k0 v0] r IH]; cbn; [reflexivity|].
  destruct (keq k0 k) eqn:E0.
  - rewrite (keq_trans k0 k k' E0 E). reflexivity.
  - assert (keq k0 k' = false) as ->; [|exact IH].
    destruct (keq k0 k') eqn:E1; [|reflexivity].
    assert (keq k0 k = true) by (eapply keq_trans; [exact E1|rewrite keq_sym; exact E]). congruence.
Qed.

Lemma get_congr (m : omap) k k' : uniq m -> keq k k' = true -> get keq klt m k = get keq klt m k'.
Proof. intros Hu E. rewrite !get_is_sget by assumption. apply sget_congr; assumption. Qed.

Lemma sget_in (m : omap) k v : sget keq m k = Some v -> exists k0, In (k0, v) m.
Proof.
  induction m as [|[k0 v0] r IH]; cbn; [congruence|].
  destruct (keq k0 k); intros H.
  - inversion H; subst. eauto.
  - destruct (IH H) as [k1 Hk]. eauto.
Qed.

Lemma get_in (m : omap) k v : uniq m -> get keq klt m k = Some v -> exists k0, In (k0, v) m.
Proof. intros Hu. rewrite get_is_sget by assumption. apply sget_in. Qed.

Lemma in_set_nth (m : omap) i v k0 c : In (k0, c) (set_nth m i v) -> c = v \/ In (k0, c) m.
Proof.
  revert i; induction m as [|[k w] r IH]; intros [|j]; cbn; auto.
  - intros [H|H]; [inversion H; auto|auto].
  - intros [H|H]; [auto|]. apply IH in H. destruct H; auto.
Qed.

Lemma in_ins_sorted (m : omap) k v k0 c : In (k0, c) (ins_sorted klt m k v) -> c = v \/ In (k0, c) m.
Proof.
  induction m as [|[k1 w] r IH]; cbn.
  - intros [H|[]]. inversion H; auto.
  - destruct (klt k k1); cbn.
    + intros [H|H]; [inversion H; auto|auto].
    + intros [H|H]; [auto|]. apply IH in H. destruct H; auto.
Qed.

Lemma in_set (m : omap) k v k0 c : In (k0, c) (set keq klt m k v) -> c = v \/ In (k0, c) m.
Proof.
  unfold set, set_with. destruct (find_key keq klt m k) as [i [|]].
  - apply in_set_nth.
  - apply in_ins_sorted.
Qed.

End Proofs.
