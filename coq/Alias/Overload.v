(* Model of user-defined operator overloads:
     src/parser/parser.go 460-502               insertOperatorOverload (duplicate check, sorted insertion)
     src/parser/util.go 250-261                 operatorParameterTypesEqual
     src/parser/typechecker/typechecker.go 944-1068  findOverload / findOverloadCast
   Types, parameters and unification are those of Select.v. Definitions only. *)
From Coq Require Import List NArith ZArith Bool Arith.
Import ListNotations.
From DDP Require Import Alias.TokKey Alias.Select.
Local Open Scope nat_scope.

(* od_generic: decl.Generic != nil; od_ret: the declared return type (only the als operator looks at it) *)
Record odecl := mkODecl { od_id : N; od_params : list param; od_generic : bool; od_ret : ty }.


Definition ogen_count (d : odecl) : nat := length (filter (fun p => deep_generic (p_ty p)) (od_params d)).
Definition oref_count (d : odecl) : nat := length (filter p_ref (od_params d)).

(* the comparison handed to slices.BinarySearchFunc: cmp(element, target) *)
Definition ocmp (a t : odecl) : Z :=
  if negb (Nat.eqb (ogen_count a) (ogen_count t)) then (Z.of_nat (ogen_count a) - Z.of_nat (ogen_count t))%Z
  else (Z.of_nat (oref_count t) - Z.of_nat (oref_count a))%Z.

(* slices.BinarySearchFunc: i, j := 0, n; for i < j { h := (i+j)/2; if cmp(x[h], t) < 0 { i = h+1 } else { j = h } }; return i *)
Fixpoint bs_go (fuel : nat) (l : list odecl) (t : odecl) (i j : nat) : nat :=
  match fuel with
  | O => i
  | S f =>
    if Nat.ltb i j then
      let h := Nat.div2 (i + j) in
      match nth_error l h with
      | None => i
      | Some x => if Z.ltb (ocmp x t) 0 then bs_go f l t (S h) j else bs_go f l t i h
      end
    else i
  end.
Definition bs_pos (l : list odecl) (t : odecl) : nat := bs_go (S (length l)) l t 0 (length l).

Definition param_types_equal (a b : param) : bool := ty_eqb (p_ty a) (p_ty b) && Bool.eqb (p_ref a) (p_ref b).
(* operatorParameterTypesEqual on one pair *)
Definition oparam_equal (a b : param) : bool :=
  let g1 := deep_generic (p_ty a) in
  let g2 := deep_generic (p_ty b) in
  if g1 || g2 then g1 && g2 && Bool.eqb (p_ref a) (p_ref b) else param_types_equal a b.
Fixpoint oparams_equal (a b : list param) : bool :=
  match a, b with
  | [], [] => true
  | x :: a', y :: b' => oparam_equal x y && oparams_equal a' b'
  | _, _ => false
  end.

(* operatorReturnTypeEqual *)
Definition oret_equal (a b : ty) : bool :=
  if deep_generic a || deep_generic b then deep_generic a && deep_generic b else ty_eqb a b.

(* insertOperatorOverload. is_cast: the operator is "als" (also told apart by the return type).
   (table, false) = "bereits überladen": nothing is inserted *)
Definition insert_overload (is_cast : bool) (table : list odecl) (d : odecl) : list odecl * bool :=
  if existsb (fun o => oparams_equal (od_params o) (od_params d) &&
                       (negb is_cast || oret_equal (od_ret o) (od_ret d))) table
  then (table, false)
  else let i := bs_pos table d in (firstn i table ++ d :: skipn i table, true).

Definition insert_all (is_cast : bool) (ds : list odecl) : list odecl :=
  fold_left (fun t d => fst (insert_overload is_cast t d)) ds [].

(* an operand: its evaluated type and whether isAssignable(expr) holds *)
Definition operand := (ty * bool)%type.

Inductive ores :=
| Overloaded (d : odecl) (e : genv) (args : list (list N * nat))  (* Args: parameter name -> operand index *)
| Builtin                                                          (* findOverload returned nil *)
| OPanic.                                                          (* overload.Parameters[i]: index out of range *)

Section Find.
Variable is_struct : ty -> bool.            (* ddptypes.IsStruct on a non-list type *)
Variable oinst_ok : odecl -> genv -> bool.   (* InstantiateGenericFunction reported no errors *)

Definition contains_user (ops : list operand) : bool :=
  existsb (fun o => is_struct (nested_elem (fst o))) ops.

Inductive mres := MOk (e : genv) (args : list (list N * nat)) | MNo | MPanic.

(* the inner loop over the operands of one overload *)
Fixpoint match_operands (generic : bool) (ps : list param) (ops : list operand) (i : nat) (e : genv)
         (args : list (list N * nat)) : mres :=
  match ops with
  | [] => MOk e args
  | (oty, assignable) :: ops' =>
    match ps with
    | [] => MPanic
    | p :: ps' =>
      let '(pt, e') := if generic then unify oty (p_ty p) e else (Some (p_ty p), e) in
      match pt with
      | None => MNo
      | Some pt =>
        if negb (ty_eqb pt oty) then MNo
        else if p_ref p && negb assignable then MNo
        else match_operands generic ps' ops' (S i) e' (args ++ [(p_name p, i)])
      end
    end
  end.

(* target = Some t for the als operator (findOverloadCast): the return type must equal t *)
Definition ret_of (d : odecl) (e : genv) : option ty :=
  if od_generic d then
    match od_ret d with
    | TGen n => genv_get e n
    | t => Some t
    end
  else Some (od_ret d).

Fixpoint find_overload (table : list odecl) (ops : list operand) (target : option ty) : ores :=
  match table with
  | [] => Builtin
  | d :: r =>
    if negb (contains_user ops) && od_generic d then Builtin
    else
      match match_operands (od_generic d) (od_params d) ops 0 [] [] with
      | MPanic => OPanic
      | MNo => find_overload r ops target
      | MOk e args =>
        let ret_ok := match target with
                      | None => true
                      | Some t => match ret_of d e with Some rt => ty_eqb rt t | None => false end
                      end in
        if negb ret_ok then find_overload r ops target
        else if od_generic d then (if oinst_ok d e then Overloaded d e args else Builtin)
        else Overloaded d e args
      end
  end.
End Find.
