(* Proofs about operator overload resolution (Overload.v):
     - the table stays sorted (fewer deeply-generic parameters first, then more Referenz parameters)
       under insertOperatorOverload's binary-search insertion, and is a permutation of what was declared
     - findOverload returns the FIRST entry whose parameter types equal the operand types exactly and
       whose Referenz parameters face assignable operands; generic entries only with a user-defined
       operand type; otherwise the built-in meaning *)
From Coq Require Import List NArith ZArith Bool Arith Lia Permutation Sorted.
Import ListNotations.
From DDP Require Import Alias.TokKey Alias.Select Alias.Overload.
Local Open Scope nat_scope.


Lemma in_firstn {A} (x : A) n l : In x (firstn n l) -> In x l.
Proof. revert l; induction n as [|n IH]; intros [|a l] H; cbn in *; try contradiction. destruct H; auto. Qed.
Lemma in_skipn {A} (x : A) n l : In x (skipn n l) -> In x l.
Proof. revert l; induction n as [|n IH]; intros [|a l] H; cbn in *; auto. Qed.
Lemma nth_firstn {A} n (l : list A) k : k < n -> nth_error (firstn n l) k = nth_error l k.
Proof. revert l k; induction n as [|n IH]; intros [|a l] [|k] H; cbn; try lia; auto. apply IH. lia. Qed.
Lemma nth_skipn {A} n (l : list A) k : nth_error (skipn n l) k = nth_error l (n + k).
Proof. revert l; induction n as [|n IH]; intros [|a l]; cbn; auto. destruct k; reflexivity. Qed.

(* a sorts strictly before t *)
Definition obefore (a t : odecl) : Prop :=
  ogen_count a < ogen_count t \/ (ogen_count a = ogen_count t /\ oref_count t < oref_count a).

Lemma ocmp_neg a t : Z.ltb (ocmp a t) 0 = true <-> obefore a t.
Proof.
  unfold ocmp, obefore. destruct (Nat.eqb_spec (ogen_count a) (ogen_count t)) as [E|E]; cbn [negb]; rewrite Z.ltb_lt; lia.
Qed.

Lemma ocmp_nonneg a t : Z.ltb (ocmp a t) 0 = false <-> ~ obefore a t.
Proof. rewrite <- ocmp_neg. destruct (Z.ltb (ocmp a t) 0); split; intros H; congruence || (exfalso; apply H; reflexivity) || reflexivity. Qed.

Definition osorted (l : list odecl) : Prop := StronglySorted (fun a b => ~ obefore b a) l.

Lemma osorted_nth l : osorted l -> forall i j x y, i <= j -> nth_error l i = Some x -> nth_error l j = Some y -> ~ obefore y x \/ i = j.
Proof.
  unfold osorted. induction 1 as [|a r Hs IH Hf]; intros i j x y Hij Hx Hy.
  - destruct i; discriminate Hx.
  - destruct i as [|i], j as [|j]; cbn in Hx, Hy.
    + right; reflexivity.
    + inversion Hx; subst. left. rewrite Forall_forall in Hf. apply Hf. eapply nth_error_In; eauto.
    + lia.
    + destruct (IH i j x y) as [H|H]; try lia; auto.
Qed.

(* the binary search of slices.BinarySearchFunc on a sorted table *)
Lemma bs_go_spec l t : osorted l -> forall fuel i j,
  i <= j <= length l -> j - i < fuel ->
  (forall k x, k < i -> nth_error l k = Some x -> obefore x t) ->
  (forall k x, j <= k -> nth_error l k = Some x -> ~ obefore x t) ->
  let r := bs_go fuel l t i j in
  r <= length l /\
  (forall k x, k < r -> nth_error l k = Some x -> obefore x t) /\
  (forall k x, r <= k -> nth_error l k = Some x -> ~ obefore x t).
Proof.
  intros Hs. induction fuel as [|f IH]; intros i j Hij Hf Hlo Hhi; [lia|].
  cbn [bs_go]. destruct (Nat.ltb_spec i j) as [Hlt|Hge].
  - assert (Hh : i <= Nat.div2 (i + j) < j).
    { pose proof (Nat.div2_odd (i + j)) as Ho. destruct (Nat.odd (i + j)); cbn in Ho; lia. }
    set (h := Nat.div2 (i + j)) in *.
    destruct (nth_error l h) as [x|] eqn:Ex.
    2:{ apply nth_error_None in Ex. lia. }
    destruct (Z.ltb (ocmp x t) 0) eqn:Ec.
    + apply ocmp_neg in Ec. apply IH; try lia; [|exact Hhi].
      intros k y Hk Hy. destruct (Nat.lt_ge_cases k i) as [Hki|Hki]; [eapply Hlo; eauto|].
      destruct (osorted_nth l Hs k h y x) as [Hn| ->]; try lia; auto; [|congruence].
      unfold obefore in *. lia.
    + apply ocmp_nonneg in Ec. apply IH; try lia; [exact Hlo|].
      intros k y Hk Hy. destruct (Nat.lt_ge_cases k j) as [Hkj|Hkj]; [|eapply Hhi; eauto].
      destruct (osorted_nth l Hs h k x y) as [Hn| <-]; try lia; auto; [|congruence].
      unfold obefore in *. lia.
  - assert (i = j) by lia. subst. cbn. repeat split; auto. lia.
Qed.

Lemma bs_pos_spec l t : osorted l ->
  bs_pos l t <= length l /\
  (forall x, In x (firstn (bs_pos l t) l) -> obefore x t) /\
  (forall x, In x (skipn (bs_pos l t) l) -> ~ obefore x t).
Proof.
  intros Hs. unfold bs_pos.
  destruct (bs_go_spec l t Hs (S (length l)) 0 (length l)) as (H1 & H2 & H3); try lia.
  - intros k x Hk Hx. assert (nth_error l k <> None) by congruence. apply nth_error_Some in H. exfalso. lia.
  - split; [exact H1|]. set (r := bs_go (S (length l)) l t 0 (length l)) in *. split.
    + intros x Hin. apply In_nth_error in Hin. destruct Hin as [k Hk].
      assert (Hlt : k < r).
      { assert (nth_error (firstn r l) k <> None) by congruence. apply nth_error_Some in H. rewrite firstn_length in H. lia. }
      rewrite nth_firstn in Hk by exact Hlt. eapply H2; eauto.
    + intros x Hin. apply In_nth_error in Hin. destruct Hin as [k Hk].
      rewrite nth_skipn in Hk. eapply H3; [|exact Hk]. lia.
Qed.

Lemma osorted_insert l t i :
  osorted l -> (forall x, In x (firstn i l) -> obefore x t) -> (forall x, In x (skipn i l) -> ~ obefore x t) ->
  osorted (firstn i l ++ t :: skipn i l).
Proof.
  unfold osorted. revert i. induction l as [|a r IH]; intros i Hs Hb Ha.
  - destruct i; cbn; repeat constructor.
  - destruct i as [|i].
    + cbn in *. constructor; [exact Hs|]. rewrite Forall_forall. intros x Hx. apply Ha. exact Hx.
    + cbn [firstn skipn app] in *. inversion Hs as [|a0 r0 Hr Hf]; subst.
      constructor.
      * apply IH; [exact Hr| |exact Ha]. intros x Hx. apply Hb. right. exact Hx.
      * rewrite Forall_forall in *. intros x Hx. apply in_app_or in Hx. destruct Hx as [Hx|[Hx|Hx]].
        -- apply Hf. eapply in_firstn; exact Hx.
        -- subst x. assert (Hba : obefore a t) by (apply Hb; left; reflexivity). unfold obefore in *. lia.
        -- apply Hf. eapply in_skipn; exact Hx.
Qed.

(* insertOperatorOverload keeps the table sorted and loses / invents nothing *)
Theorem insert_overload_sorted c table d : osorted table -> osorted (fst (insert_overload c table d)).
Proof.
  intros Hs. unfold insert_overload.
  destruct (existsb _ table); cbn [fst]; [exact Hs|].
  destruct (bs_pos_spec table d Hs) as (_ & Hb & Ha). apply osorted_insert; assumption.
Qed.

Theorem insert_overload_perm c table d :
  snd (insert_overload c table d) = true -> Permutation (d :: table) (fst (insert_overload c table d)).
Proof.
  unfold insert_overload. destruct (existsb _ table); cbn [fst snd]; [intros H; discriminate H|]. intros _.
  rewrite <- (firstn_skipn (bs_pos table d) table) at 1. apply Permutation_middle.
Qed.

Lemma insert_overload_rejected c table d :
  snd (insert_overload c table d) = false -> fst (insert_overload c table d) = table.
Proof. unfold insert_overload. destruct (existsb _ table); cbn; [reflexivity|intros H; discriminate H]. Qed.

Theorem insert_all_sorted c ds : osorted (insert_all c ds).
Proof.
  unfold insert_all.
  assert (H : forall t, osorted t -> osorted (fold_left (fun t d => fst (insert_overload c t d)) ds t)).
  { induction ds as [|d r IH]; intros t Hs; cbn; [exact Hs|]. apply IH. apply insert_overload_sorted. exact Hs. }
  apply H. constructor.
Qed.

(* in a sorted table every entry in front of a non-generic one is non-generic *)
Lemma osorted_nongeneric_prefix l1 d l2 :
  osorted (l1 ++ d :: l2) -> ogen_count d = 0 -> Forall (fun x => ogen_count x = 0) l1.
Proof.
  unfold osorted. induction l1 as [|a l1 IH]; cbn; intros Hs Hd; [constructor|].
  inversion Hs as [|a0 r0 Hr Hf]; subst. constructor; [|apply IH; assumption].
  rewrite Forall_forall in Hf. assert (Hn : ~ obefore d a) by (apply Hf; apply in_or_app; right; left; reflexivity).
  unfold obefore in Hn. lia.
Qed.

Section Find.
Variable is_struct : ty -> bool.
Variable oinst_ok : odecl -> genv -> bool.
Notation find_overload := (find_overload is_struct oinst_ok).

(* the exact-type rule of one non-generic overload, spelled out *)
Definition exact (p : param) (o : operand) : Prop :=
  ty_eqb (p_ty p) (fst o) = true /\ (p_ref p = true -> snd o = true).

Lemma match_operands_exact ps : forall ops i e args e' args',
  match_operands false ps ops i e args = MOk e' args' ->
  e' = e /\ Forall2 exact (firstn (length ops) ps) ops /\ length ops <= length ps /\
  args' = args ++ combine (map p_name (firstn (length ops) ps)) (seq i (length ops)).
Proof.
  induction ps as [|p ps IH]; intros [|[oty asg] ops] i e args e' args' H; cbn in H.
  - inversion H; subst. cbn. rewrite app_nil_r. split; [reflexivity|]. split; [constructor|]. split; [lia|reflexivity].
  - discriminate H.
  - inversion H; subst. cbn. rewrite app_nil_r. split; [reflexivity|]. split; [constructor|]. split; [lia|reflexivity].
  - destruct (negb (ty_eqb (p_ty p) oty)) eqn:Et; [discriminate H|].
    destruct (p_ref p && negb asg) eqn:Er; [discriminate H|].
    destruct (IH _ _ _ _ _ _ H) as (-> & Hf & Hl & ->).
    apply negb_false_iff in Et.
    split; [reflexivity|]. split; [|split; [cbn; lia|]].
    + cbn. constructor; [|exact Hf]. split; [exact Et|]. cbn. intros Hr. rewrite Hr in Er. cbn in Er.
      apply negb_false_iff in Er. exact Er.
    + cbn. rewrite <- app_assoc. reflexivity.
Qed.

(* converse: an entry that fits is not skipped *)
Lemma match_operands_complete ps : forall ops i e args,
  length ops <= length ps -> Forall2 exact (firstn (length ops) ps) ops ->
  exists args', match_operands false ps ops i e args = MOk e args'.
Proof.
  induction ps as [|p ps IH]; intros [|[oty asg] ops] i e args Hl Hf; cbn in *; eauto; try lia.
  inversion Hf as [|p0 o0 l1 l2 [Ht Hr] Hf']; subst. cbn in Ht, Hr.
  rewrite Ht. cbn [negb].
  assert (p_ref p && negb asg = false) as ->.
  { destruct (p_ref p); [rewrite (Hr eq_refl)|]; reflexivity. }
  apply IH; [lia|exact Hf'].
Qed.

(* OVERLOAD_EXACT. What findOverload returns is an entry of the table that fits - parameter
   types equal the operand types (after unification for a generic entry), Referenz parameters
   only on assignable operands, the als-target if any -, generic only if an operand has a
   user-defined type and the instantiation succeeded; every entry in front of it does not fit *)
Definition fits (d : odecl) (ops : list operand) (target : option ty) (e : genv) (args : list (list N * nat)) : Prop :=
  match_operands (od_generic d) (od_params d) ops 0 [] [] = MOk e args /\
  match target with
  | None => True
  | Some t => exists rt, ret_of d e = Some rt /\ ty_eqb rt t = true
  end.

Theorem overload_exact table ops target d e args :
  find_overload table ops target = Overloaded d e args ->
  exists l1 l2, table = l1 ++ d :: l2 /\ fits d ops target e args /\
    (od_generic d = true -> contains_user is_struct ops = true /\ oinst_ok d e = true) /\
    Forall (fun x => forall e' a', ~ fits x ops target e' a') l1.
Proof.
  induction table as [|x r IH]; cbn; intros H; [discriminate H|].
  destruct (negb (contains_user is_struct ops) && od_generic x) eqn:Eg; [discriminate H|].
  destruct (match_operands (od_generic x) (od_params x) ops 0 [] []) as [e0 a0| |] eqn:Em; [| |discriminate H].
  - set (ret_ok := match target with
                   | Some t => match ret_of x e0 with Some rt => ty_eqb rt t | None => false end
                   | None => true end) in *.
    destruct ret_ok eqn:Er; cbn [negb] in H.
    + assert (Hfit : fits x ops target e0 a0).
      { split; [exact Em|]. destruct target as [t|]; [|exact I]. unfold ret_ok in Er.
        destruct (ret_of x e0) as [rt|]; [eauto|discriminate Er]. }
      assert (Hgen : od_generic x = true -> contains_user is_struct ops = true).
      { intros G. rewrite G, andb_true_r in Eg. apply negb_false_iff in Eg. exact Eg. }
      destruct (od_generic x) eqn:G.
      * destruct (oinst_ok x e0) eqn:Ei; [|discriminate H]. inversion H; subst.
        exists [], r. split; [reflexivity|]. split; [exact Hfit|]. split; [|constructor].
        intros _. split; [apply Hgen; reflexivity|exact Ei].
      * inversion H; subst. exists [], r. split; [reflexivity|]. split; [exact Hfit|]. split; [|constructor].
        intros X; congruence.
    + destruct (IH H) as (l1 & l2 & -> & Hf & Hg & Hall).
      exists (x :: l1), l2. split; [reflexivity|]. split; [exact Hf|]. split; [exact Hg|]. constructor; [|exact Hall].
      intros e' a' [Hm Ht]. rewrite Em in Hm. inversion Hm; subst.
      destruct target as [t|]; [|discriminate Er]. destruct Ht as (rt & Hr & Hq).
      unfold ret_ok in Er. rewrite Hr, Hq in Er. discriminate Er.
  - destruct (IH H) as (l1 & l2 & -> & Hf & Hg & Hall).
    exists (x :: l1), l2. split; [reflexivity|]. split; [exact Hf|]. split; [exact Hg|]. constructor; [|exact Hall].
    intros e' a' [Hm _]. rewrite Em in Hm. discriminate Hm.
Qed.

(* ... and for a non-generic result the exact-type rule in plain words, with the operands bound
   to the parameters by NAME (operand i goes to the i-th declared parameter's name) *)
Corollary overload_exact_nongeneric table ops d e args :
  find_overload table ops None = Overloaded d e args -> od_generic d = false ->
  In d table /\ Forall2 exact (firstn (length ops) (od_params d)) ops /\
  args = combine (map p_name (firstn (length ops) (od_params d))) (seq 0 (length ops)).
Proof.
  intros H G. destruct (overload_exact _ _ _ _ _ _ H) as (l1 & l2 & -> & [Hm _] & _ & _).
  rewrite G in Hm. destruct (match_operands_exact _ _ _ _ _ _ _ Hm) as (_ & Hf & _ & ->).
  split; [apply in_or_app; right; left; reflexivity|]. auto.
Qed.

(* BUILT-IN OTHERWISE: if nothing in the table fits, the operator keeps its built-in meaning *)
Theorem overload_builtin table ops target :
  Forall (fun x => match_operands (od_generic x) (od_params x) ops 0 [] [] = MNo) table ->
  find_overload table ops target = Builtin.
Proof.
  induction 1 as [|x r Hx Hr IH]; cbn; [reflexivity|].
  destruct (negb (contains_user is_struct ops) && od_generic x); [reflexivity|]. rewrite Hx. exact IH.
Qed.

(* the early "return nil" at the first generic entry is sound: with no user-defined operand
   type, a sorted table is searched exactly as if it held only its non-generic entries *)
Definition odecl_wf (d : odecl) : Prop := od_generic d = true <-> 0 < ogen_count d.

Theorem generic_only_for_user_types table ops target :
  osorted table -> Forall odecl_wf table -> contains_user is_struct ops = false ->
  find_overload table ops target = find_overload (filter (fun d => negb (od_generic d)) table) ops target.
Proof.
  intros Hs Hw Hu. induction table as [|x r IH]; [reflexivity|].
  inversion Hw as [|x0 r0 Hx Hr]; subst. unfold osorted in Hs. inversion Hs as [|x1 r1 Hsr Hf]; subst.
  cbn [find_overload filter]. rewrite Hu. cbn [negb andb].
  destruct (od_generic x) eqn:G; cbn [negb].
  - (* everything behind a generic entry is generic *)
    assert (Hall : filter (fun d => negb (od_generic d)) r = []).
    { assert (Hg : forall y, In y r -> od_generic y = true).
      { intros y Hy. rewrite Forall_forall in Hr, Hf. apply (Hr y Hy).
        apply Hx in G. specialize (Hf y Hy). unfold obefore in Hf. lia. }
      clear - Hg. induction r as [|y r' IHr]; [reflexivity|]. cbn.
      rewrite (Hg y (or_introl eq_refl)). cbn. apply IHr. intros z Hz. apply Hg. right. exact Hz. }
    rewrite Hall. reflexivity.
  - cbn [find_overload]. rewrite Hu, G. cbn [negb andb].
    rewrite (IH Hsr Hr). reflexivity.
Qed.

End Find.
