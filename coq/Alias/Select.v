(* Model of alias resolution at a call site: src/parser/alias.go
     alias()        22-183  trie search with the cursor remembered per node, candidate loop, fallback
     sortAliases    185-218 candidate order
     checkAlias     240-388 typed check, argument map keyed by placeholder name, generic unification
   and of the negation markers of alias declarations (src/parser/declarations.go 431-459).
   The trie, its ordered maps and the token keys are those of C20 (OMap.v, Trie.v, TokKey.v).

   What is abstracted (parameters of the section, supplied per call site by the correspondence):
     - the parse + type evaluation of ONE argument unit (argParser + EvaluateSilent): argty
     - "the reference argument is an index into a Text" (the Buchstaben-Referenz refusal): text_index
     - whether instantiating a generic function with the unified types reported errors: inst_ok
   Definitions only; everything is executable and total. *)
From Coq Require Import List NArith Bool Arith.
Import ListNotations.
From DDP Require Import Gen.Tokens Gen.AliasArgs Alias.OMap Alias.Trie Alias.TokKey.
Local Open Scope nat_scope.

(* ---- types as ddptypes.Equal / UnifyGenericType see them. TInst id a: the instantiation of the
   generic Kombination id (ONE type parameter, which occurs in a field) with a - "a-Vektor2";
   a may be a type parameter inside a generic declaration ("T-Vektor2"). Instantiations are
   canonical (GetInstantiatedStructType), so equality is structural. ---- *)
Inductive ty := TBase (id : N) | TList (e : ty) | TGen (name : N) | TInst (id : N) (arg : ty).

Fixpoint ty_eqb (a b : ty) : bool :=
  match a, b with
  | TBase x, TBase y => N.eqb x y
  | TList x, TList y => ty_eqb x y
  | TGen x, TGen y => N.eqb x y
  | TInst i x, TInst j y => N.eqb i j && ty_eqb x y
  | _, _ => false
  end.

Definition genv := list (N * ty).
Fixpoint genv_get (e : genv) (n : N) : option ty :=
  match e with
  | [] => None
  | (m, t) :: r => if N.eqb m n then Some t else genv_get r n
  end.

(* unifyType: first use binds the name, later uses read it *)
Definition unify_name (n : N) (inst : ty) (e : genv) : ty * genv :=
  match genv_get e n with
  | Some t => (t, e)
  | None => (inst, (n, inst) :: e)
  end.

(* the struct branch of UnifyGenericType: the parameter is an instantiated generic Kombination;
   the argument must be one too; their type arguments are compared position by position (a type
   parameter is bound/read first); the result is the parameter's Kombination instantiated with
   the argument's type argument *)
Definition unify_inst (pid : N) (pa : ty) (arg : ty) (e : genv) : option ty * genv :=
  match arg with
  | TInst _ aa =>
    match pa with
    | TGen n => let '(t, e') := unify_name n aa e in
                if ty_eqb t aa then (Some (TInst pid aa), e') else (None, e')
    | _ => if ty_eqb pa aa then (Some (TInst pid aa), e) else (None, e)
    end
  | _ => (None, e)
  end.

(* UnifyGenericType(argType, paramType, genericTypes):
   strip list layers while both are lists (stop below a layer whose parameter element is a type
   parameter); a parameter that is still a list when the argument is not -> nil (None); a type
   parameter is bound/read; an instantiated generic Kombination is unified by unify_inst; the
   stripped layers are put back. *)
Fixpoint unify (arg par : ty) (e : genv) : option ty * genv :=
  match par with
  | TBase _ => (Some par, e)
  | TGen n => let '(t, e') := unify_name n arg e in (Some t, e')
  | TInst pid pa => unify_inst pid pa arg e
  | TList pe =>
    match arg with
    | TList ae =>
      match pe with
      | TGen n => let '(t, e') := unify_name n ae e in (Some (TList t), e')
      | _ => let '(r, e') := unify ae pe e in (option_map TList r, e')
      end
    | _ => (None, e)
    end
  end.

(* ---- aliases ---- *)
Record param := mkParam { p_name : list N; p_ty : ty; p_ref : bool }.

(* a_id: identity of the alias (for the correspondence); a_fn: the declaration it calls;
   a_toks: alias tokens without the EOF; a placeholder token has tt = ALIAS_PARAMETER,
   lit = the parameter name (Literal with "<>" trimmed) and ainfo = its key abstraction *)
Record alias := mkAlias { a_id : N; a_fn : N; a_toks : list tok; a_params : list param; a_neg : bool }.

Fixpoint find_param (ps : list param) (name : list N) : option param :=
  match ps with
  | [] => None
  | p :: r => if lit_eqb (p_name p) name then Some p else find_param r name
  end.

Definition is_placeholder (t : tok) : bool := N.eqb (tt t) tt_ALIAS_PARAMETER.

(* ---- candidate order (sortAliases) ---- *)
Definition is_tgen (t : ty) : bool := match t with TGen _ => true | _ => false end.
(* GetNestedListElementType *)
Fixpoint nested_elem (t : ty) : ty := match t with TList e => nested_elem e | _ => t end.
(* CastDeeplyNestedGenerics: below any list nesting, a type parameter, or a Kombination one of whose
   field types (here: its type argument) contains a type parameter *)
Fixpoint deep_generic (t : ty) : bool :=
  match t with
  | TBase _ => false
  | TGen _ => true
  | TList e => deep_generic e
  | TInst _ a => deep_generic a
  end.
Definition alias_len (a : alias) : nat := length (a_toks a).
(* sortAliases since 3e80d99: a parameter counts as generic when its type contains a type
   parameter at any list depth (CastDeeplyNestedGenerics) *)
Definition gen_count (a : alias) : nat := length (filter (fun p => deep_generic (p_ty p)) (a_params a)).
(* the key the pinned tree used (ddptypes.IsGeneric: only a parameter whose type IS a type parameter) *)
Definition gen_count_direct (a : alias) : nat := length (filter (fun p => is_tgen (p_ty p)) (a_params a)).
(* ast.IsGeneric(decl), i.e. decl.Generic != nil: funcDeclaration makes a declaration generic exactly
   when a parameter type mentions a type parameter ("Eine generische Funktion braucht mindestens
   einen Typparameter"; a non-generic declaration cannot spell one). The check compares this with
   the flag of every real declaration. *)
Definition a_generic (a : alias) : bool := Nat.ltb 0 (gen_count a).
Definition ref_count (a : alias) : nat := length (filter p_ref (a_params a)).

(* the comparator handed to sort.Slice: "a sorts before b" *)
Definition alias_less (a b : alias) : bool :=
  if negb (Nat.eqb (alias_len a) (alias_len b)) then Nat.ltb (alias_len b) (alias_len a)
  else if negb (Nat.eqb (gen_count a) (gen_count b)) then Nat.ltb (gen_count a) (gen_count b)
  else Nat.ltb (ref_count b) (ref_count a).

(* a stable insertion sort: ONE of the permutations a correct sort may return (it is the one
   sort.Slice returns for fewer than 13 candidates, where pdqsort is an insertion sort) *)
Fixpoint ins_alias (a : alias) (l : list alias) : list alias :=
  match l with
  | [] => [a]
  | b :: r => if alias_less b a then b :: ins_alias a r else a :: b :: r
  end.
Fixpoint isort (l : list alias) : list alias :=
  match l with
  | [] => []
  | a :: r => ins_alias a (isort r)
  end.

(* ---- alias negation markers (declarations.go 431-459), on the bytes of the string literal ---- *)
Fixpoint index_of2 (x y : N) (l : list N) (i : nat) : option nat :=
  match l with
  | a :: ((b :: _) as r) => if N.eqb a x && N.eqb b y then Some i else index_of2 x y r (S i)
  | _ => None
  end.
Fixpoint index_of1 (x : N) (l : list N) (i : nat) : option nat :=
  match l with
  | [] => None
  | a :: r => if N.eqb a x then Some i else index_of1 x r (S i)
  end.
Definition slice (l : list N) (from to : nat) : list N := firstn (to - from) (skipn from l).

Definition c_lt : N := 60%N.  (* '<' *)
Definition c_gt : N := 62%N.  (* '>' *)
Definition c_bang : N := 33%N. (* '!' *)

(* raw alias literal -> the (literal, Negated) pairs handed to scanAndValidate, in that order;
   None = "Fehlendes Ende einer Aliasnegationsmarkierung" (no alias is declared) *)
Definition expand_marker (lit : list N) : option (list (list N * bool)) :=
  match index_of2 c_lt c_bang lit 0 with
  | None => Some [(lit, false)]
  | Some st =>
    match index_of1 c_gt (skipn (st + 2) lit) 0 with
    | None => None
    | Some ei =>
      let en := st + 2 + ei + 1 in
      Some [ (firstn st lit ++ slice lit (st + 2) (en - 1) ++ skipn en lit, true);
             (firstn st lit ++ skipn en lit, false) ]
    end
  end.

(* ---- the expression alias() returns ---- *)
(* binding: parameter name -> (parsed as assignable?, first token, one past the last token) *)
Definition span := (bool * nat * nat)%type.
Definition binding := (list N * span)%type.
Fixpoint bind_get (b : list binding) (name : list N) : option span :=
  match b with
  | [] => None
  | (n, s) :: r => if lit_eqb n name then Some s else bind_get r name
  end.
(* args[argName] = arg *)
Fixpoint bind_set (b : list binding) (name : list N) (s : span) : list binding :=
  match b with
  | [] => [(name, s)]
  | (n, s0) :: r => if lit_eqb n name then (n, s) :: r else (n, s0) :: bind_set r name s
  end.

Inductive cexpr := ECall (fn : N) (args : list binding) | ENot (e : cexpr).
Definition call_of (a : alias) (b : list binding) : cexpr :=
  if a_neg a then ENot (ECall (a_fn a) b) else ECall (a_fn a) b.

Inductive outcome :=
| Selected (a : alias) (b : list binding) (e : genv)   (* typed check succeeded *)
| Fallback (a : alias) (b : list binding)              (* nothing type-matched: first candidate is "called" *)
| GenericError (a : alias)                             (* ... but it is generic: error, no call *)
| NoAlias.                                             (* no alias matches here *)

Section CallSite.
Variable s : list tok.                       (* p.tokens (its EOF is implicit: past the end) *)
Variable argty : bool -> nat -> option ty.   (* (parsed as assignable?, first token) -> type; None: the parse reported errors *)
Variable text_index : nat -> bool.           (* the assignable parsed at this token is an Indexing into a Text *)
Variable inst_ok : alias -> genv -> bool.    (* InstantiateGenericFunction reported no errors *)
Variable ty_buchstabe : ty.

Definition eof_tok : tok := {| tt := tt_EOF; lit := []; ainfo := None |}.
Definition peek (c : nat) : tok := nth c s eof_tok.
Definition peek_tt (c : nat) : N := tt (peek c).
Definition at_end (c : nat) : bool := N.eqb (peek_tt c) tt_EOF.
(* p.advance(): returns the consumed token (EOF and no move at the end) *)
Definition advance (c : nat) : nat := if at_end c then c else S c.

(* the token types that start an argument unit are regenerated from alias.go (Gen/AliasArgs.v):
   the lists named match: key generator of alias(); the lists named check: checkAlias *)
Definition mem_tt (t : N) (l : list N) : bool := existsb (N.eqb t) l.
Definition is_single (t : N) : bool := mem_tt t arg_single_match.
Definition is_neg_operand (t : N) : bool := mem_tt t arg_neg_match.
Definition is_single_c (t : N) : bool := mem_tt t arg_single_check.
Definition is_neg_operand_c (t : N) : bool := mem_tt t arg_neg_check.

(* for numLparens > 0 && !p.atEnd() { switch p.advance().Type { LPAREN: ++; RPAREN: -- } } ;
   l = the tokens from the cursor on. Returns the cursor after the loop. *)
Fixpoint scan_group (l : list tok) (depth : nat) (c : nat) : nat :=
  match depth with
  | O => c
  | S d =>
    match l with
    | [] => c
    | t :: r =>
      if N.eqb (tt t) tt_EOF then c
      else if N.eqb (tt t) tt_LPAREN then scan_group r (S depth) (S c)
      else if N.eqb (tt t) tt_RPAREN then scan_group r d (S c)
      else scan_group r depth (S c)
    end
  end.

Inductive unit_res := UnitOk (e : nat) | UnitFail | NotUnit.

(* the ALIAS_PARAMETER branch of the key generator in alias() *)
Definition unit_end (c : nat) : unit_res :=
  let t := peek_tt c in
  if is_single t then UnitOk (S c)
  else if N.eqb t tt_NEGATE then
    (if is_neg_operand (peek_tt (S c)) then UnitOk (S (S c)) else UnitFail)
  else if N.eqb t tt_LPAREN then
    (let e := scan_group (skipn (S c) s) 1 (S c) in if at_end e then UnitFail else UnitOk e)
  else NotUnit.

(* the same scan in checkAlias (no failure exits) *)
Definition unit_extent (c : nat) : nat :=
  let t := peek_tt c in
  if is_single_c t then S c
  else if N.eqb t tt_NEGATE then (if is_neg_operand_c (peek_tt (S c)) then S (S c) else S c)
  else if N.eqb t tt_LPAREN then scan_group (skipn (S c) s) 1 (S c)
  else c.

(* one call of the key generator for a child key at cursor c, followed by the trie's
   key_eq(k, child_key): Some c' = the child is entered with the cursor at c' *)
Definition literal_step (key : tok) (c : nat) : option nat :=
  if tok_eq (peek c) key then Some (advance c) else None.
Definition keygen (key : tok) (c : nat) : option nat :=
  if is_placeholder key then
    match unit_end c with
    | UnitOk e => Some e           (* returns the child key itself: key_eq holds by identity *)
    | UnitFail => None
    | NotUnit => literal_step key c
    end
  else literal_step key c.

(* a whole pattern against the stream: the cursor after it *)
Fixpoint match_pat (pat : list tok) (c : nat) : option nat :=
  match pat with
  | [] => Some c
  | k :: r => match keygen k c with Some c' => match_pat r c' | None => None end
  end.
Definition matches (pat : list tok) (c : nat) : bool :=
  match match_pat pat c with Some _ => true | None => false end.

(* Trie.Search with that key generator: DFS, children in map order, the cursor is the one
   remembered for the node (start_indices); every value on a matching path is collected.
   None = Get on a key under iteration found nothing (nil dereference, excluded for
   well-formed tries by SelectProofs.search_cur_total). *)
Fixpoint search_cur (t : trie tok alias) (c : nat) : option (list alias) :=
  match t with
  | Node _ ch =>
    (fix go (l : list (tok * trie tok alias)) : option (list alias) :=
       match l with
       | [] => Some []
       | (ck, child) :: r =>
         match keygen ck c with
         | None => go r
         | Some c' =>
           match get tok_eq tok_less ch ck with
           | None => None
           | Some _ =>
             match search_cur child c', go r with
             | Some x, Some y => Some (opt_list alias (node_val child) ++ x ++ y)
             | _, _ => None
             end
           end
         end
       end) ch
  end.

(* ---- checkAlias ---- *)
Definition is_ref_start (t : N) : bool := mem_tt t arg_ref_start.

(* typeSensitive = true. toks: the remaining alias tokens, c: p.cur *)
Fixpoint check_go (a : alias) (toks : list tok) (c : nat) (e : genv) (b : list binding) : option (list binding * genv) :=
  match toks with
  | [] => Some (b, e)
  | t :: r =>
    if N.eqb (tt t) tt_EOF then Some (b, e)
    else if is_placeholder t then
      match find_param (a_params a) (lit t) with
      | None => None      (* zero ParameterType: a nil type equals nothing *)
      | Some p =>
        if p_ref p && negb (is_ref_start (peek_tt c)) then None
        else
          match argty (p_ref p) c with
          | None => None  (* errors while parsing the argument: never selected *)
          | Some typ =>
            let '(u, e') := unify typ (p_ty p) e in
            match u with
            | None => None
            | Some pt =>
              if negb (ty_eqb typ pt) then None
              else if p_ref p && ty_eqb pt ty_buchstabe && text_index c then None
              else check_go a r (unit_extent c) e' (bind_set b (lit t) (p_ref p, c, unit_extent c))
            end
          end
      end
    else check_go a r (advance c) e b
  end.

Definition check_alias (a : alias) (start : nat) : option (list binding * genv) :=
  match check_go a (a_toks a) start [] [] with
  | Some (b, e) => if a_generic a then (if inst_ok a e then Some (b, e) else None) else Some (b, e)
  | None => None
  end.
Definition check_ok (a : alias) (start : nat) : bool :=
  match check_alias a start with Some _ => true | None => false end.

(* typeSensitive = false: only the argument map *)
Fixpoint bind_go (a : alias) (toks : list tok) (c : nat) (b : list binding) : list binding :=
  match toks with
  | [] => b
  | t :: r =>
    if N.eqb (tt t) tt_EOF then b
    else if is_placeholder t then
      let isref := match find_param (a_params a) (lit t) with Some p => p_ref p | None => false end in
      bind_go a r (unit_extent c) (bind_set b (lit t) (isref, c, unit_extent c))
    else bind_go a r (advance c) b
  end.

(* the candidate loop of alias() over the sorted slice *)
Fixpoint first_ok (l : list alias) (start : nat) : option (alias * (list binding * genv)) :=
  match l with
  | [] => None
  | a :: r => match check_alias a start with Some x => Some (a, x) | None => first_ok r start end
  end.

Definition select_from (sorted : list alias) (start : nat) : outcome :=
  match sorted with
  | [] => NoAlias
  | first :: _ =>
    match first_ok sorted start with
    | Some (a, (b, e)) => Selected a b e
    | None => if a_generic first then GenericError first else Fallback first (bind_go first (a_toks first) start [])
    end
  end.

(* the executable instance: candidates in trie order, stable sort *)
Definition candidates (t : trie tok alias) (start : nat) : list alias :=
  match search_cur t start with Some l => l | None => [] end.
Definition select (t : trie tok alias) (start : nat) : outcome := select_from (isort (candidates t start)) start.

(* the cursor after the call: p.cur is left behind the last alias token / argument *)
Definition end_of (a : alias) (start : nat) : option nat := match_pat (a_toks a) start.

End CallSite.

(* the parser's declaration protocol (aliasExists ? error : Insert), as in C20 *)
Definition declare (t : trie tok alias) (a : alias) : trie tok alias :=
  match lookup tok_eq tok_less t (a_toks a) with
  | Some _ => t
  | None => insert tok_eq tok_less (a_toks a) a t
  end.
Definition declare_all (l : list alias) : trie tok alias := fold_left declare l empty.
