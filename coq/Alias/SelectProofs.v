(* Proofs about alias selection (Select.v):
     - the candidate comparator is a strict weak order; the stable insertion sort returns a sorted permutation
     - whatever sorted permutation a correct sort returns, the selected alias is a maximal type-matching candidate
     - completeness and the fallback
     - the candidates are exactly the declared aliases whose pattern matches (over C20's trie)
     - arguments are bound by placeholder name
     - negated aliases and negation markers *)
From Coq Require Import List NArith Bool Arith Lia Permutation Sorted.
Import ListNotations.
From DDP Require Import Gen.Tokens Gen.AliasArgs Alias.OMap Alias.OMapProofs Alias.Trie Alias.TrieProofs Alias.TokKey Alias.Select.
Local Open Scope nat_scope.

(* ------------------------------------------------------------------------------------------ *)
(* the comparator                                                                              *)
(* ------------------------------------------------------------------------------------------ *)
Definition less_prop (a b : alias) : Prop :=
  alias_len b < alias_len a \/
  (alias_len a = alias_len b /\
   (gen_count a < gen_count b \/ (gen_count a = gen_count b /\ ref_count b < ref_count a))).

Lemma alias_less_iff a b : alias_less a b = true <-> less_prop a b.
Proof.
  unfold alias_less, less_prop.
  destruct (Nat.eqb_spec (alias_len a) (alias_len b)) as [El|El]; cbn [negb].
  - destruct (Nat.eqb_spec (gen_count a) (gen_count b)) as [Eg|Eg]; cbn [negb]; rewrite Nat.ltb_lt; lia.
  - rewrite Nat.ltb_lt; lia.
Qed.

Lemma alias_less_false_iff a b : alias_less a b = false <-> ~ less_prop a b.
Proof. rewrite <- alias_less_iff. destruct (alias_less a b); split; intros H; congruence || (exfalso; apply H; reflexivity) || reflexivity. Qed.

Lemma alias_less_irrefl a : alias_less a a = false.
Proof. apply alias_less_false_iff. unfold less_prop. lia. Qed.

Lemma alias_less_trans a b c : alias_less a b = true -> alias_less b c = true -> alias_less a c = true.
Proof. rewrite !alias_less_iff. unfold less_prop. lia. Qed.

Lemma alias_less_asym a b : alias_less a b = true -> alias_less b a = false.
Proof. rewrite alias_less_iff, alias_less_false_iff. unfold less_prop. lia. Qed.

(* negative transitivity: "not before" is transitive (what makes incomparability an equivalence) *)
Lemma alias_less_negtrans a b c : alias_less a b = false -> alias_less b c = false -> alias_less a c = false.
Proof. rewrite !alias_less_false_iff. unfold less_prop. lia. Qed.

Definition incomparable (a b : alias) : Prop := alias_less a b = false /\ alias_less b a = false.

Theorem alias_less_strict_weak_order :
  (forall a, alias_less a a = false) /\
  (forall a b c, alias_less a b = true -> alias_less b c = true -> alias_less a c = true) /\
  (forall a b c, incomparable a b -> incomparable b c -> incomparable a c).
Proof.
  split; [exact alias_less_irrefl|]. split; [exact alias_less_trans|].
  intros a b c [H1 H2] [H3 H4]. split; eapply alias_less_negtrans; eauto.
Qed.

(* what "no candidate sorts strictly before a" says in the words of the property *)
Lemma not_less_explicit c a :
  alias_less c a = false ->
  alias_len c <= alias_len a /\
  (alias_len c = alias_len a -> gen_count a <= gen_count c /\ (gen_count c = gen_count a -> ref_count c <= ref_count a)).
Proof. rewrite alias_less_false_iff. unfold less_prop. lia. Qed.

(* ------------------------------------------------------------------------------------------ *)
(* sorted permutations                                                                         *)
(* ------------------------------------------------------------------------------------------ *)
Definition not_after (x y : alias) : Prop := alias_less y x = false.   (* y does not sort strictly before x *)
Definition sorted (l : list alias) : Prop := StronglySorted not_after l.
(* what sort.Slice guarantees for a strict weak order, whatever its algorithm *)
Definition sorted_perm (cands l : list alias) : Prop := Permutation cands l /\ sorted l.

Lemma ins_alias_perm a l : Permutation (a :: l) (ins_alias a l).
Proof.
  induction l as [|b r IH]; cbn; [reflexivity|].
  destruct (alias_less b a); [|reflexivity].
  rewrite perm_swap. constructor. exact IH.
Qed.

Lemma isort_perm l : Permutation l (isort l).
Proof.
  induction l as [|a r IH]; cbn; [constructor|].
  rewrite <- ins_alias_perm. constructor. exact IH.
Qed.

Lemma ins_alias_sorted a l : sorted l -> sorted (ins_alias a l).
Proof.
  unfold sorted. induction l as [|b r IH]; intros Hs; cbn.
  - repeat constructor.
  - inversion Hs as [|b0 r0 Hr Hb]; subst.
    destruct (alias_less b a) eqn:E.
    + constructor; [apply IH; exact Hr|].
      rewrite Forall_forall. intros y Hy.
      apply (Permutation_in _ (Permutation_sym (ins_alias_perm a r))) in Hy.
      destruct Hy as [<-|Hy].
      * unfold not_after. apply alias_less_asym. exact E.
      * rewrite Forall_forall in Hb. apply Hb. exact Hy.
    + constructor; [exact Hs|].
      constructor; [exact E|].
      rewrite Forall_forall in *. intros y Hy. unfold not_after in *.
      eapply alias_less_negtrans; [apply Hb; exact Hy|exact E].
Qed.

Lemma isort_sorted l : sorted (isort l).
Proof. induction l as [|a r IH]; cbn; [constructor|apply ins_alias_sorted; exact IH]. Qed.

Theorem isort_sorted_perm l : sorted_perm l (isort l).
Proof. split; [apply isort_perm|apply isort_sorted]. Qed.

Lemma sorted_app_tail l1 a l2 : sorted (l1 ++ a :: l2) -> Forall (not_after a) l2.
Proof.
  unfold sorted. induction l1 as [|x l1 IH]; cbn; intros H; inversion H; subst; [assumption|auto].
Qed.

(* ------------------------------------------------------------------------------------------ *)
(* the candidate loop                                                                          *)
(* ------------------------------------------------------------------------------------------ *)
Section Site.
Variable s : list tok.
Variable argty : bool -> nat -> option ty.
Variable text_index : nat -> bool.
Variable inst_ok : alias -> genv -> bool.
Variable ty_buchstabe : ty.

Notation check_alias := (check_alias s argty text_index inst_ok ty_buchstabe).
Notation check_ok := (check_ok s argty text_index inst_ok ty_buchstabe).
Notation first_ok := (first_ok s argty text_index inst_ok ty_buchstabe).
Notation select_from := (select_from s argty text_index inst_ok ty_buchstabe).
Notation check_go := (check_go s argty text_index ty_buchstabe).

Lemma check_ok_iff a start : check_ok a start = true <-> exists x, check_alias a start = Some x.
Proof. unfold Select.check_ok. destruct (check_alias a start); split; intros H; eauto; try discriminate H. destruct H as [x H]; discriminate H. Qed.

Lemma first_ok_split l start a x :
  first_ok l start = Some (a, x) ->
  exists l1 l2, l = l1 ++ a :: l2 /\ check_alias a start = Some x /\ Forall (fun b => check_alias b start = None) l1.
Proof.
  induction l as [|b r IH]; cbn; intros H; [discriminate H|].
  destruct (check_alias b start) as [y|] eqn:E.
  - inversion H; subst. exists [], r. auto.
  - destruct (IH H) as (l1 & l2 & -> & Hc & Hf). exists (b :: l1), l2. auto.
Qed.

Lemma first_ok_none l start : first_ok l start = None <-> Forall (fun b => check_alias b start = None) l.
Proof.
  induction l as [|b r IH]; cbn.
  - split; auto.
  - destruct (check_alias b start) eqn:E.
    + split; intros H; [discriminate H|]. inversion H; subst. congruence.
    + rewrite IH. split; intros H; [constructor; assumption|inversion H; assumption].
Qed.

(* MAXIMALITY, for every permutation a correct sort may return *)
Theorem select_maximal cands l start a b e :
  sorted_perm cands l ->
  select_from l start = Selected a b e ->
  In a cands /\ check_alias a start = Some (b, e) /\
  forall c, In c cands -> check_ok c start = true -> alias_less c a = false.
Proof.
  intros [Hp Hs] Hsel. unfold Select.select_from in Hsel.
  destruct l as [|f r]; [discriminate Hsel|].
  destruct (first_ok (f :: r) start) as [[a0 [b0 e0]]|] eqn:Ef.
  2:{ destruct (a_generic f); discriminate Hsel. }
  inversion Hsel; subst a0 b0 e0.
  destruct (first_ok_split _ _ _ _ Ef) as (l1 & l2 & El & Hc & Hf).
  split; [|split; [exact Hc|]].
  - apply (Permutation_in _ (Permutation_sym Hp)). rewrite El. apply in_or_app. right. left. reflexivity.
  - intros c Hin Hok. apply (Permutation_in _ Hp) in Hin. rewrite El in Hin.
    apply in_app_or in Hin. destruct Hin as [Hin|[<-|Hin]].
    + rewrite Forall_forall in Hf. apply Hf in Hin. apply check_ok_iff in Hok. destruct Hok as [x Hx]. congruence.
    + apply alias_less_irrefl.
    + rewrite El in Hs. apply sorted_app_tail in Hs. rewrite Forall_forall in Hs. apply Hs. exact Hin.
Qed.

(* COMPLETENESS: a type-matching candidate exists -> one is selected *)
Theorem select_complete cands l start :
  sorted_perm cands l ->
  (exists c, In c cands /\ check_ok c start = true) ->
  exists a b e, select_from l start = Selected a b e.
Proof.
  intros [Hp Hs] (c & Hin & Hok). unfold Select.select_from.
  destruct l as [|f r].
  - apply (Permutation_in _ Hp) in Hin. destruct Hin.
  - destruct (first_ok (f :: r) start) as [[a [b e]]|] eqn:Ef; [eauto|].
    apply first_ok_none in Ef. rewrite Forall_forall in Ef.
    apply (Permutation_in _ Hp) in Hin. apply Ef in Hin.
    apply check_ok_iff in Hok. destruct Hok as [x Hx]. congruence.
Qed.

(* ... otherwise the first of the sorted candidates, a maximal one, is "called" without type
   checks so that the typechecker reports (unless it is generic: error, no call) *)
Theorem select_fallback cands l start :
  sorted_perm cands l -> cands <> [] ->
  (forall c, In c cands -> check_ok c start = false) ->
  exists f, In f cands /\ (forall c, In c cands -> alias_less c f = false) /\
            select_from l start =
            (if a_generic f then GenericError f else Fallback f (bind_go s f (a_toks f) start [])).
Proof.
  intros [Hp Hs] Hne Hall. unfold Select.select_from.
  destruct l as [|f r].
  - apply Permutation_sym, Permutation_nil in Hp. contradiction.
  - exists f. split; [apply (Permutation_in _ (Permutation_sym Hp)); left; reflexivity|]. split.
    + intros c Hin. apply (Permutation_in _ Hp) in Hin. destruct Hin as [<-|Hin]; [apply alias_less_irrefl|].
      inversion Hs as [|f0 r0 Hr Hf]; subst. rewrite Forall_forall in Hf. apply Hf. exact Hin.
    + destruct (first_ok (f :: r) start) as [[a [b e]]|] eqn:Ef; [|reflexivity].
      destruct (first_ok_split _ _ _ _ Ef) as (l1 & l2 & El & Hc & _).
      assert (Hin : In a cands).
      { apply (Permutation_in _ (Permutation_sym Hp)). rewrite El. apply in_or_app. right. left. reflexivity. }
      apply Hall in Hin. unfold Select.check_ok in Hin. rewrite Hc in Hin. discriminate Hin.
Qed.

(* no alias matches <-> no call *)
Lemma select_none l start : select_from l start = NoAlias <-> l = [].
Proof.
  unfold Select.select_from. destruct l as [|f r]; [split; reflexivity|].
  split; [|intros H; discriminate H].
  destruct (first_ok (f :: r) start) as [[a [b e]]|]; [intros H; discriminate H|].
  destruct (a_generic f); intros H; discriminate H.
Qed.

(* ------------------------------------------------------------------------------------------ *)
(* binding by name                                                                             *)
(* ------------------------------------------------------------------------------------------ *)
(* the cursor at which the LAST placeholder called `name` of the remaining alias tokens is reached *)
Fixpoint place (toks : list tok) (c : nat) (name : list N) : option nat :=
  match toks with
  | [] => None
  | t :: r =>
    if N.eqb (tt t) tt_EOF then None
    else if is_placeholder t then
      match place r (unit_extent s c) name with
      | Some x => Some x
      | None => if lit_eqb (lit t) name then Some c else None
      end
    else place r (advance s c) name
  end.

Lemma bind_get_set b n sp m :
  bind_get (bind_set b n sp) m = if lit_eqb n m then Some sp else bind_get b m.
Proof.
  induction b as [|[n0 s0] r IH]; cbn.
  - destruct (lit_eqb n m); reflexivity.
  - destruct (lit_eqb n0 n) eqn:E0; cbn.
    + apply lit_eqb_eq in E0. subst n0. destruct (lit_eqb n m); reflexivity.
    + rewrite IH. destruct (lit_eqb n0 m) eqn:E1; [|reflexivity].
      apply lit_eqb_eq in E1. subst n0. rewrite lit_eqb_sym in E0. rewrite E0. reflexivity.
Qed.

Definition param_ref (a : alias) (name : list N) : bool :=
  match find_param (a_params a) name with Some p => p_ref p | None => false end.

(* after a successful typed check, parameter `name` holds the argument unit found at the
   placeholder <name>, wherever that placeholder stands in the pattern *)
Lemma check_go_binds a toks : forall c e b b' e' name,
  check_go a toks c e b = Some (b', e') ->
  bind_get b' name =
  match place toks c name with
  | Some cn => Some (param_ref a name, cn, unit_extent s cn)
  | None => bind_get b name
  end.
Proof.
  induction toks as [|t r IH]; intros c e b b' e' name H; cbn [Select.check_go place] in H |- *.
  - inversion H; subst. reflexivity.
  - destruct (N.eqb (tt t) tt_EOF); [inversion H; subst; reflexivity|].
    destruct (is_placeholder t).
    + destruct (find_param (a_params a) (lit t)) as [p|] eqn:Ep; [|discriminate H].
      destruct (p_ref p && negb (is_ref_start (peek_tt s c))); [discriminate H|].
      destruct (argty (p_ref p) c) as [typ|]; [|discriminate H].
      destruct (unify typ (p_ty p) e) as [u e1].
      destruct u as [pt|]; [|discriminate H].
      destruct (negb (ty_eqb typ pt)); [discriminate H|].
      destruct (p_ref p && ty_eqb pt ty_buchstabe && text_index c); [discriminate H|].
      rewrite (IH _ _ _ _ _ name H).
      destruct (place r (unit_extent s c) name); [reflexivity|].
      rewrite bind_get_set. destruct (lit_eqb (lit t) name) eqn:En; [|reflexivity].
      apply lit_eqb_eq in En. subst name. unfold param_ref. rewrite Ep. reflexivity.
    + apply (IH _ _ _ _ _ name H).
Qed.

Theorem bind_by_name a start b e name :
  check_alias a start = Some (b, e) ->
  bind_get b name =
  match place (a_toks a) start name with
  | Some cn => Some (param_ref a name, cn, unit_extent s cn)
  | None => None
  end.
Proof.
  unfold Select.check_alias. intros H.
  destruct (check_go a (a_toks a) start [] []) as [[b0 e0]|] eqn:E; [|discriminate H].
  assert (b0 = b) as ->.
  { destruct (a_generic a); [destruct (inst_ok a e0)|]; congruence. }
  rewrite (check_go_binds _ _ _ _ _ _ _ name E). reflexivity.
Qed.

(* the untyped argument map of the fallback call is keyed the same way *)
Lemma bind_go_binds a toks : forall c b name,
  bind_get (bind_go s a toks c b) name =
  match place toks c name with
  | Some cn => Some (param_ref a name, cn, unit_extent s cn)
  | None => bind_get b name
  end.
Proof.
  induction toks as [|t r IH]; intros c b name; cbn [bind_go place]; [reflexivity|].
  destruct (N.eqb (tt t) tt_EOF); [reflexivity|].
  destruct (is_placeholder t); [|apply IH].
  rewrite IH. destruct (place r (unit_extent s c) name); [reflexivity|].
  rewrite bind_get_set. destruct (lit_eqb (lit t) name) eqn:En; [|reflexivity].
  apply lit_eqb_eq in En. subst name. reflexivity.
Qed.

End Site.

(* ------------------------------------------------------------------------------------------ *)
(* parameters are found by name: the declaration order of the parameters is irrelevant         *)
(* ------------------------------------------------------------------------------------------ *)
Lemma find_param_in ps name p : find_param ps name = Some p -> In p ps /\ p_name p = name.
Proof.
  induction ps as [|q r IH]; cbn; intros H; [discriminate H|].
  destruct (lit_eqb (p_name q) name) eqn:E.
  - inversion H; subst. apply lit_eqb_eq in E. auto.
  - destruct (IH H). auto.
Qed.

Lemma find_param_unique ps name p :
  NoDup (map p_name ps) -> In p ps -> p_name p = name -> find_param ps name = Some p.
Proof.
  induction ps as [|q r IH]; cbn; intros Hnd Hin Hn; [destruct Hin|].
  inversion Hnd as [|x l Hnotin Hnd']; subst.
  destruct Hin as [->|Hin].
  - rewrite (proj2 (lit_eqb_eq _ _) eq_refl). reflexivity.
  - destruct (lit_eqb (p_name q) (p_name p)) eqn:E; [|apply IH; auto].
    apply lit_eqb_eq in E. exfalso. apply Hnotin. rewrite E. apply in_map. exact Hin.
Qed.

Theorem find_param_perm ps ps' name :
  Permutation ps ps' -> NoDup (map p_name ps) -> find_param ps name = find_param ps' name.
Proof.
  intros Hp Hnd.
  assert (Hnd' : NoDup (map p_name ps')) by (eapply Permutation_NoDup; [apply Permutation_map; exact Hp|exact Hnd]).
  destruct (find_param ps name) as [p|] eqn:E.
  - destruct (find_param_in _ _ _ E) as [Hin Hn]. symmetry. apply find_param_unique; auto.
    eapply Permutation_in; eauto.
  - destruct (find_param ps' name) as [p'|] eqn:E'; [|reflexivity].
    destruct (find_param_in _ _ _ E') as [Hin Hn].
    rewrite (find_param_unique ps name p') in E; [discriminate E|exact Hnd| |exact Hn].
    eapply Permutation_in; [apply Permutation_sym; exact Hp|exact Hin].
Qed.

Section SiteOrder.
Variable s : list tok.
Variable argty : bool -> nat -> option ty.
Variable text_index : nat -> bool.
Variable ty_buchstabe : ty.
Notation check_go := (check_go s argty text_index ty_buchstabe).

(* the typed check (types, generic environment, argument map) of two declarations that differ
   only in the ORDER in which their parameters were declared is the same *)
Theorem check_go_param_order a a' toks : forall c e b,
  Permutation (a_params a) (a_params a') -> NoDup (map p_name (a_params a)) ->
  check_go a toks c e b = check_go a' toks c e b.
Proof.
  intros c e b Hp Hnd. revert c e b.
  induction toks as [|t r IH]; intros c e b; cbn [Select.check_go]; [reflexivity|].
  destruct (N.eqb (tt t) tt_EOF); [reflexivity|].
  destruct (is_placeholder t); [|apply IH].
  rewrite <- (find_param_perm _ _ (lit t) Hp Hnd).
  destruct (find_param (a_params a) (lit t)) as [p|]; [|reflexivity].
  destruct (p_ref p && negb (is_ref_start (peek_tt s c))); [reflexivity|].
  destruct (argty (p_ref p) c) as [typ|]; [|reflexivity].
  destruct (unify typ (p_ty p) e) as [u e1]. destruct u as [pt|]; [|reflexivity].
  destruct (negb (ty_eqb typ pt)); [reflexivity|].
  destruct (p_ref p && ty_eqb pt ty_buchstabe && text_index c); [reflexivity|].
  apply IH.
Qed.

(* the matcher and the checker walk the stream alike *)
Lemma arg_lists_agree : arg_single_match = arg_single_check /\ arg_neg_match = arg_neg_check.
Proof. split; reflexivity. Qed.

Lemma unit_end_extent c e : unit_end s c = UnitOk e -> unit_extent s c = e.
Proof.
  unfold unit_end, unit_extent, is_single_c, is_neg_operand_c.
  rewrite <- (proj1 arg_lists_agree), <- (proj2 arg_lists_agree).
  fold (is_single (peek_tt s c)). fold (is_neg_operand (peek_tt s (S c))).
  destruct (is_single (peek_tt s c)); [intros H; inversion H; reflexivity|].
  destruct (N.eqb (peek_tt s c) tt_NEGATE).
  - destruct (is_neg_operand (peek_tt s (S c))); intros H; inversion H; reflexivity.
  - destruct (N.eqb (peek_tt s c) tt_LPAREN); [|intros H; discriminate H].
    destruct (at_end s (scan_group (skipn (S c) s) 1 (S c))); intros H; inversion H; reflexivity.
Qed.
End SiteOrder.

(* ------------------------------------------------------------------------------------------ *)
(* candidates = the declared aliases whose pattern matches                                     *)
(* ------------------------------------------------------------------------------------------ *)
Notation ttrie := (trie tok alias).
Notation twf := (wf tok alias tok_eq).

(* every (path, value) stored below the root, in the order of Trie.Search *)
Fixpoint entries (t : ttrie) : list (list tok * alias) :=
  match t with
  | Node _ ch =>
    (fix go (l : list (tok * ttrie)) : list (list tok * alias) :=
       match l with
       | [] => []
       | (k, c) :: r =>
         map (fun v => ([k], v)) (opt_list alias (node_val c)) ++
         map (fun e => (k :: fst e, snd e)) (entries c) ++ go r
       end) ch
  end.

Section Search.
Variable s : list tok.

Lemma sget_own (m : list (tok * ttrie)) k v :
  uniq tok ttrie tok_eq m -> In (k, v) m -> sget tok_eq m k = Some v.
Proof.
  induction m as [|[k0 v0] r IH]; cbn; intros Hu Hin; [destruct Hin|].
  destruct Hu as [Hk Hu]. destruct Hin as [E|Hin].
  - inversion E; subst. rewrite tok_eq_refl. reflexivity.
  - rewrite Hk; [apply IH; assumption|]. unfold keys. apply (in_map fst _ _ Hin).
Qed.

Lemma get_own (m : list (tok * ttrie)) k v :
  uniq tok ttrie tok_eq m -> In (k, v) m -> get tok_eq tok_less m k = Some v.
Proof.
  intros Hu Hin. rewrite (get_is_sget tok ttrie tok_eq tok_less tok_eq_sym tok_eq_trans m k Hu).
  apply sget_own; assumption.
Qed.

Definition matching_entries (t : ttrie) (c : nat) : list alias :=
  map snd (filter (fun e => matches s (fst e) c) (entries t)).

Lemma matches_cons k ks c :
  matches s (k :: ks) c = match keygen s k c with Some c' => matches s ks c' | None => false end.
Proof. unfold matches. cbn. destruct (keygen s k c); reflexivity. Qed.

Lemma filter_map_cons k c c' (l : list (list tok * alias)) :
  keygen s k c = Some c' ->
  map snd (filter (fun e => matches s (fst e) c) (map (fun e => (k :: fst e, snd e)) l)) =
  map snd (filter (fun e => matches s (fst e) c') l).
Proof.
  intros Hk. induction l as [|[ks v] r IH]; cbn; [reflexivity|].
  rewrite matches_cons, Hk. destruct (matches s ks c'); cbn; rewrite IH; reflexivity.
Qed.

Lemma filter_map_cons_none k c (l : list (list tok * alias)) :
  keygen s k c = None ->
  filter (fun e => matches s (fst e) c) (map (fun e => (k :: fst e, snd e)) l) = [].
Proof.
  intros Hk. induction l as [|[ks v] r IH]; cbn; [reflexivity|].
  rewrite matches_cons, Hk. exact IH.
Qed.

(* Trie.Search with the parser's key generator never dereferences nil on a well-formed trie and
   returns exactly the values stored under the matching paths, in path order *)
Theorem search_cur_entries t : twf t -> forall c, search_cur s t c = Some (matching_entries t c).
Proof.
  induction 1 as [v ch Hu Hc IH]. intros c. unfold matching_entries. cbn [search_cur entries].
  assert (Hsub : forall l, (forall k x, In (k, x) l -> In (k, x) ch) ->
    (fix go (l : list (tok * ttrie)) : option (list alias) :=
       match l with
       | [] => Some []
       | (ck, child) :: r =>
         match keygen s ck c with
         | None => go r
         | Some c' =>
           match get tok_eq tok_less ch ck with
           | None => None
           | Some _ =>
             match search_cur s child c', go r with
             | Some x, Some y => Some (opt_list alias (node_val child) ++ x ++ y)
             | _, _ => None
             end
           end
         end
       end) l =
    Some (map snd (filter (fun e => matches s (fst e) c)
      ((fix go (l : list (tok * ttrie)) : list (list tok * alias) :=
         match l with
         | [] => []
         | (k, c0) :: r =>
           map (fun v => ([k], v)) (opt_list alias (node_val c0)) ++
           map (fun e => (k :: fst e, snd e)) (entries c0) ++ go r
         end) l)))).
  { induction l as [|[ck child] r IHl]; intros Hin; [reflexivity|].
    assert (Hr : forall k x, In (k, x) r -> In (k, x) ch) by (intros; apply Hin; right; assumption).
    specialize (IHl Hr).
    rewrite !filter_app, !map_app.
    destruct (keygen s ck c) as [c'|] eqn:Ek.
    - rewrite (get_own ch ck child Hu (Hin _ _ (or_introl eq_refl))).
      rewrite (IH ck child (Hin _ _ (or_introl eq_refl)) c'). rewrite IHl.
      rewrite (filter_map_cons ck c c' _ Ek). unfold matching_entries.
      f_equal. f_equal.
      destruct (node_val child) as [v0|]; cbn; [|reflexivity].
      rewrite matches_cons, Ek. cbn. reflexivity.
    - rewrite IHl. rewrite (filter_map_cons_none ck c _ Ek).
      destruct (node_val child) as [v0|]; cbn; [|reflexivity].
      rewrite matches_cons, Ek. reflexivity. }
  apply Hsub. auto.
Qed.

Corollary candidates_entries t c : twf t -> candidates s t c = matching_entries t c.
Proof. intros Hw. unfold candidates. rewrite (search_cur_entries t Hw c). reflexivity. Qed.

End Search.

(* the stored paths are exactly what the parser's exact lookup (aliasExists) sees *)
Lemma entries_lookup t : twf t -> forall ks v, In (ks, v) (entries t) -> ks <> [] /\ lookup tok_eq tok_less t ks = Some v.
Proof.
  induction 1 as [v0 ch Hu Hc IH]. intros ks v. cbn [entries].
  assert (Hsub : forall l, (forall k x, In (k, x) l -> In (k, x) ch) ->
    In (ks, v) ((fix go (l : list (tok * ttrie)) : list (list tok * alias) :=
         match l with
         | [] => []
         | (k, c0) :: r =>
           map (fun v => ([k], v)) (opt_list alias (node_val c0)) ++
           map (fun e => (k :: fst e, snd e)) (entries c0) ++ go r
         end) l) ->
    ks <> [] /\ lookup tok_eq tok_less (Node v0 ch) ks = Some v).
  { induction l as [|[k child] r IHl]; intros Hin H; [destruct H|].
    apply in_app_or in H. destruct H as [H|H].
    - destruct (node_val child) as [w|] eqn:Ev; cbn in H; [|destruct H].
      destruct H as [E|[]]. inversion E; subst. split; [discriminate|].
      rewrite (lookup_cons tok alias tok_eq tok_less).
      rewrite (get_own ch k child Hu (Hin _ _ (or_introl eq_refl))).
      destruct child as [cv cch]. cbn in Ev. subst cv. apply (lookup_nil tok alias tok_eq tok_less).
    - apply in_app_or in H. destruct H as [H|H].
      + apply in_map_iff in H. destruct H as [[ks0 w] [E H]]. cbn in E. inversion E; subst.
        split; [discriminate|].
        rewrite (lookup_cons tok alias tok_eq tok_less).
        rewrite (get_own ch k child Hu (Hin _ _ (or_introl eq_refl))).
        apply (IH k child (Hin _ _ (or_introl eq_refl))). exact H.
      + apply IHl; [intros; apply Hin; right; assumption|exact H]. }
  apply Hsub. auto.
Qed.

Lemma entries_node v ch ks a :
  In (ks, a) (entries (Node v ch)) <->
  exists k child, In (k, child) ch /\
    ((ks = [k] /\ node_val child = Some a) \/ exists ks0, ks = k :: ks0 /\ In (ks0, a) (entries child)).
Proof.
  cbn [entries]. induction ch as [|[k0 c0] r IH].
  - split; [intros []|intros (k & child & [] & _)].
  - rewrite !in_app_iff, IH. split.
    + intros [H|[H|H]].
      * exists k0, c0. split; [left; reflexivity|]. left.
        destruct (node_val c0) as [w|]; cbn in H; [|destruct H]. destruct H as [E|[]]. inversion E; subst. auto.
      * apply in_map_iff in H. destruct H as [[ks0 w] [E H]]. cbn in E. inversion E; subst.
        exists k0, c0. split; [left; reflexivity|]. right. eauto.
      * destruct H as (k & child & Hin & H). exists k, child. split; [right; exact Hin|exact H].
    + intros (k & child & [E|Hin] & H).
      * inversion E; subst. destruct H as [[-> Hv]|(ks0 & -> & H)].
        -- left. rewrite Hv. left. reflexivity.
        -- right. left. apply in_map_iff. exists (ks0, a). auto.
      * right. right. exists k, child. auto.
Qed.

Lemma sget_found (m : list (tok * ttrie)) k v :
  sget tok_eq m k = Some v -> exists k0, In (k0, v) m /\ tok_eq k0 k = true.
Proof.
  induction m as [|[k0 v0] r IH]; cbn; intros H; [discriminate H|].
  destruct (tok_eq k0 k) eqn:E.
  - inversion H; subst. exists k0. auto.
  - destruct (IH H) as (k1 & Hin & Ek). exists k1. auto.
Qed.

Lemma lookup_entries t : twf t -> forall ks v, ks <> [] -> lookup tok_eq tok_less t ks = Some v ->
  exists ks', eql tok_eq ks' ks = true /\ In (ks', v) (entries t).
Proof.
  induction 1 as [v0 ch Hu Hc IH]. intros ks v Hne Hl.
  destruct ks as [|k ks0]; [congruence|].
  rewrite (lookup_cons tok alias tok_eq tok_less) in Hl.
  destruct (get tok_eq tok_less ch k) as [child|] eqn:Eg; [|discriminate Hl].
  rewrite (get_is_sget tok ttrie tok_eq tok_less tok_eq_sym tok_eq_trans ch k Hu) in Eg.
  destruct (sget_found _ _ _ Eg) as (k0 & Hin & Ek).
  destruct ks0 as [|k1 ks1].
  - exists [k0]. split; [cbn; rewrite Ek; reflexivity|].
    apply entries_node. exists k0, child. split; [exact Hin|]. left. split; [reflexivity|].
    destruct child as [cv cch]. rewrite (lookup_nil tok alias tok_eq tok_less) in Hl. exact Hl.
  - destruct (IH k0 child Hin (k1 :: ks1) v) as (ks' & Ee & Hi); [discriminate|exact Hl|].
    exists (k0 :: ks'). split; [cbn [eql]; rewrite Ek; exact Ee|].
    apply entries_node. exists k0, child. split; [exact Hin|]. right. eauto.
Qed.

Section Congruence.
Variable s : list tok.

Lemma tok_eq_tt a b : tok_eq a b = true -> tt a = tt b.
Proof. unfold tok_eq. destruct (N.eqb_spec (tt a) (tt b)); [auto|intros H; discriminate H]. Qed.

Lemma tok_eq_right p a b : tok_eq a b = true -> tok_eq p a = tok_eq p b.
Proof.
  intros E. destruct (tok_eq p a) eqn:E1.
  - symmetry. eapply tok_eq_trans; eauto.
  - destruct (tok_eq p b) eqn:E2; [|reflexivity].
    assert (H : tok_eq p a = true) by (eapply tok_eq_trans; [exact E2|]; rewrite tok_eq_sym; exact E).
    congruence.
Qed.

Lemma keygen_congr a b c : tok_eq a b = true -> keygen s a c = keygen s b c.
Proof.
  intros E. unfold keygen, is_placeholder, literal_step.
  rewrite (tok_eq_tt _ _ E), (tok_eq_right (peek s c) _ _ E). reflexivity.
Qed.

Lemma match_pat_congr ks ks' : eql tok_eq ks ks' = true -> forall c, match_pat s ks c = match_pat s ks' c.
Proof.
  revert ks'. induction ks as [|k r IH]; intros [|k' r'] E c; cbn in *; try discriminate E; [reflexivity|].
  apply andb_true_iff in E. destruct E as [Ek Er].
  rewrite (keygen_congr _ _ c Ek). destruct (keygen s k' c); [apply IH; exact Er|reflexivity].
Qed.

(* CANDIDATES: Trie.Search under the parser's key generator returns exactly the aliases that
   aliasExists can find (the declared ones) under a non-empty token sequence matching here *)
Theorem candidates_spec t c a : twf t ->
  (In a (candidates s t c) <->
   exists ks, ks <> [] /\ lookup tok_eq tok_less t ks = Some a /\ matches s ks c = true).
Proof.
  intros Hw. rewrite (candidates_entries s t c Hw). unfold matching_entries. split.
  - intros H. apply in_map_iff in H. destruct H as [[ks v] [E H]]. cbn in E. subst v.
    apply filter_In in H. destruct H as [Hin Hm]. cbn in Hm.
    destruct (entries_lookup t Hw ks a Hin) as [Hne Hl]. eauto.
  - intros (ks & Hne & Hl & Hm).
    destruct (lookup_entries t Hw ks a Hne Hl) as (ks' & Ee & Hin).
    apply in_map_iff. exists (ks', a). split; [reflexivity|].
    apply filter_In. split; [exact Hin|]. cbn. unfold matches in *.
    rewrite (match_pat_congr ks' ks Ee c). exact Hm.
Qed.
End Congruence.

(* every trie the parser can build (any sequence of declarations) is well-formed *)
Lemma declare_wf t a : twf t -> twf (declare t a).
Proof.
  intros Hw. unfold declare. destruct (lookup tok_eq tok_less t (a_toks a)); [exact Hw|].
  apply (wf_insert tok alias tok_eq tok_less tok_eq_sym tok_eq_trans). exact Hw.
Qed.

Lemma declare_all_wf l : twf (declare_all l).
Proof.
  unfold declare_all.
  assert (H : forall t, twf t -> twf (fold_left declare l t)).
  { induction l as [|a r IH]; intros t Hw; cbn; [exact Hw|apply IH, declare_wf, Hw]. }
  apply H. apply (wf_empty tok alias tok_eq).
Qed.

(* a successfully declared alias stays a candidate wherever its own pattern matches *)
Lemma lookup_declare t a ks : twf t ->
  lookup tok_eq tok_less (declare t a) ks =
  match lookup tok_eq tok_less t (a_toks a) with
  | Some _ => lookup tok_eq tok_less t ks
  | None => if eql tok_eq (a_toks a) ks then Some a else lookup tok_eq tok_less t ks
  end.
Proof.
  intros Hw. unfold declare. destruct (lookup tok_eq tok_less t (a_toks a)) eqn:E; [reflexivity|].
  apply (lookup_insert tok alias tok_eq tok_less tok_eq_sym tok_eq_trans). exact Hw.
Qed.

Lemma lookup_congr ks1 : forall t ks2, twf t -> eql tok_eq ks1 ks2 = true ->
  lookup tok_eq tok_less t ks1 = lookup tok_eq tok_less t ks2.
Proof.
  induction ks1 as [|k1 r1 IH1]; intros t ks Hw Ee; destruct ks as [|k2 r2]; cbn in Ee; try discriminate Ee; [reflexivity|].
  apply andb_true_iff in Ee. destruct Ee as [Ek Er].
  destruct t as [tv tch]. rewrite !(lookup_cons tok alias tok_eq tok_less).
  inversion Hw as [v0 ch0 Hu Hch]; subst.
  rewrite (get_congr tok ttrie tok_eq tok_less tok_eq_sym tok_eq_trans tch k1 k2 Hu Ek).
  destruct (get tok_eq tok_less tch k2) as [child|] eqn:Eg; [|reflexivity].
  apply IH1; [|exact Er].
  eapply (wf_child tok alias tok_eq tok_less tok_eq_sym tok_eq_trans); [exact Hw|exact Eg].
Qed.

Lemma lookup_stable l : forall t ks v, twf t -> lookup tok_eq tok_less t ks = Some v ->
  lookup tok_eq tok_less (fold_left declare l t) ks = Some v.
Proof.
  induction l as [|a r IH]; intros t ks v Hw Hl; cbn; [exact Hl|].
  apply IH; [apply declare_wf; exact Hw|].
  rewrite lookup_declare by exact Hw.
  destruct (lookup tok_eq tok_less t (a_toks a)) eqn:E; [exact Hl|].
  destruct (eql tok_eq (a_toks a) ks) eqn:Ee; [|exact Hl].
  rewrite (lookup_congr _ _ _ Hw Ee) in E. congruence.
Qed.

Theorem declared_is_candidate s l1 a l2 c :
  a_toks a <> [] ->
  lookup tok_eq tok_less (declare_all l1) (a_toks a) = None ->     (* the declaration of a is accepted *)
  matches s (a_toks a) c = true ->
  In a (candidates s (declare_all (l1 ++ a :: l2)) c).
Proof.
  intros Hne Hfree Hm.
  apply candidates_spec; [apply declare_all_wf|].
  exists (a_toks a). split; [exact Hne|]. split; [|exact Hm].
  unfold declare_all. rewrite fold_left_app. cbn [fold_left].
  apply lookup_stable; [apply declare_wf; apply declare_all_wf|].
  rewrite lookup_declare by apply declare_all_wf.
  fold (declare_all l1). rewrite Hfree.
  rewrite (eql_refl tok tok_eq tok_eq_refl). reflexivity.
Qed.

(* ------------------------------------------------------------------------------------------ *)
(* the property's own wording of the order; where it holds and where it does not               *)
(* ------------------------------------------------------------------------------------------ *)
Lemma generic_counted a : a_generic a = true <-> 0 < gen_count a.
Proof. unfold a_generic. apply Nat.ltb_lt. Qed.

Lemma maximal_in_property_terms c a :
  alias_less c a = false ->
  alias_len c <= alias_len a /\
  (alias_len c = alias_len a ->
     (a_generic a = true -> a_generic c = true) /\                          (* non-generic before generic *)
     (a_generic a = false -> a_generic c = false -> ref_count c <= ref_count a)).   (* then more Referenz *)
Proof.
  intros Hl. destruct (not_less_explicit _ _ Hl) as [H1 H2]. split; [exact H1|].
  intros El. destruct (H2 El) as [Hg Hr]. split.
  - intros Ga. apply generic_counted. apply generic_counted in Ga. lia.
  - intros Ga Gc. apply Hr.
    assert (~ 0 < gen_count a) by (intros X; apply generic_counted in X; congruence).
    assert (~ 0 < gen_count c) by (intros X; apply generic_counted in X; congruence). lia.
Qed.

(* documentation of the repaired defect (3e80d99): "foo <a>" declared for a Zahlen Liste and,
   generically, for a T Liste. Under the old key (only parameters whose type IS a type parameter
   count) the two tie; under the current key the non-generic one sorts first and is selected
   whatever the declaration order. *)
Definition w_foo : tok := {| tt := tt_IDENTIFIER; lit := [102; 111; 111]%N; ainfo := None |}.
Definition w_var : tok := {| tt := tt_IDENTIFIER; lit := [118; 122; 108]%N; ainfo := None |}.
Definition w_ph (rank id : N) : tok :=
  {| tt := tt_ALIAS_PARAMETER; lit := [97%N]; ainfo := Some {| t_ref := false; t_list := true; t_name := rank; t_id := id |} |}.
Definition w_zl : ty := TList (TBase 1).
Definition w_conc : alias := mkAlias 1 1 [w_foo; w_ph 2 2] [mkParam [97%N] w_zl false] false.
Definition w_gen : alias := mkAlias 2 2 [w_foo; w_ph 1 1] [mkParam [97%N] (TList (TGen 1)) false] false.
Definition w_stream : list tok := [w_foo; w_var].
Definition w_argty (isref : bool) (c : nat) : option ty := if Nat.eqb c 1 then Some w_zl else None.
Definition w_select (order : list alias) : outcome :=
  select w_stream w_argty (fun _ => false) (fun _ _ => true) (TBase 5) (declare_all order) 0.

Lemma old_sort_key_tied_witness :
  gen_count_direct w_conc = gen_count_direct w_gen /\ a_generic w_gen = true /\ a_generic w_conc = false /\
  alias_less w_conc w_gen = true /\
  (exists b e, w_select [w_conc; w_gen] = Selected w_conc b e) /\
  (exists b e, w_select [w_gen; w_conc] = Selected w_conc b e).
Proof. vm_compute. repeat split; eauto. Qed.

(* ------------------------------------------------------------------------------------------ *)
(* negation                                                                                    *)
(* ------------------------------------------------------------------------------------------ *)
Section Neg.
Variable callv : N -> list binding -> bool.     (* what the called function returns *)
Fixpoint eval (e : cexpr) : bool :=
  match e with
  | ECall f b => callv f b
  | ENot e' => negb (eval e')
  end.

Theorem negated_is_not a b :
  eval (call_of a b) = if a_neg a then negb (callv (a_fn a) b) else callv (a_fn a) b.
Proof. unfold call_of. destruct (a_neg a); reflexivity. Qed.

(* the two aliases a marker produces call the same function: the negated one yields the negation *)
Corollary negated_pair a n b :
  a_fn a = a_fn n -> a_neg a = false -> a_neg n = true ->
  eval (call_of n b) = negb (eval (call_of a b)).
Proof. intros Ef Ha Hn. rewrite !negated_is_not, Ha, Hn, Ef. reflexivity. Qed.
End Neg.

(* the marker "<!x>" in an alias literal declares "..x.." (Negated) and ".." (plain), in this order *)
Definition no_marker_in (pre : list N) : Prop :=
  forall i, nth_error pre i = Some c_lt -> nth_error pre (S i) <> Some c_bang.

Lemma index_of2_step a b r i :
  index_of2 c_lt c_bang (a :: b :: r) i =
  if N.eqb a c_lt && N.eqb b c_bang then Some i else index_of2 c_lt c_bang (b :: r) (S i).
Proof. reflexivity. Qed.

Lemma index_of2_marker pre rest : no_marker_in pre -> forall i,
  index_of2 c_lt c_bang (pre ++ c_lt :: c_bang :: rest) i = Some (i + length pre).
Proof.
  induction pre as [|p pre IH]; intros Hn i.
  - cbn [app length]. rewrite index_of2_step, !N.eqb_refl. cbn. f_equal. lia.
  - assert (Hn' : no_marker_in pre) by (intros j Hj; apply (Hn (S j)); exact Hj).
    specialize (IH Hn' (S i)).
    destruct pre as [|q pre'].
    + cbn [app length] in *. rewrite index_of2_step.
      replace (N.eqb p c_lt && N.eqb c_lt c_bang) with false by (rewrite andb_comm; reflexivity).
      rewrite IH. f_equal. lia.
    + cbn [app length] in *. rewrite index_of2_step.
      destruct (N.eqb p c_lt && N.eqb q c_bang) eqn:E.
      * apply andb_true_iff in E. destruct E as [E1 E2]. apply N.eqb_eq in E1, E2. subst.
        exfalso. apply (Hn 0); reflexivity.
      * rewrite IH. f_equal. lia.
Qed.

Lemma index_of1_first x post : ~ In c_gt x -> forall i, index_of1 c_gt (x ++ c_gt :: post) i = Some (i + length x).
Proof.
  induction x as [|a x IH]; intros Hn i; cbn.
  - f_equal. lia.
  - destruct (N.eqb_spec a c_gt) as [->|Hne]; [exfalso; apply Hn; left; reflexivity|].
    rewrite IH by (intros H; apply Hn; right; exact H). f_equal. lia.
Qed.

Theorem expand_marker_forms pre x post :
  no_marker_in pre -> ~ In c_gt x ->
  expand_marker (pre ++ c_lt :: c_bang :: x ++ c_gt :: post) =
  Some [(pre ++ x ++ post, true); (pre ++ post, false)].
Proof.
  intros Hp Hx. unfold expand_marker.
  rewrite (index_of2_marker pre (x ++ c_gt :: post) Hp 0). cbn [Nat.add].
  set (lit := pre ++ c_lt :: c_bang :: x ++ c_gt :: post).
  assert (Hskip : skipn (length pre + 2) lit = x ++ c_gt :: post).
  { unfold lit. rewrite skipn_app. rewrite (skipn_all2 pre) by lia.
    replace (length pre + 2 - length pre) with 2 by lia. reflexivity. }
  rewrite Hskip, (index_of1_first x post Hx 0). cbn [Nat.add].
  assert (Hfirst : firstn (length pre) lit = pre).
  { unfold lit. rewrite firstn_app, Nat.sub_diag, firstn_all. cbn. apply app_nil_r. }
  assert (Hslice : slice lit (length pre + 2) (length pre + 2 + length x + 1 - 1) = x).
  { unfold slice. rewrite Hskip.
    replace (length pre + 2 + length x + 1 - 1 - (length pre + 2)) with (length x) by lia.
    rewrite firstn_app, Nat.sub_diag, firstn_all. cbn. apply app_nil_r. }
  assert (Hrest : skipn (length pre + 2 + length x + 1) lit = post).
  { assert (El : lit = (pre ++ [c_lt; c_bang] ++ x ++ [c_gt]) ++ post).
    { unfold lit. repeat (rewrite <- app_assoc; cbn [app]). reflexivity. }
    assert (Len : length (pre ++ [c_lt; c_bang] ++ x ++ [c_gt]) = length pre + 2 + length x + 1).
    { rewrite !app_length. cbn. lia. }
    rewrite El, <- Len, skipn_app, skipn_all, Nat.sub_diag. reflexivity. }
  rewrite Hfirst, Hslice, Hrest. reflexivity.
Qed.

Lemma expand_marker_plain lit : index_of2 c_lt c_bang lit 0 = None -> expand_marker lit = Some [(lit, false)].
Proof. intros H. unfold expand_marker. rewrite H. reflexivity. Qed.

(* ------------------------------------------------------------------------------------------ *)
(* the statements of Props/C09.v, assembled                                                    *)
(* ------------------------------------------------------------------------------------------ *)
Section Assembled.
Variable s : list tok.
Variable argty : bool -> nat -> option ty.
Variable text_index : nat -> bool.
Variable inst_ok : alias -> genv -> bool.
Variable ty_buchstabe : ty.
Notation check_alias := (check_alias s argty text_index inst_ok ty_buchstabe).
Notation check_ok := (check_ok s argty text_index inst_ok ty_buchstabe).
Notation select_from := (select_from s argty text_index inst_ok ty_buchstabe).

(* what the code guarantees, for every population, stream, position and every permutation a
   correct sort may hand back: the selected alias is declared, matches here, type-matches, and no
   other declared, matching, type-matching alias is longer / of equal length with fewer counted
   generic parameters / of equal length and count with more Referenz parameters *)
Theorem select_maximal_explicit decls start l a b e :
  sorted_perm (candidates s (declare_all decls) start) l ->
  select_from l start = Selected a b e ->
  (exists ks, ks <> [] /\ lookup tok_eq tok_less (declare_all decls) ks = Some a /\ matches s ks start = true) /\
  check_alias a start = Some (b, e) /\
  forall c ks, ks <> [] -> lookup tok_eq tok_less (declare_all decls) ks = Some c -> matches s ks start = true ->
    check_ok c start = true ->
    alias_len c <= alias_len a /\
    (alias_len c = alias_len a -> gen_count a <= gen_count c /\ (gen_count c = gen_count a -> ref_count c <= ref_count a)).
Proof.
  intros Hsp Hsel. destruct (select_maximal s argty text_index inst_ok ty_buchstabe _ _ _ _ _ _ Hsp Hsel) as (Hin & Hc & Hmax).
  split; [apply (candidates_spec s _ start a (declare_all_wf decls)); exact Hin|]. split; [exact Hc|].
  intros c ks Hne Hl Hm Hok. apply not_less_explicit. apply Hmax; [|exact Hok].
  apply (candidates_spec s _ start c (declare_all_wf decls)). eauto.
Qed.

(* the property's own wording: longest; then a non-generic declaration before a generic one; then
   more Referenz parameters *)
Theorem select_maximal_property decls start l a b e :
  sorted_perm (candidates s (declare_all decls) start) l ->
  select_from l start = Selected a b e ->
  In a (candidates s (declare_all decls) start) /\ check_alias a start = Some (b, e) /\
  forall c, In c (candidates s (declare_all decls) start) -> check_ok c start = true ->
    alias_len c <= alias_len a /\
    (alias_len c = alias_len a ->
       (a_generic a = true -> a_generic c = true) /\
       (a_generic a = false -> a_generic c = false -> ref_count c <= ref_count a)).
Proof.
  intros Hsp Hsel. destruct (select_maximal s argty text_index inst_ok ty_buchstabe _ _ _ _ _ _ Hsp Hsel) as (Hin & Hc & Hmax).
  split; [exact Hin|]. split; [exact Hc|]. intros c Hcin Hok.
  apply maximal_in_property_terms; auto.
Qed.
End Assembled.
