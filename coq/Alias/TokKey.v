(* Model of the alias-trie key predicates tokenEqual / tokenLess (src/parser/util.go:15-67).
   A placeholder's parameter type is abstracted to what the predicates look at:
     t_ref  : IsReference
     t_list : ddptypes.IsList
     t_name : rank of GetUnderlying(type).String() in byte order (supplied by the harness from
              the real String() values, so the rank order IS the string order)
     t_id   : identity of GetUnderlying(type) (ddptypes.Equal compares these) *)
From Coq Require Import List NArith Bool Lia.
Import ListNotations.
From DDP Require Import Gen.Tokens.
Open Scope N_scope.

Record tinfo := { t_ref : bool; t_list : bool; t_name : N; t_id : N }.
Record tok := { tt : N; lit : list N; ainfo : option tinfo }.

Fixpoint lit_eqb (a b : list N) : bool :=
  match a, b with
  | [], [] => true
  | x :: a', y :: b' => (x =? y) && lit_eqb a' b'
  | _, _ => false
  end.

(* Go string < : lexicographic on bytes *)
Fixpoint lit_ltb (a b : list N) : bool :=
  match a, b with
  | [], [] => false
  | [], _ :: _ => true
  | _ :: _, [] => false
  | x :: a', y :: b' => if x <? y then true else if y <? x then false else lit_ltb a' b'
  end.

Definition has_literal (t : N) : bool :=
  (t =? tt_IDENTIFIER) || (t =? tt_SYMBOL) || (t =? tt_INT) || (t =? tt_FLOAT) || (t =? tt_CHAR) || (t =? tt_STRING).

Definition type_equal (a b : tinfo) : bool := Bool.eqb (t_list a) (t_list b) && (t_id a =? t_id b).

Definition tinfo_eqb (a b : tinfo) : bool := Bool.eqb (t_ref a) (t_ref b) && type_equal a b.

Definition b2n (b : bool) : N := if b then 1 else 0.

Definition tok_eq (a b : tok) : bool :=
  if tt a =? tt b then
    if tt a =? tt_ALIAS_PARAMETER then
      match ainfo a, ainfo b with
      | Some x, Some y => tinfo_eqb x y
      | None, None => true
      | _, _ => false
      end
    else if has_literal (tt a) then lit_eqb (lit a) (lit b)
    else true
  else false.

Definition tok_less (a b : tok) : bool :=
  if negb (tt a =? tt b) then tt a <? tt b
  else if tt a =? tt_ALIAS_PARAMETER then
    match ainfo a, ainfo b with
    | Some x, Some y =>
      if negb (Bool.eqb (t_ref x) (t_ref y)) then b2n (t_ref x) <? b2n (t_ref y)
      else if negb (Bool.eqb (t_list x) (t_list y)) then b2n (t_list x) <? b2n (t_list y)
      else t_name x <? t_name y
    | _, _ => false
    end
  else if has_literal (tt a) then lit_ltb (lit a) (lit b)
  else false.

(* ---- tok_eq is an equivalence: the hypothesis of the trie theorems is met by the real keys ---- *)
Lemma lit_eqb_refl a : lit_eqb a a = true.
Proof. induction a; cbn; [reflexivity|]. rewrite N.eqb_refl; assumption. Qed.
Lemma lit_eqb_sym a b : lit_eqb a b = lit_eqb b a.
Proof. revert b; induction a as [|x a IH]; intros [|y b]; cbn; try reflexivity. rewrite N.eqb_sym, IH; reflexivity. Qed.
Lemma lit_eqb_eq a b : lit_eqb a b = true <-> a = b.
Proof.
  revert b; induction a as [|x a IH]; intros [|y b]; cbn; split; intros H; try congruence; try reflexivity.
  - apply andb_true_iff in H. destruct H as [H1 H2]. apply N.eqb_eq in H1. apply IH in H2. congruence.
  - inversion H; subst. rewrite N.eqb_refl. apply IH. reflexivity.
Qed.

Lemma tinfo_eqb_refl x : tinfo_eqb x x = true.
Proof. unfold tinfo_eqb, type_equal. rewrite !Bool.eqb_reflx, N.eqb_refl. reflexivity. Qed.
Lemma eqb_bool_sym a b : Bool.eqb a b = Bool.eqb b a.
Proof. destruct a, b; reflexivity. Qed.
Lemma tinfo_eqb_sym x y : tinfo_eqb x y = tinfo_eqb y x.
Proof. unfold tinfo_eqb, type_equal. rewrite (eqb_bool_sym (t_ref x)), (eqb_bool_sym (t_list x)), (N.eqb_sym (t_id x)). reflexivity. Qed.
Lemma tinfo_eqb_trans x y z : tinfo_eqb x y = true -> tinfo_eqb y z = true -> tinfo_eqb x z = true.
Proof.
  unfold tinfo_eqb, type_equal. intros H1 H2.
  apply andb_true_iff in H1; destruct H1 as [A1 B1]. apply andb_true_iff in B1; destruct B1 as [B1 C1].
  apply andb_true_iff in H2; destruct H2 as [A2 B2]. apply andb_true_iff in B2; destruct B2 as [B2 C2].
  apply Bool.eqb_prop in A1, A2, B1, B2. apply N.eqb_eq in C1, C2.
  rewrite A1, A2, B1, B2, C1, C2. rewrite !Bool.eqb_reflx, N.eqb_refl. reflexivity.
Qed.

Lemma tok_eq_refl a : tok_eq a a = true.
Proof.
  unfold tok_eq. rewrite N.eqb_refl. destruct (tt a =? tt_ALIAS_PARAMETER).
  - destruct (ainfo a); [apply tinfo_eqb_refl|reflexivity].
  - destruct (has_literal (tt a)); [apply lit_eqb_refl|reflexivity].
Qed.

Lemma tok_eq_sym a b : tok_eq a b = tok_eq b a.
Proof.
  unfold tok_eq. rewrite (N.eqb_sym (tt b)). destruct (tt a =? tt b) eqn:E; [|reflexivity].
  apply N.eqb_eq in E. rewrite <- E.
  destruct (tt a =? tt_ALIAS_PARAMETER).
  - destruct (ainfo a), (ainfo b); try reflexivity. apply tinfo_eqb_sym.
  - destruct (has_literal (tt a)); [apply lit_eqb_sym|reflexivity].
Qed.

Lemma tok_eq_trans a b c : tok_eq a b = true -> tok_eq b c = true -> tok_eq a c = true.
Proof.
  unfold tok_eq. intros H1 H2.
  destruct (tt a =? tt b) eqn:E1; [|discriminate H1]. destruct (tt b =? tt c) eqn:E2; [|discriminate H2].
  apply N.eqb_eq in E1, E2. rewrite <- E1 in *. rewrite <- E2. rewrite N.eqb_refl.
  destruct (tt a =? tt_ALIAS_PARAMETER).
  - destruct (ainfo a), (ainfo b), (ainfo c); try congruence. eapply tinfo_eqb_trans; eauto.
  - destruct (has_literal (tt a)); [|reflexivity].
    apply lit_eqb_eq in H1, H2. apply lit_eqb_eq. congruence.
Qed.

(* ---- the ordering is NOT consistent with equality: two distinct Kombinationen that print alike
        are incomparable yet different. This is why a binary search alone loses keys. ---- *)
Definition ph (name id : N) : tok :=
  {| tt := tt_ALIAS_PARAMETER; lit := []; ainfo := Some {| t_ref := false; t_list := false; t_name := name; t_id := id |} |}.

Lemma tok_trichotomy_refuted :
  exists a b, tok_eq a b = false /\ tok_less a b = false /\ tok_less b a = false.
Proof. exists (ph 1 1), (ph 1 2). vm_compute. auto. Qed.
