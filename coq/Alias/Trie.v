(* Model of src/parser/alias_trie/trie.go over the ordered map of OMap.v. *)
From Coq Require Import List Arith Bool Lia.
Import ListNotations.
From DDP Require Import Alias.OMap.

Section Trie.
Variables K V : Type.
Variable keq klt : K -> K -> bool.
(* what the parser's key generator looks at: is a trie key a placeholder (ALIAS_PARAMETER), does a
   call token start (here: is) an argument *)
Variable isph isarg : K -> bool.

Inductive trie := Node (val : option V) (children : list (K * trie)).

Definition empty : trie := Node None [].
Definition node_val (t : trie) := match t with Node v _ => v end.
Definition node_children (t : trie) := match t with Node _ c => c end.

(* Insert(key, value): walk/create the path, then set value and hasValue *)
Fixpoint insert (ks : list K) (v : V) (t : trie) : trie :=
  match t with
  | Node val ch =>
    match ks with
    | [] => Node (Some v) ch
    | k :: ks' =>
      match get keq klt ch k with
      | Some child => Node val (set keq klt ch k (insert ks' v child))
      | None => Node val (set keq klt ch k (insert ks' v empty))
      end
    end
  end.

(* Contains(keys): (false, _) if the path does not exist, else (true, node.value) *)
Fixpoint contains (ks : list K) (t : trie) : option (option V) :=
  match t with
  | Node val ch =>
    match ks with
    | [] => Some val
    | k :: ks' =>
      match get keq klt ch k with
      | Some child => contains ks' child
      | None => None
      end
    end
  end.

(* parser.aliasExists: the path exists AND carries a value *)
Definition lookup (t : trie) (ks : list K) : option V :=
  match contains ks t with Some (Some v) => Some v | _ => None end.

Definition opt_list (o : option V) : list V := match o with Some v => [v] | None => [] end.

(* The key generator of parser.alias (alias.go:29-78), with arguments abstracted to ONE token of an
   argument class (INT, FLOAT, TRUE, FALSE, CHAR, STRING, IDENTIFIER, SYMBOL; the real generator also
   swallows "-x" and a bracketed group as one argument): asked for the key to compare with the child
   key ck while the call is at token q, it hands back ck ITSELF if ck is a placeholder and q is an
   argument, and the call token q otherwise. Either way one call token is consumed. *)
Definition gen_key (q ck : K) : K := if isph ck && isarg q then ck else q.
(* Trie.Search descends into a child iff key_eq(generated key, child key) *)
Definition kmatch (q ck : K) : bool := keq (gen_key q ck) ck.

(* a call (prefix) instantiates a pattern: every placeholder of the pattern stands for an argument
   (or an equal placeholder token), every other token is equal *)
Fixpoint inst_prefix (ks q : list K) : bool :=
  match ks, q with
  | [], _ => true
  | ck :: ks', k :: q' => kmatch k ck && inst_prefix ks' q'
  | _ :: _, [] => false
  end.
Fixpoint instantiates (ks c : list K) : bool :=
  match ks, c with
  | [], [] => true
  | ck :: ks', k :: c' => kmatch k ck && instantiates ks' c'
  | _, _ => false
  end.

(* Search with that generator over the call tokens q, the cursor remembered per node (what
   parser.alias does with start_indices): at depth d the call is at q[d]. EVERY matching child is
   explored, in map order - a literal match does not exclude the placeholder siblings.
   None = the nil dereference of trie.go:115 (Get on a key being iterated returns nothing). *)
Fixpoint search_seq (q : list K) (t : trie) : option (list V) :=
  match t with
  | Node _ ch =>
    match q with
    | [] => Some []
    | k :: q' =>
      (fix go (l : list (K * trie)) : option (list V) :=
         match l with
         | [] => Some []
         | (ck, c) :: r =>
           if kmatch k ck then
             match get keq klt ch ck with
             | None => None
             | Some _ =>
               match search_seq q' c, go r with
               | Some a, Some b => Some (opt_list (node_val c) ++ a ++ b)
               | _, _ => None
               end
             end
           else go r
         end) ch
    end
  end.

(* Copy: rebuild every children map by Set in iteration order *)
Fixpoint copy (t : trie) : trie :=
  match t with
  | Node val ch =>
    Node val ((fix go (l : list (K * trie)) (acc : list (K * trie)) : list (K * trie) :=
                 match l with
                 | [] => acc
                 | (k, c) :: r => go r (set keq klt acc k (copy c))
                 end) ch [])
  end.

(* the parser's protocol:
   Declare = aliasExists ? diagnostic : Insert                (parser.go, declarations.go)
   Put     = Insert without looking first: overwrites the value of an equal key
             (alias.go generateGenericContext: the declaration-site aliases of a generic function
             are Inserted unconditionally into the COPY of the instantiating parser's trie)
   Fork    = Copy the current trie, run the inner history on the copy (the body of the generic
             instantiation is parsed with it), discard the copy and continue on the ORIGINAL.
             Forks nest (an instantiation that instantiates). *)
Inductive top :=
| Declare (ks : list K) (v : V) | Lookup (ks : list K) | Search (q : list K)
| Put (ks : list K) (v : V) | Fork (inner : list top).
Inductive tout :=
| Declared | Rejected (existing : V) | Found (r : option V) | Matches (r : option (list V))
| PutDone | ForkBegin | ForkEnd.

(* one operation: the trie afterwards and the outputs (a fork shows the outputs of its inner
   history between ForkBegin and ForkEnd) *)
Fixpoint tstep_rec (o : top) (t : trie) {struct o} : trie * list tout :=
  match o with
  | Declare ks v => match lookup t ks with
                    | Some w => (t, [Rejected w])
                    | None => (insert ks v t, [Declared])
                    end
  | Lookup ks => (t, [Found (lookup t ks)])
  | Search q => (t, [Matches (search_seq q t)])
  | Put ks v => (insert ks v t, [PutDone])
  | Fork inner =>
    (t, ForkBegin ::
        (fix go (l : list top) (c : trie) : list tout :=
           match l with
           | [] => []
           | o' :: r => let '(c', out) := tstep_rec o' c in out ++ go r c'
           end) inner (copy t) ++ [ForkEnd])
  end.

Definition tstep (t : trie) (o : top) : trie * list tout := tstep_rec o t.

Fixpoint trun (t : trie) (ops : list top) : list tout :=
  match ops with
  | [] => []
  | o :: r => let '(t', out) := tstep t o in out ++ trun t' r
  end.

(* the history without its (top-level, hence all) forks *)
Definition is_fork (o : top) : bool := match o with Fork _ => true | _ => false end.
Definition is_put (o : top) : bool := match o with Put _ _ => true | _ => false end.
Definition erase_forks (ops : list top) : list top := filter (fun o => negb (is_fork o)) ops.

(* the outputs outside of ForkBegin .. matching ForkEnd (d = nesting depth) *)
Fixpoint strip_forks (d : nat) (outs : list tout) : list tout :=
  match outs with
  | [] => []
  | ForkBegin :: r => strip_forks (S d) r
  | ForkEnd :: r => strip_forks (pred d) r
  | x :: r => match d with 0 => x :: strip_forks 0 r | _ => strip_forks d r end
  end.

(* specification: association list keyed by token sequences compared pointwise with keq *)
Fixpoint eql (a b : list K) : bool :=
  match a, b with
  | [], [] => true
  | x :: a', y :: b' => keq x y && eql a' b'
  | _, _ => false
  end.

End Trie.

Arguments Node {K V}.
Arguments empty {K V}.
Arguments node_val {K V}.
Arguments node_children {K V}.
Arguments insert {K V}.
Arguments contains {K V}.
Arguments lookup {K V}.
Arguments search_seq {K V}.
Arguments gen_key {K}.
Arguments kmatch {K}.
Arguments inst_prefix {K}.
Arguments instantiates {K}.
Arguments copy {K V}.
Arguments Declare {K V}.
Arguments Lookup {K V}.
Arguments Search {K V}.
Arguments Put {K V}.
Arguments Fork {K V}.
Arguments Declared {V}.
Arguments Rejected {V}.
Arguments Found {V}.
Arguments Matches {V}.
Arguments PutDone {V}.
Arguments ForkBegin {V}.
Arguments ForkEnd {V}.
Arguments tstep_rec {K V}.
Arguments is_fork {K V}.
Arguments is_put {K V}.
Arguments erase_forks {K V}.
Arguments strip_forks {V}.
Arguments tstep {K V}.
Arguments trun {K V}.
Arguments eql {K}.
