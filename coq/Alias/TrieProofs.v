(* The alias trie refines an association list keyed by token sequences (compared pointwise by
   keq): duplicates are rejected, declared aliases stay callable. Only hypothesis: keq is an
   equivalence. *)
From Coq Require Import List Arith Bool Lia.
Import ListNotations.
From DDP Require Import Alias.OMap Alias.OMapProofs Alias.Trie.

Section Proofs.
Variables K V : Type.
Variable keq klt : K -> K -> bool.
Hypothesis keq_refl : forall a, keq a a = true.
Hypothesis keq_sym : forall a b, keq a b = keq b a.
Hypothesis keq_trans : forall a b c, keq a b = true -> keq b c = true -> keq a c = true.

Notation trie := (trie K V).
Notation uniq := (uniq K (Trie.trie K V) keq).

Inductive wf : trie -> Prop :=
| wf_node v ch : uniq ch -> (forall k c, In (k, c) ch -> wf c) -> wf (Node v ch).

Lemma wf_empty : wf empty.
Proof. constructor; [exact I|intros ? ? []]. Qed.

Lemma lookup_nil (v : option V) (ch : list (K * trie)) : lookup keq klt (Node v ch) [] = v.
Proof. unfold lookup; cbn. destruct v; reflexivity. Qed.

Lemma lookup_cons (v : option V) (ch : list (K * trie)) k ks :
  lookup keq klt (Node v ch) (k :: ks) =
  match get keq klt ch k with Some c => lookup keq klt c ks | None => None end.
Proof. unfold lookup; cbn. destruct (get keq klt ch k); reflexivity. Qed.

Lemma lookup_empty ks : lookup keq klt (@empty K V) ks = None.
Proof. destruct ks; reflexivity. Qed.

Lemma wf_child (v : option V) (ch : list (K * trie)) k c : wf (Node v ch) -> get keq klt ch k = Some c -> wf c.
Proof.
  intros Hw Hg. inversion Hw as [v0 ch0 Hu Hc]; subst.
  edestruct (get_in K) as [k0 Hin]; [| |exact Hu|exact Hg|]; eauto.
Qed.

Lemma wf_insert ks (v : V) (t : trie) : wf t -> wf (insert keq klt ks v t).
Proof.
  revert t. induction ks as [|k ks IH]; intros [val ch] Hw; cbn.
  - inversion Hw; subst. constructor; assumption.
  - inversion Hw as [v0 ch0 Hu Hc]; subst.
    assert (Hgoal : forall child, wf child -> wf (Node val (set keq klt ch k (insert keq klt ks v child)))).
    { intros child Hwc. constructor.
      - eapply uniq_set; eauto.
      - intros k0 c Hin. apply in_set in Hin. destruct Hin as [->|Hin]; [apply IH; assumption|eauto]. }
    destruct (get keq klt ch k) as [child|] eqn:Eg.
    + apply Hgoal. eapply wf_child; eauto.
    + apply Hgoal. apply wf_empty.
Qed.

(* the law that makes the trie a map from token sequences *)
Lemma lookup_insert ks (v : V) (t : trie) ks' :
  wf t ->
  lookup keq klt (insert keq klt ks v t) ks' = if eql keq ks ks' then Some v else lookup keq klt t ks'.
Proof.
  revert t ks'. induction ks as [|k ks IH]; intros [val ch] ks' Hw.
  - cbn [insert]. destruct ks' as [|k' ks'].
    + rewrite lookup_nil. reflexivity.
    + rewrite !lookup_cons. reflexivity.
  - inversion Hw as [v0 ch0 Hu Hc]; subst.
    destruct ks' as [|k' ks'].
    + cbn [insert eql]. destruct (get keq klt ch k); rewrite !lookup_nil; reflexivity.
    + cbn [eql].
      assert (Hgoal : forall child, wf child ->
                (match get keq klt ch k' with Some c => lookup keq klt c ks' | None => None end
                 = if keq k k' then lookup keq klt child ks' else
                     match get keq klt ch k' with Some c => lookup keq klt c ks' | None => None end) ->
                lookup keq klt (Node val (set keq klt ch k (insert keq klt ks v child))) (k' :: ks')
                = if keq k k' && eql keq ks ks' then Some v else lookup keq klt (Node val ch) (k' :: ks')).
      { intros child Hwc Hold. rewrite !lookup_cons.
        erewrite get_set; [|exact keq_sym|exact keq_trans|exact Hu].
        destruct (keq k k') eqn:E; cbn [andb].
        - rewrite IH by assumption. destruct (eql keq ks ks'); [reflexivity|]. symmetry; exact Hold.
        - reflexivity. }
      cbn [insert]. destruct (get keq klt ch k) as [child|] eqn:Eg.
      * apply Hgoal; [eapply wf_child; eauto|].
        destruct (keq k k') eqn:E; [|reflexivity].
        erewrite <- (get_congr K _ keq klt), Eg; [reflexivity|exact keq_sym|exact keq_trans|exact Hu|exact E].
      * apply Hgoal; [apply wf_empty|].
        destruct (keq k k') eqn:E; [|reflexivity].
        erewrite <- (get_congr K _ keq klt), Eg, ?lookup_empty; [reflexivity|exact keq_sym|exact keq_trans|exact Hu|exact E].
Qed.

(* ---- specification and refinement over histories ---- *)
Fixpoint slookup (l : list (list K * V)) (ks : list K) : option V :=
  match l with
  | [] => None
  | (ks0, v) :: r => if eql keq ks0 ks then Some v else slookup r ks
  end.

Definition sstep (l : list (list K * V)) (o : top K V) : list (list K * V) * option (tout V) :=
  match o with
  | Declare ks v => match slookup l ks with
                    | Some w => (l, Some (Rejected w))
                    | None => ((ks, v) :: l, Some Declared)
                    end
  | Lookup ks => (l, Some (Found (slookup l ks)))
  | Search _ => (l, None)
  end.

Fixpoint srun (l : list (list K * V)) (ops : list (top K V)) : list (option (tout V)) :=
  match ops with
  | [] => []
  | o :: r => let '(l', out) := sstep l o in out :: srun l' r
  end.

Definition obs (o : tout V) : option (tout V) := match o with Matches _ => None | x => Some x end.

Definition TR (t : trie) (l : list (list K * V)) : Prop :=
  wf t /\ forall ks, lookup keq klt t ks = slookup l ks.

Lemma tstep_refines t l o :
  TR t l -> obs (snd (tstep keq klt t o)) = snd (sstep l o) /\ TR (fst (tstep keq klt t o)) (fst (sstep l o)).
Proof.
  intros [Hw Ho]. destruct o as [ks v|ks|q]; cbn [tstep sstep].
  - rewrite Ho. destruct (slookup l ks) as [w|] eqn:E; cbn; [split; [reflexivity|split; assumption]|].
    split; [reflexivity|]. split; [apply wf_insert; assumption|].
    intros ks'. rewrite lookup_insert by assumption. cbn. rewrite Ho. reflexivity.
  - cbn. rewrite Ho. split; [reflexivity|split; assumption].
  - cbn. split; [reflexivity|split; assumption].
Qed.

Theorem trie_refines_assoc_list : forall ops t l,
  TR t l -> map obs (trun keq klt t ops) = srun l ops.
Proof.
  induction ops as [|o ops IH]; intros t l HR; cbn; [reflexivity|].
  pose proof (tstep_refines t l o HR) as [Hout HR'].
  destruct (tstep keq klt t o) as [t' out]; destruct (sstep l o) as [l' out']; cbn in *.
  rewrite Hout. f_equal. apply IH. exact HR'.
Qed.

Lemma TR_init : TR empty [].
Proof. split; [apply wf_empty|intros ks; apply lookup_empty]. Qed.

Definition state_after (ops : list (top K V)) : trie :=
  fold_left (fun t o => fst (tstep keq klt t o)) ops empty.
Definition spec_after (ops : list (top K V)) : list (list K * V) :=
  fold_left (fun l o => fst (sstep l o)) ops [].

Lemma TR_reachable ops t l : TR t l ->
  TR (fold_left (fun t o => fst (tstep keq klt t o)) ops t) (fold_left (fun l o => fst (sstep l o)) ops l).
Proof. revert t l; induction ops as [|o ops IH]; intros t l H; cbn; [exact H|]. apply IH. apply tstep_refines; exact H. Qed.

Lemma eql_refl a : eql keq a a = true.
Proof. induction a; cbn; [reflexivity|]. rewrite keq_refl; assumption. Qed.
Lemma eql_sym a b : eql keq a b = eql keq b a.
Proof. revert b; induction a as [|x a IH]; intros [|y b]; cbn; try reflexivity. rewrite keq_sym, IH; reflexivity. Qed.
Lemma eql_trans a b c : eql keq a b = true -> eql keq b c = true -> eql keq a c = true.
Proof.
  revert b c; induction a as [|x a IH]; intros [|y b] [|z c]; cbn; try congruence.
  intros H1 H2. apply andb_true_iff in H1. apply andb_true_iff in H2. destruct H1, H2.
  apply andb_true_iff; split; [eapply keq_trans; eauto|eapply IH; eauto].
Qed.

Lemma slookup_congr l a b : eql keq a b = true -> slookup l a = slookup l b.
Proof.
  intros E. induction l as [|[k0 v0] r IH]; cbn; [reflexivity|].
  destruct (eql keq k0 a) eqn:E0.
  - rewrite (eql_trans _ _ _ E0 E). reflexivity.
  - assert (eql keq k0 b = false) as ->; [|exact IH].
    destruct (eql keq k0 b) eqn:E1; [|reflexivity].
    assert (eql keq k0 a = true) by (eapply eql_trans; [exact E1|rewrite eql_sym; exact E]). congruence.
Qed.

(* once a sequence is bound in the specification it stays bound to the same value *)
Lemma slookup_stable ops l ks v :
  slookup l ks = Some v -> slookup (fold_left (fun l o => fst (sstep l o)) ops l) ks = Some v.
Proof.
  revert l. induction ops as [|o ops IH]; intros l H; cbn; [exact H|]. apply IH.
  destruct o as [ks2 v2|ks2|q]; cbn; try exact H.
  destruct (slookup l ks2) as [w|] eqn:E; cbn; [exact H|].
  destruct (eql keq ks2 ks) eqn:E2; [|exact H].
  rewrite (slookup_congr l ks2 ks E2) in E. congruence.
Qed.

(* C20, first half: a declaration whose pattern coincides (token-wise, by keq) with one that was
   successfully declared earlier is rejected, whatever happened in between. *)
Theorem dup_rejected : forall ops1 ks v ops2 ks' v',
  lookup keq klt (state_after ops1) ks = None ->
  eql keq ks ks' = true ->
  exists w, snd (tstep keq klt (state_after (ops1 ++ Declare ks v :: ops2)) (Declare ks' v')) = Rejected w.
Proof.
  intros ops1 ks v ops2 ks' v' Hnone E.
  pose proof (TR_reachable (ops1 ++ Declare ks v :: ops2) empty [] TR_init) as [Hw Ho].
  unfold state_after. cbn [tstep]. rewrite Ho.
  rewrite fold_left_app. cbn [fold_left].
  pose proof (TR_reachable ops1 empty [] TR_init) as [Hw1 Ho1].
  fold (state_after ops1) in Ho1. fold (spec_after ops1).
  assert (Hs : slookup (spec_after ops1) ks = None) by (rewrite <- Ho1; exact Hnone).
  assert (H1 : slookup (fst (sstep (spec_after ops1) (Declare ks v))) ks' = Some v).
  { cbn. rewrite Hs. cbn. rewrite E. reflexivity. }
  rewrite (slookup_stable ops2 _ ks' v H1). eexists; reflexivity.
Qed.

(* C20, second half: a successfully declared alias is found, with its own value, after any
   further declarations and lookups. *)
Theorem stays_callable : forall ops1 ks v ops2 ks',
  lookup keq klt (state_after ops1) ks = None ->
  eql keq ks ks' = true ->
  lookup keq klt (state_after (ops1 ++ Declare ks v :: ops2)) ks' = Some v.
Proof.
  intros ops1 ks v ops2 ks' Hnone E.
  pose proof (TR_reachable (ops1 ++ Declare ks v :: ops2) empty [] TR_init) as [Hw Ho].
  unfold state_after. rewrite Ho. rewrite fold_left_app. cbn [fold_left].
  pose proof (TR_reachable ops1 empty [] TR_init) as [Hw1 Ho1].
  fold (state_after ops1) in Ho1. fold (spec_after ops1).
  assert (Hs : slookup (spec_after ops1) ks = None) by (rewrite <- Ho1; exact Hnone).
  apply slookup_stable. cbn. rewrite Hs. cbn. rewrite E. reflexivity.
Qed.

End Proofs.
