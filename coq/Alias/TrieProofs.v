(* The alias trie refines an association list keyed by token sequences (compared pointwise by
   keq): duplicates are rejected, declared aliases stay callable. Only hypothesis: keq is an
   equivalence. *)
From Coq Require Import List Arith Bool Lia.
Import ListNotations.
From DDP Require Import Alias.OMap Alias.OMapProofs Alias.Trie.

Section Proofs.
Variables K V : Type.
Variable keq klt : K -> K -> bool.
Hypothesis keq_refl : forall a, keq a a = true.
Hypothesis keq_sym : forall a b, keq a b = keq b a.
Hypothesis keq_trans : forall a b c, keq a b = true -> keq b c = true -> keq a c = true.

Notation trie := (trie K V).
Notation uniq := (uniq K (Trie.trie K V) keq).

Inductive wf : trie -> Prop :=
| wf_node v ch : uniq ch -> (forall k c, In (k, c) ch -> wf c) -> wf (Node v ch).

Lemma wf_empty : wf empty.
Proof. constructor; [exact I|intros ? ? []]. Qed.

Lemma lookup_nil (v : option V) (ch : list (K * trie)) : lookup keq klt (Node v ch) [] = v.
Proof. unfold lookup; cbn. destruct v; reflexivity. Qed.

Lemma lookup_cons (v : option V) (ch : list (K * trie)) k ks :
  lookup keq klt (Node v ch) (k :: ks) =
  match get keq klt ch k with Some c => lookup keq klt c ks | None => None end.
Proof. unfold lookup; cbn. destruct (get keq klt ch k); reflexivity. Qed.

Lemma lookup_empty ks : lookup keq klt (@empty K V) ks = None.
Proof. destruct ks; reflexivity. Qed.

Lemma wf_child (v : option V) (ch : list (K * trie)) k c : wf (Node v ch) -> get keq klt ch k = Some c -> wf c.
Proof.
  intros Hw Hg. inversion Hw as [v0 ch0 Hu Hc]; subst.
  edestruct (get_in K) as [k0 Hin]; [| |exact Hu|exact Hg|]; eauto.
Qed.

Lemma wf_insert ks (v : V) (t : trie) : wf t -> wf (insert keq klt ks v t).
Proof.
  revert t. induction ks as [|k ks IH]; intros [val ch] Hw; cbn.
  - inversion Hw; subst. constructor; assumption.
  - inversion Hw as [v0 ch0 Hu Hc]; subst.
    assert (Hgoal : forall child, wf child -> wf (Node val (set keq klt ch k (insert keq klt ks v child)))).
    { intros child Hwc. constructor.
      - eapply uniq_set; eauto.
      - intros k0 c Hin. apply in_set in Hin. destruct Hin as [->|Hin]; [apply IH; assumption|eauto]. }
    destruct (get keq klt ch k) as [child|] eqn:Eg.
    + apply Hgoal. eapply wf_child; eauto.
    + apply Hgoal. apply wf_empty.
Qed.

(* the law that makes the trie a map from token sequences *)
Lemma lookup_insert ks (v : V) (t : trie) ks' :
  wf t ->
  lookup keq klt (insert keq klt ks v t) ks' = if eql keq ks ks' then Some v else lookup keq klt t ks'.
Proof.
  revert t ks'. induction ks as [|k ks IH]; intros [val ch] ks' Hw.
  - cbn [insert]. destruct ks' as [|k' ks'].
    + rewrite lookup_nil. reflexivity.
    + rewrite !lookup_cons. reflexivity.
  - inversion Hw as [v0 ch0 Hu Hc]; subst.
    destruct ks' as [|k' ks'].
    + cbn [insert eql]. destruct (get keq klt ch k); rewrite !lookup_nil; reflexivity.
    + cbn [eql].
      assert (Hgoal : forall child, wf child ->
                (match get keq klt ch k' with Some c => lookup keq klt c ks' | None => None end
                 = if keq k k' then lookup keq klt child ks' else
                     match get keq klt ch k' with Some c => lookup keq klt c ks' | None => None end) ->
                lookup keq klt (Node val (set keq klt ch k (insert keq klt ks v child))) (k' :: ks')
                = if keq k k' && eql keq ks ks' then Some v else lookup keq klt (Node val ch) (k' :: ks')).
      { intros child Hwc Hold. rewrite !lookup_cons.
        erewrite get_set; [|exact keq_sym|exact keq_trans|exact Hu].
        destruct (keq k k') eqn:E; cbn [andb].
        - rewrite IH by assumption. destruct (eql keq ks ks'); [reflexivity|]. symmetry; exact Hold.
        - reflexivity. }
      cbn [insert]. destruct (get keq klt ch k) as [child|] eqn:Eg.
      * apply Hgoal; [eapply wf_child; eauto|].
        destruct (keq k k') eqn:E; [|reflexivity].
        erewrite <- (get_congr K _ keq klt), Eg; [reflexivity|exact keq_sym|exact keq_trans|exact Hu|exact E].
      * apply Hgoal; [apply wf_empty|].
        destruct (keq k k') eqn:E; [|reflexivity].
        erewrite <- (get_congr K _ keq klt), Eg, ?lookup_empty; [reflexivity|exact keq_sym|exact keq_trans|exact Hu|exact E].
Qed.

(* ---- Copy: a well-formed trie whose lookups are those of the original ---- *)
Lemma trie_ind' (P : trie -> Prop) :
  (forall v ch, (forall k c, In (k, c) ch -> P c) -> P (Node v ch)) -> forall t, P t.
Proof.
  intros H. fix IH 1. intros [v ch]. apply H.
  revert ch. fix IHl 1. intros [|[k0 c0] r] k c Hin.
  - destruct Hin.
  - destruct Hin as [E|Hin].
    + replace c with c0 by congruence. apply IH.
    + eapply IHl. exact Hin.
Qed.

(* the loop of copyNode: Set every (key, copy of child) into the new map, in iteration order *)
Fixpoint copy_children (l acc : list (K * trie)) : list (K * trie) :=
  match l with
  | [] => acc
  | (k, c) :: r => copy_children r (set keq klt acc k (copy keq klt c))
  end.

Lemma copy_node v ch : copy keq klt (Node v ch) = Node v (copy_children ch []).
Proof.
reflexivity. Qed.

Lemma uniq_copy_children l acc : uniq acc -> uniq (copy_children l acc).
Proof.
  revert acc. induction l as [|[k c] r IH]; intros acc Hu; cbn [copy_children]; [exact Hu|].
  apply IH. eapply uniq_set; eauto.
Qed.

Lemma in_copy_children l acc k0 c0 :
  In (k0, c0) (copy_children l acc) -> In (k0, c0) acc \/ exists k c, In (k, c) l /\ c0 = copy keq klt c.
Proof.
  revert acc. induction l as [|[k c] r IH]; intros acc Hin; cbn [copy_children] in Hin; [left; exact Hin|].
  apply IH in Hin. destruct Hin as [Hin|(k1 & c1 & Hin & ->)].
  - apply in_set in Hin. destruct Hin as [->|Hin]; [right; exists k, c; split; [left; reflexivity|reflexivity]|left; exact Hin].
  - right. exists k1, c1. split; [right; exact Hin|reflexivity].
Qed.

Lemma get_copy_children l acc key :
  uniq l -> uniq acc ->
  get keq klt (copy_children l acc) key =
  match sget keq l key with Some c => Some (copy keq klt c) | None => get keq klt acc key end.
Proof.
  revert acc. induction l as [|[k c] r IH]; intros acc Hl Hu; cbn [copy_children sget]; [reflexivity|].
  destruct Hl as [Hh Hr]. rewrite IH; [|exact Hr|eapply uniq_set; eauto].
  erewrite get_set; [|exact keq_sym|exact keq_trans|exact Hu].
  destruct (keq k key) eqn:E; [|reflexivity].
  rewrite (sget_none K _ keq r key); [reflexivity|].
  intros k' Hk. specialize (Hh k' Hk).
  rewrite keq_sym. eapply (keq_false_trans K keq keq_trans); [exact E|exact Hh].
Qed.

Lemma get_nil (key : K) : get keq klt (@nil (K * trie)) key = None.
Proof. reflexivity. Qed.

Lemma copy_correct t : wf t -> wf (copy keq klt t) /\ forall ks, lookup keq klt (copy keq klt t) ks = lookup keq klt t ks.
Proof.
  induction t as [v ch IH] using trie_ind'. intros Hw.
  inversion Hw as [v0 ch0 Hu Hc]; subst. rewrite copy_node. split.
  - constructor; [apply uniq_copy_children; exact I|].
    intros k0 c0 Hin. apply in_copy_children in Hin. destruct Hin as [[]|(k & c & Hin & ->)].
    apply (IH k c Hin). eauto.
  - intros [|k ks]; [rewrite !lookup_nil; reflexivity|].
    rewrite !lookup_cons. rewrite get_copy_children by (exact Hu || exact I).
    rewrite get_nil. rewrite (get_is_sget K _ keq klt keq_sym keq_trans ch k Hu).
    destruct (sget keq ch k) as [c|] eqn:Es; [|reflexivity].
    apply sget_in in Es. destruct Es as [k0 Hin]. apply (IH k0 c Hin). eauto.
Qed.

(* ---- specification and refinement over histories ---- *)
Fixpoint slookup (l : list (list K * V)) (ks : list K) : option V :=
  match l with
  | [] => None
  | (ks0, v) :: r => if eql keq ks0 ks then Some v else slookup r ks
  end.

(* Put on the association list: replace the value of the entry with an equal key, else add *)
Fixpoint sput (l : list (list K * V)) (ks : list K) (v : V) : list (list K * V) :=
  match l with
  | [] => [(ks, v)]
  | (ks0, w) :: r => if eql keq ks0 ks then (ks0, v) :: r else (ks0, w) :: sput r ks v
  end.

(* the specification of a fork: its inner history runs on the SAME association list (Copy is the
   identity on what a trie represents) and leaves no trace *)
Fixpoint sstep_rec (o : top K V) (l : list (list K * V)) {struct o} : list (list K * V) * list (option (tout V)) :=
  match o with
  | Declare ks v => match slookup l ks with
                    | Some w => (l, [Some (Rejected w)])
                    | None => ((ks, v) :: l, [Some Declared])
                    end
  | Lookup ks => (l, [Some (Found (slookup l ks))])
  | Search _ => (l, [None])
  | Put ks v => (sput l ks v, [Some PutDone])
  | Fork inner =>
    (l, Some ForkBegin ::
        (fix go (ops : list (top K V)) (c : list (list K * V)) : list (option (tout V)) :=
           match ops with
           | [] => []
           | o' :: r => let '(c', out) := sstep_rec o' c in out ++ go r c'
           end) inner l ++ [Some ForkEnd])
  end.

Definition sstep (l : list (list K * V)) (o : top K V) := sstep_rec o l.

Fixpoint srun (l : list (list K * V)) (ops : list (top K V)) : list (option (tout V)) :=
  match ops with
  | [] => []
  | o :: r => let '(l', out) := sstep l o in out ++ srun l' r
  end.

Lemma tstep_fork t inner :
  tstep keq klt t (Fork inner) = (t, @ForkBegin V :: trun keq klt (copy keq klt t) inner ++ [ForkEnd]).
Proof.
  unfold tstep; cbn [tstep_rec]. do 3 f_equal. generalize (copy keq klt t).
  induction inner as [|o r IH]; intros c; cbn [trun]; [reflexivity|].
  unfold tstep at 1. destruct (tstep_rec keq klt o c) as [c' out]. rewrite IH. reflexivity.
Qed.

Lemma sstep_fork l inner :
  sstep l (Fork inner) = (l, Some ForkBegin :: srun l inner ++ [Some ForkEnd]).
Proof.
  unfold sstep; cbn [sstep_rec]. do 3 f_equal. generalize l.
  induction inner as [|o r IH]; intros c; cbn [srun]; [reflexivity|].
  unfold sstep at 1. destruct (sstep_rec o c) as [c' out]. rewrite IH. reflexivity.
Qed.

Lemma top_ind' (P : top K V -> Prop) :
  (forall ks v, P (Declare ks v)) -> (forall ks, P (Lookup ks)) -> (forall q, P (Search q)) ->
  (forall ks v, P (Put ks v)) -> (forall inner, Forall P inner -> P (Fork inner)) -> forall o, P o.
Proof.
  intros HD HL HS HP HF. fix IH 1. intros [ks v|ks|q|ks v|inner]; [apply HD|apply HL|apply HS|apply HP|].
  apply HF. revert inner. fix IHl 1. intros [|o r]; constructor; [apply IH|apply IHl].
Qed.

Definition obs (o : tout V) : option (tout V) := match o with Matches _ => None | x => Some x end.

Definition TR (t : trie) (l : list (list K * V)) : Prop :=
  wf t /\ forall ks, lookup keq klt t ks = slookup l ks.

Lemma TR_copy t l : TR t l -> TR (copy keq klt t) l.
Proof.
  intros [Hw Ho]. destruct (copy_correct t Hw) as [Hw' Ho']. split; [exact Hw'|].
  intros ks. rewrite Ho'. apply Ho.
Qed.

Lemma eql_refl a : eql keq a a = true.
Proof. induction a; cbn; [reflexivity|]. rewrite keq_refl; assumption. Qed.
Lemma eql_sym a b : eql keq a b = eql keq b a.
Proof. revert b; induction a as [|x a IH]; intros [|y b]; cbn; try reflexivity. rewrite keq_sym, IH; reflexivity. Qed.
Lemma eql_trans a b c : eql keq a b = true -> eql keq b c = true -> eql keq a c = true.
Proof.
  revert b c; induction a as [|x a IH]; intros [|y b] [|z c]; cbn; try congruence.
  intros H1 H2. apply andb_true_iff in H1. apply andb_true_iff in H2. destruct H1, H2.
  apply andb_true_iff; split; [eapply keq_trans; eauto|eapply IH; eauto].
Qed.
Lemma eql_false_trans a b c : eql keq a b = true -> eql keq a c = false -> eql keq b c = false.
Proof.
  intros H1 H2. destruct (eql keq b c) eqn:E; [|reflexivity].
  rewrite (eql_trans a b c H1 E) in H2. congruence.
Qed.

Lemma slookup_congr l a b : eql keq a b = true -> slookup l a = slookup l b.
Proof.
  intros E. induction l as [|[k0 v0] r IH]; cbn; [reflexivity|].
  destruct (eql keq k0 a) eqn:E0.
  - rewrite (eql_trans _ _ _ E0 E). reflexivity.
  - assert (eql keq k0 b = false) as ->; [|exact IH].
    destruct (eql keq k0 b) eqn:E1; [|reflexivity].
    assert (eql keq k0 a = true) by (eapply eql_trans; [exact E1|rewrite eql_sym; exact E]). congruence.
Qed.

(* the law of Put on the specification side *)
Lemma slookup_sput l ks v ks' :
  slookup (sput l ks v) ks' = if eql keq ks ks' then Some v else slookup l ks'.
Proof.
  induction l as [|[k0 w] r IH]; cbn [sput slookup]; [destruct (eql keq ks ks'); reflexivity|].
  destruct (eql keq k0 ks) eqn:E0; cbn [slookup].
  - destruct (eql keq ks ks') eqn:E1.
    + rewrite (eql_trans _ _ _ E0 E1). reflexivity.
    + assert (eql keq k0 ks' = false) as ->; [|reflexivity].
      destruct (eql keq k0 ks') eqn:E2; [|reflexivity].
      rewrite eql_sym in E0. rewrite (eql_trans _ _ _ E0 E2) in E1. congruence.
  - destruct (eql keq k0 ks') eqn:E2; [|exact IH].
    assert (eql keq ks ks' = false) as ->; [|reflexivity].
    destruct (eql keq ks ks') eqn:E1; [|reflexivity].
    rewrite eql_sym in E1. rewrite (eql_trans _ _ _ E2 E1) in E0. congruence.
Qed.

Definition step_refines_at (o : top K V) : Prop :=
  forall t l, TR t l ->
    map obs (snd (tstep keq klt t o)) = snd (sstep l o) /\ TR (fst (tstep keq klt t o)) (fst (sstep l o)).

Lemma run_refines_of ops :
  Forall step_refines_at ops -> forall t l, TR t l -> map obs (trun keq klt t ops) = srun l ops.
Proof.
  induction 1 as [|o r Ho Hr IH]; intros t l HR; cbn [trun srun]; [reflexivity|].
  destruct (Ho t l HR) as [Hout HR'].
  destruct (tstep keq klt t o) as [t' out]; destruct (sstep l o) as [l' out']; cbn [fst snd] in *.
  rewrite map_app, Hout. f_equal. apply IH. exact HR'.
Qed.

Lemma tstep_refines o : step_refines_at o.
Proof.
  induction o as [ks v|ks|q|ks v|inner IHi] using top_ind'; intros t l HR.
  - destruct HR as [Hw Ho]. unfold tstep, sstep; cbn [tstep_rec sstep_rec]. rewrite Ho.
    destruct (slookup l ks) as [w|] eqn:E; cbn; [split; [reflexivity|split; assumption]|].
    split; [reflexivity|]. split; [apply wf_insert; assumption|].
    intros ks'. rewrite lookup_insert by assumption. rewrite Ho. reflexivity.
  - destruct HR as [Hw Ho]. unfold tstep, sstep; cbn. rewrite Ho. split; [reflexivity|split; assumption].
  - unfold tstep, sstep; cbn. split; [reflexivity|exact HR].
  - destruct HR as [Hw Ho]. unfold tstep, sstep; cbn [tstep_rec sstep_rec fst snd map obs].
    split; [reflexivity|]. split; [apply wf_insert; assumption|].
    intros ks'. rewrite lookup_insert by assumption. rewrite slookup_sput, Ho. reflexivity.
  - rewrite tstep_fork, sstep_fork. cbn [fst snd]. split; [|exact HR].
    cbn [map obs]. rewrite map_app. cbn [map obs]. do 2 f_equal.
    apply run_refines_of; [exact IHi|apply TR_copy; exact HR].
Qed.

(* every history - with Puts and nested forks - answers as the association list *)
Theorem trie_refines_assoc_list : forall ops t l,
  TR t l -> map obs (trun keq klt t ops) = srun l ops.
Proof. intros ops. apply run_refines_of. apply Forall_forall. intros o _. apply tstep_refines. Qed.

Lemma TR_init : TR empty [].
Proof. split; [apply wf_empty|intros ks; apply lookup_empty]. Qed.

Definition state_after (ops : list (top K V)) : trie :=
  fold_left (fun t o => fst (tstep keq klt t o)) ops empty.
Definition spec_after (ops : list (top K V)) : list (list K * V) :=
  fold_left (fun l o => fst (sstep l o)) ops [].

Lemma TR_reachable ops t l : TR t l ->
  TR (fold_left (fun t o => fst (tstep keq klt t o)) ops t) (fold_left (fun l o => fst (sstep l o)) ops l).
Proof. revert t l; induction ops as [|o ops IH]; intros t l H; cbn; [exact H|]. apply IH. apply tstep_refines; exact H. Qed.

(* ---- forks are isolated ---- *)
Lemma trun_app (t : trie) (ops1 ops2 : list (top K V)) :
  trun keq klt t (ops1 ++ ops2) =
  trun keq klt t ops1 ++ trun keq klt (fold_left (fun t o => fst (tstep keq klt t o)) ops1 t) ops2.
Proof.
  revert t. induction ops1 as [|o r IH]; intros t; cbn [app trun fold_left]; [reflexivity|].
  destruct (tstep keq klt t o) as [t' out]; cbn [fst]. rewrite IH, app_assoc. reflexivity.
Qed.

Lemma fork_keeps_state (t : trie) (inner : list (top K V)) : fst (tstep keq klt t (Fork inner)) = t.
Proof. rewrite tstep_fork. reflexivity. Qed.

(* one fork: whatever the inner history does to the copy (Puts over keys of the original, new
   declarations, further forks), the continuation answers exactly as if the fork had not happened;
   the fork itself answers as the association list of the original at that moment *)
Theorem fork_isolation : forall h inner cont,
  trun keq klt empty (h ++ Fork inner :: cont) =
    trun keq klt empty h ++ (@ForkBegin V :: trun keq klt (copy keq klt (state_after h)) inner ++ [ForkEnd])
    ++ trun keq klt (state_after h) cont
  /\ trun keq klt empty (h ++ cont) = trun keq klt empty h ++ trun keq klt (state_after h) cont
  /\ map obs (trun keq klt (copy keq klt (state_after h)) inner) = srun (spec_after h) inner.
Proof.
  intros h inner cont. rewrite !trun_app. fold (state_after h). split; [|split; [reflexivity|]].
  - cbn [trun]. rewrite tstep_fork. reflexivity.
  - apply trie_refines_assoc_list. apply TR_copy. apply TR_reachable, TR_init.
Qed.

Lemma state_erase_forks (ops : list (top K V)) (t : trie) :
  fold_left (fun t o => fst (tstep keq klt t o)) (erase_forks ops) t = fold_left (fun t o => fst (tstep keq klt t o)) ops t.
Proof.
  revert t. induction ops as [|o r IH]; intros t; [reflexivity|].
  unfold erase_forks in *. cbn [filter fold_left].
  destruct o as [ks v|ks|q|ks v|inner]; cbn [is_fork negb fold_left]; apply IH.
Qed.

Definition balanced_at (o : top K V) : Prop :=
  forall t d rest, strip_forks (S d) (snd (tstep keq klt t o) ++ rest) = strip_forks (S d) rest.

Lemma balanced_run ops : Forall balanced_at ops ->
  forall t d rest, strip_forks (S d) (trun keq klt t ops ++ rest) = strip_forks (S d) rest.
Proof.
  induction 1 as [|o r Ho Hr IH]; intros t d rest; cbn [trun app]; [reflexivity|].
  specialize (Ho t d). destruct (tstep keq klt t o) as [t' out]; cbn [snd] in Ho.
  rewrite <- app_assoc, Ho. apply IH.
Qed.

Lemma balanced_all o : balanced_at o.
Proof.
  induction o as [ks v|ks|q|ks v|inner IHi] using top_ind'; intros t d rest.
  - unfold tstep; cbn [tstep_rec]. destruct (lookup keq klt t ks); reflexivity.
  - reflexivity.
  - reflexivity.
  - reflexivity.
  - rewrite tstep_fork. cbn [snd app strip_forks]. rewrite <- app_assoc.
    rewrite (balanced_run inner IHi). reflexivity.
Qed.

(* any number of forks, nested to any depth, anywhere in the history: the outputs outside the forks
   are exactly the outputs of the history with the forks erased *)
Theorem forks_invisible : forall (ops : list (top K V)) (t : trie),
  strip_forks 0 (trun keq klt t ops) = trun keq klt t (erase_forks ops).
Proof.
  induction ops as [|o r IH]; intros t; [reflexivity|].
  unfold erase_forks in *. cbn [trun filter].
  destruct o as [ks v|ks|q|ks v|inner]; cbn [is_fork negb trun].
  - unfold tstep; cbn [tstep_rec]. destruct (lookup keq klt t ks); cbn [app strip_forks]; rewrite IH; reflexivity.
  - unfold tstep; cbn [tstep_rec app strip_forks]. rewrite IH. reflexivity.
  - unfold tstep; cbn [tstep_rec app strip_forks]. rewrite IH. reflexivity.
  - unfold tstep; cbn [tstep_rec app strip_forks]. rewrite IH. reflexivity.
  - rewrite tstep_fork. cbn [app strip_forks]. rewrite <- app_assoc.
    rewrite (balanced_run inner); [|apply Forall_forall; intros o _; apply balanced_all].
    cbn [app strip_forks pred]. apply IH.
Qed.

(* once a sequence is bound in the specification it stays bound to the same value, as long as no
   Put is issued on the trie itself (Puts inside forks do not count: they hit the copy) *)
Lemma slookup_stable ops l ks v :
  forallb (fun o => negb (is_put o)) ops = true ->
  slookup l ks = Some v -> slookup (fold_left (fun l o => fst (sstep l o)) ops l) ks = Some v.
Proof.
  revert l. induction ops as [|o ops IH]; intros l Hnp H; cbn [fold_left]; [exact H|].
  cbn [forallb] in Hnp. apply andb_true_iff in Hnp. destruct Hnp as [Ho Hnp]. apply IH; [exact Hnp|].
  destruct o as [ks2 v2|ks2|q|ks2 v2|inner]; try exact H.
  - unfold sstep; cbn [sstep_rec]. destruct (slookup l ks2) as [w|] eqn:E; cbn [fst slookup]; [exact H|].
    destruct (eql keq ks2 ks) eqn:E2; [|exact H].
    rewrite (slookup_congr l ks2 ks E2) in E. congruence.
  - discriminate Ho.
Qed.

(* C20, first half: a declaration whose pattern coincides (token-wise, by keq) with one that was
   successfully declared earlier is rejected, whatever happened in between - including any number
   of forks whose inner histories Put the same key. *)
Theorem dup_rejected : forall ops1 ks v ops2 ks' v',
  forallb (fun o => negb (is_put o)) ops2 = true ->
  lookup keq klt (state_after ops1) ks = None ->
  eql keq ks ks' = true ->
  snd (tstep keq klt (state_after (ops1 ++ Declare ks v :: ops2)) (Declare ks' v')) = [Rejected v].
Proof.
  intros ops1 ks v ops2 ks' v' Hnp Hnone E.
  pose proof (TR_reachable (ops1 ++ Declare ks v :: ops2) empty [] TR_init) as [Hw Ho].
  unfold state_after. unfold tstep at 1; cbn [tstep_rec]. rewrite Ho.
  rewrite fold_left_app. cbn [fold_left].
  pose proof (TR_reachable ops1 empty [] TR_init) as [Hw1 Ho1].
  fold (state_after ops1) in Ho1. fold (spec_after ops1).
  assert (Hs : slookup (spec_after ops1) ks = None) by (rewrite <- Ho1; exact Hnone).
  assert (H1 : slookup (fst (sstep (spec_after ops1) (Declare ks v))) ks' = Some v).
  { unfold sstep; cbn [sstep_rec]. rewrite Hs. cbn. rewrite E. reflexivity. }
  rewrite (slookup_stable ops2 _ ks' v Hnp H1). reflexivity.
Qed.

(* C20, second half: a successfully declared alias is found, with its own value, after any
   further declarations, lookups and forks (whose inner histories may Put the same key). *)
Theorem stays_callable : forall ops1 ks v ops2 ks',
  forallb (fun o => negb (is_put o)) ops2 = true ->
  lookup keq klt (state_after ops1) ks = None ->
  eql keq ks ks' = true ->
  lookup keq klt (state_after (ops1 ++ Declare ks v :: ops2)) ks' = Some v.
Proof.
  intros ops1 ks v ops2 ks' Hnp Hnone E.
  pose proof (TR_reachable (ops1 ++ Declare ks v :: ops2) empty [] TR_init) as [Hw Ho].
  unfold state_after. rewrite Ho. rewrite fold_left_app. cbn [fold_left].
  pose proof (TR_reachable ops1 empty [] TR_init) as [Hw1 Ho1].
  fold (state_after ops1) in Ho1. fold (spec_after ops1).
  assert (Hs : slookup (spec_after ops1) ks = None) by (rewrite <- Ho1; exact Hnone).
  apply slookup_stable; [exact Hnp|]. unfold sstep; cbn [sstep_rec]. rewrite Hs. cbn. rewrite E. reflexivity.
Qed.

(* the reason a top-level Put is excluded above: it is the one operation that rebinds a key *)
Theorem put_overwrites : forall ops ks v ks',
  eql keq ks ks' = true -> lookup keq klt (state_after (ops ++ [Put ks v])) ks' = Some v.
Proof.
  intros ops ks v ks' E. unfold state_after. rewrite fold_left_app. cbn [fold_left].
  pose proof (TR_reachable ops empty [] TR_init) as [Hw Ho].
  unfold tstep; cbn [tstep_rec fst]. rewrite lookup_insert by exact Hw. rewrite E. reflexivity.
Qed.

End Proofs.
