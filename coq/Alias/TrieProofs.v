(* The alias trie refines an association list keyed by token sequences (compared pointwise by
   keq): duplicates are rejected, declared aliases stay callable. Only hypothesis: keq is an
   equivalence. *)
From Coq Require Import List Arith Bool Lia.
Import ListNotations.
From DDP Require Import Alias.OMap Alias.OMapProofs Alias.Trie.

Section Proofs.
Variables K V : Type.
Variable keq klt : K -> K -> bool.
Variable isph isarg : K -> bool.
Hypothesis keq_refl : forall a, keq a a = true.
Hypothesis keq_sym : forall a b, keq a b = keq b a.
Hypothesis keq_trans : forall a b c, keq a b = true -> keq b c = true -> keq a c = true.

Notation trie := (trie K V).
Notation uniq := (uniq K (Trie.trie K V) keq).

Inductive wf : trie -> Prop :=
| wf_node v ch : uniq ch -> (forall k c, In (k, c) ch -> wf c) -> wf (Node v ch).

Lemma wf_empty : wf empty.
Proof. constructor; [exact I|intros ? ? []]. Qed.

Lemma lookup_nil (v : option V) (ch : list (K * trie)) : lookup keq klt (Node v ch) [] = v.
Proof. unfold lookup; cbn. destruct v; reflexivity. Qed.

Lemma lookup_cons (v : option V) (ch : list (K * trie)) k ks :
  lookup keq klt (Node v ch) (k :: ks) =
  match get keq klt ch k with Some c => lookup keq klt c ks | None => None end.
Proof. unfold lookup; cbn. destruct (get keq klt ch k); reflexivity. Qed.

Lemma lookup_empty ks : lookup keq klt (@empty K V) ks = None.
Proof. destruct ks; reflexivity. Qed.

Lemma wf_child (v : option V) (ch : list (K * trie)) k c : wf (Node v ch) -> get keq klt ch k = Some c -> wf c.
Proof.
  intros Hw Hg. inversion Hw as [v0 ch0 Hu Hc]; subst.
  edestruct (get_in K) as [k0 Hin]; [| |exact Hu|exact Hg|]; eauto.
Qed.

Lemma wf_insert ks (v : V) (t : trie) : wf t -> wf (insert keq klt ks v t).
Proof.
  revert t. induction ks as [|k ks IH]; intros [val ch] Hw; cbn.
  - inversion Hw; subst. constructor; assumption.
  - inversion Hw as [v0 ch0 Hu Hc]; subst.
    assert (Hgoal : forall child, wf child -> wf (Node val (set keq klt ch k (insert keq klt ks v child)))).
    { intros child Hwc. constructor.
      - eapply uniq_set; eauto.
      - intros k0 c Hin. apply in_set in Hin. destruct Hin as [->|Hin]; [apply IH; assumption|eauto]. }
    destruct (get keq klt ch k) as [child|] eqn:Eg.
    + apply Hgoal. eapply wf_child; eauto.
    + apply Hgoal. apply wf_empty.
Qed.

(* the law that makes the trie a map from token sequences *)
Lemma lookup_insert ks (v : V) (t : trie) ks' :
  wf t ->
  lookup keq klt (insert keq klt ks v t) ks' = if eql keq ks ks' then Some v else lookup keq klt t ks'.
Proof.
  revert t ks'. induction ks as [|k ks IH]; intros [val ch] ks' Hw.
  - cbn [insert]. destruct ks' as [|k' ks'].
    + rewrite lookup_nil. reflexivity.
    + rewrite !lookup_cons. reflexivity.
  - inversion Hw as [v0 ch0 Hu Hc]; subst.
    destruct ks' as [|k' ks'].
    + cbn [insert eql]. destruct (get keq klt ch k); rewrite !lookup_nil; reflexivity.
    + cbn [eql].
      assert (Hgoal : forall child, wf child ->
                (match get keq klt ch k' with Some c => lookup keq klt c ks' | None => None end
                 = if keq k k' then lookup keq klt child ks' else
                     match get keq klt ch k' with Some c => lookup keq klt c ks' | None => None end) ->
                lookup keq klt (Node val (set keq klt ch k (insert keq klt ks v child))) (k' :: ks')
                = if keq k k' && eql keq ks ks' then Some v else lookup keq klt (Node val ch) (k' :: ks')).
      { intros child Hwc Hold. rewrite !lookup_cons.
        erewrite get_set; [|exact keq_sym|exact keq_trans|exact Hu].
        destruct (keq k k') eqn:E; cbn [andb].
        - rewrite IH by assumption. destruct (eql keq ks ks'); [reflexivity|]. symmetry; exact Hold.
        - reflexivity. }
      cbn [insert]. destruct (get keq klt ch k) as [child|] eqn:Eg.
      * apply Hgoal; [eapply wf_child; eauto|].
        destruct (keq k k') eqn:E; [|reflexivity].
        erewrite <- (get_congr K _ keq klt), Eg; [reflexivity|exact keq_sym|exact keq_trans|exact Hu|exact E].
      * apply Hgoal; [apply wf_empty|].
        destruct (keq k k') eqn:E; [|reflexivity].
        erewrite <- (get_congr K _ keq klt), Eg, ?lookup_empty; [reflexivity|exact keq_sym|exact keq_trans|exact Hu|exact E].
Qed.

(* ---- Copy: a well-formed trie whose lookups are those of the original ---- *)
Lemma trie_ind' (P : trie -> Prop) :
  (forall v ch, (forall k c, In (k, c) ch -> P c) -> P (Node v ch)) -> forall t, P t.
Proof.
  intros H. fix IH 1. intros [v ch]. apply H.
  revert ch. fix IHl 1. intros [|[k0 c0] r] k c Hin.
  - destruct Hin.
  - destruct Hin as [E|Hin].
    + replace c with c0 by congruence. apply IH.
    + eapply IHl. exact Hin.
Qed.

(* the loop of copyNode: Set every (key, copy of child) into the new map, in iteration order *)
Fixpoint copy_children (l acc : list (K * trie)) : list (K * trie) :=
  match l with
  | [] => acc
  | (k, c) :: r => copy_children r (set keq klt acc k (copy keq klt c))
  end.

Lemma copy_node v ch : copy keq klt (Node v ch) = Node v (copy_children ch []).
Proof.
reflexivity. Qed.

Lemma uniq_copy_children l acc : uniq acc -> uniq (copy_children l acc).
Proof.
  revert acc. induction l as [|[k c] r IH]; intros acc Hu; cbn [copy_children]; [exact Hu|].
  apply IH. eapply uniq_set; eauto.
Qed.

Lemma in_copy_children l acc k0 c0 :
  In (k0, c0) (copy_children l acc) -> In (k0, c0) acc \/ exists k c, In (k, c) l /\ c0 = copy keq klt c.
Proof.
  revert acc. induction l as [|[k c] r IH]; intros acc Hin; cbn [copy_children] in Hin; [left; exact Hin|].
  apply IH in Hin. destruct Hin as [Hin|(k1 & c1 & Hin & ->)].
  - apply in_set in Hin. destruct Hin as [->|Hin]; [right; exists k, c; split; [left; reflexivity|reflexivity]|left; exact Hin].
  - right. exists k1, c1. split; [right; exact Hin|reflexivity].
Qed.

Lemma get_copy_children l acc key :
  uniq l -> uniq acc ->
  get keq klt (copy_children l acc) key =
  match sget keq l key with Some c => Some (copy keq klt c) | None => get keq klt acc key end.
Proof.
  revert acc. induction l as [|[k c] r IH]; intros acc Hl Hu; cbn [copy_children sget]; [reflexivity|].
  destruct Hl as [Hh Hr]. rewrite IH; [|exact Hr|eapply uniq_set; eauto].
  erewrite get_set; [|exact keq_sym|exact keq_trans|exact Hu].
  destruct (keq k key) eqn:E; [|reflexivity].
  rewrite (sget_none K _ keq r key); [reflexivity|].
  intros k' Hk. specialize (Hh k' Hk).
  rewrite keq_sym. eapply (keq_false_trans K keq keq_trans); [exact E|exact Hh].
Qed.

Lemma get_nil (key : K) : get keq klt (@nil (K * trie)) key = None.
Proof. reflexivity. Qed.

Lemma copy_correct t : wf t -> wf (copy keq klt t) /\ forall ks, lookup keq klt (copy keq klt t) ks = lookup keq klt t ks.
Proof.
  induction t as [v ch IH] using trie_ind'. intros Hw.
  inversion Hw as [v0 ch0 Hu Hc]; subst. rewrite copy_node. split.
  - constructor; [apply uniq_copy_children; exact I|].
    intros k0 c0 Hin. apply in_copy_children in Hin. destruct Hin as [[]|(k & c & Hin & ->)].
    apply (IH k c Hin). eauto.
  - intros [|k ks]; [rewrite !lookup_nil; reflexivity|].
    rewrite !lookup_cons. rewrite get_copy_children by (exact Hu || exact I).
    rewrite get_nil. rewrite (get_is_sget K _ keq klt keq_sym keq_trans ch k Hu).
    destruct (sget keq ch k) as [c|] eqn:Es; [|reflexivity].
    apply sget_in in Es. destruct Es as [k0 Hin]. apply (IH k0 c Hin). eauto.
Qed.

(* ---- Search with the parser's key generator ---- *)
Hypothesis isph_congr : forall a b, keq a b = true -> isph a = isph b.

Fixpoint search_children (k : K) (q' : list K) (ch l : list (K * trie)) : option (list V) :=
  match l with
  | [] => Some []
  | (ck, c) :: r =>
    if kmatch keq isph isarg k ck then
      match get keq klt ch ck with
      | None => None
      | Some _ =>
        match search_seq keq klt isph isarg q' c, search_children k q' ch r with
        | Some a, Some b => Some (opt_list V (node_val c) ++ a ++ b)
        | _, _ => None
        end
      end
    else search_children k q' ch r
  end.

Lemma search_cons v ch k q' :
  search_seq keq klt isph isarg (k :: q') (Node v ch) = search_children k q' ch ch.
Proof.
  cbn [search_seq]. generalize ch at 2 4. intros l.
  induction l as [|[ck c] r IH]; cbn [search_children]; [reflexivity|]. rewrite IH. reflexivity.
Qed.

Lemma sget_in_keq (m : list (K * trie)) k c : sget keq m k = Some c -> exists ck, In (ck, c) m /\ keq ck k = true.
Proof.
  induction m as [|[k0 c0] r IH]; cbn; [congruence|].
  destruct (keq k0 k) eqn:E; intros H.
  - inversion H; subst. eauto.
  - destruct (IH H) as (ck & Hin & Hk). eauto.
Qed.

Lemma sget_of_in (m : list (K * trie)) ck c : uniq m -> In (ck, c) m -> sget keq m ck = Some c.
Proof.
  induction m as [|[k0 c0] r IH]; intros Hu Hin; [destruct Hin|].
  destruct Hu as [Hh Hr]. cbn. destruct Hin as [E|Hin].
  - inversion E; subst. rewrite keq_refl. reflexivity.
  - rewrite Hh; [apply IH; assumption|]. apply (in_map fst) in Hin. exact Hin.
Qed.

Lemma keq_congr_r k a b : keq a b = true -> keq k a = keq k b.
Proof.
  intros E. destruct (keq k a) eqn:E1.
  - symmetry. eapply keq_trans; eauto.
  - destruct (keq k b) eqn:E2; [|reflexivity].
    rewrite keq_sym in E. rewrite (keq_trans _ _ _ E2 E) in E1. congruence.
Qed.

(* matching respects the key equality on the pattern side *)
Lemma kmatch_congr k a b : keq a b = true -> kmatch keq isph isarg k a = kmatch keq isph isarg k b.
Proof.
  intros E. unfold kmatch, gen_key. rewrite (isph_congr a b E).
  destruct (isph b && isarg k); [rewrite !keq_refl; reflexivity|apply keq_congr_r; exact E].
Qed.

Lemma inst_prefix_congr a b q : eql keq a b = true -> inst_prefix keq isph isarg a q = inst_prefix keq isph isarg b q.
Proof.
  revert b q. induction a as [|x a IH]; intros [|y b] q E; cbn in E; try congruence.
  apply andb_true_iff in E. destruct E as [E1 E2]. destruct q as [|k q]; cbn; [reflexivity|].
  rewrite (kmatch_congr k x y E1), (IH b q E2). reflexivity.
Qed.

(* Search never dereferences nil on a well-formed trie and returns exactly the values bound to the
   non-empty patterns that a prefix of the call instantiates *)
Theorem search_spec : forall q t, wf t ->
  exists r, search_seq keq klt isph isarg q t = Some r /\
    forall v, In v r <-> exists ks, ks <> [] /\ inst_prefix keq isph isarg ks q = true /\ lookup keq klt t ks = Some v.
Proof.
  induction q as [|k q' IH]; intros [val ch] Hw.
  - exists []. split; [reflexivity|]. intros v; split; [intros []|].
    intros (ks & Hne & Hi & _). destruct ks; [congruence|discriminate Hi].
  - inversion Hw as [v0 ch0 Hu Hc]; subst. rewrite search_cons.
    assert (Hloop : forall l, (forall ck c, In (ck, c) l -> In (ck, c) ch) ->
      exists r, search_children k q' ch l = Some r /\
        forall v, In v r <-> exists ck c, In (ck, c) l /\ kmatch keq isph isarg k ck = true /\
                      (node_val c = Some v \/ exists ks, ks <> [] /\ inst_prefix keq isph isarg ks q' = true /\ lookup keq klt c ks = Some v)).
    { induction l as [|[ck c] r IHl]; intros Hsub.
      - exists []. split; [reflexivity|]. intros v; split; [intros []|]. intros (? & ? & [] & _).
      - destruct IHl as (rr & Hrr & Hin_rr); [intros; apply Hsub; right; assumption|].
        cbn [search_children]. destruct (kmatch keq isph isarg k ck) eqn:Em.
        + assert (Hg : get keq klt ch ck = Some c).
          { rewrite (get_is_sget K _ keq klt keq_sym keq_trans ch ck Hu). apply sget_of_in; [exact Hu|apply Hsub; left; reflexivity]. }
          rewrite Hg. destruct (IH c) as (rc & Hrc & Hin_rc); [eapply Hc; apply Hsub; left; reflexivity|].
          rewrite Hrc, Hrr. eexists; split; [reflexivity|]. intros v. rewrite !in_app_iff. split.
          * intros [H|[H|H]].
            -- exists ck, c. split; [left; reflexivity|]. split; [exact Em|]. left.
               destruct (node_val c); cbn in H; [destruct H as [->|[]]; reflexivity|destruct H].
            -- exists ck, c. split; [left; reflexivity|]. split; [exact Em|]. right. apply Hin_rc. exact H.
            -- apply Hin_rr in H. destruct H as (ck1 & c1 & Hin & Hrest). exists ck1, c1. split; [right; exact Hin|exact Hrest].
          * intros (ck1 & c1 & [E|Hin] & Hm & Hd).
            -- inversion E; subst. destruct Hd as [Hv|Hd]; [left; rewrite Hv; left; reflexivity|right; left; apply Hin_rc; exact Hd].
            -- right; right. apply Hin_rr. exists ck1, c1. auto.
        + exists rr. split; [exact Hrr|]. intros v. rewrite Hin_rr. split.
          * intros (ck1 & c1 & Hin & Hrest). exists ck1, c1. split; [right; exact Hin|exact Hrest].
          * intros (ck1 & c1 & [E|Hin] & Hm & Hd); [inversion E; subst; congruence|]. exists ck1, c1. auto. }
    destruct (Hloop ch (fun _ _ H => H)) as (r & Hr & Hin_r). exists r. split; [exact Hr|].
    intros v. rewrite Hin_r. split.
    + intros (ck & c & Hin & Hm & Hd).
      assert (Hg : get keq klt ch ck = Some c).
      { rewrite (get_is_sget K _ keq klt keq_sym keq_trans ch ck Hu). apply sget_of_in; assumption. }
      destruct Hd as [Hv|(ks & Hne & Hi & Hl)].
      * exists [ck]. split; [congruence|]. split; [cbn; rewrite Hm; reflexivity|].
        rewrite lookup_cons, Hg. destruct c as [cv cch]. rewrite lookup_nil. exact Hv.
      * exists (ck :: ks). split; [congruence|]. split; [cbn; rewrite Hm, Hi; reflexivity|].
        rewrite lookup_cons, Hg. exact Hl.
    + intros (ks & Hne & Hi & Hl). destruct ks as [|k0 ks]; [congruence|].
      cbn in Hi. apply andb_true_iff in Hi. destruct Hi as [Hm Hi].
      rewrite lookup_cons in Hl. destruct (get keq klt ch k0) as [c|] eqn:Hg; [|discriminate Hl].
      rewrite (get_is_sget K _ keq klt keq_sym keq_trans ch k0 Hu) in Hg.
      apply sget_in_keq in Hg. destruct Hg as (ck & Hin & Hk).
      exists ck, c. split; [exact Hin|]. split; [rewrite (kmatch_congr k ck k0 Hk); exact Hm|].
      destruct ks as [|k1 ks]; [left; destruct c as [cv cch]; rewrite lookup_nil in Hl; exact Hl|].
      right. exists (k1 :: ks). split; [congruence|]. split; assumption.
Qed.

(* ---- specification and refinement over histories ---- *)
Fixpoint slookup (l : list (list K * V)) (ks : list K) : option V :=
  match l with
  | [] => None
  | (ks0, v) :: r => if eql keq ks0 ks then Some v else slookup r ks
  end.

(* Put on the association list: replace the value of the entry with an equal key, else add *)
Fixpoint sput (l : list (list K * V)) (ks : list K) (v : V) : list (list K * V) :=
  match l with
  | [] => [(ks, v)]
  | (ks0, w) :: r => if eql keq ks0 ks then (ks0, v) :: r else (ks0, w) :: sput r ks v
  end.

(* the specification of a fork: its inner history runs on the SAME association list (Copy is the
   identity on what a trie represents) and leaves no trace *)
Fixpoint sstep_rec (o : top K V) (l : list (list K * V)) {struct o} : list (list K * V) * list (option (tout V)) :=
  match o with
  | Declare ks v => match slookup l ks with
                    | Some w => (l, [Some (Rejected w)])
                    | None => ((ks, v) :: l, [Some Declared])
                    end
  | Lookup ks => (l, [Some (Found (slookup l ks))])
  | Search _ => (l, [None])
  | Put ks v => (sput l ks v, [Some PutDone])
  | Fork inner =>
    (l, Some ForkBegin ::
        (fix go (ops : list (top K V)) (c : list (list K * V)) : list (option (tout V)) :=
           match ops with
           | [] => []
           | o' :: r => let '(c', out) := sstep_rec o' c in out ++ go r c'
           end) inner l ++ [Some ForkEnd])
  end.

Definition sstep (l : list (list K * V)) (o : top K V) := sstep_rec o l.

Fixpoint srun (l : list (list K * V)) (ops : list (top K V)) : list (option (tout V)) :=
  match ops with
  | [] => []
  | o :: r => let '(l', out) := sstep l o in out ++ srun l' r
  end.

Lemma tstep_fork t inner :
  tstep keq klt isph isarg t (Fork inner) = (t, @ForkBegin V :: trun keq klt isph isarg (copy keq klt t) inner ++ [ForkEnd]).
Proof.
  unfold tstep; cbn [tstep_rec]. do 3 f_equal. generalize (copy keq klt t).
  induction inner as [|o r IH]; intros c; cbn [trun]; [reflexivity|].
  unfold tstep at 1. destruct (tstep_rec keq klt isph isarg o c) as [c' out]. rewrite IH. reflexivity.
Qed.

Lemma sstep_fork l inner :
  sstep l (Fork inner) = (l, Some ForkBegin :: srun l inner ++ [Some ForkEnd]).
Proof.
  unfold sstep; cbn [sstep_rec]. do 3 f_equal. generalize l.
  induction inner as [|o r IH]; intros c; cbn [srun]; [reflexivity|].
  unfold sstep at 1. destruct (sstep_rec o c) as [c' out]. rewrite IH. reflexivity.
Qed.

Lemma top_ind' (P : top K V -> Prop) :
  (forall ks v, P (Declare ks v)) -> (forall ks, P (Lookup ks)) -> (forall q, P (Search q)) ->
  (forall ks v, P (Put ks v)) -> (forall inner, Forall P inner -> P (Fork inner)) -> forall o, P o.
Proof.
  intros HD HL HS HP HF. fix IH 1. intros [ks v|ks|q|ks v|inner]; [apply HD|apply HL|apply HS|apply HP|].
  apply HF. revert inner. fix IHl 1. intros [|o r]; constructor; [apply IH|apply IHl].
Qed.

Definition obs (o : tout V) : option (tout V) := match o with Matches _ => None | x => Some x end.

Definition TR (t : trie) (l : list (list K * V)) : Prop :=
  wf t /\ forall ks, lookup keq klt t ks = slookup l ks.

Lemma TR_copy t l : TR t l -> TR (copy keq klt t) l.
Proof.
  intros [Hw Ho]. destruct (copy_correct t Hw) as [Hw' Ho']. split; [exact Hw'|].
  intros ks. rewrite Ho'. apply Ho.
Qed.

Lemma eql_refl a : eql keq a a = true.
Proof. induction a; cbn; [reflexivity|]. rewrite keq_refl; assumption. Qed.
Lemma eql_sym a b : eql keq a b = eql keq b a.
Proof. revert b; induction a as [|x a IH]; intros [|y b]; cbn; try reflexivity. rewrite keq_sym, IH; reflexivity. Qed.
Lemma eql_trans a b c : eql keq a b = true -> eql keq b c = true -> eql keq a c = true.
Proof.
  revert b c; induction a as [|x a IH]; intros [|y b] [|z c]; cbn; try congruence.
  intros H1 H2. apply andb_true_iff in H1. apply andb_true_iff in H2. destruct H1, H2.
  apply andb_true_iff; split; [eapply keq_trans; eauto|eapply IH; eauto].
Qed.
Lemma eql_false_trans a b c : eql keq a b = true -> eql keq a c = false -> eql keq b c = false.
Proof.
  intros H1 H2. destruct (eql keq b c) eqn:E; [|reflexivity].
  rewrite (eql_trans a b c H1 E) in H2. congruence.
Qed.

Lemma slookup_congr l a b : eql keq a b = true -> slookup l a = slookup l b.
Proof.
  intros E. induction l as [|[k0 v0] r IH]; cbn; [reflexivity|].
  destruct (eql keq k0 a) eqn:E0.
  - rewrite (eql_trans _ _ _ E0 E). reflexivity.
  - assert (eql keq k0 b = false) as ->; [|exact IH].
    destruct (eql keq k0 b) eqn:E1; [|reflexivity].
    assert (eql keq k0 a = true) by (eapply eql_trans; [exact E1|rewrite eql_sym; exact E]). congruence.
Qed.

(* the law of Put on the specification side *)
Lemma slookup_sput l ks v ks' :
  slookup (sput l ks v) ks' = if eql keq ks ks' then Some v else slookup l ks'.
Proof.
  induction l as [|[k0 w] r IH]; cbn [sput slookup]; [destruct (eql keq ks ks'); reflexivity|].
  destruct (eql keq k0 ks) eqn:E0; cbn [slookup].
  - destruct (eql keq ks ks') eqn:E1.
    + rewrite (eql_trans _ _ _ E0 E1). reflexivity.
    + assert (eql keq k0 ks' = false) as ->; [|reflexivity].
      destruct (eql keq k0 ks') eqn:E2; [|reflexivity].
      rewrite eql_sym in E0. rewrite (eql_trans _ _ _ E0 E2) in E1. congruence.
  - destruct (eql keq k0 ks') eqn:E2; [|exact IH].
    assert (eql keq ks ks' = false) as ->; [|reflexivity].
    destruct (eql keq ks ks') eqn:E1; [|reflexivity].
    rewrite eql_sym in E1. rewrite (eql_trans _ _ _ E2 E1) in E0. congruence.
Qed.

Definition step_refines_at (o : top K V) : Prop :=
  forall t l, TR t l ->
    map obs (snd (tstep keq klt isph isarg t o)) = snd (sstep l o) /\ TR (fst (tstep keq klt isph isarg t o)) (fst (sstep l o)).

Lemma run_refines_of ops :
  Forall step_refines_at ops -> forall t l, TR t l -> map obs (trun keq klt isph isarg t ops) = srun l ops.
Proof.
  induction 1 as [|o r Ho Hr IH]; intros t l HR; cbn [trun srun]; [reflexivity|].
  destruct (Ho t l HR) as [Hout HR'].
  destruct (tstep keq klt isph isarg t o) as [t' out]; destruct (sstep l o) as [l' out']; cbn [fst snd] in *.
  rewrite map_app, Hout. f_equal. apply IH. exact HR'.
Qed.

Lemma tstep_refines o : step_refines_at o.
Proof.
  induction o as [ks v|ks|q|ks v|inner IHi] using top_ind'; intros t l HR.
  - destruct HR as [Hw Ho]. unfold tstep, sstep; cbn [tstep_rec sstep_rec]. rewrite Ho.
    destruct (slookup l ks) as [w|] eqn:E; cbn; [split; [reflexivity|split; assumption]|].
    split; [reflexivity|]. split; [apply wf_insert; assumption|].
    intros ks'. rewrite lookup_insert by assumption. rewrite Ho. reflexivity.
  - destruct HR as [Hw Ho]. unfold tstep, sstep; cbn. rewrite Ho. split; [reflexivity|split; assumption].
  - unfold tstep, sstep; cbn. split; [reflexivity|exact HR].
  - destruct HR as [Hw Ho]. unfold tstep, sstep; cbn [tstep_rec sstep_rec fst snd map obs].
    split; [reflexivity|]. split; [apply wf_insert; assumption|].
    intros ks'. rewrite lookup_insert by assumption. rewrite slookup_sput, Ho. reflexivity.
  - rewrite tstep_fork, sstep_fork. cbn [fst snd]. split; [|exact HR].
    cbn [map obs]. rewrite map_app. cbn [map obs]. do 2 f_equal.
    apply run_refines_of; [exact IHi|apply TR_copy; exact HR].
Qed.

(* every history - with Puts and nested forks - answers as the association list *)
Theorem trie_refines_assoc_list : forall ops t l,
  TR t l -> map obs (trun keq klt isph isarg t ops) = srun l ops.
Proof. intros ops. apply run_refines_of. apply Forall_forall. intros o _. apply tstep_refines. Qed.

Lemma TR_init : TR empty [].
Proof. split; [apply wf_empty|intros ks; apply lookup_empty]. Qed.

Definition state_after (ops : list (top K V)) : trie :=
  fold_left (fun t o => fst (tstep keq klt isph isarg t o)) ops empty.
Definition spec_after (ops : list (top K V)) : list (list K * V) :=
  fold_left (fun l o => fst (sstep l o)) ops [].

Lemma TR_reachable ops t l : TR t l ->
  TR (fold_left (fun t o => fst (tstep keq klt isph isarg t o)) ops t) (fold_left (fun l o => fst (sstep l o)) ops l).
Proof. revert t l; induction ops as [|o ops IH]; intros t l H; cbn; [exact H|]. apply IH. apply tstep_refines; exact H. Qed.

(* ---- forks are isolated ---- *)
Lemma trun_app (t : trie) (ops1 ops2 : list (top K V)) :
  trun keq klt isph isarg t (ops1 ++ ops2) =
  trun keq klt isph isarg t ops1 ++ trun keq klt isph isarg (fold_left (fun t o => fst (tstep keq klt isph isarg t o)) ops1 t) ops2.
Proof.
  revert t. induction ops1 as [|o r IH]; intros t; cbn [app trun fold_left]; [reflexivity|].
  destruct (tstep keq klt isph isarg t o) as [t' out]; cbn [fst]. rewrite IH, app_assoc. reflexivity.
Qed.

Lemma fork_keeps_state (t : trie) (inner : list (top K V)) : fst (tstep keq klt isph isarg t (Fork inner)) = t.
Proof. rewrite tstep_fork. reflexivity. Qed.

(* one fork: whatever the inner history does to the copy (Puts over keys of the original, new
   declarations, further forks), the continuation answers exactly as if the fork had not happened;
   the fork itself answers as the association list of the original at that moment *)
Theorem fork_isolation : forall h inner cont,
  trun keq klt isph isarg empty (h ++ Fork inner :: cont) =
    trun keq klt isph isarg empty h ++ (@ForkBegin V :: trun keq klt isph isarg (copy keq klt (state_after h)) inner ++ [ForkEnd])
    ++ trun keq klt isph isarg (state_after h) cont
  /\ trun keq klt isph isarg empty (h ++ cont) = trun keq klt isph isarg empty h ++ trun keq klt isph isarg (state_after h) cont
  /\ map obs (trun keq klt isph isarg (copy keq klt (state_after h)) inner) = srun (spec_after h) inner.
Proof.
  intros h inner cont. rewrite !trun_app. fold (state_after h). split; [|split; [reflexivity|]].
  - cbn [trun]. rewrite tstep_fork. reflexivity.
  - apply trie_refines_assoc_list. apply TR_copy. apply TR_reachable, TR_init.
Qed.

Lemma state_erase_forks (ops : list (top K V)) (t : trie) :
  fold_left (fun t o => fst (tstep keq klt isph isarg t o)) (erase_forks ops) t = fold_left (fun t o => fst (tstep keq klt isph isarg t o)) ops t.
Proof.
  revert t. induction ops as [|o r IH]; intros t; [reflexivity|].
  unfold erase_forks in *. cbn [filter fold_left].
  destruct o as [ks v|ks|q|ks v|inner]; cbn [is_fork negb fold_left]; apply IH.
Qed.

Definition balanced_at (o : top K V) : Prop :=
  forall t d rest, strip_forks (S d) (snd (tstep keq klt isph isarg t o) ++ rest) = strip_forks (S d) rest.

Lemma balanced_run ops : Forall balanced_at ops ->
  forall t d rest, strip_forks (S d) (trun keq klt isph isarg t ops ++ rest) = strip_forks (S d) rest.
Proof.
  induction 1 as [|o r Ho Hr IH]; intros t d rest; cbn [trun app]; [reflexivity|].
  specialize (Ho t d). destruct (tstep keq klt isph isarg t o) as [t' out]; cbn [snd] in Ho.
  rewrite <- app_assoc, Ho. apply IH.
Qed.

Lemma balanced_all o : balanced_at o.
Proof.
  induction o as [ks v|ks|q|ks v|inner IHi] using top_ind'; intros t d rest.
  - unfold tstep; cbn [tstep_rec]. destruct (lookup keq klt t ks); reflexivity.
  - reflexivity.
  - reflexivity.
  - reflexivity.
  - rewrite tstep_fork. cbn [snd app strip_forks]. rewrite <- app_assoc.
    rewrite (balanced_run inner IHi). reflexivity.
Qed.

(* any number of forks, nested to any depth, anywhere in the history: the outputs outside the forks
   are exactly the outputs of the history with the forks erased *)
Theorem forks_invisible : forall (ops : list (top K V)) (t : trie),
  strip_forks 0 (trun keq klt isph isarg t ops) = trun keq klt isph isarg t (erase_forks ops).
Proof.
  induction ops as [|o r IH]; intros t; [reflexivity|].
  unfold erase_forks in *. cbn [trun filter].
  destruct o as [ks v|ks|q|ks v|inner]; cbn [is_fork negb trun].
  - unfold tstep; cbn [tstep_rec]. destruct (lookup keq klt t ks); cbn [app strip_forks]; rewrite IH; reflexivity.
  - unfold tstep; cbn [tstep_rec app strip_forks]. rewrite IH. reflexivity.
  - unfold tstep; cbn [tstep_rec app strip_forks]. rewrite IH. reflexivity.
  - unfold tstep; cbn [tstep_rec app strip_forks]. rewrite IH. reflexivity.
  - rewrite tstep_fork. cbn [app strip_forks]. rewrite <- app_assoc.
    rewrite (balanced_run inner); [|apply Forall_forall; intros o _; apply balanced_all].
    cbn [app strip_forks pred]. apply IH.
Qed.

(* once a sequence is bound in the specification it stays bound to the same value, as long as no
   Put is issued on the trie itself (Puts inside forks do not count: they hit the copy) *)
Lemma slookup_stable ops l ks v :
  forallb (fun o => negb (is_put o)) ops = true ->
  slookup l ks = Some v -> slookup (fold_left (fun l o => fst (sstep l o)) ops l) ks = Some v.
Proof.
  revert l. induction ops as [|o ops IH]; intros l Hnp H; cbn [fold_left]; [exact H|].
  cbn [forallb] in Hnp. apply andb_true_iff in Hnp. destruct Hnp as [Ho Hnp]. apply IH; [exact Hnp|].
  destruct o as [ks2 v2|ks2|q|ks2 v2|inner]; try exact H.
  - unfold sstep; cbn [sstep_rec]. destruct (slookup l ks2) as [w|] eqn:E; cbn [fst slookup]; [exact H|].
    destruct (eql keq ks2 ks) eqn:E2; [|exact H].
    rewrite (slookup_congr l ks2 ks E2) in E. congruence.
  - discriminate Ho.
Qed.

(* C20, first half: a declaration whose pattern coincides (token-wise, by keq) with one that was
   successfully declared earlier is rejected, whatever happened in between - including any number
   of forks whose inner histories Put the same key. *)
Theorem dup_rejected : forall ops1 ks v ops2 ks' v',
  forallb (fun o => negb (is_put o)) ops2 = true ->
  lookup keq klt (state_after ops1) ks = None ->
  eql keq ks ks' = true ->
  snd (tstep keq klt isph isarg (state_after (ops1 ++ Declare ks v :: ops2)) (Declare ks' v')) = [Rejected v].
Proof.
  intros ops1 ks v ops2 ks' v' Hnp Hnone E.
  pose proof (TR_reachable (ops1 ++ Declare ks v :: ops2) empty [] TR_init) as [Hw Ho].
  unfold state_after. unfold tstep at 1; cbn [tstep_rec]. rewrite Ho.
  rewrite fold_left_app. cbn [fold_left].
  pose proof (TR_reachable ops1 empty [] TR_init) as [Hw1 Ho1].
  fold (state_after ops1) in Ho1. fold (spec_after ops1).
  assert (Hs : slookup (spec_after ops1) ks = None) by (rewrite <- Ho1; exact Hnone).
  assert (H1 : slookup (fst (sstep (spec_after ops1) (Declare ks v))) ks' = Some v).
  { unfold sstep; cbn [sstep_rec]. rewrite Hs. cbn. rewrite E. reflexivity. }
  rewrite (slookup_stable ops2 _ ks' v Hnp H1). reflexivity.
Qed.

(* C20, second half: a successfully declared alias is found, with its own value, after any
   further declarations, lookups and forks (whose inner histories may Put the same key). *)
Theorem stays_callable : forall ops1 ks v ops2 ks',
  forallb (fun o => negb (is_put o)) ops2 = true ->
  lookup keq klt (state_after ops1) ks = None ->
  eql keq ks ks' = true ->
  lookup keq klt (state_after (ops1 ++ Declare ks v :: ops2)) ks' = Some v.
Proof.
  intros ops1 ks v ops2 ks' Hnp Hnone E.
  pose proof (TR_reachable (ops1 ++ Declare ks v :: ops2) empty [] TR_init) as [Hw Ho].
  unfold state_after. rewrite Ho. rewrite fold_left_app. cbn [fold_left].
  pose proof (TR_reachable ops1 empty [] TR_init) as [Hw1 Ho1].
  fold (state_after ops1) in Ho1. fold (spec_after ops1).
  assert (Hs : slookup (spec_after ops1) ks = None) by (rewrite <- Ho1; exact Hnone).
  apply slookup_stable; [exact Hnp|]. unfold sstep; cbn [sstep_rec]. rewrite Hs. cbn. rewrite E. reflexivity.
Qed.

(* the reason a top-level Put is excluded above: it is the one operation that rebinds a key *)
Theorem put_overwrites : forall ops ks v ks',
  eql keq ks ks' = true -> lookup keq klt (state_after (ops ++ [Put ks v])) ks' = Some v.
Proof.
  intros ops ks v ks' E. unfold state_after. rewrite fold_left_app. cbn [fold_left].
  pose proof (TR_reachable ops empty [] TR_init) as [Hw Ho].
  unfold tstep; cbn [tstep_rec fst]. rewrite lookup_insert by exact Hw. rewrite E. reflexivity.
Qed.

(* Search refines the association list: for every state a history can reach (TR), the values it
   returns are exactly those bound to the non-empty declared patterns that a prefix of the call
   instantiates *)
Theorem search_refines : forall t l q, TR t l ->
  exists r, search_seq keq klt isph isarg q t = Some r /\
    forall v, In v r <-> exists ks, ks <> [] /\ inst_prefix keq isph isarg ks q = true /\ slookup l ks = Some v.
Proof.
  intros t l q [Hw Ho]. destruct (search_spec q t Hw) as (r & Hr & Hin). exists r. split; [exact Hr|].
  intros v. rewrite Hin. split; intros (ks & H1 & H2 & H3); exists ks; (split; [exact H1|split; [exact H2|]]);
    [rewrite <- Ho|rewrite Ho]; exact H3.
Qed.

Theorem search_refines_history : forall ops q,
  exists r, search_seq keq klt isph isarg q (state_after ops) = Some r /\
    forall v, In v r <-> exists ks, ks <> [] /\ inst_prefix keq isph isarg ks q = true /\ slookup (spec_after ops) ks = Some v.
Proof. intros ops q. apply search_refines. apply TR_reachable, TR_init. Qed.

Lemma inst_prefix_app ks c rest : instantiates keq isph isarg ks c = true -> inst_prefix keq isph isarg ks (c ++ rest) = true.
Proof.
  revert c. induction ks as [|ck ks IH]; intros [|k c] H; cbn in *; try congruence.
  apply andb_true_iff in H. destruct H as [H1 H2]. rewrite H1, (IH c H2). reflexivity.
Qed.

(* C20, "stays callable" at the level the parser uses the trie: every successfully declared alias
   is among the aliases Search returns for EVERY call that instantiates its pattern (each
   placeholder replaced by an argument, every other token equal; whatever follows the call),
   whatever other aliases are declared before or afterwards - siblings that match the same call
   tokens (a literal word where this alias has a placeholder, or vice versa) do not hide it - and
   across any number of forks. *)
Theorem callable_by_search : forall ops1 ks v ops2 c rest,
  forallb (fun o => negb (is_put o)) ops2 = true ->
  lookup keq klt (state_after ops1) ks = None ->
  ks <> [] ->
  instantiates keq isph isarg ks c = true ->
  exists r, search_seq keq klt isph isarg (c ++ rest) (state_after (ops1 ++ Declare ks v :: ops2)) = Some r /\ In v r.
Proof.
  intros ops1 ks v ops2 c rest Hnp Hnone Hne Hi.
  pose proof (TR_reachable (ops1 ++ Declare ks v :: ops2) empty [] TR_init) as [Hw _].
  fold (state_after (ops1 ++ Declare ks v :: ops2)) in Hw.
  destruct (search_spec (c ++ rest) _ Hw) as (r & Hr & Hin). exists r. split; [exact Hr|].
  apply Hin. exists ks. split; [exact Hne|]. split; [apply inst_prefix_app; exact Hi|].
  apply stays_callable; [exact Hnp|exact Hnone|apply eql_refl].
Qed.

End Proofs.
