(* C16 — parser.sortAliases (src/parser/alias.go:189-218): the candidates the alias trie returned are ordered
   with sort.Slice by (more tokens first, fewer generic parameters first, more reference parameters first).
   The comparator only COUNTS the entries of the parameter map (order-insensitive). Definitions only. *)
From Coq Require Import List Bool Arith NArith.
Import ListNotations.
From DDP Require Import Det.Sorting.

Record cand := mkcand {
  c_id : N;       (* identity of the alias (position in the trie-search result is what the input list records) *)
  c_len : N;      (* len(GetTokens()) *)
  c_gen : N;      (* parameters whose type contains a generic *)
  c_refs : N      (* reference parameters *)
}.

Definition alias_less (a b : cand) : bool :=
  if negb (c_len a =? c_len b)%N then (c_len b <? c_len a)%N
  else if negb (c_gen a =? c_gen b)%N then (c_gen a <? c_gen b)%N
  else (c_refs b <? c_refs a)%N.

(* [l] = the slice Trie.Search returned (depth-first over the key-sorted children: no map involved) *)
Definition sort_aliases (big : list cand -> list cand) (l : list cand) : list cand := go_sort alias_less big l.

Definition same_rank (a b : cand) : bool :=
  (c_len a =? c_len b)%N && (c_gen a =? c_gen b)%N && (c_refs a =? c_refs b)%N.
