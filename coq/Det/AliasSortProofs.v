From Coq Require Import List Bool Arith NArith Lia Permutation Sorted.
Import ListNotations.
From DDP Require Import Det.Sorting Det.SortingProofs Det.AliasSort.

Lemma alias_less_spec : forall a b, alias_less a b = true <->
  (c_len b < c_len a \/ (c_len a = c_len b /\ (c_gen a < c_gen b \/ (c_gen a = c_gen b /\ c_refs b < c_refs a))))%N.
Proof.
  intros a b. unfold alias_less.
  destruct (N.eqb_spec (c_len a) (c_len b)) as [El|Nl]; cbn [negb].
  - destruct (N.eqb_spec (c_gen a) (c_gen b)) as [Eg|Ng]; cbn [negb]; rewrite N.ltb_lt; lia.
  - rewrite N.ltb_lt. lia.
Qed.

Lemma alias_less_false : forall a b, alias_less a b = false <->
  ~ (c_len b < c_len a \/ (c_len a = c_len b /\ (c_gen a < c_gen b \/ (c_gen a = c_gen b /\ c_refs b < c_refs a))))%N.
Proof.
  intros a b. rewrite <- alias_less_spec. destruct (alias_less a b).
  - split; [intros H; discriminate H|intros H; exfalso; apply H; reflexivity].
  - split; [intros _ H; discriminate H|reflexivity].
Qed.

Lemma alias_asym : asym alias_less.
Proof. intros a b H. apply alias_less_spec in H. apply alias_less_false. lia. Qed.

Lemma alias_negtrans : negtrans alias_less.
Proof. intros a b c H1 H2. apply alias_less_false in H1, H2. apply alias_less_false. lia. Qed.

Lemma alias_tied : forall a b, same_rank a b = true -> alias_less a b = false.
Proof.
  intros a b H. unfold same_rank in H. apply andb_true_iff in H. destruct H as [H H3]. apply andb_true_iff in H. destruct H as [H1 H2].
  apply N.eqb_eq in H1, H2, H3. apply alias_less_false. lia.
Qed.

(* neither less than the other = same rank: the ties of the comparator are exactly the equal triples *)
Lemma alias_incomparable : forall a b, alias_less a b = false -> alias_less b a = false -> same_rank a b = true.
Proof.
  intros a b H1 H2. apply alias_less_false in H1, H2. unfold same_rank.
  rewrite !andb_true_iff, !N.eqb_eq. lia.
Qed.

(* stability of Go's small-slice insertion sort: elements of a class whose members are mutually not-less keep
   their input order *)
Section Stable.
  Variable A : Type.
  Variable less : A -> A -> bool.
  Variable P : A -> bool.
  Hypothesis tied : forall x y, P x = true -> P y = true -> less x y = false.

  Lemma ins_filter : forall x rp, filter P (ins less x rp) = if P x then x :: filter P rp else filter P rp.
  Proof.
    intros x rp; induction rp as [|y rp IH]; cbn [ins filter].
    - destruct (P x); reflexivity.
    - destruct (less x y) eqn:E; cbn [filter].
      + rewrite IH. destruct (P x) eqn:Px, (P y) eqn:Py; try reflexivity.
        rewrite (tied x y Px Py) in E. discriminate E.
      + destruct (P x); reflexivity.
  Qed.

  Lemma fold_ins_filter : forall l acc,
      filter P (fold_left (fun rp x => ins less x rp) l acc) = rev (filter P l) ++ filter P acc.
  Proof.
    induction l as [|x l IH]; intros acc; cbn [fold_left filter]; [reflexivity|].
    rewrite IH, ins_filter. destruct (P x); cbn [rev]; [rewrite <- app_assoc|]; reflexivity.
  Qed.

  Lemma filter_rev : forall (l : list A), filter P (rev l) = rev (filter P l).
  Proof.
    induction l as [|x l IH]; cbn [rev filter]; [reflexivity|].
    rewrite filter_app, IH. cbn [filter]. destruct (P x); cbn [rev]; [reflexivity|apply app_nil_r].
  Qed.

  Theorem isort_stable : forall l, filter P (isort less l) = filter P l.
  Proof.
    intros l. unfold isort, isort_rev. rewrite filter_rev, fold_ins_filter. cbn [filter]. rewrite app_nil_r. apply rev_involutive.
  Qed.
End Stable.

(* sortAliases: a sorted permutation of the trie-search result; up to 12 candidates, candidates of equal rank stay
   in trie-search order (so "the first maximal candidate that type-checks" is a function of the search result) *)
Theorem sort_aliases_spec : forall big l,
    (forall l0, Permutation l0 (big l0)) ->
    Permutation l (sort_aliases big l) /\
    (length l <= 12 -> sorted alias_less (sort_aliases big l) /\
       forall c, filter (same_rank c) (sort_aliases big l) = filter (same_rank c) l).
Proof.
  intros big l Hb. split; [apply go_sort_perm; exact Hb|].
  intros Hlen. unfold sort_aliases, go_sort.
  replace (length l <=? max_insertion) with true by (symmetry; apply Nat.leb_le; exact Hlen). split.
  - apply isort_sorted; [exact alias_asym|exact alias_negtrans].
  - intros c. apply isort_stable. intros x y Px Py. apply alias_tied.
    unfold same_rank in *. rewrite !andb_true_iff, !N.eqb_eq in *. intuition congruence.
Qed.
