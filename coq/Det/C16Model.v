(* C16 — entry points of the extracted model: the SET of observations the model allows for a small case,
   obtained by running the site under every iteration order. Definitions only. *)
From Coq Require Import List Bool NArith.
Import ListNotations.
From DDP Require Import Det.Sorting Det.Sites.

Definition obs := (option N * bool)%type.

(* slices of at most 12 elements never reach the pdqsort branch; the identity stands in for it *)
Definition no_big (l : list decl) : list decl := l.

Definition predict_import (existing : list N) (l : list decl) : list obs :=
  map (import_site no_big existing) (perms l).
Definition predict_import_fixed (existing : list N) (l : list decl) : list obs :=
  map (import_site_fixed no_big existing) (perms l).
Definition predict_import_order (l : list decl) : list (list N) :=
  map (imported_symbols no_big) (perms l).

Definition predict_call (m : list arg) : list obs :=
  flat_map (fun mr => map (fun mt => call_stmt mr mt) (perms m)) (perms m).
Definition predict_call_fixed (params : list N) (m : list arg) : list obs :=
  flat_map (fun mr => map (fun mt => call_stmt_fixed params mr mt) (perms m)) (perms m).

Definition predict_unify (m : list (N * bool)) : list obs := map unify_report (perms m).
Definition predict_unify_fixed (m : list (N * bool)) : list obs := map unify_report_fixed (perms m).

Definition predict_link (deps : list dep) : list (list garg) :=
  flat_map (fun d => let g := group_libs d in
     flat_map (fun e1 => map (fun e2 => link_cmdline d e1 e2) (perms g)) (perms g)) (perms deps).
