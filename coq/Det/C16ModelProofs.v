(* the enumerations of Det/C16Model.v are exactly the observations over all iteration orders *)
From Coq Require Import List Bool Arith NArith Permutation.
Import ListNotations.
From DDP Require Import Det.Sorting Det.SortingProofs Det.Sites Det.SitesProofs Det.C16Model.

Theorem predict_import_spec : forall existing l o,
    In o (predict_import existing l) <-> exists l', Permutation l l' /\ o = import_site no_big existing l'.
Proof.
  intros existing l o. unfold predict_import. rewrite in_map_iff. split.
  - intros [l' [E Hin]]. exists l'. split; [apply perms_sound; exact Hin|symmetry; exact E].
  - intros [l' [Hp E]]. exists l'. split; [symmetry; exact E|apply perms_complete; exact Hp].
Qed.

Theorem predict_call_spec : forall m o,
    In o (predict_call m) <-> exists mr mt, Permutation m mr /\ Permutation m mt /\ o = call_stmt mr mt.
Proof.
  intros m o. unfold predict_call. rewrite in_flat_map. split.
  - intros [mr [Hr Hin]]. apply in_map_iff in Hin. destruct Hin as [mt [E Ht]].
    exists mr, mt. split; [apply perms_sound; exact Hr|]. split; [apply perms_sound; exact Ht|symmetry; exact E].
  - intros [mr [mt [Hr [Ht E]]]]. exists mr. split; [apply perms_complete; exact Hr|].
    apply in_map_iff. exists mt. split; [symmetry; exact E|apply perms_complete; exact Ht].
Qed.

Theorem predict_unify_spec : forall m o,
    In o (predict_unify m) <-> exists m', Permutation m m' /\ o = unify_report m'.
Proof.
  intros m o. unfold predict_unify. rewrite in_map_iff. split.
  - intros [m' [E Hin]]. exists m'. split; [apply perms_sound; exact Hin|symmetry; exact E].
  - intros [m' [Hp E]]. exists m'. split; [symmetry; exact E|apply perms_complete; exact Hp].
Qed.

(* the repaired sites predict exactly one observation *)
Theorem predict_call_fixed_singleton : forall params m o o',
    NoDup (map a_name m) -> In o (predict_call_fixed params m) -> In o' (predict_call_fixed params m) -> o = o'.
Proof.
  intros params m o o' Hnd H H'. unfold predict_call_fixed in *.
  apply in_flat_map in H. destruct H as [mr [Hr H]]. apply in_map_iff in H. destruct H as [mt [E Ht]].
  apply in_flat_map in H'. destruct H' as [mr' [Hr' H']]. apply in_map_iff in H'. destruct H' as [mt' [E' Ht']].
  subst o o'. apply perms_sound in Hr, Ht, Hr', Ht'.
  rewrite <- (call_stmt_fixed_invariant params m mr m mt Hnd Hnd Hr Ht).
  rewrite <- (call_stmt_fixed_invariant params m mr' m mt' Hnd Hnd Hr' Ht'). reflexivity.
Qed.

Theorem predict_import_fixed_singleton : forall existing l o o',
    length l <= 12 ->
    (forall a b, In a l -> In b l -> d_pos a = d_pos b -> a = b) ->
    In o (predict_import_fixed existing l) -> In o' (predict_import_fixed existing l) -> o = o'.
Proof.
  intros existing l o o' Hlen Hinj H H'. unfold predict_import_fixed in *.
  apply in_map_iff in H. destruct H as [l1 [E1 H1]]. apply in_map_iff in H'. destruct H' as [l2 [E2 H2]].
  subst o o'. apply perms_sound in H1, H2.
  assert (G : forall l', Permutation l l' -> import_site_fixed no_big existing l = import_site_fixed no_big existing l').
  { intros l' Hp. unfold import_site_fixed, imported_decls_fixed, go_sort.
    rewrite <- (Permutation_length Hp).
    replace (length l <=? max_insertion) with true by (symmetry; apply Nat.leb_le; exact Hlen).
    f_equal. f_equal. apply isort_invariant.
    - intros a b Hab. apply lex_asym. exact Hab.
    - intros a b c Hab Hbc. eapply lex_negtrans; eassumption.
    - intros a b Ha Hb Hab Hba. apply Hinj; [exact Ha|exact Hb|]. apply lex_total; assumption.
    - exact Hp. }
  rewrite <- (G l1 H1), <- (G l2 H2). reflexivity.
Qed.
