(* C16 — a whole statement: expressions as trees whose nodes visit their children either in a fixed order
   (operators, groupings, the repaired call) or in map order (ast.FuncCall.Args / ast.StructLiteral.Args on
   the pinned tree). Generalises Det/Sites.v's flat argument map to nested calls. Definitions only. *)
From Coq Require Import List Bool NArith Permutation.
Import ListNotations.
From DDP Require Import Det.Sites.

Inductive expr :=
| Node (r : list N)        (* diagnostics the resolver raises at this node before visiting the children *)
       (tpre : list N)     (* diagnostics the typechecker raises before evaluating the children *)
       (ordered : bool)    (* true: children visited in slice order; false: `range` over a map *)
       (kids : list expr)
       (tpost : list N).   (* checks after the children were evaluated (operand / parameter type mismatch, ...) *)

Fixpoint rdiags (e : expr) : list N :=
  match e with Node r _ _ kids _ => r ++ flat_map rdiags kids end.
Fixpoint tdiags (e : expr) : list N :=
  match e with Node _ tpre _ kids tpost => tpre ++ flat_map tdiags kids ++ tpost end.

(* parser.checkStatement: resolver pass over the whole statement, then typechecker pass; panic mode *)
Definition stmt_report (e : expr) : option N * bool := report (rdiags e ++ tdiags e).

(* e' is e as some run of the compiler walks it: at every unordered node the children come in some order
   (each pass ranges anew, so the resolver walk and the typechecker walk are two independent reorderings) *)
Definition kid_order (o : bool) (k1 k2 : list expr) : Prop := if o then k2 = k1 else Permutation k1 k2.

Inductive reorder : expr -> expr -> Prop :=
| RO_node : forall r tpre o kids kids1 kids2 tpost,
    Forall2 reorder kids kids1 ->
    kid_order o kids1 kids2 ->
    reorder (Node r tpre o kids tpost) (Node r tpre o kids2 tpost).

Definition stmt_report2 (er et : expr) : option N * bool := report (rdiags er ++ tdiags et).

Fixpoint all_ordered (e : expr) : bool :=
  match e with Node _ _ o kids _ => o && forallb all_ordered kids end.

(* an argument checked against its parameter: evaluate, then the per-parameter checks *)
Definition checked_arg (e : expr) (checks : list N) : expr := Node [] [] true [e] checks.
Definition leaf (r t : list N) : expr := Node r t true [] [].
