From Coq Require Import List Bool NArith Permutation.
Import ListNotations.
From DDP Require Import Det.Sites Det.SitesProofs Det.ExprTree.

(* induction principle with the hypothesis for every child *)
Fixpoint expr_ind' (P : expr -> Prop)
  (H : forall r tpre o kids tpost, Forall P kids -> P (Node r tpre o kids tpost)) (e : expr) : P e :=
  match e with
  | Node r tpre o kids tpost =>
    H r tpre o kids tpost
      ((fix go (l : list expr) : Forall P l :=
          match l with
          | [] => Forall_nil P
          | k :: l' => Forall_cons k (expr_ind' P H k) (go l')
          end) kids)
  end.

Lemma flat_map_forall2_perm : forall (f : expr -> list N) kids kids1,
    Forall2 (fun a b => Permutation (f a) (f b)) kids kids1 ->
    Permutation (flat_map f kids) (flat_map f kids1).
Proof.
  intros f kids kids1 HF. induction HF as [|a b l l' Hab HF IH]; cbn [flat_map]; [apply Permutation_refl|].
  apply Permutation_app; assumption.
Qed.

Theorem reorder_diags_perm : forall e e', reorder e e' ->
    Permutation (rdiags e) (rdiags e') /\ Permutation (tdiags e) (tdiags e').
Proof.
  intros e. induction e as [r tpre o kids tpost IH] using expr_ind'. intros e' Hr.
  inversion Hr as [r0 tpre0 o0 kids0 kids1 kids2 tpost0 HF Hord]; subst.
  assert (HR : Forall2 (fun a b => Permutation (rdiags a) (rdiags b)) kids kids1 /\
               Forall2 (fun a b => Permutation (tdiags a) (tdiags b)) kids kids1).
  { clear Hr Hord. induction HF as [|a b l l' Hab HF IHF].
    - split; constructor.
    - inversion IH as [|? ? Pa Pl]; subst. destruct (IHF Pl) as [H1 H2].
      destruct (Pa b Hab) as [Ha1 Ha2]. split; constructor; assumption. }
  destruct HR as [HR HT].
  assert (P12 : Permutation kids1 kids2).
  { unfold kid_order in Hord. destruct o; [subst; apply Permutation_refl|exact Hord]. }
  cbn [rdiags tdiags]. split.
  - apply Permutation_app_head.
    eapply Permutation_trans; [apply flat_map_forall2_perm; exact HR|]. apply Permutation_flat_map. exact P12.
  - apply Permutation_app_head. apply Permutation_app_tail.
    eapply Permutation_trans; [apply flat_map_forall2_perm; exact HT|]. apply Permutation_flat_map. exact P12.
Qed.

(* whatever orders the two passes take: same verdict, and the delivered diagnostic is one of a fixed multiset *)
Theorem stmt_report_partial : forall e er et, reorder e er -> reorder e et ->
    snd (stmt_report2 er et) = snd (stmt_report e) /\
    (forall d, fst (stmt_report2 er et) = Some d -> In d (rdiags e ++ tdiags e)).
Proof.
  intros e er et Hr Ht. destruct (reorder_diags_perm e er Hr) as [Pr _]. destruct (reorder_diags_perm e et Ht) as [_ Pt].
  assert (P : Permutation (rdiags e ++ tdiags e) (rdiags er ++ tdiags et)) by (apply Permutation_app; assumption).
  unfold stmt_report2, stmt_report. split.
  - symmetry. apply report_faulty_perm. exact P.
  - intros d H. eapply report_delivered_perm; [exact P|exact H].
Qed.

(* once every node walks its children in a fixed order there is nothing left to choose *)
Theorem reorder_all_ordered : forall e e', all_ordered e = true -> reorder e e' -> e' = e.
Proof.
  intros e. induction e as [r tpre o kids tpost IH] using expr_ind'. intros e' Ho Hr.
  inversion Hr as [r0 tpre0 o0 kids0 kids1 kids2 tpost0 HF Hord]; subst.
  cbn [all_ordered] in Ho. apply andb_true_iff in Ho. destruct Ho as [Ho Hk]. subst o. unfold kid_order in Hord. subst kids2.
  f_equal. clear Hr. revert Hk. induction HF as [|a b l l' Hab HF IHF]; intros Hk; [reflexivity|].
  cbn [forallb] in Hk. apply andb_true_iff in Hk. destruct Hk as [Hka Hkl].
  inversion IH as [|? ? Pa Pl]; subst. f_equal; [apply Pa; assumption|apply IHF; assumption].
Qed.

Theorem stmt_report_fixed : forall e er et, all_ordered e = true -> reorder e er -> reorder e et ->
    stmt_report2 er et = stmt_report e.
Proof.
  intros e er et Ho Hr Ht. rewrite (reorder_all_ordered e er Ho Hr), (reorder_all_ordered e et Ho Ht). reflexivity.
Qed.

(* nested witness: f(g("x", "y"), 1): the inner call's two ill-typed arguments *)
Definition inner := Node [] [] false [checked_arg (leaf [] []) [10%N]; checked_arg (leaf [] []) [20%N]] [].
Definition inner' := Node [] [] false [checked_arg (leaf [] []) [20%N]; checked_arg (leaf [] []) [10%N]] [].
Definition outer (i : expr) := Node [] [] false [checked_arg i []; checked_arg (leaf [] []) []] [].

Lemma reorder_refl : forall e, reorder e e.
Proof.
  intros e. induction e as [r tpre o kids tpost IH] using expr_ind'.
  apply (RO_node r tpre o kids kids kids tpost).
  - induction IH; constructor; assumption.
  - unfold kid_order. destruct o; [reflexivity|apply Permutation_refl].
Qed.

Theorem stmt_report_refuted :
  exists e e1 e2, reorder e e1 /\ reorder e e2 /\ stmt_report2 e1 e1 <> stmt_report2 e2 e2.
Proof.
  exists (outer inner), (outer inner), (outer inner'). split; [apply reorder_refl|]. split.
  - unfold outer. eapply RO_node with (kids1 := [checked_arg inner' []; checked_arg (leaf [] []) []]).
    + constructor.
      * unfold checked_arg. eapply RO_node with (kids1 := [inner']); [|reflexivity].
        constructor; [|constructor]. unfold inner, inner'.
        eapply RO_node; [|apply perm_swap]. constructor; [apply reorder_refl|]. constructor; [apply reorder_refl|constructor].
      * constructor; [apply reorder_refl|constructor].
    + apply Permutation_refl.
  - vm_compute. intros H. discriminate H.
Qed.
