(* C16 — non-vacuity: the hypotheses of every conditional theorem of Props/C16.v are satisfiable by
   non-trivial instances (and the conclusions are not trivially true there). *)
From Coq Require Import List Bool Arith NArith Lia Permutation Sorted.
Import ListNotations.
From DDP Require Import Det.Sorting Det.SortingProofs Det.Sites Det.SitesProofs Det.C16Model Det.C16ModelProofs Det.ExprTree Det.ExprTreeProofs Det.AliasSort Det.AliasSortProofs.

Definition p11 := mkpos 1 1.
Definition p15 := mkpos 1 5.
Definition p21 := mkpos 2 1.

Ltac permc := apply perms_sound; cbv; repeat (first [left; reflexivity | right]).
Ltac nd := repeat (constructor; [cbn; intuition discriminate|]); constructor.

(* sorted_unique / isort_invariant: a three-element list, two distinct arrangements, both sort to the same *)
Example nv_sorted_unique :
  let l := [p21; p11; p15] in let l' := [p15; p21; p11] in
  Permutation l l' /\ l <> l' /\ total_on lex_lt l /\ isort lex_lt l = [p11; p15; p21] /\ isort lex_lt l' = [p11; p15; p21] /\
  sorted lex_lt (isort lex_lt l).
Proof.
  cbn zeta. split; [|split; [|split; [|split; [|split]]]].
  - permc.
  - intros H. discriminate H.
  - intros a b _ _ H1 H2. apply lex_total; assumption.
  - vm_compute. reflexivity.
  - vm_compute. reflexivity.
  - apply sortedb_spec. vm_compute. reflexivity.
Qed.

(* the pdqsort contract is satisfiable: the insertion sort itself meets it *)
Example nv_sorts : sorts decl_lex_lt (isort decl_lex_lt).
Proof.
  intros l. split; [apply isort_perm|]. apply isort_sorted.
  - intros a b H. apply lex_asym. exact H.
  - intros a b c H1 H2. eapply lex_negtrans; eassumption.
Qed.

Definition e1 := mkdecl 1 (mkpos 1 1) [].
Definition e2 := mkdecl 2 (mkpos 2 1) [7%N].
Definition e3 := mkdecl 3 (mkpos 3 1) [].

(* same-column layout, a conflict is really reported, and it is the same for a different map order *)
Example nv_import_same_column :
  let l := [e3; e1; e2] in let l' := [e2; e3; e1] in
  length l <= 12 /\ (forall a b, In a l -> In b l -> col (d_pos a) = col (d_pos b)) /\
  (forall a b, In a l -> In b l -> d_pos a = d_pos b -> a = b) /\ Permutation l l' /\ l <> l' /\
  import_site no_big [3%N] l = (Some 7%N, true) /\ import_site no_big [3%N] l' = (Some 7%N, true).
Proof.
  cbn zeta. split; [cbn; lia|]. split; [|split; [|split; [|split; [|split]]]].
  - intros a b Ha Hb. cbn in Ha, Hb. intuition (subst; reflexivity).
  - intros a b Ha Hb. cbn in Ha, Hb. intuition (subst; try reflexivity; discriminate).
  - permc.
  - intros H. discriminate H.
  - vm_compute. reflexivity.
  - vm_compute. reflexivity.
Qed.

(* fixed comparator on the very input that refutes the pinned one *)
Example nv_import_fixed :
  let l := [dA; dB; dC] in let l' := [dA; dC; dB] in
  (forall a b, In a l -> In b l -> d_pos a = d_pos b -> a = b) /\ Permutation l l' /\
  import_site_fixed no_big [2%N; 3%N] l = (Some 2%N, true) /\ import_site_fixed no_big [2%N; 3%N] l' = (Some 2%N, true) /\
  import_site no_big [2%N; 3%N] l <> import_site no_big [2%N; 3%N] l'.
Proof.
  cbn zeta. split; [|split; [|split; [|split]]].
  - intros a b Ha Hb. cbn in Ha, Hb. intuition (subst; try reflexivity; discriminate).
  - apply perm_skip, perm_swap.
  - vm_compute. reflexivity.
  - vm_compute. reflexivity.
  - vm_compute. intros H. discriminate H.
Qed.

(* one faulty argument among three: the partial theorem's side condition holds and something is reported *)
Definition g1 := mkarg 1 [] [].
Definition g2 := mkarg 2 [] [30%N].
Definition g3 := mkarg 3 [] [].
Example nv_call_partial :
  let m := [g1; g2; g3] in let m' := [g3; g2; g1] in
  Permutation m m' /\ m <> m' /\
  (forall a b, In a m -> In b m -> a_rdiags a <> [] -> a_rdiags b <> [] -> a = b) /\
  (forall a b, In a m -> In b m -> a_tdiags a <> [] -> a_tdiags b <> [] -> a = b) /\
  call_stmt m m = (Some 30%N, true) /\ call_stmt m' m' = (Some 30%N, true).
Proof.
  cbn zeta. split; [|split; [|split; [|split; [|split]]]].
  - permc.
  - intros H. discriminate H.
  - intros a b Ha Hb H1 H2. cbn in Ha, Hb. intuition (subst; cbn in *; congruence).
  - intros a b Ha Hb H1 H2. cbn in Ha, Hb. intuition (subst; cbn in *; congruence).
  - vm_compute. reflexivity.
  - vm_compute. reflexivity.
Qed.

(* the repaired iteration on the refuting input *)
Example nv_call_fixed :
  let m := [argX; argY] in let m' := [argY; argX] in
  NoDup (map a_name m) /\ Permutation m m' /\
  call_stmt_fixed [1%N; 2%N] m m = (Some 10%N, true) /\ call_stmt_fixed [1%N; 2%N] m' m' = (Some 10%N, true) /\
  call_stmt m m <> call_stmt m' m'.
Proof.
  cbn zeta. split; [nd|]. split; [apply perm_swap|]. split; [vm_compute; reflexivity|]. split; [vm_compute; reflexivity|].
  vm_compute. intros H. discriminate H.
Qed.

Example nv_unify_fixed :
  let m := [(2%N, false); (1%N, false); (3%N, true)] in let m' := [(3%N, true); (1%N, false); (2%N, false)] in
  NoDup (map fst m) /\ Permutation m m' /\ unify_report_fixed m = (Some 1%N, true) /\ unify_report_fixed m' = (Some 1%N, true) /\
  unify_report m <> unify_report m'.
Proof.
  cbn zeta. split; [nd|]. split.
  - permc.
  - split; [vm_compute; reflexivity|]. split; [vm_compute; reflexivity|]. vm_compute. intros H. discriminate H.
Qed.

(* frees: two scopes orders, the heap really shrinks; a double free really crashes in both orders *)
Definition w1 := mkvar [5%N; 6%N] false.
Definition w2 := mkvar [7%N] false.
Definition w3 := mkvar [8%N] true.
Example nv_scope_frees :
  Permutation [w1; w2; w3] [w3; w2; w1] /\
  run_frees (scope_frees [w1; w2; w3]) [5; 6; 7; 8; 9]%N = Some [8; 9]%N /\
  run_frees (scope_frees [w3; w2; w1]) [5; 6; 7; 8; 9]%N = Some [8; 9]%N /\
  scope_frees [w1; w2; w3] <> scope_frees [w3; w2; w1] /\
  run_frees (scope_frees [w1; w1]) [5; 6]%N = None.
Proof.
  split.
  - permc.
  - split; [vm_compute; reflexivity|]. split; [vm_compute; reflexivity|]. split; [|vm_compute; reflexivity].
    vm_compute. intros H. discriminate H.
Qed.

Example nv_return_frees :
  Forall2 (@Permutation var) [[w1; w2]; [w3]] [[w2; w1]; [w3]] /\
  run_frees (return_frees [[w1; w2]; [w3]]) [5; 6; 7; 8]%N = Some [8%N].
Proof. split; [constructor; [apply perm_swap|constructor; [apply Permutation_refl|constructor]]|vm_compute; reflexivity]. Qed.

Example nv_ll_link :
  Permutation [[1; 2]; [3]; [4]]%N [[4]; [1; 2]; [3]]%N /\
  fst (ll_link [9%N] [[1; 2]; [3]; [4]]%N) = true /\ fst (ll_link [9%N] [[1; 2]; [3]; [1]]%N) = false.
Proof.
  split; [|split; vm_compute; reflexivity].
  permc.
Qed.

Example nv_ll_parse :
  Permutation [(1, true); (2, false); (3, true)]%N [(3, true); (2, false); (1, true)]%N /\
  length (filter (fun m : N * bool => negb (snd m)) [(1, true); (2, false); (3, true)]%N) <= 1 /\
  ll_parse [(1, true); (2, false); (3, true)]%N = (Some 2%N, true).
Proof.
  split; [|split; [cbn; lia|vm_compute; reflexivity]].
  permc.
Qed.

Example nv_link_cmdline :
  let deps := [Lib 1 1; Obj 5; Lib 2 2] in let deps' := [Lib 2 2; Lib 1 1; Obj 5] in
  Permutation deps deps' /\
  link_cmdline deps (group_libs deps) (group_libs deps) <> link_cmdline deps' (group_libs deps') (group_libs deps') /\
  length (link_cmdline deps (group_libs deps) (group_libs deps)) = 5.
Proof.
  cbn zeta. split; [|split].
  - permc.
  - vm_compute. intros H. discriminate H.
  - vm_compute. reflexivity.
Qed.

Example nv_predict_fixed_singleton :
  NoDup (map a_name [argX; argY]) /\ In (Some 10%N, true) (predict_call_fixed [1%N; 2%N] [argX; argY]) /\
  In (Some 10%N, true) (predict_call [argX; argY]) /\ In (Some 20%N, true) (predict_call [argX; argY]) /\
  (forall a b, In a [dA; dB; dC] -> In b [dA; dB; dC] -> d_pos a = d_pos b -> a = b) /\
  In (Some 2%N, true) (predict_import_fixed [2%N; 3%N] [dA; dB; dC]).
Proof.
  split; [nd|]. split; [vm_compute; left; reflexivity|]. split; [vm_compute; left; reflexivity|].
  split; [vm_compute; right; left; reflexivity|]. split; [|vm_compute; left; reflexivity].
  intros a b Ha Hb. cbn in Ha, Hb. intuition (subst; try reflexivity; discriminate).
Qed.

(* whole statements: a nested call walked in declaration order really reports, and the same for every walk;
   the map-ordered original of the same tree has two different walks (stmt_report_refuted) *)
Definition inner_fixed := Node [] [] true [checked_arg (leaf [] []) [10%N]; checked_arg (leaf [] []) [20%N]] [].
Definition outer_fixed := Node [] [] true [checked_arg inner_fixed []; checked_arg (leaf [5%N] []) []] [].
Example nv_stmt_fixed :
  all_ordered outer_fixed = true /\ reorder outer_fixed outer_fixed /\ stmt_report outer_fixed = (Some 5%N, true) /\
  reorder (outer inner) (outer inner) /\ stmt_report (outer inner) = (Some 10%N, true).
Proof.
  split; [vm_compute; reflexivity|]. split; [apply reorder_refl|]. split; [vm_compute; reflexivity|].
  split; [apply reorder_refl|vm_compute; reflexivity].
Qed.

(* sortAliases: three candidates of which two tie; the tie keeps the trie-search order, whichever way round it was *)
Definition k1 := mkcand 1 3 0 0.
Definition k2 := mkcand 2 3 0 0.
Definition k3 := mkcand 3 5 0 1.
Example nv_sort_aliases :
  length [k1; k2; k3] <= 12 /\ same_rank k1 k2 = true /\
  sort_aliases (fun l => l) [k1; k2; k3] = [k3; k1; k2] /\ sort_aliases (fun l => l) [k2; k3; k1] = [k3; k2; k1].
Proof. split; [cbn; lia|]. split; [reflexivity|]. split; vm_compute; reflexivity. Qed.
