(* C16 — the regenerated inventory of order-dependent sites (coq/Gen/Sites.v) is a list of
   (site key, classification); this file fixes the classification type and the admissible model names. *)
From Coq Require Import List String Bool.
Import ListNotations.
Open Scope string_scope.

Inductive site_class :=
| Insensitive                (* order cannot influence an observable; reason recorded in models/c16_sites.json *)
| Outside                    (* not on the compile path *)
| Modelled (model : string)  (* a definition of Det/Sites.v, theorems in Props/C16.v *)
| Unclassified.              (* present in /repo but missing from models/c16_sites.json *)

(* model name -> the site function of Det/Sites.v it stands for *)
Definition known_models : list string :=
  [ "imported_decls"; "imported_decls_fixed"; "imported_decls_maporder";
    "check_call_args"; "resolve_call_args"; "check_struct_args"; "resolve_struct_args";
    "check_call_args_fixed"; "resolve_call_args_fixed"; "check_struct_args_fixed"; "resolve_struct_args_fixed";
    "unify_report"; "unify_report_fixed";
    "scope_frees"; "return_frees"; "dispose"; "ll_parse"; "ll_link";
    "link_cmdline"; "link_cmdline_fixed"; "sort_aliases" ].

(* models whose permutation invariance is REFUTED (defects of the pinned tree, KNOWN_FINDINGS) *)
Definition refuted_models : list string :=
  [ "imported_decls"; "check_call_args"; "resolve_call_args"; "check_struct_args"; "resolve_struct_args";
    "unify_report"; "link_cmdline" ].

Definition site_ok (s : string * site_class) : bool :=
  match snd s with
  | Unclassified => false
  | Modelled m => existsb (String.eqb m) known_models
  | _ => true
  end.

Definition site_refuted (s : string * site_class) : bool :=
  match snd s with
  | Modelled m => existsb (String.eqb m) refuted_models
  | _ => false
  end.
