(* C16 — every site of the regenerated inventory (coq/Gen/Sites.v, rewritten by ./check C16 from /repo and
   models/c16_sites.json) is classified, and "modelled" sites name a model that exists. *)
From Coq Require Import List String Bool.
Import ListNotations.
From DDP Require Import Det.SiteIndex Gen.Sites.

Lemma all_sites_classified : forallb site_ok sites = true.
Proof. vm_compute. reflexivity. Qed.

Lemma every_site_classified : forall s, In s sites -> site_ok s = true.
Proof. apply forallb_forall. exact all_sites_classified. Qed.
