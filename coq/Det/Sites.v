(* C16 — every order-dependent site of the compile path as a function of the order in which Go happens to
   iterate the map / of the slice handed to sort.Slice. A Go map is modelled as the LIST of its entries in
   the order one particular `range` statement delivers them; two iterations of the same map deliver
   permutations of each other (keys are distinct). Definitions only; proofs in Det/SitesProofs.v.

   Diagnostics are abstract identifiers (N): one identifier per (code, range, named entity).
   Under panic mode (parser.errVal / resolver.err / typechecker.err) only the FIRST diagnostic raised
   while one top-level statement is parsed, resolved and type-checked is delivered; every raised
   diagnostic sets Faulty. *)
From Coq Require Import List Bool Arith NArith.
Import ListNotations.
From DDP Require Import Det.Sorting.

Definition memN (x : N) (l : list N) : bool := existsb (N.eqb x) l.

(* what a statement shows to the outside: the delivered diagnostic (if any) and the Faulty flag *)
Definition report (ds : list N) : option N * bool :=
  (hd_error ds, match ds with [] => false | _ => true end).

(* ------------------------------------------------------------------------------------------------
   ast.IterateImportedDecls (src/ast/helper.go:94-121), whole-module import
   ------------------------------------------------------------------------------------------------ *)
Record decl := mkdecl {
  d_name : N;             (* key in Module.PublicDecls; also identifies "name already defined: <name>" *)
  d_pos : pos;            (* GetRange().Start *)
  d_pdiags : list N       (* diagnostics parser.resolveModuleImport raises for this declaration:
                             alias already defined / operator already overloaded *)
}.

Definition decl_code_lt (a b : decl) : bool := code_lt (d_pos a) (d_pos b).
Definition decl_lex_lt (a b : decl) : bool := lex_lt (d_pos a) (d_pos b).

(* [l] = PublicDecls in the order `for _, decl := range module.PublicDecls` delivered them *)
Definition imported_decls (big : list decl -> list decl) (l : list decl) : list decl :=
  go_sort decl_code_lt big l.
(* the repaired comparator *)
Definition imported_decls_fixed (big : list decl -> list decl) (l : list decl) : list decl :=
  go_sort decl_lex_lt big l.

(* parser.resolveModuleImport callback (parser.go:306-340): declarations whose name is already bound are
   skipped, for the others the aliases / operator overloads are registered (may raise diagnostics);
   then resolver.VisitImportStmt (resolver.go:340-360): every declaration whose name is already bound
   raises SEM_NAME_ALREADY_DEFINED naming it *)
Definition import_diags (existing : list N) (ds : list decl) : list N :=
  flat_map (fun d => if memN (d_name d) existing then [] else d_pdiags d) ds ++
  map d_name (filter (fun d => memN (d_name d) existing) ds).

Definition import_site (big : list decl -> list decl) (existing : list N) (l : list decl) : option N * bool :=
  report (import_diags existing (imported_decls big l)).
Definition import_site_fixed (big : list decl -> list decl) (existing : list N) (l : list decl) : option N * bool :=
  report (import_diags existing (imported_decls_fixed big l)).
(* the compiler walks the same sequence to declare the imported symbols (compiler.go:2256): only the
   set of declared symbols matters *)
Definition imported_symbols (big : list decl -> list decl) (l : list decl) : list N :=
  map d_name (imported_decls big l).

(* ------------------------------------------------------------------------------------------------
   argument maps: ast.FuncCall.Args / ast.StructLiteral.Args (map[string]ast.Expression)
   resolver.VisitFuncCall / VisitStructLiteral (resolver.go:307-320): for _, v := range Args { visit(v) }
   typechecker.VisitFuncCall / VisitStructLiteral (typechecker.go:635-691): for k, e := range Args {
       Evaluate(e); reference checks; type mismatch against parameter/field k }
   ------------------------------------------------------------------------------------------------ *)
Record arg := mkarg {
  a_name : N;             (* parameter / field name = map key *)
  a_rdiags : list N;      (* diagnostics the resolver raises inside the argument expression *)
  a_tdiags : list N       (* diagnostics the typechecker raises for it: inside the expression, then
                             TYP_EXPECTED_REFERENCE / TYP_INVALID_REFERENCE, then TYP_TYPE_MISMATCH *)
}.

Definition resolve_call_args (m : list arg) : list N := flat_map a_rdiags m.
Definition check_call_args (m : list arg) : list N := flat_map a_tdiags m.
Definition resolve_struct_args := resolve_call_args.
Definition check_struct_args := check_call_args.

(* one statement containing the call: the resolver pass runs over the whole statement before the typechecker
   pass (parser.checkStatement), each pass ranges over the map anew: [mr] and [mt] are the two orders *)
Definition call_stmt (mr mt : list arg) : option N * bool :=
  report (resolve_call_args mr ++ check_call_args mt).

(* repaired: walk the declared parameters (a slice) and look the argument up *)
Fixpoint lookup_arg (k : N) (m : list arg) : option arg :=
  match m with
  | [] => None
  | a :: t => if N.eqb k (a_name a) then Some a else lookup_arg k t
  end.
Definition in_decl_order (params : list N) (m : list arg) : list arg :=
  flat_map (fun p => match lookup_arg p m with Some a => [a] | None => [] end) params.
Definition call_stmt_fixed (params : list N) (mr mt : list arg) : option N * bool :=
  report (resolve_call_args (in_decl_order params mr) ++ check_call_args (in_decl_order params mt)).

(* ------------------------------------------------------------------------------------------------
   parser.validateStructAlias (declarations.go:965): for typ, wasUnified := range genericUnifiedMap {
       if !wasUnified { return error naming typ } }
   ------------------------------------------------------------------------------------------------ *)
Definition unify_report (m : list (N * bool)) : option N * bool :=
  report (map fst (filter (fun kv => negb (snd kv)) m)).
(* only the first is ever raised (the function returns); same observable *)
Definition unify_report_first (m : list (N * bool)) : option N :=
  option_map fst (find (fun kv => negb (snd kv)) m).
(* repaired: sort the names (or walk the fields) *)
Definition unify_report_fixed (m : list (N * bool)) : option N * bool :=
  unify_report (isort (fun a b => N.ltb (fst a) (fst b)) m).

(* ------------------------------------------------------------------------------------------------
   compiler: frees at scope exit (compiler.go:426-446, 2723), module_dispose calls (206-210)
   ------------------------------------------------------------------------------------------------ *)
(* the heap as the list of live blocks; freeing a block that is not live is the crash (None) *)
Definition heap := list N.
Definition removeN (b : N) (h : heap) : heap := filter (fun x => negb (N.eqb b x)) h.
Definition free1 (s : option heap) (b : N) : option heap :=
  match s with
  | None => None
  | Some h => if memN b h then Some (removeN b h) else None
  end.
Definition run_frees (bs : list N) (h : heap) : option heap := fold_left free1 bs (Some h).

Record var := mkvar {
  v_blocks : list N;      (* heap blocks owned by the (non-primitive) value; [] for primitives *)
  v_skip : bool           (* isRef || protected (exitScope) / isRef || const-elided (exitFuncScope) / isRef (return) *)
}.
(* [vars] = scp.variables in the order the range delivered them *)
Definition scope_frees (vars : list var) : list N :=
  flat_map (fun v => if v_skip v then [] else v_blocks v) vars.
(* VisitReturnStmt: the chain of scopes is walked in order, each scope's map in map order *)
Definition return_frees (scopes : list (list var)) : list N := flat_map scope_frees scopes.
(* ddp_main: one call of module_dispose per imported module, in map order; each frees that module's globals *)
Definition dispose_frees (mods : list (list N)) : list N := flat_map (fun g => g) mods.

(* ------------------------------------------------------------------------------------------------
   compiler.Compile (interface.go:230-246, 321-327): parse the IR of every module (map order), then
   llvmLinkAllModules(main, mapToSlice(ll_modules)). A module = the symbols it defines. LLVM's linker is
   abstracted to: fails iff a symbol is defined twice, otherwise the union of the definitions.
   ------------------------------------------------------------------------------------------------ *)
Fixpoint nodupb (l : list N) : bool :=
  match l with [] => true | x :: t => negb (memN x t) && nodupb t end.
Definition ll_link (main : list N) (mods : list (list N)) : bool * list N :=
  let defs := main ++ flat_map (fun m => m) mods in (nodupb defs, defs).
(* the parse loop returns at the first module whose IR does not parse *)
Definition ll_parse (mods : list (N * bool)) : option N * bool :=
  report (map fst (filter (fun m => negb (snd m)) mods)).

(* ------------------------------------------------------------------------------------------------
   linker.LinkDDPFiles (cmd/internal/linker/link.go:80-126): the gcc command line
   ------------------------------------------------------------------------------------------------ *)
Inductive dep :=
| Lib (dir file : N)      (* .a / .lib : -L<dir> ... -l:<file> *)
| Obj (path : N).         (* .o, or the object compiled from a .c dependency *)

Inductive garg := ArgL (dir : N) | ArgIn (path : N) | Argl (file : N).

(* link_objects[dir] = append(link_objects[dir], file) *)
Fixpoint add_lib (d f : N) (t : list (N * list N)) : list (N * list N) :=
  match t with
  | [] => [(d, [f])]
  | (d', fs) :: t' => if N.eqb d d' then (d', fs ++ [f]) :: t' else (d', fs) :: add_lib d f t'
  end.
Definition group_libs (deps : list dep) : list (N * list N) :=
  fold_left (fun t x => match x with Lib d f => add_lib d f t | Obj _ => t end) deps [].
Definition input_files (deps : list dep) : list N :=
  flat_map (fun x => match x with Obj p => [p] | Lib _ _ => [] end) deps.

(* [deps] = Dependencies in range order; [e1], [e2] = link_objects in the order of its two range loops *)
Definition link_cmdline (deps : list dep) (e1 e2 : list (N * list N)) : list garg :=
  map ArgL (map fst e1) ++ map ArgIn (input_files deps) ++ map Argl (flat_map snd e2).
