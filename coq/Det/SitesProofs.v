(* C16 — permutation invariance (or its refutation) of every modelled order-dependent site. *)
From Coq Require Import List Bool Arith NArith Lia Permutation Sorted.
Import ListNotations.
From DDP Require Import Det.Sorting Det.SortingProofs Det.Sites.

(* ---------------------------------------------------------------- generic lemmas *)
Lemma memN_In : forall x l, memN x l = true <-> In x l.
Proof.
  intros x l. unfold memN. rewrite existsb_exists. split.
  - intros [y [Hy He]]. apply N.eqb_eq in He. subst. exact Hy.
  - intros H. exists x. split; [exact H|apply N.eqb_refl].
Qed.

Lemma memN_perm : forall x l l', Permutation l l' -> memN x l = memN x l'.
Proof.
  intros x l l' Hp. destruct (memN x l) eqn:E1, (memN x l') eqn:E2; try reflexivity.
  - apply memN_In in E1. apply (Permutation_in _ Hp) in E1. apply memN_In in E1. congruence.
  - apply memN_In in E2. apply (Permutation_in _ (Permutation_sym Hp)) in E2. apply memN_In in E2. congruence.
Qed.

Lemma report_faulty_perm : forall ds ds', Permutation ds ds' -> snd (report ds) = snd (report ds').
Proof.
  intros ds ds' Hp. destruct ds as [|d ds], ds' as [|d' ds']; cbn; try reflexivity.
  - apply Permutation_nil in Hp. discriminate Hp.
  - apply Permutation_sym, Permutation_nil in Hp. discriminate Hp.
Qed.

Lemma report_delivered_in : forall ds d, fst (report ds) = Some d -> In d ds.
Proof. intros [|x ds] d H; cbn in H; [discriminate H|]. inversion H. left. reflexivity. Qed.

Lemma report_delivered_perm : forall ds ds' d, Permutation ds ds' -> fst (report ds') = Some d -> In d ds.
Proof.
  intros ds ds' d Hp H. apply report_delivered_in in H. apply (Permutation_in _ (Permutation_sym Hp)). exact H.
Qed.

(* a flat_map in which at most one element contributes does not depend on the order *)
Lemma flat_map_perm_one : forall A B (f : A -> list B) l l',
    (forall a b, In a l -> In b l -> f a <> [] -> f b <> [] -> a = b) ->
    Permutation l l' -> flat_map f l = flat_map f l'.
Proof.
  intros A B f l l' H Hp. induction Hp as [|x l l' Hp IH|x y l|l l' l'' Hp1 IH1 Hp2 IH2].
  - reflexivity.
  - cbn [flat_map]. f_equal. apply IH. intros a b Ha Hb. apply H; right; assumption.
  - cbn [flat_map]. destruct (f x) as [|u fu] eqn:Ex; [reflexivity|].
    destruct (f y) as [|v fv] eqn:Ey; [reflexivity|].
    assert (y = x) as E.
    { apply H; [left; reflexivity|right; left; reflexivity| |]; congruence. }
    subst y. congruence.
  - rewrite IH1; [apply IH2|exact H].
    intros a b Ha Hb. apply H; apply (Permutation_in _ (Permutation_sym Hp1)); assumption.
Qed.

(* a left fold whose step commutes does not depend on the order *)
Lemma fold_perm : forall S X (f : S -> X -> S),
    (forall s a b, f (f s a) b = f (f s b) a) ->
    forall l l', Permutation l l' -> forall s, fold_left f l s = fold_left f l' s.
Proof.
  intros S X f Hc l l' Hp. induction Hp as [|x l l' Hp IH|x y l|l l' l'' Hp1 IH1 Hp2 IH2]; intros s; cbn [fold_left].
  - reflexivity.
  - apply IH.
  - rewrite Hc. reflexivity.
  - rewrite IH1. apply IH2.
Qed.

(* ---------------------------------------------------------------- imported declarations *)
Definition dA := mkdecl 1 (mkpos 1 1) [].
Definition dB := mkdecl 2 (mkpos 1 51) [].
Definition dC := mkdecl 3 (mkpos 2 1) [].

Lemma import_site_refuted :
  exists existing l l', Permutation l l' /\ length l <= 12 /\
    forall big, import_site big existing l <> import_site big existing l'.
Proof.
  exists [2%N; 3%N], [dA; dB; dC], [dA; dC; dB]. split; [|split].
  - apply perm_skip. apply perm_swap.
  - cbn. lia.
  - intros big. vm_compute. intros H. discriminate H.
Qed.

(* the sorted sequence itself differs, not just the report *)
Lemma imported_decls_refuted :
  exists l l', Permutation l l' /\ forall big, imported_decls big l <> imported_decls big l'.
Proof.
  exists [dB; dC], [dC; dB]. split; [apply perm_swap|].
  intros big. vm_compute. intros H. discriminate H.
Qed.

Lemma import_diags_perm : forall existing ds ds', Permutation ds ds' ->
    Permutation (import_diags existing ds) (import_diags existing ds').
Proof.
  intros existing ds ds' Hp. unfold import_diags. apply Permutation_app.
  - apply Permutation_flat_map. exact Hp.
  - apply Permutation_map. induction Hp as [|x l l' Hp IH|x y l|l l' l'' Hp1 IH1 Hp2 IH2]; cbn [filter].
    + apply Permutation_refl.
    + destruct (memN (d_name x) existing); [apply perm_skip|]; exact IH.
    + destruct (memN (d_name x) existing), (memN (d_name y) existing);
        try apply Permutation_refl; apply perm_swap.
    + eapply Permutation_trans; eassumption.
Qed.

Lemma imported_decls_perm : forall big, (forall l, Permutation l (big l)) ->
    forall l l', Permutation l l' -> Permutation (imported_decls big l) (imported_decls big l').
Proof.
  intros big Hb l l' Hp. unfold imported_decls.
  eapply Permutation_trans; [apply Permutation_sym, go_sort_perm; exact Hb|].
  eapply Permutation_trans; [exact Hp|apply go_sort_perm; exact Hb].
Qed.

(* what does hold on the pinned tree: verdict, and the delivered diagnostic is one of a fixed multiset *)
Theorem import_site_partial : forall big, (forall l, Permutation l (big l)) ->
    forall existing l l', Permutation l l' ->
      snd (import_site big existing l) = snd (import_site big existing l') /\
      (forall d, fst (import_site big existing l') = Some d -> In d (import_diags existing l)) /\
      Permutation (imported_symbols big l) (imported_symbols big l').
Proof.
  intros big Hb existing l l' Hp. unfold import_site. split; [|split].
  - apply report_faulty_perm. apply import_diags_perm. apply imported_decls_perm; assumption.
  - intros d H. eapply report_delivered_perm; [|exact H].
    apply import_diags_perm. eapply Permutation_trans; [exact Hp|]. apply go_sort_perm. exact Hb.
  - unfold imported_symbols. apply Permutation_map. apply imported_decls_perm; assumption.
Qed.

(* the usual layout — every public declaration starts in the same column, on its own line — is safe *)
Theorem import_site_same_column : forall big existing l l',
    length l <= 12 ->
    (forall a b, In a l -> In b l -> col (d_pos a) = col (d_pos b)) ->
    (forall a b, In a l -> In b l -> d_pos a = d_pos b -> a = b) ->
    Permutation l l' -> import_site big existing l = import_site big existing l'.
Proof.
  intros big existing l l' Hlen Hcol Hinj Hp. unfold import_site, imported_decls, go_sort.
  rewrite <- (Permutation_length Hp).
  replace (length l <=? max_insertion) with true by (symmetry; apply Nat.leb_le; exact Hlen).
  f_equal. f_equal.
  rewrite (isort_ext decl decl_code_lt decl_lex_lt l).
  2:{ intros x y Hx Hy. unfold decl_code_lt, decl_lex_lt. apply code_eq_lex_same_col. apply Hcol; assumption. }
  rewrite (isort_ext decl decl_code_lt decl_lex_lt l').
  2:{ intros x y Hx Hy. unfold decl_code_lt, decl_lex_lt. apply code_eq_lex_same_col.
      apply Hcol; apply (Permutation_in _ (Permutation_sym Hp)); assumption. }
  apply isort_invariant.
  - intros a b H. apply lex_asym. exact H.
  - intros a b c H1 H2. eapply lex_negtrans; eassumption.
  - intros a b Ha Hb H1 H2. apply Hinj; [exact Ha|exact Hb|]. apply lex_total; assumption.
  - exact Hp.
Qed.

(* the repaired comparator: full invariance, whatever sort routine runs on long slices *)
Theorem import_site_fixed_invariant : forall big, sorts decl_lex_lt big ->
    forall existing l l',
      (forall a b, In a l -> In b l -> d_pos a = d_pos b -> a = b) ->
      Permutation l l' ->
      imported_decls_fixed big l = imported_decls_fixed big l' /\
      import_site_fixed big existing l = import_site_fixed big existing l'.
Proof.
  intros big Hb existing l l' Hinj Hp.
  assert (E : imported_decls_fixed big l = imported_decls_fixed big l').
  { unfold imported_decls_fixed. apply go_sort_invariant.
    - intros a b H. apply lex_asym. exact H.
    - intros a b c H1 H2. eapply lex_negtrans; eassumption.
    - exact Hb.
    - intros a b Ha Hb' H1 H2. apply Hinj; [exact Ha|exact Hb'|]. apply lex_total; assumption.
    - exact Hp. }
  split; [exact E|]. unfold import_site_fixed. rewrite E. reflexivity.
Qed.

(* ---------------------------------------------------------------- argument maps *)
Definition argX := mkarg 1 [] [10%N].
Definition argY := mkarg 2 [] [20%N].
Definition argP := mkarg 1 [11%N] [].
Definition argQ := mkarg 2 [21%N] [].

Lemma check_call_args_refuted :
  exists m m', Permutation m m' /\ NoDup (map a_name m) /\ report (check_call_args m) <> report (check_call_args m').
Proof.
  exists [argX; argY], [argY; argX]. split; [apply perm_swap|]. split.
  - constructor; [intros [H|[]]; discriminate H|]. constructor; [intros []|constructor].
  - vm_compute. intros H. discriminate H.
Qed.

Lemma resolve_call_args_refuted :
  exists m m', Permutation m m' /\ NoDup (map a_name m) /\ report (resolve_call_args m) <> report (resolve_call_args m').
Proof.
  exists [argP; argQ], [argQ; argP]. split; [apply perm_swap|]. split.
  - constructor; [intros [H|[]]; discriminate H|]. constructor; [intros []|constructor].
  - vm_compute. intros H. discriminate H.
Qed.

Lemma call_stmt_refuted :
  exists m m', Permutation m m' /\ call_stmt m m <> call_stmt m' m'.
Proof.
  exists [argX; argY], [argY; argX]. split; [apply perm_swap|]. vm_compute. intros H. discriminate H.
Qed.

Theorem call_stmt_partial : forall mr mr' mt mt', Permutation mr mr' -> Permutation mt mt' ->
    snd (call_stmt mr mt) = snd (call_stmt mr' mt') /\
    (forall d, fst (call_stmt mr' mt') = Some d -> In d (resolve_call_args mr ++ check_call_args mt)) /\
    ((forall a b, In a mr -> In b mr -> a_rdiags a <> [] -> a_rdiags b <> [] -> a = b) ->
     (forall a b, In a mt -> In b mt -> a_tdiags a <> [] -> a_tdiags b <> [] -> a = b) ->
     call_stmt mr mt = call_stmt mr' mt').
Proof.
  intros mr mr' mt mt' Hr Ht. unfold call_stmt.
  assert (P : Permutation (resolve_call_args mr ++ check_call_args mt) (resolve_call_args mr' ++ check_call_args mt')).
  { apply Permutation_app; apply Permutation_flat_map; assumption. }
  split; [apply report_faulty_perm; exact P|]. split.
  - intros d H. eapply report_delivered_perm; [exact P|exact H].
  - intros H1 H2. unfold resolve_call_args, check_call_args.
    rewrite (flat_map_perm_one _ _ a_rdiags mr mr' H1 Hr), (flat_map_perm_one _ _ a_tdiags mt mt' H2 Ht). reflexivity.
Qed.

Lemma lookup_arg_perm : forall k m m', NoDup (map a_name m) -> Permutation m m' -> lookup_arg k m = lookup_arg k m'.
Proof.
  intros k m m' Hnd Hp. induction Hp as [|x l l' Hp IH|x y l|l l' l'' Hp1 IH1 Hp2 IH2]; cbn [lookup_arg].
  - reflexivity.
  - destruct (N.eqb k (a_name x)); [reflexivity|]. apply IH. inversion Hnd; assumption.
  - destruct (N.eqb_spec k (a_name x)) as [E1|N1], (N.eqb_spec k (a_name y)) as [E2|N2]; try reflexivity.
    exfalso. inversion Hnd as [|? ? Hni _]; subst. apply Hni. left. congruence.
  - rewrite IH1; [apply IH2|exact Hnd].
    apply (Permutation_NoDup (Permutation_map a_name Hp1)). exact Hnd.
Qed.

Theorem in_decl_order_invariant : forall params m m',
    NoDup (map a_name m) -> Permutation m m' -> in_decl_order params m = in_decl_order params m'.
Proof.
  intros params m m' Hnd Hp. unfold in_decl_order. induction params as [|p ps IH]; cbn [flat_map]; [reflexivity|].
  rewrite (lookup_arg_perm p m m' Hnd Hp), IH. reflexivity.
Qed.

Theorem call_stmt_fixed_invariant : forall params mr mr' mt mt',
    NoDup (map a_name mr) -> NoDup (map a_name mt) -> Permutation mr mr' -> Permutation mt mt' ->
    call_stmt_fixed params mr mt = call_stmt_fixed params mr' mt'.
Proof.
  intros params mr mr' mt mt' N1 N2 P1 P2. unfold call_stmt_fixed.
  rewrite (in_decl_order_invariant params mr mr' N1 P1), (in_decl_order_invariant params mt mt' N2 P2). reflexivity.
Qed.

(* ---------------------------------------------------------------- generic struct alias *)
Lemma filter_perm : forall A (f : A -> bool) l l', Permutation l l' -> Permutation (filter f l) (filter f l').
Proof.
  intros A f l l' Hp. induction Hp as [|x l l' Hp IH|x y l|l l' l'' Hp1 IH1 Hp2 IH2]; cbn [filter].
  - apply Permutation_refl.
  - destruct (f x); [apply perm_skip|]; exact IH.
  - destruct (f x), (f y); try apply Permutation_refl; apply perm_swap.
  - eapply Permutation_trans; eassumption.
Qed.

Lemma unify_report_refuted :
  exists m m', Permutation m m' /\ NoDup (map fst m) /\ unify_report m <> unify_report m'.
Proof.
  exists [(1%N, false); (2%N, false)], [(2%N, false); (1%N, false)]. split; [apply perm_swap|]. split.
  - constructor; [intros [H|[]]; discriminate H|]. constructor; [intros []|constructor].
  - vm_compute. intros H. discriminate H.
Qed.

Lemma unify_report_first_eq : forall m, unify_report_first m = fst (unify_report m).
Proof.
  induction m as [|[k b] m IH]; [reflexivity|]. unfold unify_report_first, unify_report in *. cbn [find filter snd negb].
  destruct b; cbn [negb]; [exact IH|reflexivity].
Qed.

Theorem unify_report_partial : forall m m', Permutation m m' ->
    snd (unify_report m) = snd (unify_report m') /\
    (forall k, fst (unify_report m') = Some k -> In (k, false) m).
Proof.
  intros m m' Hp. unfold unify_report. split.
  - apply report_faulty_perm. apply Permutation_map. apply filter_perm. exact Hp.
  - intros k H. apply report_delivered_in in H. apply in_map_iff in H. destruct H as [[k' b] [E Hin]].
    cbn [fst] in E. subst k'. apply filter_In in Hin. destruct Hin as [Hin Hb]. cbn [snd] in Hb.
    destruct b; [discriminate Hb|]. apply (Permutation_in _ (Permutation_sym Hp)). exact Hin.
Qed.

Lemma nodup_keys_inj : forall (m : list (N * bool)) k b1 b2,
    NoDup (map fst m) -> In (k, b1) m -> In (k, b2) m -> (k, b1) = (k, b2).
Proof.
  induction m as [|[k0 b0] m IH]; intros k b1 b2 Hnd Ha Hb; [destruct Ha|].
  inversion Hnd as [|? ? Hni Hnd']; subst. cbn [map fst] in Hni.
  destruct Ha as [Ha|Ha], Hb as [Hb|Hb].
  - congruence.
  - inversion Ha; subst. exfalso. apply Hni. apply (in_map fst) in Hb. exact Hb.
  - inversion Hb; subst. exfalso. apply Hni. apply (in_map fst) in Ha. exact Ha.
  - apply IH; assumption.
Qed.

Theorem unify_report_fixed_invariant : forall m m', NoDup (map fst m) -> Permutation m m' ->
    unify_report_fixed m = unify_report_fixed m'.
Proof.
  intros m m' Hnd Hp. unfold unify_report_fixed. f_equal. apply isort_invariant.
  - intros a b H. apply N.ltb_lt in H. apply N.ltb_ge. lia.
  - intros a b c H1 H2. apply N.ltb_ge in H1, H2. apply N.ltb_ge. lia.
  - intros [k1 b1] [k2 b2] Ha Hb H1 H2. cbn [fst] in H1, H2. apply N.ltb_ge in H1, H2.
    assert (k1 = k2) by lia. subst k2. apply (nodup_keys_inj m); assumption.
  - exact Hp.
Qed.

(* ---------------------------------------------------------------- frees *)
Lemma removeN_comm : forall a b h, removeN a (removeN b h) = removeN b (removeN a h).
Proof.
  intros a b h. unfold removeN. induction h as [|x h IH]; cbn [filter]; [reflexivity|].
  destruct (negb (N.eqb b x)) eqn:Eb, (negb (N.eqb a x)) eqn:Ea; cbn [filter]; rewrite ?Ea, ?Eb, IH; reflexivity.
Qed.

Lemma memN_removeN : forall a b h, a <> b -> memN a (removeN b h) = memN a h.
Proof.
  intros a b h Hne. unfold memN, removeN. induction h as [|x h IH]; cbn [filter existsb]; [reflexivity|].
  destruct (N.eqb_spec b x) as [E|Nx]; cbn [negb existsb].
  - subst x. rewrite IH. destruct (N.eqb_spec a b) as [E|_]; [contradiction|reflexivity].
  - rewrite IH. reflexivity.
Qed.

Lemma memN_removeN_same : forall a h, memN a (removeN a h) = false.
Proof.
  intros a h. unfold memN, removeN. induction h as [|x h IH]; cbn [filter existsb]; [reflexivity|].
  destruct (N.eqb_spec a x) as [E|Nx]; cbn [negb existsb]; [exact IH|].
  rewrite IH. destruct (N.eqb_spec a x); [contradiction|reflexivity].
Qed.

Lemma free1_comm : forall s a b, free1 (free1 s a) b = free1 (free1 s b) a.
Proof.
  intros [h|] a b; [|reflexivity]. cbn [free1].
  destruct (N.eq_dec a b) as [E|Hne]; [subst; reflexivity|].
  destruct (memN a h) eqn:Ea, (memN b h) eqn:Eb; cbn [free1].
  - rewrite (memN_removeN b a h), (memN_removeN a b h), Ea, Eb, removeN_comm by congruence. reflexivity.
  - rewrite (memN_removeN b a h), Eb by congruence. reflexivity.
  - rewrite (memN_removeN a b h), Ea by congruence. reflexivity.
  - reflexivity.
Qed.

Theorem run_frees_perm : forall bs bs' h, Permutation bs bs' -> run_frees bs h = run_frees bs' h.
Proof. intros bs bs' h Hp. unfold run_frees. apply fold_perm; [exact free1_comm|exact Hp]. Qed.

Theorem scope_frees_invariant : forall vars vars' h, Permutation vars vars' ->
    run_frees (scope_frees vars) h = run_frees (scope_frees vars') h /\
    Permutation (scope_frees vars) (scope_frees vars').
Proof.
  intros vars vars' h Hp.
  assert (P : Permutation (scope_frees vars) (scope_frees vars')) by (apply Permutation_flat_map; exact Hp).
  split; [apply run_frees_perm; exact P|exact P].
Qed.

Theorem return_frees_invariant : forall scopes scopes' h, Forall2 (@Permutation var) scopes scopes' ->
    run_frees (return_frees scopes) h = run_frees (return_frees scopes') h.
Proof.
  intros scopes scopes' h HF. apply run_frees_perm. unfold return_frees.
  induction HF as [|s s' l l' Hs HF IH]; cbn [flat_map]; [apply Permutation_refl|].
  apply Permutation_app; [apply Permutation_flat_map; exact Hs|exact IH].
Qed.

Theorem dispose_invariant : forall mods mods' h, Permutation mods mods' ->
    run_frees (dispose_frees mods) h = run_frees (dispose_frees mods') h.
Proof. intros mods mods' h Hp. apply run_frees_perm. apply Permutation_flat_map. exact Hp. Qed.

(* the emitted SEQUENCE of frees does depend on the order (IR text differs; not an observable) *)
Lemma scope_frees_sequence_differs : exists vars vars', Permutation vars vars' /\ scope_frees vars <> scope_frees vars'.
Proof.
  exists [mkvar [1%N] false; mkvar [2%N] false], [mkvar [2%N] false; mkvar [1%N] false].
  split; [apply perm_swap|]. vm_compute. intros H. discriminate H.
Qed.

(* ---------------------------------------------------------------- LLVM module map *)
Lemma nodupb_spec : forall l, nodupb l = true <-> NoDup l.
Proof.
  induction l as [|x l IH]; cbn [nodupb].
  - split; [intros _; constructor|reflexivity].
  - rewrite andb_true_iff, negb_true_iff, IH. split.
    + intros [H1 H2]. constructor; [|exact H2]. intros Hin. apply memN_In in Hin. congruence.
    + intros H. inversion H as [|? ? Hni Hnd]; subst. split; [|exact Hnd].
      destruct (memN x l) eqn:E; [|reflexivity]. apply memN_In in E. contradiction.
Qed.

Theorem ll_link_invariant : forall main mods mods', Permutation mods mods' ->
    fst (ll_link main mods) = fst (ll_link main mods') /\
    forall s, memN s (snd (ll_link main mods)) = memN s (snd (ll_link main mods')).
Proof.
  intros main mods mods' Hp. unfold ll_link. cbn [fst snd].
  assert (P : Permutation (main ++ flat_map (fun m => m) mods) (main ++ flat_map (fun m => m) mods')).
  { apply Permutation_app_head. apply Permutation_flat_map. exact Hp. }
  split.
  - destruct (nodupb (main ++ flat_map (fun m => m) mods)) eqn:E1, (nodupb (main ++ flat_map (fun m => m) mods')) eqn:E2; try reflexivity.
    + apply nodupb_spec in E1. apply (Permutation_NoDup P) in E1. apply nodupb_spec in E1. congruence.
    + apply nodupb_spec in E2. apply (Permutation_NoDup (Permutation_sym P)) in E2. apply nodupb_spec in E2. congruence.
  - intros s. apply memN_perm. exact P.
Qed.

Theorem ll_parse_partial : forall mods mods', Permutation mods mods' ->
    snd (ll_parse mods) = snd (ll_parse mods') /\
    (length (filter (fun m => negb (snd m)) mods) <= 1 -> ll_parse mods = ll_parse mods').
Proof.
  intros mods mods' Hp. unfold ll_parse.
  assert (P : Permutation (filter (fun m : N * bool => negb (snd m)) mods) (filter (fun m : N * bool => negb (snd m)) mods'))
    by (apply filter_perm; exact Hp).
  split; [apply report_faulty_perm; apply Permutation_map; exact P|].
  intros Hlen. f_equal.
  destruct (filter (fun m : N * bool => negb (snd m)) mods) as [|x [|y t]] eqn:E.
  - apply Permutation_nil in P. rewrite P. reflexivity.
  - apply Permutation_length_1_inv in P. rewrite P. reflexivity.
  - cbn in Hlen. lia.
Qed.

(* ---------------------------------------------------------------- gcc command line *)
Lemma link_cmdline_refuted :
  exists deps deps', Permutation deps deps' /\
    link_cmdline deps (group_libs deps) (group_libs deps) <> link_cmdline deps' (group_libs deps') (group_libs deps').
Proof.
  exists [Lib 1 1; Lib 1 2], [Lib 1 2; Lib 1 1]. split; [apply perm_swap|]. vm_compute. intros H. discriminate H.
Qed.

Definition lib_files (deps : list dep) : list N :=
  flat_map (fun x => match x with Lib _ f => [f] | Obj _ => [] end) deps.
Definition lib_dirs (deps : list dep) : list N :=
  flat_map (fun x => match x with Lib d _ => [d] | Obj _ => [] end) deps.

Lemma add_lib_files : forall d f t, Permutation (flat_map snd (add_lib d f t)) (f :: flat_map snd t).
Proof.
  intros d f t; induction t as [|[d' fs] t IH]; cbn [add_lib flat_map snd app].
  - apply Permutation_refl.
  - destruct (N.eqb d d'); cbn [flat_map snd].
    + rewrite <- app_assoc. cbn [app]. apply Permutation_sym. apply Permutation_middle.
    + eapply Permutation_trans; [apply Permutation_app_head; exact IH|].
      apply Permutation_sym. apply Permutation_middle.
Qed.

Lemma add_lib_keys_in : forall d f t x, In x (map fst (add_lib d f t)) <-> x = d \/ In x (map fst t).
Proof.
  intros d f t x; induction t as [|[d' fs] t IH]; cbn [add_lib map fst In].
  - intuition congruence.
  - destruct (N.eqb_spec d d') as [E|Hne]; cbn [map fst In].
    + subst d'. intuition congruence.
    + rewrite IH. intuition congruence.
Qed.

Lemma add_lib_keys_nodup : forall d f t, NoDup (map fst t) -> NoDup (map fst (add_lib d f t)).
Proof.
  intros d f t; induction t as [|[d' fs] t IH]; intros Hnd; cbn [add_lib map fst].
  - constructor; [intros []|constructor].
  - inversion Hnd as [|? ? Hni Hnd']; subst. destruct (N.eqb_spec d d') as [E|Hne]; cbn [map fst].
    + constructor; assumption.
    + constructor; [|apply IH; exact Hnd'].
      intros Hin. apply add_lib_keys_in in Hin. destruct Hin as [Hin|Hin]; [congruence|contradiction].
Qed.

Definition gstep (t : list (N * list N)) (x : dep) : list (N * list N) :=
  match x with Lib d f => add_lib d f t | Obj _ => t end.

Lemma group_files_gen : forall deps t,
    Permutation (flat_map snd (fold_left gstep deps t)) (lib_files deps ++ flat_map snd t).
Proof.
  induction deps as [|x deps IH]; intros t; cbn [fold_left].
  - apply Permutation_refl.
  - eapply Permutation_trans; [apply IH|]. destruct x as [d f|p].
    + change (lib_files (Lib d f :: deps)) with (f :: lib_files deps). cbn [gstep].
      eapply Permutation_trans; [apply Permutation_app_head; apply add_lib_files|].
      apply Permutation_sym. apply Permutation_middle.
    + apply Permutation_refl.
Qed.

Lemma group_keys_gen : forall deps t, NoDup (map fst t) ->
    NoDup (map fst (fold_left gstep deps t)) /\
    forall x, In x (map fst (fold_left gstep deps t)) <-> In x (lib_dirs deps) \/ In x (map fst t).
Proof.
  induction deps as [|y deps IH]; intros t Hnd; cbn [fold_left].
  - split; [exact Hnd|]. intros x. cbn. tauto.
  - destruct y as [d f|p]; cbn [gstep].
    + destruct (IH (add_lib d f t) (add_lib_keys_nodup d f t Hnd)) as [H1 H2]. split; [exact H1|].
      intros x. rewrite H2, add_lib_keys_in.
      change (lib_dirs (Lib d f :: deps)) with (d :: lib_dirs deps). cbn [In]. intuition congruence.
    + destruct (IH t Hnd) as [H1 H2]. split; [exact H1|]. intros x. rewrite H2.
      change (lib_dirs (Obj p :: deps)) with (lib_dirs deps). tauto.
Qed.

Lemma lib_files_perm : forall deps deps', Permutation deps deps' -> Permutation (lib_files deps) (lib_files deps').
Proof. intros. apply Permutation_flat_map. assumption. Qed.

(* what does hold: gcc always receives the same multiset of arguments *)
Theorem link_cmdline_partial : forall deps deps' e1 e2 e1' e2',
    Permutation deps deps' ->
    Permutation e1 (group_libs deps) -> Permutation e2 (group_libs deps) ->
    Permutation e1' (group_libs deps') -> Permutation e2' (group_libs deps') ->
    Permutation (link_cmdline deps e1 e2) (link_cmdline deps' e1' e2').
Proof.
  intros deps deps' e1 e2 e1' e2' Hp H1 H2 H1' H2'. unfold link_cmdline.
  apply Permutation_app; [|apply Permutation_app].
  - apply Permutation_map.
    eapply Permutation_trans; [apply Permutation_map; exact H1|].
    eapply Permutation_trans; [|apply Permutation_sym, Permutation_map; exact H1'].
    unfold group_libs. fold gstep.
    destruct (group_keys_gen deps [] (NoDup_nil _)) as [N1 K1].
    destruct (group_keys_gen deps' [] (NoDup_nil _)) as [N2 K2].
    apply NoDup_Permutation; [exact N1|exact N2|].
    intros x. rewrite K1, K2. cbn [map In].
    assert (Pd : Permutation (lib_dirs deps) (lib_dirs deps')) by (apply Permutation_flat_map; exact Hp).
    split; intros [H|[]]; left.
    + apply (Permutation_in _ Pd). exact H.
    + apply (Permutation_in _ (Permutation_sym Pd)). exact H.
  - apply Permutation_map. apply Permutation_flat_map. exact Hp.
  - apply Permutation_map.
    eapply Permutation_trans; [apply Permutation_flat_map; exact H2|].
    eapply Permutation_trans; [|apply Permutation_sym, Permutation_flat_map; exact H2'].
    unfold group_libs. fold gstep.
    pose proof (group_files_gen deps []) as G1. pose proof (group_files_gen deps' []) as G2.
    cbn [flat_map] in G1, G2. rewrite app_nil_r in G1, G2.
    eapply Permutation_trans; [exact G1|].
    eapply Permutation_trans; [apply lib_files_perm; exact Hp|apply Permutation_sym; exact G2].
Qed.
