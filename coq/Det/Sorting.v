(* C16 — Go's sort.Slice on small slices, and the comparators the compiler hands to it.
   Definitions only (executable, total); proofs are in Det/SortingProofs.v.

   sort.Slice(x, less) = pdqsort_func(lessSwap{less, swap}, 0, n, bits.Len(n)); pdqsort_func starts with
       const maxInsertion = 12
       if length <= maxInsertion { insertionSortLessFunc(data, a, b); return }
   and
       func insertionSortLessFunc(data lessSwap, a, b int) {
           for i := a + 1; i < b; i++ {
               for j := i; j > a && data.Less(j, j-1); j-- { data.Swap(j, j-1) }
           }
       }
   For longer slices the pattern-defeating quicksort of the Go runtime runs; it is not modelled and enters
   as the explicit argument [big] (an external function; the theorems say what they need from it). *)
From Coq Require Import List Bool Arith NArith.
Import ListNotations.

Section Sort.
  Variable A : Type.
  Variable less : A -> A -> bool.

  (* inner loop: the element x sits to the right of the already processed prefix, given REVERSED
     (rightmost element first); it is swapped leftwards while less(x, left neighbour) *)
  Fixpoint ins (x : A) (rp : list A) : list A :=
    match rp with
    | [] => [x]
    | y :: rp' => if less x y then y :: ins x rp' else x :: rp
    end.

  (* outer loop, prefix kept reversed *)
  Definition isort_rev (l : list A) : list A := fold_left (fun rp x => ins x rp) l [].
  Definition isort (l : list A) : list A := rev (isort_rev l).

  Definition max_insertion : nat := 12.

  (* sort.Slice as the Go runtime implements it; [big] = pdqsort on slices longer than 12 *)
  Definition go_sort (big : list A -> list A) (l : list A) : list A :=
    if length l <=? max_insertion then isort l else big l.

  (* "sorted" as a sort routine guarantees it: no later element is less than an earlier one *)
  Fixpoint sortedb (l : list A) : bool :=
    match l with
    | [] => true
    | x :: t => forallb (fun y => negb (less y x)) t && sortedb t
    end.
End Sort.

Arguments ins {A}. Arguments isort_rev {A}. Arguments isort {A}. Arguments go_sort {A}. Arguments sortedb {A}.

(* source positions (token.Position: Line, Column) *)
Record pos := mkpos { line : N; col : N }.

(* the comparator of ast.IterateImportedDecls (helper.go:107-111):
     return start.Line < startj.Line || start.Column < startj.Column *)
Definition code_lt (p q : pos) : bool := (line p <? line q)%N || (col p <? col q)%N.

(* the lexicographic comparator (what ast.sortedByRange and token.Position.IsBefore implement, and what the
   repaired IterateImportedDecls must use) *)
Definition lex_lt (p q : pos) : bool :=
  (line p <? line q)%N || ((line p =? line q)%N && (col p <? col q)%N).

(* all permutations of a list (used to enumerate every iteration order of a small map) *)
Fixpoint insert_all {A} (x : A) (l : list A) : list (list A) :=
  match l with
  | [] => [[x]]
  | y :: t => (x :: l) :: map (cons y) (insert_all x t)
  end.
Fixpoint perms {A} (l : list A) : list (list A) :=
  match l with
  | [] => [[]]
  | x :: t => flat_map (insert_all x) (perms t)
  end.
