(* C16 — facts about Go's small-slice insertion sort and the two position comparators. *)
From Coq Require Import List Bool Arith NArith Lia Permutation Sorted.
Import ListNotations.
From DDP Require Import Det.Sorting.

Section SortFacts.
  Variable A : Type.
  Variable less : A -> A -> bool.

  Definition sorted (l : list A) : Prop := StronglySorted (fun a b => less b a = false) l.
  (* reversed prefix: every element is not less than the ones after it (= before it in slice order) *)
  Definition rsorted (l : list A) : Prop := StronglySorted (fun a b => less a b = false) l.

  Lemma ins_perm : forall x rp, Permutation (x :: rp) (ins less x rp).
  Proof.
    intros x rp; induction rp as [|y rp IH]; cbn [ins].
    - apply Permutation_refl.
    - destruct (less x y).
      + eapply Permutation_trans; [apply perm_swap|]. apply perm_skip. exact IH.
      + apply Permutation_refl.
  Qed.

  Lemma isort_rev_perm_gen : forall l acc, Permutation (l ++ acc) (fold_left (fun rp x => ins less x rp) l acc).
  Proof.
    induction l as [|x l IH]; intros acc; cbn [fold_left app].
    - apply Permutation_refl.
    - eapply Permutation_trans; [|apply IH].
      eapply Permutation_trans; [apply Permutation_middle|].
      apply Permutation_app_head. apply ins_perm.
  Qed.

  Theorem isort_perm : forall l, Permutation l (isort less l).
  Proof.
    intros l. unfold isort, isort_rev.
    eapply Permutation_trans; [|apply Permutation_rev].
    pose proof (isort_rev_perm_gen l []) as H. rewrite app_nil_r in H. exact H.
  Qed.

  Lemma ss_app : forall (R : A -> A -> Prop) l1 l2,
      StronglySorted R l1 -> StronglySorted R l2 ->
      (forall x y, In x l1 -> In y l2 -> R x y) -> StronglySorted R (l1 ++ l2).
  Proof.
    intros R l1; induction l1 as [|a l1 IH]; intros l2 H1 H2 Hx; cbn [app].
    - exact H2.
    - inversion H1 as [|? ? Hs Hf]; subst. constructor.
      + apply IH; [exact Hs|exact H2|]. intros x y Hi Hj. apply Hx; [right; exact Hi|exact Hj].
      + apply Forall_app. split; [exact Hf|].
        apply Forall_forall. intros y Hy. apply Hx; [left; reflexivity|exact Hy].
  Qed.

  Lemma ss_rev : forall (R : A -> A -> Prop) l,
      StronglySorted R l -> StronglySorted (fun a b => R b a) (rev l).
  Proof.
    intros R l; induction l as [|a l IH]; intros Hs; cbn [rev].
    - constructor.
    - inversion Hs as [|? ? Hs' Hf]; subst. apply ss_app.
      + apply IH. exact Hs'.
      + constructor; constructor.
      + intros x y Hx Hy. destruct Hy as [Hy|[]]. subst y.
        apply in_rev in Hx. rewrite Forall_forall in Hf. apply Hf. exact Hx.
  Qed.

  (* what a comparator must satisfy for the insertion sort to deliver a sorted slice *)
  Definition asym := forall a b, less a b = true -> less b a = false.
  Definition negtrans := forall a b c, less a b = false -> less b c = false -> less a c = false.
  (* trichotomy on the elements of l: two elements neither of which is less than the other are the same element *)
  Definition total_on (l : list A) := forall a b, In a l -> In b l -> less a b = false -> less b a = false -> a = b.

  Lemma ins_rsorted : asym -> negtrans -> forall x rp, rsorted rp -> rsorted (ins less x rp).
  Proof.
    intros Ha Ht x rp; induction rp as [|y rp IH]; intros Hs; cbn [ins].
    - constructor; constructor.
    - inversion Hs as [|? ? Hs' Hf]; subst. destruct (less x y) eqn:Hxy.
      + constructor; [apply IH; exact Hs'|].
        apply Forall_forall. intros z Hz.
        apply (Permutation_in _ (Permutation_sym (ins_perm x rp))) in Hz.
        destruct Hz as [Hz|Hz].
        * subst z. apply Ha. exact Hxy.
        * rewrite Forall_forall in Hf. apply Hf. exact Hz.
      + constructor; [exact Hs|].
        constructor; [exact Hxy|].
        apply Forall_forall. intros z Hz. rewrite Forall_forall in Hf.
        apply (Ht x y z Hxy). apply Hf. exact Hz.
  Qed.

  Lemma fold_ins_rsorted : asym -> negtrans -> forall l acc, rsorted acc -> rsorted (fold_left (fun rp x => ins less x rp) l acc).
  Proof.
    intros Ha Ht l; induction l as [|x l IH]; intros acc Hs; cbn [fold_left].
    - exact Hs.
    - apply IH. apply ins_rsorted; assumption.
  Qed.

  Theorem isort_sorted : asym -> negtrans -> forall l, sorted (isort less l).
  Proof.
    intros Ha Ht l. unfold sorted, isort, isort_rev.
    apply (ss_rev (fun a b => less a b = false)).
    apply fold_ins_rsorted; [exact Ha|exact Ht|constructor].
  Qed.

  (* for a comparator that is total on the elements, any two sorted arrangements of the same elements coincide *)
  Theorem sorted_unique : forall l l',
      Permutation l l' -> total_on l -> sorted l -> sorted l' -> l = l'.
  Proof.
    induction l as [|a l IH]; intros l' Hp Htot Hs Hs'.
    - apply Permutation_nil in Hp. subst l'. reflexivity.
    - destruct l' as [|b l'].
      + apply Permutation_sym, Permutation_nil in Hp. discriminate Hp.
      + inversion Hs as [|? ? Hs1 Hf1]; subst. inversion Hs' as [|? ? Hs2 Hf2]; subst.
        rewrite Forall_forall in Hf1, Hf2.
        assert (Hab : a = b).
        { assert (Hin_b : In b (a :: l)) by (apply (Permutation_in _ (Permutation_sym Hp)); left; reflexivity).
          assert (Hin_a : In a (b :: l')) by (apply (Permutation_in _ Hp); left; reflexivity).
          destruct Hin_b as [Hb|Hb]; [exact Hb|].
          destruct Hin_a as [Ha'|Ha']; [symmetry; exact Ha'|].
          apply Htot; [left; reflexivity|right; exact Hb| |].
          - apply Hf2. exact Ha'.
          - apply Hf1. exact Hb. }
        subst b. f_equal. apply IH.
        * apply (Permutation_cons_inv Hp).
        * intros x y Hx Hy. apply Htot; right; assumption.
        * exact Hs1.
        * exact Hs2.
  Qed.

  Theorem isort_invariant : asym -> negtrans -> forall l l',
      total_on l -> Permutation l l' -> isort less l = isort less l'.
  Proof.
    intros Ha Ht l l' Htot Hp. apply sorted_unique.
    - eapply Permutation_trans; [apply Permutation_sym, isort_perm|].
      eapply Permutation_trans; [exact Hp|apply isort_perm].
    - intros a b Hi Hj. apply Htot; apply (Permutation_in _ (Permutation_sym (isort_perm l))); assumption.
    - apply isort_sorted; assumption.
    - apply isort_sorted; assumption.
  Qed.

  (* the contract assumed of the unmodelled pdqsort branch *)
  Definition sorts (big : list A -> list A) := forall l, Permutation l (big l) /\ sorted (big l).

  Theorem go_sort_perm : forall big, (forall l, Permutation l (big l)) -> forall l, Permutation l (go_sort less big l).
  Proof.
    intros big Hb l. unfold go_sort. destruct (length l <=? max_insertion); [apply isort_perm|apply Hb].
  Qed.

  Theorem go_sort_invariant : asym -> negtrans -> forall big, sorts big -> forall l l',
      total_on l -> Permutation l l' -> go_sort less big l = go_sort less big l'.
  Proof.
    intros Ha Ht big Hb l l' Htot Hp. unfold go_sort.
    rewrite <- (Permutation_length Hp).
    destruct (length l <=? max_insertion).
    - apply isort_invariant; assumption.
    - apply sorted_unique.
      + eapply Permutation_trans; [apply Permutation_sym, (proj1 (Hb l))|].
        eapply Permutation_trans; [exact Hp|apply (proj1 (Hb l'))].
      + intros a b Hi Hj. apply Htot; apply (Permutation_in _ (Permutation_sym (proj1 (Hb l)))); assumption.
      + apply (proj2 (Hb l)).
      + apply (proj2 (Hb l')).
  Qed.

  Lemma sortedb_spec : forall l, sortedb less l = true <-> sorted l.
  Proof.
    induction l as [|x l IH]; cbn [sortedb].
    - split; [intros _; constructor|reflexivity].
    - rewrite andb_true_iff, forallb_forall, IH. split.
      + intros [Hf Hs]. constructor; [exact Hs|]. apply Forall_forall. intros y Hy.
        specialize (Hf y Hy). apply negb_true_iff in Hf. exact Hf.
      + intros Hs. inversion Hs as [|? ? Hs' Hf]; subst. split; [|exact Hs'].
        intros y Hy. rewrite Forall_forall in Hf. apply negb_true_iff. apply Hf. exact Hy.
  Qed.
End SortFacts.

Arguments sorted {A}. Arguments asym {A}. Arguments negtrans {A}. Arguments total_on {A}. Arguments sorts {A}.

(* ---- the lexicographic comparator is a strict total order on positions ---- *)
Lemma lex_irrefl : forall p, lex_lt p p = false.
Proof. intros [l c]. unfold lex_lt; cbn [line col]. rewrite N.ltb_irrefl, N.ltb_irrefl, andb_false_r. reflexivity. Qed.

Lemma lex_spec : forall p q, lex_lt p q = true <-> (line p < line q \/ (line p = line q /\ col p < col q))%N.
Proof.
  intros p q. unfold lex_lt. rewrite orb_true_iff, andb_true_iff, !N.ltb_lt, N.eqb_eq. reflexivity.
Qed.

Lemma lex_false : forall p q, lex_lt p q = false <-> (line q < line p \/ (line p = line q /\ col q <= col p))%N.
Proof.
  intros p q. split.
  - intros H. destruct (N.lt_trichotomy (line p) (line q)) as [Hl|[Hl|Hl]].
    + assert (lex_lt p q = true) as H1 by (apply lex_spec; left; exact Hl). congruence.
    + destruct (N.lt_ge_cases (col p) (col q)) as [Hc|Hc].
      * assert (lex_lt p q = true) as H1 by (apply lex_spec; right; split; assumption). congruence.
      * right. split; assumption.
    + left. exact Hl.
  - intros H. destruct (lex_lt p q) eqn:E; [|reflexivity]. apply lex_spec in E. lia.
Qed.

Lemma lex_asym : asym lex_lt.
Proof. intros p q H. apply lex_spec in H. apply lex_false. lia. Qed.

Lemma lex_trans : forall p q r, lex_lt p q = true -> lex_lt q r = true -> lex_lt p r = true.
Proof. intros p q r H1 H2. apply lex_spec in H1, H2. apply lex_spec. lia. Qed.

Lemma lex_negtrans : negtrans lex_lt.
Proof. intros p q r H1 H2. apply lex_false in H1, H2. apply lex_false. lia. Qed.

Lemma lex_total : forall p q, lex_lt p q = false -> lex_lt q p = false -> p = q.
Proof.
  intros [l1 c1] [l2 c2] H1 H2. apply lex_false in H1, H2. cbn [line col] in *.
  assert (l1 = l2) by lia. assert (c1 = c2) by lia. subst. reflexivity.
Qed.

Theorem lex_strict_total_order :
  (forall p, lex_lt p p = false) /\
  (forall p q r, lex_lt p q = true -> lex_lt q r = true -> lex_lt p r = true) /\
  (forall p q, p <> q -> lex_lt p q = true \/ lex_lt q p = true).
Proof.
  split; [exact lex_irrefl|]. split; [exact lex_trans|].
  intros p q Hne. destruct (lex_lt p q) eqn:E1; [left; reflexivity|].
  destruct (lex_lt q p) eqn:E2; [right; reflexivity|].
  exfalso. apply Hne. apply lex_total; assumption.
Qed.

(* ---- the comparator of the pinned tree is not even asymmetric ---- *)
Lemma code_lt_not_asym : exists p q, code_lt p q = true /\ code_lt q p = true.
Proof. exists (mkpos 1 19), (mkpos 2 1). split; vm_compute; reflexivity. Qed.

Lemma code_lt_not_strict_weak : ~ asym code_lt.
Proof.
  intros H. specialize (H (mkpos 1 19) (mkpos 2 1) eq_refl). vm_compute in H. discriminate H.
Qed.

(* where the two comparators agree the pinned one inherits the good behaviour *)
Lemma code_eq_lex_same_col : forall p q, col p = col q -> code_lt p q = lex_lt p q.
Proof.
  intros [l1 c1] [l2 c2] H. cbn [col] in H. subst c2. unfold code_lt, lex_lt; cbn [line col].
  rewrite N.ltb_irrefl, andb_false_r. reflexivity.
Qed.

(* generic: sorting with two comparators that agree on the elements gives the same result *)
Lemma ins_ext : forall A (f g : A -> A -> bool) x rp,
    (forall y, In y rp -> f x y = g x y) -> ins f x rp = ins g x rp.
Proof.
  intros A f g x rp; induction rp as [|y rp IH]; intros H; cbn [ins]; [reflexivity|].
  rewrite (H y (or_introl eq_refl)). destruct (g x y); [|reflexivity].
  f_equal. apply IH. intros z Hz. apply H. right. exact Hz.
Qed.

Lemma isort_ext : forall A (f g : A -> A -> bool) l,
    (forall x y, In x l -> In y l -> f x y = g x y) -> isort f l = isort g l.
Proof.
  intros A f g l H. unfold isort, isort_rev. f_equal.
  assert (G : forall l0 acc, (forall x y, In x (l0 ++ acc) -> In y (l0 ++ acc) -> f x y = g x y) ->
               fold_left (fun rp x => ins f x rp) l0 acc = fold_left (fun rp x => ins g x rp) l0 acc).
  { induction l0 as [|x l0 IH]; intros acc Hag; cbn [fold_left]; [reflexivity|].
    rewrite (ins_ext A f g x acc).
    - apply IH. intros a b Ha Hb. apply Hag.
      + apply in_app_or in Ha. destruct Ha as [Ha|Ha]; [apply in_or_app; left; right; exact Ha|].
        apply (Permutation_in _ (Permutation_sym (ins_perm A g x acc))) in Ha.
        destruct Ha as [Ha|Ha]; [subst; apply in_or_app; left; left; reflexivity|apply in_or_app; right; exact Ha].
      + apply in_app_or in Hb. destruct Hb as [Hb|Hb]; [apply in_or_app; left; right; exact Hb|].
        apply (Permutation_in _ (Permutation_sym (ins_perm A g x acc))) in Hb.
        destruct Hb as [Hb|Hb]; [subst; apply in_or_app; left; left; reflexivity|apply in_or_app; right; exact Hb].
    - intros y Hy. apply Hag; [apply in_or_app; left; left; reflexivity|apply in_or_app; right; exact Hy]. }
  apply G. rewrite app_nil_r. exact H.
Qed.

(* perms enumerates exactly the permutations *)
Lemma insert_all_perm : forall A (x : A) l l', In l' (insert_all x l) -> Permutation (x :: l) l'.
Proof.
  intros A x l; induction l as [|y t IH]; intros l' H; cbn [insert_all] in H.
  - destruct H as [H|[]]. subst. apply Permutation_refl.
  - destruct H as [H|H]; [subst; apply Permutation_refl|].
    apply in_map_iff in H. destruct H as [m [Hm Hin]]. subst l'.
    eapply Permutation_trans; [apply perm_swap|]. apply perm_skip. apply IH. exact Hin.
Qed.

Lemma perms_sound : forall A (l l' : list A), In l' (perms l) -> Permutation l l'.
Proof.
  intros A l; induction l as [|x t IH]; intros l' H; cbn [perms] in H.
  - destruct H as [H|[]]. subst. apply Permutation_refl.
  - apply in_flat_map in H. destruct H as [m [Hm Hin]].
    eapply Permutation_trans; [apply perm_skip; apply IH; exact Hm|].
    apply insert_all_perm. exact Hin.
Qed.

Lemma insert_all_complete : forall A (x : A) l1 l2, In (l1 ++ x :: l2) (insert_all x (l1 ++ l2)).
Proof.
  intros A x l1; induction l1 as [|y l1 IH]; intros l2; cbn [app insert_all].
  - destruct l2; left; reflexivity.
  - right. apply in_map. apply IH.
Qed.

Lemma perms_complete : forall A (l l' : list A), Permutation l l' -> In l' (perms l).
Proof.
  intros A l; induction l as [|x t IH]; intros l' Hp.
  - apply Permutation_nil in Hp. subst. left. reflexivity.
  - assert (Hin : In x l') by (apply (Permutation_in _ Hp); left; reflexivity).
    apply in_split in Hin. destruct Hin as [l1 [l2 E]]. subst l'.
    cbn [perms]. apply in_flat_map. exists (l1 ++ l2). split.
    + apply IH. apply (Permutation_cons_app_inv _ _ Hp).
    + apply insert_all_complete.
Qed.
