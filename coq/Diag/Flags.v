(* Model of the failure flags of the frontend and of kddp's exit status (C07).
   The machine takes a `config`: `pinned` is the code as pinned (three defects), `repaired` the code
   with the three proposed repairs; checks/c07.py determines on every run which one /repo is.

   Mirrors, flag by flag:
     src/parser/parser.go:127-134    wrapper around the caller's handler sets parser.errored on LEVEL_ERROR
     src/parser/parser.go:154-158    Finish: Module.Ast.Faulty := errored
     src/parser/parser.go:252-262    an imported module is parsed with ErrorHandler = the importer's WRAPPED handler
     src/parser/interface.go:72-76   the scanner of a module receives the handler that was PASSED to Parse
                                     (not the module's own wrapper)
     src/parser/parser.go:412-428    errVal: panic mode suppresses, p.warn/apply(p.errorHandler,..) bypass it
     src/parser/parser.go:356-358    synchronize (also parser.go:349, statements.go:153) clears panic mode
     src/parser/expressions.go:21-31 expressionOrErr swaps p.errorHandler for a one-slot recorder
     src/parser/statements.go:145-170 finishStatement keeps (errVal of the recorded error) or discards the attempt
     src/parser/alias.go:296-320     argument parser: own panic flag, collecting handler, SHARES the resolver/typechecker
     src/parser/alias.go:144-181     what alias() does with the errors of a candidate: drop, replay, wrap into one error
     src/parser/alias.go:393-480     InstantiateGenericFunction: parser+resolver+typechecker over the DECLARING module,
                                     handler = collector, own panic flag
     src/parser/resolver/resolver.go:70-76, typechecker/typechecker.go:78-84
                                     err(): Module.Ast.Faulty := true BEFORE the panic-mode test
     src/parser/resolver/resolver.go:80-84,198-202,322-326  Bad nodes: Faulty := true without a diagnostic
     src/parser/typechecker/typechecker.go:69-75  EvaluateSilent: handler := Empty; restores handler, Faulty, panic
     src/compiler/compiler.go:43-46  compileWithImports refuses faulty modules (only reached with LinkInModules)
     src/compiler/interface.go:129-143 with LinkInModules = false the main module is compiled WITHOUT that test
     cmd/kddp/main.go:13-16, build_cmd.go:133-150  exit status 1 iff Compile returned an error

   Module ids are naturals, 0 is the root (the file given to kddp). Diagnostic codes are opaque payload. *)
From Coq Require Import List Bool Arith NArith.
Import ListNotations.

Inductive origin := OScanner | OParser | OResolver | OChecker.
Inductive level := LWarn | LError.
Record diag := mkDiag { d_org : origin; d_lvl : level; d_mod : nat; d_code : N }.

Definition is_err (l : level) : bool := match l with LError => true | LWarn => false end.
Definition diag_is_err (e : diag) : bool := is_err (d_lvl e).

(* which of the three repairs proposed for the defects of the pinned tree are present in the code *)
Record config := mkCfg {
  cfg_inst_restores : bool;   (* InstantiateGenericFunction restores Ast.Faulty of the declaring module when it returns *)
  cfg_scan_counts   : bool;   (* parser.Parse: Faulty := Faulty || (the module's scanner reported an error) *)
  cfg_nolink_checks : bool    (* compiler.Compile refuses a faulty main module also with LinkInModules = false *)
}.
Definition pinned : config := mkCfg false false false.     (* the code as pinned *)
Definition repaired : config := mkCfg true true true.

Inductive ckind := KMain | KInst.

(* an argument parser of checkAlias *)
Record arg := mkArg { a_panic : bool; a_bag : list diag; a_cand : list diag }.

(* one parser together with ITS resolver and typechecker *)
Record ctx := mkCtx {
  c_kind    : ckind;
  c_mod     : nat;                  (* p.module = resolver.Module = typechecker.Module *)
  c_wraps   : list nat;             (* KMain: errored-setting wrappers in front of the user's handler, own first *)
  c_spec    : option (option diag); (* Some slot: expressionOrErr has swapped p.errorHandler *)
  c_pending : option diag;          (* error returned by the last expressionOrErr *)
  c_panic   : bool;                 (* p.panicMode, shared by pointer with resolver and typechecker *)
  c_bag     : list diag;            (* KInst: errorCollector.Errors *)
  c_cand    : list diag;            (* reported_errors of the alias candidate under inspection *)
  c_args    : list arg;             (* open argument parsers, innermost first *)
  c_silent  : list (bool * bool * bool); (* EvaluateSilent: saved (handler is Empty, Faulty, panic) *)
  c_rtempty : bool;                 (* typechecker.ErrorHandler == EmptyHandler *)
  c_saved   : bool                  (* KInst: Ast.Faulty of the declaring module when the instantiation began *)
}.

Record glob := mkGlob {
  g_errored   : nat -> bool;        (* parser.errored of the module's own parser *)
  g_faulty    : nat -> bool;        (* Module.Ast.Faulty *)
  g_seen      : list nat;           (* modules whose Parse has started *)
  g_finished  : list nat;           (* modules whose Parse has returned *)
  g_delivered : list diag;          (* calls of the user's handler, latest first *)
  g_stale     : bool;               (* ghost: a resolver/typechecker set Faulty of a module that is not being parsed *)
  g_rootscan  : bool;               (* ghost: the root's scanner delivered an error-level diagnostic *)
  g_scanerr   : nat -> bool         (* the module's own scanner reported an error (scanErrored of the repaired Parse) *)
}.

Record state := mkSt { s_g : glob; s_stack : list ctx }.

Inductive event :=
| EErr (o : origin) (l : level) (code : N)  (* scanner error | p.err (errVal) | resolver.err | typechecker.err *)
| EDirect (o : origin) (l : level) (code : N) (* p.errorHandler(e) called directly: p.warn, ScanAlias errors *)
| EMarkBad                                  (* the resolver visits a BadDecl/BadExpr/BadStmt *)
| ESync                                     (* panicMode := false *)
| ESpecBegin | ESpecEnd | EReraise          (* expressionOrErr ... ; p.errVal( *err ) *)
| ESilentBegin | ESilentEnd                 (* EvaluateSilent *)
| EArgBegin | EArgEnd                       (* argument parser of checkAlias; its errors join the candidate's *)
| ECandDrop                                 (* candidate rejected or accepted with no errors *)
| ECandReplay                               (* apply(p.errorHandler, errs) *)
| ECandWrap (code : N)                      (* errVal(SEM_ERROR_INSTANTIATING_GENERIC_FUNCTION{Wrapped: errs}) *)
| EInstBegin (d : nat)                      (* InstantiateGenericFunction of a generic declared in module d *)
| EInstEnd (keep : bool)                    (* its errors join the candidate's (checkAlias) or are dropped (findOverload) *)
| EImportBegin (m : nat)                    (* Parse of a module not seen before *)
| EFinish.                                  (* Faulty := errored; Parse returns *)

(* ---- small helpers ------------------------------------------------------------------------ *)
Definition mem (m : nat) (l : list nat) : bool := existsb (Nat.eqb m) l.
Definition upd (f : nat -> bool) (m : nat) (v : bool) : nat -> bool := fun x => if Nat.eqb x m then v else f x.
Definition mark (ws : list nat) (f : nat -> bool) : nat -> bool := fun x => if mem x ws then true else f x.

Definition set_panic (b : bool) (c : ctx) : ctx :=
  mkCtx (c_kind c) (c_mod c) (c_wraps c) (c_spec c) (c_pending c) b (c_bag c) (c_cand c) (c_args c) (c_silent c) (c_rtempty c) (c_saved c).
Definition set_spec (sp : option (option diag)) (c : ctx) : ctx :=
  mkCtx (c_kind c) (c_mod c) (c_wraps c) sp (c_pending c) (c_panic c) (c_bag c) (c_cand c) (c_args c) (c_silent c) (c_rtempty c) (c_saved c).
Definition set_pending (pd : option diag) (c : ctx) : ctx :=
  mkCtx (c_kind c) (c_mod c) (c_wraps c) (c_spec c) pd (c_panic c) (c_bag c) (c_cand c) (c_args c) (c_silent c) (c_rtempty c) (c_saved c).
Definition set_bag (b : list diag) (c : ctx) : ctx :=
  mkCtx (c_kind c) (c_mod c) (c_wraps c) (c_spec c) (c_pending c) (c_panic c) b (c_cand c) (c_args c) (c_silent c) (c_rtempty c) (c_saved c).
Definition set_cand (b : list diag) (c : ctx) : ctx :=
  mkCtx (c_kind c) (c_mod c) (c_wraps c) (c_spec c) (c_pending c) (c_panic c) (c_bag c) b (c_args c) (c_silent c) (c_rtempty c) (c_saved c).
Definition set_args (a : list arg) (c : ctx) : ctx :=
  mkCtx (c_kind c) (c_mod c) (c_wraps c) (c_spec c) (c_pending c) (c_panic c) (c_bag c) (c_cand c) a (c_silent c) (c_rtempty c) (c_saved c).
Definition set_silent (sl : list (bool * bool * bool)) (e : bool) (c : ctx) : ctx :=
  mkCtx (c_kind c) (c_mod c) (c_wraps c) (c_spec c) (c_pending c) (c_panic c) (c_bag c) (c_cand c) (c_args c) sl e (c_saved c).

Definition set_errored (f : nat -> bool) (g : glob) : glob :=
  mkGlob f (g_faulty g) (g_seen g) (g_finished g) (g_delivered g) (g_stale g) (g_rootscan g) (g_scanerr g).
Definition set_faulty (f : nat -> bool) (g : glob) : glob :=
  mkGlob (g_errored g) f (g_seen g) (g_finished g) (g_delivered g) (g_stale g) (g_rootscan g) (g_scanerr g).

Definition new_ctx (k : ckind) (m : nat) (ws : list nat) (saved : bool) : ctx :=
  mkCtx k m ws None None false [] [] [] [] false saved.

(* modules whose main parser is on the stack *)
Fixpoint inprogress (st : list ctx) : list nat :=
  match st with
  | [] => []
  | c :: r => match c_kind c with KMain => c_mod c :: inprogress r | KInst => inprogress r end
  end.

(* ---- handlers ------------------------------------------------------------------------------- *)
(* the caller's handler behind the wrappers ws *)
Definition to_user (ws : list nat) (e : diag) (g : glob) : glob :=
  mkGlob (if diag_is_err e then mark ws (g_errored g) else g_errored g)
         (g_faulty g) (g_seen g) (g_finished g) (e :: g_delivered g) (g_stale g) (g_rootscan g) (g_scanerr g).

(* the handler the parser was created with: wrapper chain (KMain) or collector (KInst) *)
Definition emit_base (e : diag) (c : ctx) (g : glob) : ctx * glob :=
  match c_kind c with
  | KMain => (c, to_user (c_wraps c) e g)
  | KInst => (set_bag (e :: c_bag c) c, g)
  end.

(* p.errorHandler of the parser that is currently running (innermost argument parser, else the ctx's) *)
Definition emit_parser (e : diag) (c : ctx) (g : glob) : ctx * glob :=
  match c_args c with
  | a :: r => (set_args (mkArg (a_panic a) (e :: a_bag a) (a_cand a) :: r) c, g)
  | [] => match c_spec c with
          | Some _ => (set_spec (Some (Some e)) c, g)
          | None => emit_base e c g
          end
  end.

Definition cur_panic (c : ctx) : bool :=
  match c_args c with a :: _ => a_panic a | [] => c_panic c end.
Definition set_cur_panic (b : bool) (c : ctx) : ctx :=
  match c_args c with
  | a :: r => set_args (mkArg b (a_bag a) (a_cand a) :: r) c
  | [] => set_panic b c
  end.
Definition cur_cand (c : ctx) : list diag :=
  match c_args c with a :: _ => a_cand a | [] => c_cand c end.
Definition set_cur_cand (l : list diag) (c : ctx) : ctx :=
  match c_args c with
  | a :: r => set_args (mkArg (a_panic a) (a_bag a) l :: r) c
  | [] => set_cand l c
  end.

(* parser.errVal *)
Definition err_val (e : diag) (c : ctx) (g : glob) : ctx * glob :=
  if cur_panic c then (c, g) else emit_parser e (set_cur_panic true c) g.

(* Module.Ast.Faulty = true, written by a resolver or typechecker *)
Definition mark_faulty (inprog : list nat) (m : nat) (g : glob) : glob :=
  mkGlob (g_errored g) (upd (g_faulty g) m true) (g_seen g) (g_finished g) (g_delivered g)
         (g_stale g || negb (mem m inprog)) (g_rootscan g) (g_scanerr g).

(* resolver.err / typechecker.err: the resolver keeps the handler it was created with, the
   typechecker's may have been replaced by EvaluateSilent *)
Definition rt_err (o : origin) (e : diag) (inprog : list nat) (c : ctx) (g : glob) : ctx * glob :=
  let g1 := mark_faulty inprog (c_mod c) g in
  if c_panic c then (c, g1)
  else match o with
       | OChecker => if c_rtempty c then (set_panic true c, g1) else emit_base e (set_panic true c) g1
       | _ => emit_base e (set_panic true c) g1
       end.

(* the module's scanner: the handler passed to Parse, i.e. the wrappers of the importers only *)
Definition scan_err (e : diag) (c : ctx) (g : glob) : glob :=
  let g1 := to_user (tl (c_wraps c)) e g in
  mkGlob (g_errored g1) (g_faulty g1) (g_seen g1) (g_finished g1) (g_delivered g1) (g_stale g1)
         (g_rootscan g1 || (diag_is_err e && match tl (c_wraps c) with [] => true | _ => false end))
         (if diag_is_err e then upd (g_scanerr g1) (c_mod c) true else g_scanerr g1).

Fixpoint replay (l : list diag) (c : ctx) (g : glob) : ctx * glob :=
  match l with
  | [] => (c, g)
  | e :: r => let '(c1, g1) := emit_parser e c g in replay r c1 g1
  end.

(* ---- the machine ---------------------------------------------------------------------------- *)
Definition step (cfg : config) (s : state) (ev : event) : option state :=
  match s_stack s with
  | [] => None                                  (* the root's Parse has returned: nothing can follow *)
  | c :: rest =>
    let g := s_g s in
    let ret (cg : ctx * glob) := Some (mkSt (snd cg) (fst cg :: rest)) in
    match ev with
    | EErr OScanner l code =>
        match c_kind c with
        | KMain => Some (mkSt (scan_err (mkDiag OScanner l (c_mod c) code) c g) (c :: rest))
        | KInst => None
        end
    | EErr OParser l code => ret (err_val (mkDiag OParser l (c_mod c) code) c g)
    | EErr o _ code => ret (rt_err o (mkDiag o LError (c_mod c) code) (inprogress (s_stack s)) c g)
    | EDirect o l code => ret (emit_parser (mkDiag o l (c_mod c) code) c g)
    | EMarkBad => ret (c, mark_faulty (inprogress (s_stack s)) (c_mod c) g)
    | ESync => ret (set_cur_panic false c, g)
    | ESpecBegin =>
        match c_args c, c_spec c with
        | [], None => ret (set_spec (Some None) c, g)
        | _, _ => None
        end
    | ESpecEnd =>
        match c_args c, c_spec c with
        | [], Some slot => ret (set_panic false (set_pending slot (set_spec None c)), g)
        | _, _ => None
        end
    | EReraise =>
        match c_args c, c_pending c with
        | [], Some e => ret (err_val e (set_pending None c) g)
        | _, _ => None
        end
    | ESilentBegin =>
        ret (set_silent ((c_rtempty c, g_faulty g (c_mod c), c_panic c) :: c_silent c) true c, g)
    | ESilentEnd =>
        match c_silent c with
        | (h, f, p) :: sl => ret (set_panic p (set_silent sl h c), set_faulty (upd (g_faulty g) (c_mod c) f) g)
        | [] => None
        end
    | EArgBegin => ret (set_args (mkArg false [] [] :: c_args c) c, g)
    | EArgEnd =>
        match c_args c with
        | a :: r => let c1 := set_args r c in ret (set_cur_cand (a_bag a ++ cur_cand c1) c1, g)
        | [] => None
        end
    | ECandDrop => ret (set_cur_cand [] c, g)
    | ECandReplay => ret (replay (rev (cur_cand c)) (set_cur_cand [] c) g)
    | ECandWrap code => ret (err_val (mkDiag OParser LError (c_mod c) code) (set_cur_cand [] c) g)
    | EInstBegin d =>
        if mem d (g_seen g) then Some (mkSt g (new_ctx KInst d [] (g_faulty g d) :: c :: rest)) else None
    | EInstEnd keep =>
        match c_kind c, c_args c, c_spec c, c_silent c, rest with
        | KInst, [], None, [], p :: rest' =>
            Some (mkSt (if cfg_inst_restores cfg then set_faulty (upd (g_faulty g) (c_mod c) (c_saved c)) g else g)
                       ((if keep then set_cur_cand (c_bag c ++ cur_cand p) p else p) :: rest'))
        | _, _, _, _, _ => None
        end
    | EImportBegin m =>
        match c_kind c, c_args c, c_spec c with
        | KMain, [], None =>
            if mem m (g_seen g) then None
            else Some (mkSt (mkGlob (g_errored g) (g_faulty g) (m :: g_seen g) (g_finished g) (g_delivered g)
                                    (g_stale g) (g_rootscan g) (g_scanerr g))
                            (new_ctx KMain m (m :: c_wraps c) false :: c :: rest))
        | _, _, _ => None
        end
    | EFinish =>
        match c_kind c, c_args c, c_spec c, c_silent c with
        | KMain, [], None, [] =>
            Some (mkSt (mkGlob (g_errored g)
                               (upd (g_faulty g) (c_mod c) (g_errored g (c_mod c) || (cfg_scan_counts cfg && g_scanerr g (c_mod c))))
                               (g_seen g) (c_mod c :: g_finished g) (g_delivered g) (g_stale g) (g_rootscan g) (g_scanerr g))
                       rest)
        | _, _, _, _ => None
        end
    end
  end.

Fixpoint run (cfg : config) (s : state) (tr : list event) : option state :=
  match tr with
  | [] => Some s
  | ev :: r => match step cfg s ev with Some s1 => run cfg s1 r | None => None end
  end.

Definition init : state :=
  mkSt (mkGlob (fun _ => false) (fun _ => false) [0] [] [] false false (fun _ => false)) [new_ctx KMain 0 [0] false].

(* a complete, well-bracketed frontend run: every event was admissible and the root's Parse returned *)
Definition complete (cfg : config) (tr : list event) (s : state) : Prop := run cfg init tr = Some s /\ s_stack s = [].

(* ---- observables ------------------------------------------------------------------------------ *)
Definition delivered_error (s : state) : bool := existsb diag_is_err (g_delivered (s_g s)).
Definition root_faulty (s : state) : bool := g_faulty (s_g s) 0.
Definition any_faulty (s : state) : bool := existsb (g_faulty (s_g s)) (g_seen (s_g s)).
Definition delivered (s : state) : list diag := rev (g_delivered (s_g s)).

(* compiler.Compile after the frontend. link_modules = the option --module-linken (default true);
   codegen_ok = the code generator and LLVM accept the module(s) (external). *)
Inductive outcome := Object | Refused | CodegenFailed.
Definition compile (cfg : config) (link_modules codegen_ok : bool) (s : state) : outcome :=
  if (link_modules && any_faulty s) || (cfg_nolink_checks cfg && root_faulty s) then Refused
  else if codegen_ok then Object else CodegenFailed.
Definition exit_status (o : outcome) : nat := match o with Object => 0 | _ => 1 end.
Definition artifact (o : outcome) : bool := match o with Object => true | _ => false end.

(* hypotheses of the partial theorems, as properties of the run *)
Definition no_stale_flag (s : state) : Prop := g_stale (s_g s) = false.
Definition no_root_scanner_error (s : state) : Prop := g_rootscan (s_g s) = false.

(* events that can raise an error-level diagnostic or mark a module *)
Definition warn_only (ev : event) : bool :=
  match ev with
  | EErr OScanner LWarn _ | EErr OParser LWarn _ => true
  | EErr _ _ _ => false
  | EDirect _ LWarn _ => true
  | EDirect _ LError _ => false
  | EMarkBad => false
  | ECandWrap _ => false
  | _ => true
  end.

(* ---- the two runs of the pinned tree that break the equivalence ------------------------------ *)
(* root: Binde "g" ein.  [g: two generics GR (Referenz) and GV share the alias "tu <a>"]
   root: tu x.  -> candidate GR: argument parsed, body instantiated over module 1: the typechecker
   of the instantiation reports into the collector (Faulty of module 1 := true), candidate dropped;
   candidate GV: accepted. *)
Definition trace_discarded_instantiation : list event :=
  [ EImportBegin 1; EFinish;
    EArgBegin; EArgEnd; ESilentBegin; ESilentEnd;
    EInstBegin 1; EErr OChecker LError 3000%N; EInstEnd true; ECandDrop;
    EArgBegin; EArgEnd; ESilentBegin; ESilentEnd;
    EInstBegin 1; EInstEnd true; ECandDrop;
    EFinish ].

(* root: `die Zahl x ist 1.` - the scanner reports SYN_EXPECTED_CAPITAL through the unwrapped handler *)
Definition trace_root_scanner_error : list event := [ EErr OScanner LError 1004%N; EFinish ].
