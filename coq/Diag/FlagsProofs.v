(* Proofs about the flag machine of Diag/Flags.v (C07). *)
From Coq Require Import List Bool Arith NArith Lia.
Import ListNotations.
From DDP Require Import Diag.Flags.

(* ---- basic facts --------------------------------------------------------------------------- *)
Lemma mem_In : forall m l, mem m l = true <-> In m l.
Proof.
  intros m l. unfold mem. rewrite existsb_exists. split.
  - intros [x [Hin Heq]]. apply Nat.eqb_eq in Heq. subst. exact Hin.
  - intros Hin. exists m. split; [exact Hin | apply Nat.eqb_refl].
Qed.

Lemma mark_mono : forall ws f m, f m = true -> mark ws f m = true.
Proof. intros ws f m H. unfold mark. destruct (mem m ws); auto. Qed.

Lemma mark_true : forall ws f m, mark ws f m = true -> mem m ws = true \/ f m = true.
Proof. intros ws f m H. unfold mark in H. destruct (mem m ws); auto. Qed.

Lemma upd_same : forall f m v, upd f m v m = v.
Proof. intros. unfold upd. rewrite Nat.eqb_refl. reflexivity. Qed.

Lemma upd_other : forall f m v x, x <> m -> upd f m v x = f x.
Proof. intros f m v x H. unfold upd. apply Nat.eqb_neq in H. rewrite H. reflexivity. Qed.

(* ---- frames ---------------------------------------------------------------------------------- *)
Definition same_frame (c c' : ctx) : Prop :=
  c_kind c' = c_kind c /\ c_mod c' = c_mod c /\ c_wraps c' = c_wraps c /\ c_silent c' = c_silent c.

Lemma same_frame_refl : forall c, same_frame c c.
Proof. intros c. repeat split. Qed.

Lemma same_frame_trans : forall a b c, same_frame a b -> same_frame b c -> same_frame a c.
Proof.
  intros a b c [H1 [H2 [H3 H4]]] [G1 [G2 [G3 G4]]]. repeat split; congruence.
Qed.

Lemma sf_set_panic : forall b c, same_frame c (set_panic b c).
Proof. intros. repeat split. Qed.
Lemma sf_set_spec : forall b c, same_frame c (set_spec b c).
Proof. intros. repeat split. Qed.
Lemma sf_set_pending : forall b c, same_frame c (set_pending b c).
Proof. intros. repeat split. Qed.
Lemma sf_set_bag : forall b c, same_frame c (set_bag b c).
Proof. intros. repeat split. Qed.
Lemma sf_set_cand : forall b c, same_frame c (set_cand b c).
Proof. intros. repeat split. Qed.
Lemma sf_set_args : forall b c, same_frame c (set_args b c).
Proof. intros. repeat split. Qed.
Lemma sf_set_cur_panic : forall b c, same_frame c (set_cur_panic b c).
Proof. intros. unfold set_cur_panic. destruct (c_args c); repeat split. Qed.
Lemma sf_set_cur_cand : forall b c, same_frame c (set_cur_cand b c).
Proof. intros. unfold set_cur_cand. destruct (c_args c); repeat split. Qed.

(* deliveries to the user's handler through the wrapper chain ws *)
Inductive deliv (ws : list nat) : glob -> glob -> Prop :=
| d_refl : forall g, deliv ws g g
| d_step : forall g e g', deliv ws (to_user ws e g) g' -> deliv ws g g'.

Lemma deliv_one : forall ws e g, deliv ws g (to_user ws e g).
Proof. intros. eapply d_step. apply d_refl. Qed.

(* what a handler call can do: the frame is kept; a collecting parser changes nothing global, a
   main parser delivers through its own wrapper chain *)
Definition effect (c : ctx) (g : glob) (c' : ctx) (g' : glob) : Prop :=
  same_frame c c' /\ (g' = g \/ (c_kind c = KMain /\ deliv (c_wraps c) g g')).

Lemma effect_refl : forall c g, effect c g c g.
Proof. intros. split; [apply same_frame_refl | left; reflexivity]. Qed.

Lemma deliv_trans : forall ws g1 g2 g3, deliv ws g1 g2 -> deliv ws g2 g3 -> deliv ws g1 g3.
Proof.
  intros ws g1 g2 g3 H. induction H as [g | g e g' H IH]; intro H2; [exact H2|].
  eapply d_step. apply IH. exact H2.
Qed.

Lemma effect_trans : forall c1 g1 c2 g2 c3 g3, effect c1 g1 c2 g2 -> effect c2 g2 c3 g3 -> effect c1 g1 c3 g3.
Proof.
  intros c1 g1 c2 g2 c3 g3 [S1 E1] [S2 E2]. split; [eapply same_frame_trans; eauto|].
  destruct S1 as [K1 [M1 [W1 L1]]].
  destruct E1 as [E1 | [K E1]]; destruct E2 as [E2 | [K' E2]]; subst.
  - left; reflexivity.
  - right. rewrite K1 in K'. split; [exact K'|]. rewrite W1 in E2. exact E2.
  - right. split; assumption.
  - right. split; [exact K|]. rewrite W1 in E2. eapply deliv_trans; eauto.
Qed.

Lemma effect_frame : forall c g c', same_frame c c' -> effect c g c' g.
Proof. intros. split; [assumption | left; reflexivity]. Qed.

Lemma emit_base_effect : forall e c g, effect c g (fst (emit_base e c g)) (snd (emit_base e c g)).
Proof.
  intros e c g. unfold emit_base. destruct (c_kind c) eqn:K; simpl.
  - split; [apply same_frame_refl|]. right. split; [exact K | apply deliv_one].
  - apply effect_frame. apply sf_set_bag.
Qed.

Lemma emit_parser_effect : forall e c g, effect c g (fst (emit_parser e c g)) (snd (emit_parser e c g)).
Proof.
  intros e c g. unfold emit_parser. destruct (c_args c) as [|a r].
  - destruct (c_spec c).
    + simpl. apply effect_frame. apply sf_set_spec.
    + apply emit_base_effect.
  - simpl. apply effect_frame. apply sf_set_args.
Qed.

Lemma err_val_effect : forall e c g, effect c g (fst (err_val e c g)) (snd (err_val e c g)).
Proof.
  intros e c g. unfold err_val. destruct (cur_panic c).
  - apply effect_refl.
  - eapply effect_trans; [apply effect_frame; apply (sf_set_cur_panic true)|]. apply emit_parser_effect.
Qed.

Lemma replay_effect : forall l c g, effect c g (fst (replay l c g)) (snd (replay l c g)).
Proof.
  induction l as [|e r IH]; intros c g; simpl.
  - apply effect_refl.
  - pose proof (emit_parser_effect e c g) as H. destruct (emit_parser e c g) as [c1 g1]. simpl in H.
    eapply effect_trans; [exact H | apply IH].
Qed.

(* ---- the invariant --------------------------------------------------------------------------- *)
Definition wraps_ok (c : ctx) : Prop := c_kind c = KMain -> c_wraps c = [0] \/ In 0 (tl (c_wraps c)).

Fixpoint bottom_root (st : list ctx) : Prop :=
  match st with
  | [] => True
  | c :: r => match r with [] => c_kind c = KMain /\ c_mod c = 0 | _ => bottom_root r end
  end.

Fixpoint inst_ok (fin : list nat) (st : list ctx) : Prop :=
  match st with
  | [] => True
  | c :: r => (c_kind c = KInst -> In (c_mod c) fin \/ In (c_mod c) (inprogress r)) /\ inst_ok fin r
  end.

Definition has_err (g : glob) : bool := existsb diag_is_err (g_delivered g).

Definition justified (g : glob) (st : list ctx) (m : nat) : Prop :=
  g_errored g m = true \/ g_stale g = true \/ In m (inprogress st).

Definition silent_ok (g : glob) (st : list ctx) (c : ctx) : Prop :=
  Forall (fun hfp : bool * bool * bool => snd (fst hfp) = true -> justified g st (c_mod c)) (c_silent c).

Record Inv (g : glob) (st : list ctx) : Prop := mkInv {
  iA : Forall wraps_ok st;
  iB : forall m, g_errored g m = true -> has_err g = true;
  iC : has_err g = true -> g_errored g 0 = true \/ g_rootscan g = true;
  iD : bottom_root st;
  iDq : st = [] -> g_faulty g 0 = g_errored g 0 /\ In 0 (g_finished g);
  iEa : forall m, In m (inprogress st) -> mem m (g_seen g) = true;
  iEb : forall m, In m (g_finished g) -> mem m (g_seen g) = true;
  iEc : NoDup (inprogress st);
  iEd : forall m, In m (inprogress st) -> ~ In m (g_finished g);
  iEe : inst_ok (g_finished g) st;
  iEf : forall m, mem m (g_seen g) = true -> In m (g_finished g) \/ In m (inprogress st);
  iF : forall m, g_faulty g m = true -> justified g st m;
  iG : Forall (silent_ok g st) st
}.

Lemma inprogress_same : forall c c' r, same_frame c c' -> inprogress (c' :: r) = inprogress (c :: r).
Proof. intros c c' r [K [M _]]. simpl. rewrite K, M. reflexivity. Qed.

Lemma wraps_ok_mem0 : forall c, wraps_ok c -> c_kind c = KMain -> mem 0 (c_wraps c) = true.
Proof.
  intros c H K. apply mem_In. destruct (H K) as [E | E].
  - rewrite E. left; reflexivity.
  - destruct (c_wraps c); simpl in E; [contradiction | right; exact E].
Qed.

(* replacing the top frame by one with the same kind, module, wrappers and silent stack *)
Lemma inv_replace_top : forall g c c' r, Inv g (c :: r) -> same_frame c c' -> Inv g (c' :: r).
Proof.
  intros g c c' r I SF. pose proof (inprogress_same c c' r SF) as IP.
  destruct SF as [K [M [W L]]]. destruct I.
  constructor; try assumption; try (rewrite IP; assumption).
  - inversion iA0; subst. constructor; [|assumption]. unfold wraps_ok in *. rewrite K, W. assumption.
  - simpl in *. destruct r; [rewrite K, M; assumption | assumption].
  - discriminate.
  - simpl in *. rewrite K, M. assumption.
  - intros m Hm. unfold justified. rewrite IP. apply iF0. exact Hm.
  - assert (Hj : forall m, justified g (c :: r) m -> justified g (c' :: r) m).
    { intros m Hm. unfold justified in *. rewrite IP. exact Hm. }
    inversion iG0; subst. constructor.
    + unfold silent_ok in *. rewrite L, M. eapply Forall_impl; [|eassumption]. simpl. intros a Ha Hs. apply Hj. auto.
    + eapply Forall_impl; [|eassumption]. intros a Ha. unfold silent_ok in *.
      eapply Forall_impl; [|eassumption]. simpl. intros b Hb Hs. apply Hj. auto.
Qed.

Lemma has_err_to_user : forall ws e g, has_err (to_user ws e g) = diag_is_err e || has_err g.
Proof. reflexivity. Qed.

Lemma justified_to_user : forall ws e g st m, justified g st m -> justified (to_user ws e g) st m.
Proof.
  intros ws e g st m [H | [H | H]]; unfold justified; simpl; auto.
  left. destruct (diag_is_err e); [apply mark_mono|]; assumption.
Qed.

Lemma inv_to_user : forall g c r ws e, Inv g (c :: r) -> mem 0 ws = true -> Inv (to_user ws e g) (c :: r).
Proof.
  intros g c r ws e I W. destruct I. constructor; try assumption.
  - intros m Hm. rewrite has_err_to_user. simpl in Hm. destruct (diag_is_err e); [reflexivity|]. simpl. eauto.
  - rewrite has_err_to_user. simpl. destruct (diag_is_err e); simpl.
    + intros _. left. unfold mark. rewrite W. reflexivity.
    + assumption.
  - discriminate.
  - intros m Hm. apply justified_to_user. apply iF0. exact Hm.
  - eapply Forall_impl; [|eassumption]. intros a Ha. unfold silent_ok in *.
    eapply Forall_impl; [|eassumption]. simpl. intros b Hb Hs. apply justified_to_user. auto.
Qed.

Lemma inv_deliv : forall ws g g', deliv ws g g' -> forall c r, Inv g (c :: r) -> mem 0 ws = true -> Inv g' (c :: r).
Proof.
  intros ws g g' H. induction H as [g | g e g' H IH]; intros c r I W; [exact I|].
  apply IH; [|exact W]. apply inv_to_user; assumption.
Qed.

Lemma inv_effect : forall g c r c' g', Inv g (c :: r) -> effect c g c' g' -> Inv g' (c' :: r).
Proof.
  intros g c r c' g' I [SF E]. destruct E as [E | [K E]].
  - subst. eapply inv_replace_top; eauto.
  - eapply inv_replace_top; [|exact SF]. eapply inv_deliv; [exact E | exact I |].
    apply wraps_ok_mem0; [|exact K]. destruct I. inversion iA0; assumption.
Qed.

Lemma justified_mark_faulty : forall ip x g st m, justified g st m -> justified (mark_faulty ip x g) st m.
Proof.
  intros ip x g st m [H | [H | H]]; unfold justified; simpl; auto.
  right; left. rewrite H. reflexivity.
Qed.

Lemma inv_mark_faulty : forall g c r, Inv g (c :: r) -> Inv (mark_faulty (inprogress (c :: r)) (c_mod c) g) (c :: r).
Proof.
  intros g c r I. destruct I. constructor; try assumption.
  - discriminate.
  - intros m Hm. unfold mark_faulty in Hm; cbn [g_faulty] in Hm. destruct (Nat.eq_dec m (c_mod c)) as [E | NE].
    + subst m. unfold justified, mark_faulty. cbn [g_stale g_errored].
      destruct (mem (c_mod c) (inprogress (c :: r))) eqn:Hmem.
      * right; right. apply mem_In. exact Hmem.
      * right; left. cbn [negb]. apply orb_true_r.
    + rewrite upd_other in Hm by exact NE. apply justified_mark_faulty. apply iF0. exact Hm.
  - eapply Forall_impl; [|eassumption]. intros a Ha. unfold silent_ok in *.
    eapply Forall_impl; [|eassumption]. simpl. intros b Hb Hs. apply justified_mark_faulty. auto.
Qed.

Definition or_rootscan (b : bool) (sc : nat -> bool) (g : glob) : glob :=
  mkGlob (g_errored g) (g_faulty g) (g_seen g) (g_finished g) (g_delivered g) (g_stale g) (g_rootscan g || b) sc.

Lemma scan_err_eq : forall e c g,
  scan_err e c g = or_rootscan (diag_is_err e && match tl (c_wraps c) with [] => true | _ => false end)
                               (if diag_is_err e then upd (g_scanerr g) (c_mod c) true else g_scanerr g)
                               (to_user (tl (c_wraps c)) e g).
Proof. reflexivity. Qed.

Lemma inv_or_rootscan : forall b sc g st, Inv g st -> Inv (or_rootscan b sc g) st.
Proof.
  intros b sc g st I. destruct I. constructor; try assumption.
  intros H. destruct (iC0 H) as [E | E]; [left; exact E | right; simpl; rewrite E; reflexivity].
Qed.

Lemma inv_to_user_root : forall g c r e sc, Inv g (c :: r) -> Inv (or_rootscan (diag_is_err e) sc (to_user [] e g)) (c :: r).
Proof.
  intros g c r e sc I. destruct I. constructor; try assumption.
  - intros m Hm. change (has_err (or_rootscan (diag_is_err e) sc (to_user [] e g))) with (diag_is_err e || has_err g).
    destruct (diag_is_err e) eqn:De; [reflexivity|]. simpl. apply (iB0 m).
    simpl in Hm. rewrite De in Hm. exact Hm.
  - change (has_err (or_rootscan (diag_is_err e) sc (to_user [] e g))) with (diag_is_err e || has_err g).
    destruct (diag_is_err e) eqn:De; simpl.
    + intros _. right. apply orb_true_r.
    + rewrite De, orb_false_r. exact iC0.
  - discriminate.
  - intros m Hm. apply (justified_to_user [] e) in Hm || idtac.
    destruct (iF0 m Hm) as [H | [H | H]]; unfold justified; simpl; auto.
    left. destruct (diag_is_err e); [apply mark_mono|]; assumption.
  - eapply Forall_impl; [|eassumption]. intros a Ha. unfold silent_ok in *.
    eapply Forall_impl; [|eassumption]. simpl. intros b Hb Hsv.
    destruct (Hb Hsv) as [H | [H | H]]; unfold justified; simpl; auto.
    left. destruct (diag_is_err e); [apply mark_mono|]; assumption.
Qed.

(* ---- the step preserves the invariant -------------------------------------------------------- *)
Lemma inv_init : Inv (s_g init) (s_stack init).
Proof.
  unfold init; simpl. constructor; simpl; try discriminate; try tauto.
  - constructor; [|constructor]. intros _. left. reflexivity.
  - intros m [E | []]. subst. reflexivity.
  - constructor; [intros []|constructor].
  - split; [intros K; discriminate K | exact I].
  - intros m Hm. right. left. rewrite orb_false_r in Hm. apply Nat.eqb_eq in Hm. auto.
  - constructor; [|constructor]. constructor.
Qed.

Lemma rt_err_inv : forall o e g c r,
  Inv g (c :: r) ->
  Inv (snd (rt_err o e (inprogress (c :: r)) c g)) (fst (rt_err o e (inprogress (c :: r)) c g) :: r).
Proof.
  intros o e g c r I. unfold rt_err.
  pose proof (inv_mark_faulty g c r I) as I1.
  set (g1 := mark_faulty (inprogress (c :: r)) (c_mod c) g) in *.
  destruct (c_panic c); [exact I1|].
  assert (Hb : Inv (snd (emit_base e (set_panic true c) g1)) (fst (emit_base e (set_panic true c) g1) :: r)).
  { eapply inv_effect; [exact I1|]. eapply effect_trans; [apply effect_frame; apply (sf_set_panic true)|].
    apply emit_base_effect. }
  assert (Hp : Inv g1 (set_panic true c :: r)).
  { eapply inv_replace_top; [exact I1 | apply sf_set_panic]. }
  destruct o; try exact Hb. destruct (c_rtempty c); [exact Hp | exact Hb].
Qed.

Lemma bottom_root_tail : forall c p r, bottom_root (c :: p :: r) -> bottom_root (p :: r).
Proof. intros c p r H. exact H. Qed.

Lemma inprogress_incl_tail : forall c r m, In m (inprogress r) -> In m (inprogress (c :: r)).
Proof. intros c r m H. simpl. destruct (c_kind c); [right|]; assumption. Qed.

Lemma step_inv : forall s ev s', Inv (s_g s) (s_stack s) -> step pinned s ev = Some s' -> Inv (s_g s') (s_stack s').
Proof.
  intros [g st] ev s' I Hs. unfold step in Hs. simpl in *. destruct st as [|c rest]; [discriminate|].
  destruct ev.
  - (* EErr *)
    destruct o.
    + (* scanner *)
      destruct (c_kind c) eqn:K; [|discriminate]. inversion Hs; subst; clear Hs. simpl.
      set (e := mkDiag OScanner l (c_mod c) code).
      assert (HA : wraps_ok c) by (destruct I; inversion iA0; assumption).
      rewrite scan_err_eq. destruct (HA K) as [W | W].
      * rewrite W. cbn [tl]. rewrite andb_true_r. apply inv_to_user_root. exact I.
      * apply inv_or_rootscan. apply inv_to_user; [exact I|]. apply mem_In. exact W.
    + inversion Hs; subst; clear Hs. simpl. eapply inv_effect; [exact I | apply err_val_effect].
    + inversion Hs; subst; clear Hs. simpl. apply rt_err_inv. exact I.
    + inversion Hs; subst; clear Hs. simpl. apply rt_err_inv. exact I.
  - (* EDirect *)
    inversion Hs; subst; clear Hs. simpl. eapply inv_effect; [exact I | apply emit_parser_effect].
  - (* EMarkBad *)
    inversion Hs; subst; clear Hs. simpl. apply inv_mark_faulty. exact I.
  - (* ESync *)
    inversion Hs; subst; clear Hs. simpl. eapply inv_replace_top; [exact I | apply sf_set_cur_panic].
  - (* ESpecBegin *)
    destruct (c_args c); [|discriminate]. destruct (c_spec c); [discriminate|].
    inversion Hs; subst; clear Hs. simpl. eapply inv_replace_top; [exact I | apply sf_set_spec].
  - (* ESpecEnd *)
    destruct (c_args c); [|discriminate]. destruct (c_spec c) as [slot|]; [|discriminate].
    inversion Hs; subst; clear Hs. simpl. eapply inv_replace_top; [exact I|]. repeat split.
  - (* EReraise *)
    destruct (c_args c); [|discriminate]. destruct (c_pending c) as [e|]; [|discriminate].
    inversion Hs; subst; clear Hs. simpl. eapply inv_effect; [exact I|].
    eapply effect_trans; [apply effect_frame; apply (sf_set_pending None)|]. apply err_val_effect.
  - (* ESilentBegin *)
    inversion Hs; subst; clear Hs. simpl.
    set (c' := set_silent ((c_rtempty c, g_faulty g (c_mod c), c_panic c) :: c_silent c) true c).
    assert (IP : inprogress (c' :: rest) = inprogress (c :: rest)) by reflexivity.
    destruct I. constructor; try assumption; try (rewrite IP; assumption).
    + inversion iA0; subst. constructor; assumption.
    + discriminate.
    + inversion iG0; subst. constructor.
      * unfold silent_ok in *. simpl. constructor; [|assumption]. simpl. intros Hf. apply iF0 in Hf. exact Hf.
      * assumption.
  - (* ESilentEnd *)
    destruct (c_silent c) as [|[[h f] p] sl] eqn:SL; [discriminate|].
    inversion Hs; subst; clear Hs. simpl.
    set (c' := set_panic p (set_silent sl h c)).
    assert (IP : inprogress (c' :: rest) = inprogress (c :: rest)) by reflexivity.
    destruct I.
    assert (Hsaved : f = true -> justified g (c :: rest) (c_mod c)).
    { inversion iG0; subst. unfold silent_ok in H1. rewrite SL in H1. inversion H1; subst. simpl in H3. exact H3. }
    assert (Hj : forall m, justified g (c :: rest) m ->
                           justified (set_faulty (upd (g_faulty g) (c_mod c) f) g) (c' :: rest) m).
    { intros m Hm. exact Hm. }
    constructor; try assumption; try (rewrite IP; assumption).
    + inversion iA0; subst. constructor; assumption.
    + discriminate.
    + intros m Hm. simpl in Hm. apply Hj. destruct (Nat.eq_dec m (c_mod c)) as [E | NE].
      * subst m. rewrite upd_same in Hm. auto.
      * rewrite upd_other in Hm by exact NE. auto.
    + inversion iG0; subst. constructor.
      * unfold silent_ok in *. simpl. rewrite SL in H1. inversion H1; subst. assumption.
      * assumption.
  - (* EArgBegin *)
    inversion Hs; subst; clear Hs. simpl. eapply inv_replace_top; [exact I | apply sf_set_args].
  - (* EArgEnd *)
    destruct (c_args c) as [|a r]; [discriminate|]. inversion Hs; subst; clear Hs. simpl.
    eapply inv_replace_top; [exact I|]. eapply same_frame_trans; [apply (sf_set_args r)|apply sf_set_cur_cand].
  - (* ECandDrop *)
    inversion Hs; subst; clear Hs. simpl. eapply inv_replace_top; [exact I | apply sf_set_cur_cand].
  - (* ECandReplay *)
    inversion Hs; subst; clear Hs. simpl. eapply inv_effect; [exact I|].
    eapply effect_trans; [apply effect_frame; apply (sf_set_cur_cand [])|]. apply replay_effect.
  - (* ECandWrap *)
    inversion Hs; subst; clear Hs. simpl. eapply inv_effect; [exact I|].
    eapply effect_trans; [apply effect_frame; apply (sf_set_cur_cand [])|]. apply err_val_effect.
  - (* EInstBegin *)
    destruct (mem d (g_seen g)) eqn:Hd; [|discriminate]. inversion Hs; subst; clear Hs. simpl.
    assert (IP : inprogress (new_ctx KInst d [] (g_faulty g d) :: c :: rest) = inprogress (c :: rest)) by reflexivity.
    destruct I. constructor; try assumption; try (rewrite IP; assumption).
    + constructor; [|assumption]. intros K. discriminate K.
    + discriminate.
    + simpl. split; [|exact iEe0]. intros _. apply iEf0. exact Hd.
    + constructor; [constructor | assumption].
  - (* EInstEnd *)
    destruct (c_kind c) eqn:K; [discriminate|]. destruct (c_args c); [|discriminate].
    destruct (c_spec c); [discriminate|]. destruct (c_silent c); [|discriminate].
    destruct rest as [|p rest']; [discriminate|]. inversion Hs; subst; clear Hs. simpl.
    assert (IP : inprogress (c :: p :: rest') = inprogress (p :: rest')) by (simpl; rewrite K; reflexivity).
    assert (I1 : Inv g (p :: rest')).
    { destruct I. rewrite IP in *. constructor; try assumption.
      - inversion iA0; assumption.
      - discriminate.
      - exact (proj2 iEe0).
      - intros m Hm. specialize (iF0 m Hm). unfold justified in *. rewrite IP in iF0. exact iF0.
      - inversion iG0; subst. eapply Forall_impl; [|eassumption]. intros a Ha. unfold silent_ok in *.
        eapply Forall_impl; [|eassumption]. simpl. intros b Hb Hsv. specialize (Hb Hsv).
        unfold justified in *. rewrite IP in Hb. exact Hb. }
    destruct keep; [|exact I1]. eapply inv_replace_top; [exact I1 | apply sf_set_cur_cand].
  - (* EImportBegin *)
    destruct (c_kind c) eqn:K; [|discriminate]. destruct (c_args c); [|discriminate].
    destruct (c_spec c); [discriminate|]. destruct (mem m (g_seen g)) eqn:Hm; [discriminate|].
    inversion Hs; subst; clear Hs. simpl s_g. simpl s_stack.
    set (n := new_ctx KMain m (m :: c_wraps c) false).
    assert (IP : inprogress (n :: c :: rest) = m :: inprogress (c :: rest)) by reflexivity.
    destruct I.
    assert (Hnew : ~ In m (inprogress (c :: rest))).
    { intros H. apply iEa0 in H. congruence. }
    assert (Hnf : ~ In m (g_finished g)).
    { intros H. apply iEb0 in H. congruence. }
    assert (Hj : forall x, justified g (c :: rest) x ->
       justified (mkGlob (g_errored g) (g_faulty g) (m :: g_seen g) (g_finished g) (g_delivered g) (g_stale g) (g_rootscan g) (g_scanerr g))
                 (n :: c :: rest) x).
    { intros x [H | [H | H]]; unfold justified; simpl g_errored; simpl g_stale; auto.
      right; right. rewrite IP. right. exact H. }
    constructor; simpl g_errored; simpl g_faulty; simpl g_seen; simpl g_finished; simpl g_rootscan; try assumption.
    + constructor; [|assumption]. intros _. right. simpl.
      apply mem_In. apply wraps_ok_mem0; [|exact K]. inversion iA0; assumption.
    + discriminate.
    + rewrite IP. intros x [E | H].
      * subst. unfold mem. simpl. rewrite Nat.eqb_refl. reflexivity.
      * unfold mem. simpl. apply iEa0 in H. unfold mem in H. rewrite H. apply orb_true_r.
    + intros x H. apply iEb0 in H. unfold mem in *. simpl. rewrite H. apply orb_true_r.
    + rewrite IP. constructor; assumption.
    + rewrite IP. intros x [E | H]; [subst; exact Hnf | apply iEd0; exact H].
    + simpl. split; [intros Kn; discriminate Kn | exact iEe0].
    + rewrite IP. intros x H. unfold mem in H. simpl in H. apply orb_true_iff in H. destruct H as [H | H].
      * apply Nat.eqb_eq in H. subst. right. left. reflexivity.
      * destruct (iEf0 x H) as [F | P]; [left; exact F | right; right; exact P].
    + intros x Hx. apply Hj. apply iF0. exact Hx.
    + constructor.
      * constructor.
      * eapply Forall_impl; [|eassumption]. intros a Ha. unfold silent_ok in *.
        eapply Forall_impl; [|eassumption]. simpl. intros b Hb Hsv. apply Hj. auto.
  - (* EFinish *)
    destruct (c_kind c) eqn:K; [|discriminate]. destruct (c_args c); [|discriminate].
    destruct (c_spec c); [discriminate|]. destruct (c_silent c); [|discriminate].
    inversion Hs; subst; clear Hs. simpl s_g. simpl s_stack.
    assert (IP : inprogress (c :: rest) = c_mod c :: inprogress rest) by (simpl; rewrite K; reflexivity).
    destruct I. rewrite IP in *.
    assert (ND : ~ In (c_mod c) (inprogress rest)) by (inversion iEc0; assumption).
    assert (NF : ~ In (c_mod c) (g_finished g)) by (apply iEd0; left; reflexivity).
    rewrite orb_false_r.
    set (g' := mkGlob (g_errored g) (upd (g_faulty g) (c_mod c) (g_errored g (c_mod c))) (g_seen g)
                      (c_mod c :: g_finished g) (g_delivered g) (g_stale g) (g_rootscan g) (g_scanerr g)).
    (* no remaining frame belongs to the finished module *)
    assert (Hother : forall pre a post, rest = pre ++ a :: post -> c_mod a <> c_mod c).
    { intros pre a post E Heq.
      assert (Hin : inst_ok (g_finished g) (a :: post) /\ (forall x, In x (inprogress (a :: post)) -> In x (inprogress rest))).
      { clear - E iEe0. simpl in iEe0. destruct iEe0 as [_ H]. subst rest. induction pre as [|b pre IH]; simpl.
        - split; [exact H | auto].
        - simpl in H. destruct H as [_ H]. destruct (IH H) as [H1 H2]. split; [exact H1|].
          intros x Hx. specialize (H2 x Hx). destruct (c_kind b); [right|]; exact H2. }
      destruct Hin as [Hi Hsub]. simpl in Hi. destruct Hi as [Hi _].
      destruct (c_kind a) eqn:Ka.
      - apply ND. apply Hsub. simpl. rewrite Ka. left. exact Heq.
      - destruct (Hi eq_refl) as [F | P].
        + rewrite Heq in F. exact (NF F).
        + apply ND. rewrite <- Heq. apply Hsub. simpl. rewrite Ka. exact P. }
    assert (Hj : forall x, x <> c_mod c -> justified g (c :: rest) x -> justified g' rest x).
    { intros x NE [H | [H | H]]; unfold justified; simpl; auto.
      rewrite IP in H. destruct H as [H | H]; [congruence | auto]. }
    constructor; simpl g_errored; simpl g_faulty; simpl g_seen; simpl g_finished; simpl g_rootscan;
      simpl g_delivered; try assumption.
    + inversion iA0; assumption.
    + simpl in iD0. destruct rest; [exact I | exact iD0].
    + intros E. subst rest. simpl in iD0. destruct iD0 as [_ M0]. rewrite M0. split; [apply upd_same | left; reflexivity].
    + intros x H. apply iEa0. right. exact H.
    + intros x [E | H]; [subst; apply iEa0; left; reflexivity | apply iEb0; exact H].
    + inversion iEc0; assumption.
    + intros x H [E | F].
      * subst. exact (ND H).
      * apply (iEd0 x); [right; exact H | exact F].
    + simpl in iEe0. destruct iEe0 as [_ H]. clear - H. induction rest as [|a r IH]; simpl; [exact I|].
      simpl in H. destruct H as [H1 H2]. split; [|apply IH; exact H2].
      intros Ka. destruct (H1 Ka) as [F | P]; [left; right; exact F | right; exact P].
    + intros x H. destruct (iEf0 x H) as [F | [E | P]].
      * left. right. exact F.
      * left. left. exact E.
      * right. exact P.
    + intros x Hx. destruct (Nat.eq_dec x (c_mod c)) as [E | NE].
      * subst x. rewrite upd_same in Hx. left. exact Hx.
      * rewrite upd_other in Hx by exact NE. apply Hj; [exact NE|]. apply iF0. exact Hx.
    + inversion iG0; subst. clear - H2 Hother Hj IP.
      assert (G : forall pre, Forall (silent_ok g (c :: pre ++ [])) [] -> True) by auto. clear G.
      (* walk down the remaining frames, remembering that each is a suffix element of rest *)
      assert (Hgen : forall post pre, rest = pre ++ post -> Forall (silent_ok g (c :: rest)) post -> Forall (silent_ok g' rest) post).
      { induction post as [|a post IH]; intros pre E HF; [constructor|].
        inversion HF; subst. constructor.
        - unfold silent_ok in *. eapply Forall_impl; [|eassumption]. simpl. intros b Hb Hsv.
          apply Hj; [eapply Hother; reflexivity|]. auto.
        - apply (IH (pre ++ [a])); [rewrite <- app_assoc; reflexivity | assumption]. }
      apply (Hgen rest []); [reflexivity | exact H2].
Qed.

Lemma run_inv : forall tr s s', Inv (s_g s) (s_stack s) -> run pinned s tr = Some s' -> Inv (s_g s') (s_stack s').
Proof.
  induction tr as [|ev r IH]; intros s s' I H; simpl in H.
  - inversion H; subst. exact I.
  - destruct (step pinned s ev) as [s1|] eqn:E; [|discriminate]. eapply IH; [|exact H]. eapply step_inv; eauto.
Qed.

Lemma complete_inv : forall tr s, complete pinned tr s -> Inv (s_g s) [].
Proof.
  intros tr s [H E]. rewrite <- E. eapply run_inv; [|exact H]. apply inv_init.
Qed.


(* ---- the theorems ------------------------------------------------------------------------------ *)
Lemma any_faulty_true : forall s, any_faulty s = true <-> exists m, In m (g_seen (s_g s)) /\ g_faulty (s_g s) m = true.
Proof. intros s. unfold any_faulty. apply existsb_exists. Qed.

(* a module is flagged only if an error-level diagnostic reached the user, unless a resolver or
   typechecker flagged a module that was not being parsed (instantiation of an imported generic) *)
Lemma faulty_imp_delivered : forall tr s,
  complete pinned tr s -> no_stale_flag s -> any_faulty s = true -> delivered_error s = true.
Proof.
  intros tr s C NS AF. pose proof (complete_inv tr s C) as I.
  apply any_faulty_true in AF. destruct AF as [m [_ Fm]].
  destruct (iF _ _ I m Fm) as [H | [H | H]].
  - exact (iB _ _ I m H).
  - unfold no_stale_flag in NS. congruence.
  - destruct H.
Qed.

(* every error-level diagnostic marks the root, unless it came from the root's own scanner *)
Lemma delivered_imp_root_faulty : forall tr s,
  complete pinned tr s -> no_root_scanner_error s -> delivered_error s = true -> root_faulty s = true.
Proof.
  intros tr s C NR DE. pose proof (complete_inv tr s C) as I.
  destruct (iDq _ _ I eq_refl) as [E _]. unfold root_faulty. rewrite E.
  destruct (iC _ _ I DE) as [H | H]; [exact H|]. unfold no_root_scanner_error in NR. congruence.
Qed.

Lemma root_faulty_imp_any : forall tr s, complete pinned tr s -> root_faulty s = true -> any_faulty s = true.
Proof.
  intros tr s C RF. pose proof (complete_inv tr s C) as I. apply any_faulty_true. exists 0. split; [|exact RF].
  apply mem_In. apply (iEb _ _ I). apply (iDq _ _ I eq_refl).
Qed.

Lemma faulty_iff_delivered_partial : forall tr s,
  complete pinned tr s -> no_stale_flag s -> no_root_scanner_error s ->
  (any_faulty s = true <-> delivered_error s = true).
Proof.
  intros tr s C NS NR. split.
  - apply (faulty_imp_delivered tr); assumption.
  - intros DE. apply (root_faulty_imp_any tr); [assumption|]. apply (delivered_imp_root_faulty tr); assumption.
Qed.

Lemma root_faulty_iff_delivered_partial : forall tr s,
  complete pinned tr s -> no_stale_flag s -> no_root_scanner_error s ->
  (root_faulty s = true <-> delivered_error s = true).
Proof.
  intros tr s C NS NR. split.
  - intros RF. apply (faulty_imp_delivered tr); try assumption. apply (root_faulty_imp_any tr); assumption.
  - apply (delivered_imp_root_faulty tr); assumption.
Qed.

(* any_faulty is "the root or some imported module" *)
Lemma any_faulty_split : forall s,
  any_faulty s = true <->
  (In 0 (g_seen (s_g s)) /\ root_faulty s = true) \/
  (exists m, m <> 0 /\ In m (g_seen (s_g s)) /\ g_faulty (s_g s) m = true).
Proof.
  intros s. rewrite any_faulty_true. split.
  - intros [m [Hin Hf]]. destruct (Nat.eq_dec m 0) as [E | NE].
    + subst. left. split; assumption.
    + right. exists m. repeat split; assumption.
  - intros [[Hin Hf] | [m [_ [Hin Hf]]]]; [exists 0 | exists m]; split; assumption.
Qed.

(* ---- observation of a run, for the computed witnesses ----------------------------------------- *)
Definition observe (tr : list event) : option (bool * bool * bool * bool * bool) :=
  match run pinned init tr with
  | Some s => Some (match s_stack s with [] => true | _ => false end, any_faulty s, root_faulty s, delivered_error s,
                    g_stale (s_g s) || g_rootscan (s_g s))
  | None => None
  end.

Lemma observe_complete : forall tr b1 b2 b3 b4,
  observe tr = Some (true, b1, b2, b3, b4) ->
  exists s, complete pinned tr s /\ any_faulty s = b1 /\ root_faulty s = b2 /\ delivered_error s = b3 /\
            g_stale (s_g s) || g_rootscan (s_g s) = b4.
Proof.
  intros tr b1 b2 b3 b4 H. unfold observe in H. destruct (run pinned init tr) as [s|] eqn:E; [|discriminate H].
  exists s. inversion H as [[H1 H2 H3 H4 H5]]. repeat split; try reflexivity; try assumption.
  destruct (s_stack s); [reflexivity | discriminate H1].
Qed.

(* flag without diagnostic: the discarded instantiation of an imported generic *)
Lemma faulty_iff_delivered_refuted : exists tr s,
  complete pinned tr s /\ any_faulty s = true /\ root_faulty s = false /\ delivered_error s = false.
Proof.
  exists trace_discarded_instantiation.
  assert (H : observe trace_discarded_instantiation = Some (true, true, false, false, true)) by (vm_compute; reflexivity).
  apply observe_complete in H. destruct H as [s [C [A [R [D _]]]]]. exists s. auto.
Qed.

(* diagnostic without flag: an error of the root's scanner *)
Lemma delivered_imp_faulty_refuted : exists tr s,
  complete pinned tr s /\ delivered_error s = true /\ any_faulty s = false.
Proof.
  exists trace_root_scanner_error.
  assert (H : observe trace_root_scanner_error = Some (true, false, false, true, true)) by (vm_compute; reflexivity).
  apply observe_complete in H. destruct H as [s [C [A [R [D _]]]]]. exists s. auto.
Qed.

(* ---- exit status and artefact ---------------------------------------------------------------- *)
Lemma exit_nonzero_iff_faulty : forall s cg,
  exit_status (compile pinned true cg s) <> 0 <-> any_faulty s = true \/ cg = false.
Proof.
  intros s cg. unfold compile. simpl. destruct (any_faulty s); simpl.
  - split; [auto | intros _; discriminate].
  - destruct cg; simpl; split; intros H.
    + exfalso; apply H; reflexivity.
    + destruct H; congruence.
    + right; reflexivity.
    + discriminate.
Qed.

Lemma exit_nonzero_iff_partial : forall tr s cg,
  complete pinned tr s -> no_stale_flag s -> no_root_scanner_error s ->
  (exit_status (compile pinned true cg s) <> 0 <-> delivered_error s = true \/ cg = false).
Proof.
  intros tr s cg C NS NR. rewrite exit_nonzero_iff_faulty. rewrite (faulty_iff_delivered_partial tr s C NS NR). tauto.
Qed.

Lemma exit_nonzero_iff_refuted :
  (exists tr s, complete pinned tr s /\ delivered_error s = true /\ exit_status (compile pinned true true s) = 0) /\
  (exists tr s, complete pinned tr s /\ delivered_error s = false /\ exit_status (compile pinned true true s) <> 0).
Proof.
  split.
  - destruct delivered_imp_faulty_refuted as [tr [s [C [D A]]]]. exists tr, s. split; [exact C|]. split; [exact D|].
    unfold compile. rewrite A. reflexivity.
  - destruct faulty_iff_delivered_refuted as [tr [s [C [A [R D]]]]]. exists tr, s. split; [exact C|]. split; [exact D|].
    unfold compile. rewrite A. simpl. discriminate.
Qed.

(* with the default options a flagged module is never compiled *)
Lemma no_artifact_when_faulty : forall s cg, any_faulty s = true -> artifact (compile pinned true cg s) = false.
Proof. intros s cg H. unfold compile. rewrite H. reflexivity. Qed.

Lemma no_artifact_on_failure_partial : forall tr s cg,
  complete pinned tr s -> no_root_scanner_error s -> delivered_error s = true -> artifact (compile pinned true cg s) = false.
Proof.
  intros tr s cg C NR DE. apply no_artifact_when_faulty. apply (root_faulty_imp_any tr); [assumption|].
  apply (delivered_imp_root_faulty tr); assumption.
Qed.

(* --module-linken=false skips the test of the Faulty flag altogether *)
Lemma no_artifact_on_failure_refuted :
  (exists tr s, complete pinned tr s /\ delivered_error s = true /\ artifact (compile pinned true true s) = true) /\
  (forall s, artifact (compile pinned false true s) = true).
Proof.
  split.
  - destruct delivered_imp_faulty_refuted as [tr [s [C [D A]]]]. exists tr, s. split; [exact C|]. split; [exact D|].
    unfold compile. rewrite A. reflexivity.
  - intros s. reflexivity.
Qed.

(* ---- non-vacuity of the partial theorems: a type error inside an imported module ---------------- *)
Definition trace_import_type_error : list event :=
  [ EImportBegin 1; EErr OChecker LError 3001%N; ESync; EFinish; EFinish ].

Example partial_nonvacuous : exists s,
  complete pinned trace_import_type_error s /\ no_stale_flag s /\ no_root_scanner_error s /\
  any_faulty s = true /\ root_faulty s = true /\ delivered_error s = true /\
  exit_status (compile pinned true true s) = 1 /\ artifact (compile pinned true true s) = false.
Proof.
  assert (H : observe trace_import_type_error = Some (true, true, true, true, false)) by (vm_compute; reflexivity).
  apply observe_complete in H. destruct H as [s [C [A [R [D G]]]]]. exists s.
  apply orb_false_iff in G. destruct G as [G1 G2].
  split; [exact C|]. split; [exact G1|]. split; [exact G2|]. split; [exact A|]. split; [exact R|]. split; [exact D|].
  unfold compile; rewrite A; split; reflexivity.
Qed.

(* a clean run: nothing delivered, nothing flagged, object produced *)
Example clean_run : exists s, complete pinned [EImportBegin 1; EFinish; EFinish] s /\
  any_faulty s = false /\ delivered_error s = false /\ exit_status (compile pinned true true s) = 0.
Proof.
  assert (H : observe [EImportBegin 1; EFinish; EFinish] = Some (true, false, false, false, false)) by (vm_compute; reflexivity).
  apply observe_complete in H. destruct H as [s [C [A [R [D G]]]]]. exists s.
  split; [exact C|]. split; [exact A|]. split; [exact D|]. unfold compile; rewrite A; reflexivity.
Qed.
