(* C07 for the `repaired` configuration of Diag/Flags.v (the three proposed repairs present):
   the equivalence "some module Faulty <-> an error-level diagnostic was delivered" holds for
   EVERY well-bracketed trace, without hypotheses. *)
From Coq Require Import List Bool Arith NArith Lia.
Import ListNotations.
From DDP Require Import Diag.Flags Diag.FlagsProofs.

(* own module first, then the importers down to the root *)
Definition wraps_okR (c : ctx) : Prop :=
  c_kind c = KMain -> exists t, c_wraps c = c_mod c :: t /\ ((t = [] /\ c_mod c = 0) \/ In 0 t).

Definition is_inst_of (m : nat) (c : ctx) : Prop := c_kind c = KInst /\ c_mod c = m.

(* why a module may currently carry Faulty = true *)
Definition justR (g : glob) (st : list ctx) (m : nat) : Prop :=
  g_errored g m = true \/ g_scanerr g m = true \/ In m (inprogress st) \/ Exists (is_inst_of m) st.

Fixpoint saved_ok (g : glob) (st : list ctx) : Prop :=
  match st with
  | [] => True
  | c :: r => (c_kind c = KInst -> c_saved c = true -> justR g r (c_mod c)) /\ saved_ok g r
  end.

Record InvR (g : glob) (st : list ctx) : Prop := mkInvR {
  rA : Forall wraps_okR st;
  rB : forall m, g_errored g m = true -> has_err g = true;
  rBs : forall m, g_scanerr g m = true -> has_err g = true;
  rC : has_err g = true -> g_errored g 0 = true \/ g_scanerr g 0 = true;
  rD : bottom_root st;
  rDq : st = [] -> g_faulty g 0 = g_errored g 0 || g_scanerr g 0;
  rS : In 0 (g_seen g);
  rF : forall m, g_faulty g m = true -> justR g st m;
  rH : saved_ok g st
}.

Definition same_frameR (c c' : ctx) : Prop :=
  c_kind c' = c_kind c /\ c_mod c' = c_mod c /\ c_wraps c' = c_wraps c /\ c_saved c' = c_saved c.

Lemma sfR_of : forall c c', same_frame c c' -> c_saved c' = c_saved c -> same_frameR c c'.
Proof. intros c c' [K [M [W _]]] S. repeat split; assumption. Qed.

(* g' has at least the error marks of g and the same stack-independent bookkeeping *)
Definition grows (g g' : glob) : Prop :=
  (forall m, g_errored g m = true -> g_errored g' m = true) /\
  (forall m, g_scanerr g m = true -> g_scanerr g' m = true).

Lemma justR_grows : forall g g' st m, grows g g' -> justR g st m -> justR g' st m.
Proof. intros g g' st m [G1 G2] [H | [H | [H | H]]]; unfold justR; auto. Qed.

Lemma saved_ok_grows : forall g g' st, grows g g' -> saved_ok g st -> saved_ok g' st.
Proof.
  intros g g' st G. induction st as [|c r IH]; simpl; [auto|]. intros [H1 H2]. split; [|auto].
  intros K S. eapply justR_grows; eauto.
Qed.

Lemma justR_same_top : forall g c c' r m, same_frameR c c' -> justR g (c :: r) m -> justR g (c' :: r) m.
Proof.
  intros g c c' r m [K [M _]] [H | [H | [H | H]]]; unfold justR; auto.
  - right; right; left. simpl in *. rewrite K, M. exact H.
  - right; right; right. inversion H; subst.
    + apply Exists_cons_hd. unfold is_inst_of in *. rewrite K, M. assumption.
    + apply Exists_cons_tl. assumption.
Qed.

Lemma invR_replace_top : forall g c c' r, InvR g (c :: r) -> same_frameR c c' -> InvR g (c' :: r).
Proof.
  intros g c c' r I SF. pose proof SF as [K [M [W S]]]. destruct I. constructor; try assumption.
  - inversion rA0; subst. constructor; [|assumption]. unfold wraps_okR in *. rewrite K, M, W. assumption.
  - simpl in *. destruct r; [rewrite K, M; assumption | assumption].
  - discriminate.
  - intros m Hm. eapply justR_same_top; eauto.
  - simpl in *. rewrite K, M, S. assumption.
Qed.

Lemma invR_grow : forall g g' c r,
  InvR g (c :: r) -> grows g g' ->
  g_faulty g' = g_faulty g -> g_seen g' = g_seen g ->
  (forall m, g_errored g' m = true -> has_err g' = true) ->
  (forall m, g_scanerr g' m = true -> has_err g' = true) ->
  (has_err g' = true -> g_errored g' 0 = true \/ g_scanerr g' 0 = true) ->
  InvR g' (c :: r).
Proof.
  intros g g' c r I G EF ES HB HBs HC. destruct I. constructor; try assumption.
  - discriminate.
  - rewrite ES. assumption.
  - intros m Hm. rewrite EF in Hm. eapply justR_grows; eauto.
  - eapply saved_ok_grows; eauto.
Qed.

Lemma invR_to_user : forall g c r ws e, InvR g (c :: r) -> mem 0 ws = true -> InvR (to_user ws e g) (c :: r).
Proof.
  intros g c r ws e I W. apply (invR_grow g); try assumption; try reflexivity.
  - split; simpl; [|auto]. intros m H. destruct (diag_is_err e); [apply mark_mono|]; assumption.
  - intros m Hm. rewrite has_err_to_user. simpl in Hm. destruct (diag_is_err e); [reflexivity|]. simpl. eapply rB; eauto.
  - intros m Hm. rewrite has_err_to_user. simpl in Hm. rewrite (rBs _ _ I m Hm). apply orb_true_r.
  - rewrite has_err_to_user. simpl. destruct (diag_is_err e); simpl.
    + intros _. left. unfold mark. rewrite W. reflexivity.
    + apply (rC _ _ I).
Qed.

Lemma invR_deliv : forall ws g g', deliv ws g g' -> forall c r, InvR g (c :: r) -> mem 0 ws = true -> InvR g' (c :: r).
Proof.
  intros ws g g' H. induction H as [g | g e g' H IH]; intros c r I W; [exact I|].
  apply IH; [|exact W]. apply invR_to_user; assumption.
Qed.

Lemma wraps_okR_mem0 : forall c, wraps_okR c -> c_kind c = KMain -> mem 0 (c_wraps c) = true.
Proof.
  intros c H K. apply mem_In. destruct (H K) as [t [E [[T M] | T]]]; rewrite E.
  - left. exact M.
  - right. exact T.
Qed.

Lemma invR_effect : forall g c r c' g',
  InvR g (c :: r) -> effect c g c' g' -> c_saved c' = c_saved c -> InvR g' (c' :: r).
Proof.
  intros g c r c' g' I [SF E] S. destruct E as [E | [K E]].
  - subst. eapply invR_replace_top; [exact I | apply sfR_of; assumption].
  - eapply invR_replace_top; [|apply sfR_of; eassumption]. eapply invR_deliv; [exact E | exact I |].
    apply wraps_okR_mem0; [|exact K]. destruct I. inversion rA0; assumption.
Qed.

(* the handlers never touch c_saved *)
Lemma saved_emit_base : forall e c g, c_saved (fst (emit_base e c g)) = c_saved c.
Proof. intros. unfold emit_base. destruct (c_kind c); reflexivity. Qed.
Lemma saved_emit_parser : forall e c g, c_saved (fst (emit_parser e c g)) = c_saved c.
Proof.
  intros. unfold emit_parser. destruct (c_args c); [|reflexivity].
  destruct (c_spec c); [reflexivity | apply saved_emit_base].
Qed.
Lemma saved_set_cur_panic : forall b c, c_saved (set_cur_panic b c) = c_saved c.
Proof. intros. unfold set_cur_panic. destruct (c_args c); reflexivity. Qed.
Lemma saved_set_cur_cand : forall l c, c_saved (set_cur_cand l c) = c_saved c.
Proof. intros. unfold set_cur_cand. destruct (c_args c); reflexivity. Qed.
Lemma saved_err_val : forall e c g, c_saved (fst (err_val e c g)) = c_saved c.
Proof.
  intros. unfold err_val. destruct (cur_panic c); [reflexivity|].
  rewrite saved_emit_parser. apply saved_set_cur_panic.
Qed.
Lemma saved_replay : forall l c g, c_saved (fst (replay l c g)) = c_saved c.
Proof.
  induction l as [|e l IH]; intros c g; simpl; [reflexivity|].
  pose proof (saved_emit_parser e c g) as H. destruct (emit_parser e c g) as [c1 g1]. simpl in H.
  rewrite IH. exact H.
Qed.

(* a resolver/typechecker of the top frame marks its module: always justified while the frame is there *)
Lemma justR_top : forall g c r, justR g (c :: r) (c_mod c).
Proof.
  intros g c r. unfold justR. destruct (c_kind c) eqn:K.
  - right; right; left. simpl. rewrite K. left. reflexivity.
  - right; right; right. apply Exists_cons_hd. split; [exact K | reflexivity].
Qed.

Lemma invR_set_faulty_top : forall g c r v,
  InvR g (c :: r) -> InvR (set_faulty (upd (g_faulty g) (c_mod c) v) g) (c :: r).
Proof.
  intros g c r v I. destruct I. constructor; try assumption.
  - discriminate.
  - intros m Hm. simpl in Hm. destruct (Nat.eq_dec m (c_mod c)) as [E | NE].
    + subst m. apply (justR_top _ c r).
    + rewrite upd_other in Hm by exact NE. apply rF0. exact Hm.
  - eapply saved_ok_grows; [|exact rH0]. split; auto.
Qed.

Lemma invR_mark_faulty : forall g c r ip, InvR g (c :: r) -> InvR (mark_faulty ip (c_mod c) g) (c :: r).
Proof.
  intros g c r ip I. pose proof (invR_set_faulty_top g c r true I) as I1.
  destruct I1. constructor; try assumption.
  eapply saved_ok_grows; [|exact rH0]. split; auto.
Qed.

Lemma rt_err_invR : forall o e ip g c r,
  InvR g (c :: r) -> InvR (snd (rt_err o e ip c g)) (fst (rt_err o e ip c g) :: r).
Proof.
  intros o e ip g c r I. unfold rt_err. pose proof (invR_mark_faulty g c r ip I) as I1.
  set (g1 := mark_faulty ip (c_mod c) g) in *.
  destruct (c_panic c); [exact I1|].
  assert (Hp : InvR g1 (set_panic true c :: r)).
  { eapply invR_replace_top; [exact I1|]. apply sfR_of; [apply sf_set_panic | reflexivity]. }
  assert (Hb : InvR (snd (emit_base e (set_panic true c) g1)) (fst (emit_base e (set_panic true c) g1) :: r)).
  { eapply invR_effect; [exact Hp | apply emit_base_effect | apply saved_emit_base]. }
  destruct o; try exact Hb. destruct (c_rtempty c); [exact Hp | exact Hb].
Qed.

Lemma invR_init : InvR (s_g init) (s_stack init).
Proof.
  unfold init; simpl. constructor; simpl; try discriminate; try tauto.
  - constructor; [|constructor]. intros _. exists []. split; [reflexivity|]. left. split; reflexivity.
  - split; [intros K; discriminate K | exact I].
Qed.

Lemma justR_push : forall g c r m, justR g r m -> justR g (c :: r) m.
Proof.
  intros g c r m [H | [H | [H | H]]]; unfold justR; auto.
  right; right; left. apply inprogress_incl_tail. exact H.
Qed.

Lemma has_err_scan : forall b sc ws e g, has_err (or_rootscan b sc (to_user ws e g)) = diag_is_err e || has_err g.
Proof. reflexivity. Qed.

Lemma step_invR : forall s ev s', InvR (s_g s) (s_stack s) -> step repaired s ev = Some s' -> InvR (s_g s') (s_stack s').
Proof.
  intros [g st] ev s' I Hs. unfold step in Hs. simpl in *. destruct st as [|c rest]; [discriminate|].
  destruct ev.
  - (* EErr *)
    destruct o.
    + destruct (c_kind c) eqn:K; [|discriminate]. inversion Hs; subst; clear Hs. simpl.
      generalize (mkDiag OScanner l (c_mod c) code). intros e.
      assert (HA : wraps_okR c) by (destruct I; inversion rA0; assumption).
      destruct (HA K) as [t [W T]].
      (* delivery through the importers' wrappers, then the module's own scanner mark *)
      rewrite scan_err_eq.
      apply (invR_grow g); try reflexivity; try exact I.
      * split; simpl; intros m H.
        -- destruct (diag_is_err e); [apply mark_mono|]; exact H.
        -- destruct (diag_is_err e); [|exact H]. unfold upd. destruct (m =? c_mod c); [reflexivity | exact H].
      * intros m Hm. rewrite has_err_scan. simpl in Hm. destruct (diag_is_err e); [reflexivity|]. simpl. eapply rB; eauto.
      * intros m Hm. rewrite has_err_scan. simpl in Hm. destruct (diag_is_err e); [reflexivity|]. simpl. eapply rBs; eauto.
      * rewrite has_err_scan. simpl. destruct (diag_is_err e); simpl; [|apply (rC _ _ I)].
        intros _. destruct T as [[T M] | T].
        -- right. rewrite M. apply upd_same.
        -- left. unfold mark. rewrite W. simpl tl. assert (Hm : mem 0 t = true) by (apply mem_In; exact T). rewrite Hm. reflexivity.
    + inversion Hs; subst; clear Hs. simpl. eapply invR_effect; [exact I | apply err_val_effect | apply saved_err_val].
    + inversion Hs; subst; clear Hs. simpl. apply rt_err_invR. exact I.
    + inversion Hs; subst; clear Hs. simpl. apply rt_err_invR. exact I.
  - inversion Hs; subst; clear Hs. simpl. eapply invR_effect; [exact I | apply emit_parser_effect | apply saved_emit_parser].
  - inversion Hs; subst; clear Hs. simpl. apply invR_mark_faulty. exact I.
  - (* ESync *)
    inversion Hs; subst; clear Hs. simpl. eapply invR_replace_top; [exact I|]. apply sfR_of; [apply sf_set_cur_panic | apply saved_set_cur_panic].
  - (* ESpecBegin *)
    destruct (c_args c); [|discriminate]. destruct (c_spec c); [discriminate|].
    inversion Hs; subst; clear Hs. simpl. eapply invR_replace_top; [exact I|]. repeat split.
  - (* ESpecEnd *)
    destruct (c_args c); [|discriminate]. destruct (c_spec c) as [slot|]; [|discriminate].
    inversion Hs; subst; clear Hs. simpl. eapply invR_replace_top; [exact I|]. repeat split.
  - (* EReraise *)
    destruct (c_args c); [|discriminate]. destruct (c_pending c) as [e|]; [|discriminate].
    inversion Hs; subst; clear Hs. simpl.
    assert (I0 : InvR g (set_pending None c :: rest)).
    { eapply invR_replace_top; [exact I|]. repeat split. }
    eapply invR_effect; [exact I0 | apply err_val_effect | apply saved_err_val].
  - (* ESilentBegin *)
    inversion Hs; subst; clear Hs. simpl. eapply invR_replace_top; [exact I|]. repeat split.
  - (* ESilentEnd *)
    destruct (c_silent c) as [|[[h f] p] sl] eqn:SL; [discriminate|].
    inversion Hs; subst; clear Hs. simpl.
    eapply invR_replace_top; [apply invR_set_faulty_top; exact I|]. repeat split.
  - (* EArgBegin *)
    inversion Hs; subst; clear Hs. simpl. eapply invR_replace_top; [exact I|]. repeat split.
  - (* EArgEnd *)
    destruct (c_args c) as [|a r]; [discriminate|]. inversion Hs; subst; clear Hs. simpl.
    eapply invR_replace_top; [exact I|]. apply sfR_of.
    + eapply same_frame_trans; [apply (sf_set_args r)|apply sf_set_cur_cand].
    + rewrite saved_set_cur_cand. reflexivity.
  - (* ECandDrop *)
    inversion Hs; subst; clear Hs. simpl. eapply invR_replace_top; [exact I|]. apply sfR_of; [apply sf_set_cur_cand | apply saved_set_cur_cand].
  - (* ECandReplay *)
    inversion Hs; subst; clear Hs. simpl.
    assert (I0 : InvR g (set_cur_cand [] c :: rest)).
    { eapply invR_replace_top; [exact I|]. apply sfR_of; [apply sf_set_cur_cand | apply saved_set_cur_cand]. }
    eapply invR_effect; [exact I0 | apply replay_effect | apply saved_replay].
  - (* ECandWrap *)
    inversion Hs; subst; clear Hs. simpl.
    assert (I0 : InvR g (set_cur_cand [] c :: rest)).
    { eapply invR_replace_top; [exact I|]. apply sfR_of; [apply sf_set_cur_cand | apply saved_set_cur_cand]. }
    eapply invR_effect; [exact I0 | apply err_val_effect | apply saved_err_val].
  - (* EInstBegin *)
    destruct (mem d (g_seen g)) eqn:Hd; [|discriminate]. inversion Hs; subst; clear Hs. simpl.
    destruct I. constructor; try assumption.
    + constructor; [|assumption]. intros K. discriminate K.
    + discriminate.
    + intros m Hm. apply justR_push. apply rF0. exact Hm.
    + simpl. split; [|exact rH0]. intros _ Sv. apply rF0. exact Sv.
  - (* EInstEnd: the declaring module's flag is restored *)
    destruct (c_kind c) eqn:K; [discriminate|]. destruct (c_args c); [|discriminate].
    destruct (c_spec c); [discriminate|]. destruct (c_silent c); [|discriminate].
    destruct rest as [|p rest']; [discriminate|]. inversion Hs; subst; clear Hs. simpl s_g. simpl s_stack.
    assert (IP : inprogress (c :: p :: rest') = inprogress (p :: rest')) by (simpl; rewrite K; reflexivity).
    assert (I1 : InvR (set_faulty (upd (g_faulty g) (c_mod c) (c_saved c)) g) (p :: rest')).
    { destruct I. constructor; try assumption.
      - inversion rA0; assumption.
      - discriminate.
      - intros m Hm. simpl in Hm. destruct (Nat.eq_dec m (c_mod c)) as [E | NE].
        + subst m. rewrite upd_same in Hm. simpl in rH0. destruct rH0 as [Hs _]. apply (Hs K Hm).
        + rewrite upd_other in Hm by exact NE. destruct (rF0 m Hm) as [H | [H | [H | H]]]; unfold justR; auto.
          * right; right; left. rewrite IP in H. exact H.
          * right; right; right. inversion H; subst; [|assumption]. destruct H1 as [_ Hc]. congruence.
      - destruct rH0 as [_ Hr]. eapply saved_ok_grows; [|exact Hr]. split; auto. }
    destruct keep; [|exact I1]. eapply invR_replace_top; [exact I1|]. apply sfR_of; [apply sf_set_cur_cand | apply saved_set_cur_cand].
  - (* EImportBegin *)
    destruct (c_kind c) eqn:K; [|discriminate]. destruct (c_args c); [|discriminate].
    destruct (c_spec c); [discriminate|]. destruct (mem m (g_seen g)) eqn:Hm; [discriminate|].
    inversion Hs; subst; clear Hs. simpl s_g. simpl s_stack.
    destruct I. constructor; simpl g_errored; simpl g_faulty; simpl g_seen; simpl g_scanerr; try assumption.
    + constructor; [|assumption]. intros _. exists (c_wraps c). split; [reflexivity|]. right.
      apply mem_In. apply wraps_okR_mem0; [|exact K]. inversion rA0; assumption.
    + discriminate.
    + right. exact rS0.
    + intros x Hx. eapply justR_grows; [|apply justR_push; apply rF0; exact Hx]. split; auto.
    + apply (saved_ok_grows g); [split; auto|]. split; [intros Kn; discriminate Kn | exact rH0].
  - (* EFinish *)
    destruct (c_kind c) eqn:K; [|discriminate]. destruct (c_args c); [|discriminate].
    destruct (c_spec c); [discriminate|]. destruct (c_silent c); [|discriminate].
    inversion Hs; subst; clear Hs. simpl s_g. simpl s_stack.
    assert (IP : inprogress (c :: rest) = c_mod c :: inprogress rest) by (simpl; rewrite K; reflexivity).
    destruct I. constructor; simpl g_errored; simpl g_faulty; simpl g_seen; simpl g_scanerr; try assumption.
    + inversion rA0; assumption.
    + simpl in rD0. destruct rest; [exact I | exact rD0].
    + intros E. subst rest. simpl in rD0. destruct rD0 as [_ M0]. rewrite M0. apply upd_same.
    + intros x Hx. destruct (Nat.eq_dec x (c_mod c)) as [E | NE].
      * subst x. rewrite upd_same in Hx. apply orb_true_iff in Hx. destruct Hx as [Hx | Hx]; [left | right; left]; exact Hx.
      * rewrite upd_other in Hx by exact NE. destruct (rF0 x Hx) as [H | [H | [H | H]]]; unfold justR; auto.
        -- rewrite IP in H. destruct H as [H | H]; [congruence|]. right; right; left. exact H.
        -- right; right; right. inversion H; subst; [|assumption]. destruct H1 as [Hk _]. congruence.
    + simpl in rH0. destruct rH0 as [_ Hr]. eapply saved_ok_grows; [|exact Hr]. split; auto.
Qed.

Lemma run_invR : forall tr s s', InvR (s_g s) (s_stack s) -> run repaired s tr = Some s' -> InvR (s_g s') (s_stack s').
Proof.
  induction tr as [|ev r IH]; intros s s' I H; simpl in H.
  - inversion H; subst. exact I.
  - destruct (step repaired s ev) as [s1|] eqn:E; [|discriminate]. eapply IH; [|exact H]. eapply step_invR; eauto.
Qed.

(* FULL theorem for the repaired code: for every well-bracketed trace *)
Theorem faulty_iff_delivered_repaired : forall tr s,
  complete repaired tr s -> (any_faulty s = true <-> delivered_error s = true).
Proof.
  intros tr s [R E]. pose proof (run_invR tr init s invR_init R) as I. rewrite E in I. split.
  - intros AF. apply any_faulty_true in AF. destruct AF as [m [_ Fm]].
    destruct (rF _ _ I m Fm) as [H | [H | [H | H]]].
    + exact (rB _ _ I m H).
    + exact (rBs _ _ I m H).
    + destruct H.
    + inversion H.
  - intros DE. apply any_faulty_true. exists 0. split; [exact (rS _ _ I)|].
    rewrite (rDq _ _ I eq_refl). destruct (rC _ _ I DE) as [H | H]; rewrite H; [reflexivity | apply orb_true_r].
Qed.

Theorem root_faulty_iff_delivered_repaired : forall tr s,
  complete repaired tr s -> (root_faulty s = true <-> delivered_error s = true).
Proof.
  intros tr s C. pose proof C as [R E]. pose proof (run_invR tr init s invR_init R) as I. rewrite E in I. split.
  - intros RF. apply (faulty_iff_delivered_repaired tr s C). apply any_faulty_true. exists 0. split; [exact (rS _ _ I) | exact RF].
  - intros DE. unfold root_faulty. rewrite (rDq _ _ I eq_refl).
    destruct (rC _ _ I DE) as [H | H]; rewrite H; [reflexivity | apply orb_true_r].
Qed.

(* exit status and artefact of the repaired kddp, for both values of --module-linken *)
Theorem exit_nonzero_iff_repaired : forall tr s lm cg,
  complete repaired tr s ->
  (exit_status (compile repaired lm cg s) <> 0 <-> delivered_error s = true \/ cg = false).
Proof.
  intros tr s lm cg C. rewrite <- (root_faulty_iff_delivered_repaired tr s C).
  pose proof (faulty_iff_delivered_repaired tr s C) as FA. pose proof (root_faulty_iff_delivered_repaired tr s C) as FR.
  unfold compile. simpl. destruct (root_faulty s) eqn:RF.
  - rewrite orb_true_r. simpl. split; [auto | intros _; discriminate].
  - rewrite orb_false_r.
    assert (AF : any_faulty s = false).
    { destruct (any_faulty s) eqn:A; [|reflexivity]. assert (X : false = true) by (apply FR; apply FA; reflexivity). discriminate X. }
    rewrite AF, andb_false_r. destruct cg; simpl; split; intros H.
    + exfalso; apply H; reflexivity.
    + destruct H; congruence.
    + right; reflexivity.
    + discriminate.
Qed.

Theorem no_artifact_on_failure_repaired : forall tr s lm cg,
  complete repaired tr s -> delivered_error s = true -> artifact (compile repaired lm cg s) = false.
Proof.
  intros tr s lm cg C DE. apply (root_faulty_iff_delivered_repaired tr s C) in DE.
  unfold compile. simpl. rewrite DE, orb_true_r. reflexivity.
Qed.

(* non-vacuity: the two witnesses that refute the pinned configuration are complete runs here too *)
Example repaired_discarded_instantiation : exists s,
  complete repaired trace_discarded_instantiation s /\ any_faulty s = false /\ delivered_error s = false.
Proof.
  destruct (run repaired init trace_discarded_instantiation) as [s|] eqn:E; [|vm_compute in E; discriminate E].
  exists s. vm_compute in E. inversion E; subst. repeat split.
Qed.

Example repaired_root_scanner_error : exists s,
  complete repaired trace_root_scanner_error s /\ any_faulty s = true /\ delivered_error s = true /\
  artifact (compile repaired false true s) = false.
Proof.
  destruct (run repaired init trace_root_scanner_error) as [s|] eqn:E; [|vm_compute in E; discriminate E].
  exists s. vm_compute in E. inversion E; subst. repeat split.
Qed.
