(* C07: warnings alone never fail a compilation (invariant over all runs without an
   error-capable event). *)
From Coq Require Import List Bool Arith NArith.
Import ListNotations.
From DDP Require Import Diag.Flags Diag.FlagsProofs.

Definition dwarn (e : diag) : Prop := diag_is_err e = false.
Definition owarn (o : option diag) : Prop := match o with Some e => dwarn e | None => True end.
Definition arg_warn (a : arg) : Prop := Forall dwarn (a_bag a) /\ Forall dwarn (a_cand a).
Definition ctx_warn (c : ctx) : Prop :=
  match c_spec c with Some o => owarn o | None => True end /\ owarn (c_pending c) /\
  Forall dwarn (c_bag c) /\ Forall dwarn (c_cand c) /\ Forall arg_warn (c_args c) /\
  Forall (fun x : bool * bool * bool => snd (fst x) = false) (c_silent c) /\ c_saved c = false.

Record Wn (g : glob) (st : list ctx) : Prop := mkWn {
  wE : forall m, g_errored g m = false;
  wF : forall m, g_faulty g m = false;
  wD : Forall dwarn (g_delivered g);
  wC : forall m, g_scanerr g m = false;
  wS : Forall ctx_warn st
}.

Lemma wn_top : forall g c r, Wn g (c :: r) -> ctx_warn c.
Proof. intros g c r W. destruct W. inversion wS0; assumption. Qed.

Lemma wn_set_top : forall g c c' r, Wn g (c :: r) -> ctx_warn c' -> Wn g (c' :: r).
Proof. intros g c c' r W H. destruct W. constructor; try assumption. inversion wS0; subst. constructor; assumption. Qed.

Lemma wn_to_user : forall g st ws e, Wn g st -> dwarn e -> Wn (to_user ws e g) st.
Proof.
  intros g st ws e W D. destruct W. unfold to_user. unfold dwarn in D. rewrite D.
  constructor; simpl; try assumption. constructor; assumption.
Qed.

Lemma wn_emit_base : forall e c g r, Wn g (c :: r) -> dwarn e ->
  Wn (snd (emit_base e c g)) (fst (emit_base e c g) :: r).
Proof.
  intros e c g r W D. unfold emit_base. destruct (c_kind c); simpl.
  - apply wn_to_user; assumption.
  - eapply wn_set_top; [exact W|]. pose proof (wn_top _ _ _ W) as [H1 [H2 [H3 [H4 [H5 [H6 H7s]]]]]].
    unfold ctx_warn. simpl. repeat split; try assumption. constructor; assumption.
Qed.

Lemma wn_emit_parser : forall e c g r, Wn g (c :: r) -> dwarn e ->
  Wn (snd (emit_parser e c g)) (fst (emit_parser e c g) :: r).
Proof.
  intros e c g r W D. unfold emit_parser.
  pose proof (wn_top _ _ _ W) as [H1 [H2 [H3 [H4 [H5 [H6 H7s]]]]]].
  destruct (c_args c) as [|a ar] eqn:A.
  - destruct (c_spec c) eqn:S.
    + simpl. eapply wn_set_top; [exact W|]. unfold ctx_warn. simpl. rewrite A. repeat split; try assumption; try constructor.
    + apply wn_emit_base; assumption.
  - simpl. eapply wn_set_top; [exact W|]. unfold ctx_warn. simpl. repeat split; try assumption.
    inversion H5; subst. constructor; [|assumption]. destruct H7 as [B C]. split; simpl; [constructor|]; assumption.
Qed.

Lemma ctx_warn_set_cur_panic : forall b c, ctx_warn c -> ctx_warn (set_cur_panic b c).
Proof.
  intros b c [H1 [H2 [H3 [H4 [H5 [H6 H7s]]]]]]. unfold set_cur_panic. destruct (c_args c) as [|a ar] eqn:A.
  - unfold ctx_warn. simpl. rewrite A. repeat split; try assumption; try constructor.
  - unfold ctx_warn. simpl. repeat split; try assumption. inversion H5; subst. constructor; assumption.
Qed.

Lemma ctx_warn_set_cur_cand : forall l c, ctx_warn c -> Forall dwarn l -> ctx_warn (set_cur_cand l c).
Proof.
  intros l c [H1 [H2 [H3 [H4 [H5 [H6 H7s]]]]]] L. unfold set_cur_cand. destruct (c_args c) as [|a ar] eqn:A.
  - unfold ctx_warn. simpl. rewrite A. repeat split; try assumption; try constructor.
  - unfold ctx_warn. simpl. repeat split; try assumption. inversion H5; subst. constructor; [|assumption].
    destruct H7 as [B C]. split; assumption.
Qed.

Lemma cur_cand_warn : forall c, ctx_warn c -> Forall dwarn (cur_cand c).
Proof.
  intros c [H1 [H2 [H3 [H4 [H5 [H6 H7s]]]]]]. unfold cur_cand. destruct (c_args c) as [|a ar]; [assumption|].
  inversion H5; subst. destruct H7; assumption.
Qed.

Lemma wn_err_val : forall e c g r, Wn g (c :: r) -> dwarn e ->
  Wn (snd (err_val e c g)) (fst (err_val e c g) :: r).
Proof.
  intros e c g r W D. unfold err_val. destruct (cur_panic c); [exact W|].
  apply wn_emit_parser; [|exact D]. eapply wn_set_top; [exact W|]. apply ctx_warn_set_cur_panic. eapply wn_top; eauto.
Qed.

Lemma wn_replay : forall l c g r, Wn g (c :: r) -> Forall dwarn l ->
  Wn (snd (replay l c g)) (fst (replay l c g) :: r).
Proof.
  induction l as [|e l IH]; intros c g r W L; simpl; [exact W|].
  inversion L; subst. pose proof (wn_emit_parser e c g r W H1) as W1.
  destruct (emit_parser e c g) as [c1 g1]. simpl in W1. apply IH; assumption.
Qed.

Lemma Forall_rev_dwarn : forall l, Forall dwarn l -> Forall dwarn (rev l).
Proof. intros l H. apply Forall_forall. intros x Hx. apply in_rev in Hx. revert x Hx. apply Forall_forall. exact H. Qed.

Lemma wn_init : Wn (s_g init) (s_stack init).
Proof.
  unfold init; simpl. constructor; simpl; auto. constructor; [|constructor].
  unfold ctx_warn; simpl. repeat split; constructor.
Qed.

Lemma step_wn : forall cfg s ev s', Wn (s_g s) (s_stack s) -> warn_only ev = true -> step cfg s ev = Some s' ->
  Wn (s_g s') (s_stack s').
Proof.
  intros cfg [g st] ev s' W WO Hs. unfold step in Hs. simpl in *. destruct st as [|c rest]; [discriminate|].
  pose proof (wn_top _ _ _ W) as CW. pose proof CW as [H1 [H2 [H3 [H4 [H5 [H6 H7s]]]]]].
  destruct ev; simpl in WO; try discriminate WO.
  - (* EErr *)
    destruct o; try discriminate WO; destruct l; try discriminate WO.
    + destruct (c_kind c); [|discriminate]. inversion Hs; subst; clear Hs. simpl.
      rewrite scan_err_eq. destruct W. constructor; simpl; try assumption. constructor; [reflexivity | assumption].
    + inversion Hs; subst; clear Hs. simpl. apply wn_err_val; [exact W | reflexivity].
  - (* EDirect *)
    destruct l; try discriminate WO. inversion Hs; subst; clear Hs. simpl. apply wn_emit_parser; [exact W | reflexivity].
  - (* ESync *)
    inversion Hs; subst; clear Hs. simpl. eapply wn_set_top; [exact W|]. apply ctx_warn_set_cur_panic. exact CW.
  - (* ESpecBegin *)
    destruct (c_args c) eqn:A; [|discriminate]. destruct (c_spec c) eqn:S; [discriminate|].
    inversion Hs; subst; clear Hs. simpl. eapply wn_set_top; [exact W|].
    unfold ctx_warn; simpl. rewrite A. repeat split; try assumption; try constructor.
  - (* ESpecEnd *)
    destruct (c_args c) eqn:A; [|discriminate]. destruct (c_spec c) as [slot|] eqn:S; [|discriminate].
    inversion Hs; subst; clear Hs. simpl. eapply wn_set_top; [exact W|].
    unfold ctx_warn; simpl. rewrite A. repeat split; try assumption; try constructor.
  - (* EReraise *)
    destruct (c_args c) eqn:A; [|discriminate]. destruct (c_pending c) as [e|] eqn:P; [|discriminate].
    inversion Hs; subst; clear Hs. simpl. apply wn_err_val; [|exact H2].
    eapply wn_set_top; [exact W|]. unfold ctx_warn; simpl. rewrite A. repeat split; try assumption; try constructor.
  - (* ESilentBegin *)
    inversion Hs; subst; clear Hs. simpl. eapply wn_set_top; [exact W|].
    unfold ctx_warn; simpl. repeat split; try assumption. constructor; [|assumption]. simpl. destruct W. apply wF0.
  - (* ESilentEnd *)
    destruct (c_silent c) as [|[[h f] p] sl] eqn:SL; [discriminate|]. inversion Hs; subst; clear Hs. simpl.
    inversion H6; subst. simpl in H7. subst f. destruct W. constructor; simpl; try assumption.
    + intros m. unfold upd. destruct (m =? c_mod c); [reflexivity | apply wF0].
    + inversion wS0; subst. constructor; [|assumption]. unfold ctx_warn; simpl. repeat split; assumption.
  - (* EArgBegin *)
    inversion Hs; subst; clear Hs. simpl. eapply wn_set_top; [exact W|].
    unfold ctx_warn; simpl. repeat split; try assumption. constructor; [|assumption]. split; constructor.
  - (* EArgEnd *)
    destruct (c_args c) as [|a ar] eqn:A; [discriminate|]. inversion Hs; subst; clear Hs. simpl.
    eapply wn_set_top; [exact W|]. inversion H5; subst. destruct H7 as [B C].
    assert (CW1 : ctx_warn (set_args ar c)).
    { unfold ctx_warn; simpl. repeat split; assumption. }
    apply ctx_warn_set_cur_cand; [exact CW1|]. apply Forall_app. split; [exact B | apply cur_cand_warn; exact CW1].
  - (* ECandDrop *)
    inversion Hs; subst; clear Hs. simpl. eapply wn_set_top; [exact W|]. apply ctx_warn_set_cur_cand; [exact CW | constructor].
  - (* ECandReplay *)
    inversion Hs; subst; clear Hs. simpl. apply wn_replay.
    + eapply wn_set_top; [exact W|]. apply ctx_warn_set_cur_cand; [exact CW | constructor].
    + apply Forall_rev_dwarn. apply cur_cand_warn. exact CW.
  - (* EInstBegin *)
    destruct (mem d (g_seen g)); [|discriminate]. inversion Hs; subst; clear Hs. simpl.
    destruct W. constructor; try assumption. constructor; [|assumption].
    unfold ctx_warn; simpl. repeat split; try (constructor; fail). apply wF0.
  - (* EInstEnd *)
    destruct (c_kind c); [discriminate|]. destruct (c_args c); [|discriminate].
    destruct (c_spec c); [discriminate|]. destruct (c_silent c); [|discriminate].
    destruct rest as [|p rest']; [discriminate|]. inversion Hs; subst; clear Hs. simpl.
    destruct W. inversion wS0; subst.
    assert (WS : Forall ctx_warn ((if keep then set_cur_cand (c_bag c ++ cur_cand p) p else p) :: rest')).
    { inversion H8; subst. constructor; [|assumption].
      destruct keep; [|assumption]. apply ctx_warn_set_cur_cand; [assumption|].
      apply Forall_app. split; [assumption | apply cur_cand_warn; assumption]. }
    destruct (cfg_inst_restores cfg); constructor; simpl; try assumption.
    intros m. unfold upd. destruct (m =? c_mod c); [exact H7s | apply wF0].
  - (* EImportBegin *)
    destruct (c_kind c); [|discriminate]. destruct (c_args c); [|discriminate].
    destruct (c_spec c); [discriminate|]. destruct (mem m (g_seen g)); [discriminate|].
    inversion Hs; subst; clear Hs. simpl.
    destruct W. constructor; simpl; try assumption. constructor; [|assumption].
    unfold ctx_warn; simpl. repeat split; constructor.
  - (* EFinish *)
    destruct (c_kind c); [|discriminate]. destruct (c_args c); [|discriminate].
    destruct (c_spec c); [discriminate|]. destruct (c_silent c); [|discriminate].
    inversion Hs; subst; clear Hs. simpl.
    destruct W. constructor; simpl; try assumption.
    + intros m. unfold upd. destruct (m =? c_mod c); [rewrite wE0, wC0, andb_false_r; reflexivity | apply wF0].
    + inversion wS0; assumption.
Qed.

Lemma run_wn : forall cfg tr s s', Wn (s_g s) (s_stack s) -> forallb warn_only tr = true -> run cfg s tr = Some s' ->
  Wn (s_g s') (s_stack s').
Proof.
  intros cfg. induction tr as [|ev r IH]; intros s s' W A H; simpl in *.
  - inversion H; subst. exact W.
  - apply andb_true_iff in A. destruct A as [A1 A2].
    destruct (step cfg s ev) as [s1|] eqn:E; [|discriminate]. eapply IH; [|exact A2|exact H]. eapply step_wn; eauto.
Qed.

Lemma warnings_never_fail : forall cfg tr s lm,
  complete cfg tr s -> forallb warn_only tr = true ->
  any_faulty s = false /\ delivered_error s = false /\
  exit_status (compile cfg lm true s) = 0 /\ artifact (compile cfg lm true s) = true.
Proof.
  intros cfg tr s lm [R E] A. pose proof (run_wn cfg tr init s wn_init A R) as W. destruct W.
  assert (AF : any_faulty s = false).
  { unfold any_faulty. apply not_true_is_false. intros H. apply existsb_exists in H. destruct H as [m [_ H]].
    rewrite wF0 in H. discriminate H. }
  assert (DE : delivered_error s = false).
  { unfold delivered_error. apply not_true_is_false. intros H. apply existsb_exists in H. destruct H as [e [Hin H]].
    rewrite Forall_forall in wD0. specialize (wD0 e Hin). unfold dwarn in wD0. congruence. }
  split; [exact AF|]. split; [exact DE|]. unfold compile, root_faulty. rewrite AF, andb_false_r, wF0, andb_false_r. split; reflexivity.
Qed.

(* non-vacuity: a run with a warning (the `...` statement) in the root and in an imported module *)
Definition trace_warnings : list event :=
  [ EDirect OParser LWarn 2022%N; EImportBegin 1; EDirect OParser LWarn 2022%N; EFinish; EFinish ].

Lemma warnings_never_fail_nonvacuous :
  forallb warn_only trace_warnings = true /\
  exists s, complete pinned trace_warnings s /\ length (delivered s) = 2.
Proof.
  split; [reflexivity|].
  destruct (run pinned init trace_warnings) as [s|] eqn:E; [|vm_compute in E; discriminate E].
  exists s. vm_compute in E. inversion E; subst. split; [split; reflexivity | reflexivity].
Qed.
