(* Model of the indexing done by the source-excerpt renderer ddperror.MakeAdvancedHandler
   (src/ddperror/handler.go:26-96) as a partial function of (text lines, range): render_ok = true
   iff no index or slice expression of the handler panics.

   Text abstraction: `lines := strings.Split(src, "\n")`; a line is represented by the number of
   runes of `[]rune(lines[i])` (a trailing '\r' counts). Line and Column are Go `uint`s (64 bit):
   `rnge.Start.Line - 1` wraps. Slice expressions on a []rune are checked against the CAPACITY
   for the upper bound (`a[lo:hi]` needs lo <= hi <= cap(a)) and against the length when the upper
   bound is omitted (`a[lo:]` needs lo <= len(a)); the capacity of `[]rune(s)` is chosen by the Go
   runtime (32-rune stack buffer / allocator size classes), so the excess capacity is a parameter
   `slack` of the model, never an assumption about its value. *)
From Coq Require Import List NArith Bool.
Import ListNotations.
Open Scope N_scope.

Definition two64 : N := 18446744073709551616.
(* x - 1 on a uint *)
Definition usub1 (x : N) : N := if x =? 0 then two64 - 1 else x - 1.

Record range := mkRange { sl : N; sc : N; el : N; ec : N }.

Section Render.
  Variable slack : N -> N.   (* cap([]rune(line)) - len([]rune(line)), by line length *)

  Definition slice_ok (len lo : N) (hi : option N) : bool :=
    match hi with
    | None => lo <=? len
    | Some h => (lo <=? h) && (h <=? len + slack len)
    end.

  (* one iteration of `for lineIndex := rnge.Start.Line - 1; lineIndex < rnge.End.Line; lineIndex++` *)
  Definition line_ok (lines : list N) (r : range) (idx : N) : bool :=
    match nth_error lines (N.to_nat idx) with
    | None => false                                           (* lines[lineIndex] *)
    | Some len =>
        if idx =? usub1 (sl r) then
          slice_ok len 0 (Some (usub1 (sc r)))                 (* line[:Start.Column-1] *)
          && slice_ok len (usub1 (sc r)) None                  (* line[Start.Column-1:] *)
          && (if sl r =? el r
              then slice_ok len (usub1 (sc r)) (Some (usub1 (ec r)))   (* line[Start.Column-1 : End.Column-1] *)
              else true)
        else if idx <? usub1 (el r) then true                  (* whole line underlined, no indexing *)
        else slice_ok len 0 (Some (usub1 (ec r)))              (* line[:End.Column-1] *)
    end.

  (* same_file = (filepath.Clean(err.File) == file): otherwise the basic handler prints one line *)
  Definition render_ok (same_file : bool) (lines : list N) (r : range) : bool :=
    if negb same_file then true
    else
      let start := usub1 (sl r) in
      forallb (fun k => line_ok lines r (start + N.of_nat k)) (seq 0 (N.to_nat (el r - start))).

  (* the same function, executable on huge End.Line values: when the loop runs at all and End.Line
     exceeds the number of lines, some iteration indexes `lines` out of range
     (RenderProofs.render_ok_fast_eq) *)
  Definition render_ok_fast (same_file : bool) (lines : list N) (r : range) : bool :=
    if negb same_file then true
    else if (usub1 (sl r) <? el r) && (N.of_nat (length lines) <? el r) then false
    else render_ok same_file lines r.

  (* number of source lines the excerpt shows *)
  Definition excerpt_lines (r : range) : N := el r - usub1 (sl r).
End Render.

(* ---- which diagnostics get an excerpt: the handler's file-selection rule ---------------------------
   MakeAdvancedHandler(file, src, w) owns ONE text, src = the text of `file` (cmd/kddp passes the main
   file as spelled on the command line). handler.go:28 `file = filepath.Clean(file)`, handler.go:34
   `if filepath.Clean(err.File) != file { basicHandler(err); return }`: a diagnostic is rendered with an
   excerpt iff the cleaned path it names EQUALS the cleaned path of the owned file; every other diagnostic
   gets the header line only. filepath.Clean and "the text a path names" are parameters. *)
Section Handler.
  Variable path : Type.
  Variable path_eqb : path -> path -> bool.
  Variable clean : path -> path.
  Variable text_of : path -> list N.
  Variable slack : N -> N.

  Definition handled (file errfile : path) : bool := path_eqb (clean errfile) file.

  (* the handler created for `file`, applied to a diagnostic naming errfile with range r *)
  Definition handler_ok (file errfile : path) (r : range) : bool :=
    render_ok_fast slack (handled (clean file) errfile) (text_of file) r.
  Definition shown_lines (file errfile : path) (r : range) : N :=
    if handled (clean file) errfile then excerpt_lines r else 0.
End Handler.

(* ---- specification side --------------------------------------------------------------------- *)
(* position (l, c) lies in the text; columns are 1-based and a column may point just behind the
   last rune of its line (End.Column is exclusive; the EOF token sits there) *)
Definition pos_in (extra : N -> N) (lines : list N) (l c : N) : Prop :=
  1 <= l /\ exists len, nth_error lines (N.to_nat (l - 1)) = Some len /\ 1 <= c /\ c <= len + extra len + 1.

Definition pos_le (l1 c1 l2 c2 : N) : Prop := l1 < l2 \/ (l1 = l2 /\ c1 <= c2).

(* the range lies inside the text and its start is not after its end *)
Definition in_text (lines : list N) (r : range) : Prop :=
  pos_in (fun _ => 0) lines (sl r) (sc r) /\ pos_in (fun _ => 0) lines (el r) (ec r) /\
  pos_le (sl r) (sc r) (el r) (ec r).

(* what the renderer really needs: the End column may additionally run into the slack *)
Definition in_text_slack (slack : N -> N) (lines : list N) (r : range) : Prop :=
  pos_in (fun _ => 0) lines (sl r) (sc r) /\ pos_in slack lines (el r) (ec r) /\
  pos_le (sl r) (sc r) (el r) (ec r).

Definition wf_range (r : range) : Prop := sl r < two64 /\ sc r < two64 /\ el r < two64 /\ ec r < two64.
Definition wf_lines (slack : N -> N) (lines : list N) : Prop := Forall (fun len => len + slack len + 1 < two64) lines.

(* token.NewRange(begin, end) *)
Definition new_range (a b : range) : range := mkRange (sl a) (sc a) (el b) (ec b).
