(* C07, range half: the excerpt renderer indexes safely exactly for ranges that lie in the text. *)
From Coq Require Import List NArith Bool Lia Arith.
Import ListNotations.
From DDP Require Import Diag.Render.
Open Scope N_scope.

Lemma usub1_pos : forall x, 1 <= x -> usub1 x = x - 1.
Proof. intros x H. unfold usub1. destruct (N.eqb_spec x 0); [lia | reflexivity]. Qed.

Lemma usub1_zero : usub1 0 = two64 - 1.
Proof. reflexivity. Qed.

Lemma nth_error_below : forall (l : list N) i j x, nth_error l i = Some x -> (j <= i)%nat -> exists y, nth_error l j = Some y.
Proof.
  intros l i j x H Hle. assert (Hlt : (j < length l)%nat).
  { assert (i < length l)%nat by (apply nth_error_Some; congruence). lia. }
  destruct (nth_error l j) eqn:E; [eauto|]. apply nth_error_None in E. lia.
Qed.

Lemma forallb_seq : forall (f : nat -> bool) n, forallb f (seq 0 n) = true <-> forall k, (k < n)%nat -> f k = true.
Proof.
  intros f n. rewrite forallb_forall. split.
  - intros H k Hk. apply H. apply in_seq. lia.
  - intros H k Hk. apply in_seq in Hk. apply H. lia.
Qed.

Section Proofs.
  Variable slack : N -> N.

  (* a degenerate range (zero value, or End.Line before Start.Line) makes the loop run zero times:
     `Start.Line - 1` underflows to 2^64-1, which is not below End.Line *)
  Lemma render_degenerate : forall sf lines r,
    wf_range r -> sl r = 0 \/ el r < sl r ->
    render_ok slack sf lines r = true /\ excerpt_lines r = 0.
  Proof.
    intros sf lines r [W1 [W2 [W3 W4]]] D. unfold render_ok, excerpt_lines.
    assert (E : el r - usub1 (sl r) = 0).
    { destruct D as [D | D].
      - rewrite D, usub1_zero. unfold two64 in *. lia.
      - rewrite usub1_pos by lia. lia. }
    rewrite E. simpl. split; [destruct (negb sf); reflexivity | reflexivity].
  Qed.

  Lemma render_ok_fast_eq : forall sf lines r, render_ok_fast slack sf lines r = render_ok slack sf lines r.
  Proof.
    intros sf lines r. unfold render_ok_fast. destruct sf; cbn [negb]; [|reflexivity].
    destruct ((usub1 (sl r) <? el r) && (N.of_nat (length lines) <? el r)) eqn:E; [|reflexivity].
    apply andb_true_iff in E. destruct E as [E1 E2]. apply N.ltb_lt in E1. apply N.ltb_lt in E2.
    unfold render_ok. cbn [negb]. symmetry. destruct (forallb _ _) eqn:F; [|reflexivity].
    rewrite forallb_seq in F.
    set (start := usub1 (sl r)) in *.
    set (bad := N.max start (N.of_nat (length lines))).
    assert (Hk : (N.to_nat (bad - start) < N.to_nat (el r - start))%nat) by (unfold bad; lia).
    specialize (F _ Hk). unfold line_ok in F.
    replace (start + N.of_nat (N.to_nat (bad - start))) with bad in F by (unfold bad; lia).
    assert (Hn : nth_error lines (N.to_nat bad) = None) by (apply nth_error_None; unfold bad; lia).
    rewrite Hn in F. discriminate F.
  Qed.

  Lemma render_other_file : forall lines r, render_ok slack false lines r = true.
  Proof. reflexivity. Qed.

  Lemma render_total_iff_in_text_slack : forall lines r,
    wf_range r -> wf_lines slack lines -> 1 <= sl r -> sl r <= el r ->
    (render_ok slack true lines r = true <-> in_text_slack slack lines r).
  Proof.
    intros lines r [W1 [W2 [W3 W4]]] WL S1 S2. unfold render_ok. cbn [negb].
    rewrite (usub1_pos (sl r)) by exact S1. rewrite forallb_seq.
    assert (Hlen : forall i len, nth_error lines i = Some len -> len + slack len + 1 < two64).
    { intros i len H. unfold wf_lines in WL. rewrite Forall_forall in WL. apply WL. eapply nth_error_In; eauto. }
    split.
    - (* safe indexing forces the range into the text *)
      intros H.
      assert (H0 := H 0%nat). assert (Hl := H (N.to_nat (el r - sl r))).
      assert (K0 : (0 < N.to_nat (el r - (sl r - 1)))%nat) by lia.
      assert (Kl : (N.to_nat (el r - sl r) < N.to_nat (el r - (sl r - 1)))%nat) by lia.
      specialize (H0 K0). specialize (Hl Kl). clear H.
      replace (sl r - 1 + N.of_nat 0) with (sl r - 1) in H0 by lia.
      replace (sl r - 1 + N.of_nat (N.to_nat (el r - sl r))) with (el r - 1) in Hl by lia.
      unfold line_ok in H0, Hl.
      rewrite (usub1_pos (sl r)) in H0, Hl by exact S1.
      rewrite (usub1_pos (el r)) in Hl by lia.
      destruct (nth_error lines (N.to_nat (sl r - 1))) as [len0|] eqn:E0; [|discriminate H0].
      destruct (nth_error lines (N.to_nat (el r - 1))) as [len1|] eqn:E1; [|discriminate Hl].
      pose proof (Hlen _ _ E0) as B0. pose proof (Hlen _ _ E1) as B1.
      rewrite N.eqb_refl in H0. apply andb_true_iff in H0. destruct H0 as [H0 H0c].
      apply andb_true_iff in H0. destruct H0 as [H0a H0b].
      unfold slice_ok in H0a, H0b. apply andb_true_iff in H0a. destruct H0a as [_ H0a].
      apply N.leb_le in H0a. apply N.leb_le in H0b.
      assert (SC : 1 <= sc r /\ sc r <= len0 + 1).
      { unfold usub1 in H0a, H0b. destruct (N.eqb_spec (sc r) 0); unfold two64 in *; lia. }
      destruct SC as [SC1 SC2]. rewrite (usub1_pos (sc r)) in H0c by exact SC1.
      destruct (N.eqb_spec (sl r) (el r)) as [Eq | Ne].
      + (* single line *)
        unfold slice_ok in H0c. apply andb_true_iff in H0c. destruct H0c as [Ha Hb].
        apply N.leb_le in Ha. apply N.leb_le in Hb.
        assert (EC : 1 <= ec r /\ sc r <= ec r /\ ec r <= len0 + slack len0 + 1).
        { unfold usub1 in Ha, Hb. destruct (N.eqb_spec (ec r) 0); unfold two64 in *; lia. }
        destruct EC as [EC1 [EC2 EC3]].
        unfold in_text_slack, pos_in, pos_le. repeat split; try assumption; try lia.
        * exists len0. repeat split; try assumption; lia.
        * exists len0. rewrite <- Eq. repeat split; assumption.
      + (* several lines: the last iteration checks line[:End.Column-1] *)
        assert (Ne1 : (el r - 1 =? sl r - 1) = false) by (apply N.eqb_neq; lia).
        rewrite Ne1 in Hl. rewrite N.ltb_irrefl in Hl.
        unfold slice_ok in Hl. apply andb_true_iff in Hl. destruct Hl as [_ Hb]. apply N.leb_le in Hb.
        assert (EC : 1 <= ec r /\ ec r <= len1 + slack len1 + 1).
        { unfold usub1 in Hb. destruct (N.eqb_spec (ec r) 0); unfold two64 in *; lia. }
        destruct EC as [EC1 EC2].
        unfold in_text_slack, pos_in, pos_le. repeat split; try assumption; try lia.
        * exists len0. repeat split; try assumption; lia.
        * exists len1. repeat split; assumption.
    - (* a range in the text is indexed safely *)
      intros [[_ [len0 [E0 [SC1 SC2]]]] [[_ [len1 [E1 [EC1 EC2]]]] PL]] k Hk.
      unfold line_ok. rewrite (usub1_pos (sl r)) by exact S1.
      assert (Hidx : (N.to_nat (sl r - 1 + N.of_nat k) <= N.to_nat (el r - 1))%nat) by lia.
      destruct (nth_error_below lines _ _ _ E1 Hidx) as [len Elen]. rewrite Elen.
      destruct (N.eqb_spec (sl r - 1 + N.of_nat k) (sl r - 1)) as [Ek | Nk].
      + rewrite Ek in Elen. rewrite E0 in Elen. inversion Elen; subst len.
        rewrite (usub1_pos (sc r)) by exact SC1. unfold slice_ok.
        replace (0 <=? sc r - 1) with true by (symmetry; apply N.leb_le; lia).
        replace (sc r - 1 <=? len0 + slack len0) with true by (symmetry; apply N.leb_le; lia).
        replace (sc r - 1 <=? len0) with true by (symmetry; apply N.leb_le; lia).
        cbn [andb]. destruct (N.eqb_spec (sl r) (el r)) as [Eq | Ne]; [|reflexivity].
        rewrite (usub1_pos (ec r)) by exact EC1.
        rewrite Eq in E0. rewrite E0 in E1. inversion E1; subst len1.
        destruct PL as [PL | [_ PL]]; [lia|].
        apply andb_true_iff. split; apply N.leb_le; lia.
      + rewrite (usub1_pos (el r)) by lia.
        destruct (N.ltb_spec (sl r - 1 + N.of_nat k) (el r - 1)) as [Lt | Ge]; [reflexivity|].
        assert (Eidx : sl r - 1 + N.of_nat k = el r - 1) by lia.
        rewrite Eidx in Elen. rewrite E1 in Elen. inversion Elen; subst len.
        rewrite (usub1_pos (ec r)) by exact EC1. unfold slice_ok.
        apply andb_true_iff. split; apply N.leb_le; lia.
  Qed.

  Lemma in_text_in_text_slack : forall lines r, in_text lines r -> in_text_slack slack lines r.
  Proof.
    intros lines r [P1 [[L [len [E [C1 C2]]]] PL]]. split; [exact P1|]. split; [|exact PL].
    split; [exact L|]. exists len. repeat split; try assumption. lia.
  Qed.

  Lemma in_text_lines_ordered : forall lines r, in_text lines r -> 1 <= sl r /\ sl r <= el r.
  Proof. intros lines r [[L _] [_ PL]]. split; [exact L|]. destruct PL as [PL | [PL _]]; lia. Qed.

  (* whatever capacity the runtime picks, a range inside the text is always rendered *)
  Lemma render_total_if_in_text : forall sf lines r,
    wf_range r -> wf_lines slack lines -> in_text lines r -> render_ok slack sf lines r = true.
  Proof.
    intros sf lines r W WL IT. destruct sf; [|reflexivity].
    destruct (in_text_lines_ordered lines r IT) as [S1 S2].
    apply render_total_iff_in_text_slack; try assumption. apply in_text_in_text_slack. exact IT.
  Qed.
End Proofs.

(* the handler as cmd/kddp wires it: whatever file a diagnostic names, if its range lies in the text of
   THAT file the handler created for the main file prints it - because it only indexes its own text
   when the cleaned names coincide (and names that clean to the same path name the same text) *)
Section HandlerProofs.
  Variable path : Type.
  Variable path_eqb : path -> path -> bool.
  Variable clean : path -> path.
  Variable text_of : path -> list N.
  Variable slack : N -> N.
  Hypothesis path_eqb_eq : forall a b, path_eqb a b = true -> a = b.
  Hypothesis text_clean : forall p, text_of (clean p) = text_of p.

  Lemma handler_total : forall file errfile r,
    wf_range r -> wf_lines slack (text_of errfile) -> in_text (text_of errfile) r ->
    handler_ok path path_eqb clean text_of slack file errfile r = true.
  Proof.
    intros file errfile r W WL IT. unfold handler_ok. rewrite render_ok_fast_eq.
    destruct (handled path path_eqb clean (clean file) errfile) eqn:H; [|reflexivity].
    unfold handled in H. apply path_eqb_eq in H.
    assert (E : text_of file = text_of errfile).
    { rewrite <- (text_clean file), <- H. apply text_clean. }
    rewrite E. apply render_total_if_in_text; assumption.
  Qed.

  Lemma unhandled_header_only : forall file errfile r,
    handled path path_eqb clean (clean file) errfile = false ->
    handler_ok path path_eqb clean text_of slack file errfile r = true /\
    shown_lines path path_eqb clean file errfile r = 0.
  Proof.
    intros file errfile r H. unfold handler_ok, shown_lines. rewrite H. split; reflexivity.
  Qed.
End HandlerProofs.

(* without excess capacity the renderer is total exactly on the ranges inside the text *)
Lemma render_total_iff_in_text : forall lines r,
  wf_range r -> wf_lines (fun _ => 0) lines -> 1 <= sl r -> sl r <= el r ->
  (render_ok (fun _ => 0) true lines r = true <-> in_text lines r).
Proof.
  intros lines r W WL S1 S2. rewrite render_total_iff_in_text_slack by assumption. reflexivity.
Qed.

(* token.NewRange over two in-text ranges whose outer ends are ordered *)
Lemma newrange_in_text : forall lines a b,
  in_text lines a -> in_text lines b -> pos_le (sl a) (sc a) (el b) (ec b) -> in_text lines (new_range a b).
Proof.
  intros lines a b [PA [_ _]] [_ [PB _]] PL. unfold in_text, new_range. cbn [sl sc el ec]. auto.
Qed.

Lemma pos_le_trans : forall l1 c1 l2 c2 l3 c3, pos_le l1 c1 l2 c2 -> pos_le l2 c2 l3 c3 -> pos_le l1 c1 l3 c3.
Proof. unfold pos_le. intros. lia. Qed.

(* two tokens in stream order (begin starts no later than end starts) *)
Lemma newrange_monotone : forall lines a b,
  in_text lines a -> in_text lines b -> pos_le (sl a) (sc a) (sl b) (sc b) -> in_text lines (new_range a b).
Proof.
  intros lines a b IA IB PL. apply newrange_in_text; try assumption.
  destruct IB as [_ [_ PB]]. eapply pos_le_trans; eauto.
Qed.

(* non-vacuity: text "ab\ncde" ; range (1,2)-(2,3) is rendered, (1,2)-(2,5) and the zero range are not in the text *)
Example render_example_ok : render_ok (fun _ => 0) true [2; 3] (mkRange 1 2 2 3) = true /\ in_text [2; 3] (mkRange 1 2 2 3).
Proof.
  split; [reflexivity|]. unfold in_text, pos_in, pos_le; cbn. repeat split; try lia.
  - exists 2. repeat split; lia.
  - exists 3. repeat split; lia.
Qed.
Example render_example_bad : render_ok (fun _ => 0) true [2; 3] (mkRange 1 2 2 5) = false.
Proof. reflexivity. Qed.
Example render_example_zero : render_ok (fun _ => 0) true [2; 3] (mkRange 0 0 0 0) = true /\ excerpt_lines (mkRange 0 0 0 0) = 0.
Proof. split; reflexivity. Qed.
