From Coq Require Import List ZArith NArith Extraction ExtrOcamlBasic.
From DDP Require Import Lang.Syntax Lang.F64 Lang.RefSem.
Extraction Language OCaml.
Extraction "c01_model.ml" exec_program.
