From Coq Require Import List ZArith NArith Extraction ExtrOcamlBasic.
From DDP Require Import Lang.Syntax Lang.F64 Lang.RefSem Lang.Prec Lower.Ops Lower.Tie Lower.ExprCompile Lower.StmtCompile.
Extraction Language OCaml.
Extraction "c01_model.ml" exec_program lower_top render parse block_ok compile_stmt mblock m_observe init_mstate.
