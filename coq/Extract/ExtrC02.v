From Coq Require Import List Extraction ExtrOcamlBasic.
From DDP Require Import Gen.OperatorEnum Lower.TcTable Lower.LowerTable Lower.Cells.
Extraction Language OCaml.
Extraction "c02_model.ml" all_unops all_binops all_terops all_castops all_tys all_fields
  tc lower cell_ok verdict_of ctx_ok ctx_admits ir irty_eqb ir_well_typed code_verdict tc_stmt lower_stmt stmt_well_typed verdict_stmt.
