From Coq Require Import List Arith Extraction ExtrOcamlBasic.
From DDP Require Import Lang.MiniSyntax Lang.MiniTyping Lang.MiniCheck Lang.MiniMutate.
Extraction Language OCaml.
Extraction "c04_model.ml" wfb check check_patched check_with mutants all_faults.
