From Coq Require Import List Arith Extraction ExtrOcamlBasic.
From DDP Require Import Lang.MiniSyntax Lang.MiniTyping Lang.MiniCheck Lang.MiniMutate Lang.MiniShadowFree Lang.MiniGuard.
Extraction Language OCaml.
Extraction "c04_model.ml" wfb check check_pinned check_with mutants all_faults shadow_free quirk_free.
