From Coq Require Import List NArith Extraction ExtrOcamlBasic.
From DDP Require Import Rt.Heap Lower.Own Lower.OwnCheck.
Extraction Language OCaml.
Extraction "c05_model.ml" check_ledger balancedb compile run_program program_ok.
