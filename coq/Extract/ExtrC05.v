From Coq Require Import List NArith Extraction ExtrOcamlBasic.
From DDP Require Import Rt.Heap.
Extraction Language OCaml.
Extraction "c05_model.ml" check_ledger balancedb.
