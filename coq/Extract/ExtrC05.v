From Coq Require Import List NArith Extraction ExtrOcamlBasic.
From DDP Require Import Rt.Heap Lower.Own.
Extraction Language OCaml.
Extraction "c05_model.ml" check_ledger balancedb compile run_program.
