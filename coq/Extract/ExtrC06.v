From Coq Require Import List ZArith Extraction ExtrOcamlBasic.
From DDP Require Import Rt.Bounds.
Extraction Language OCaml.
Extraction "c06_model.ml" idx_ok list_index list_store list_slice list_slice_from list_slice_to text_index text_replace text_slice any_cast clampZ.
