From Coq Require Import List NArith Extraction ExtrOcamlBasic.
From DDP Require Import Diag.Flags Diag.Render.
Extraction Language OCaml.
Extraction "c07_model.ml" run init step delivered any_faulty root_faulty delivered_error compile exit_status artifact
  render_ok_fast excerpt_lines handler_ok shown_lines pinned repaired trace_discarded_instantiation trace_root_scanner_error.
