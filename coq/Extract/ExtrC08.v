From Coq Require Import List ZArith Extraction ExtrOcamlBasic.
From DDP Require Import Lower.Opt2.
Extraction Language OCaml.
Extraction "c08_model.ml" run_copy run_elide analyse.
