From Coq Require Import List NArith Extraction ExtrOcamlBasic.
From DDP Require Import Alias.OMap Alias.Trie Alias.TokKey Alias.Select Alias.Overload.
Extraction Language OCaml.
Extraction "c09_model.ml" a_generic select select_from candidates declare declare_all isort alias_less check_ok matches end_of
  expand_marker insert_overload find_overload tok_eq tok_less.
