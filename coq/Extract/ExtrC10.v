From Coq Require Import List NArith Extraction ExtrOcamlBasic.
From DDP Require Import Mod.Loader Mod.InitOrder Mod.Mangle Mod.C10Model.
Extraction Language OCaml.
Extraction "c10_model.ml" analyse c10_hashable.
