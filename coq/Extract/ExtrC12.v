From Coq Require Import List ZArith Extraction ExtrOcamlBasic.
From DDP Require Import Rt.Str Rt.StrSpec.
Extraction Language OCaml.
Extraction "c12_model.ml" m_step init_state m_char_to_string m_string_to_char utf8_num_bytes_char
  utf8_strlen utf8_indicated_num_bytes int_to_char char_to_int cps sstep sinit in_text.
