From Coq Require Import List NArith Extraction ExtrOcamlBasic.
From DDP Require Import Gen.Tokens Lex.Utf8 Lex.ScanModel Lex.ScanRun.
Extraction Language OCaml.
Extraction "c13_model.ml" scan_bytes lit_bytes tt_ILLEGAL.
