From Coq Require Import List NArith Extraction ExtrOcamlBasic.
From DDP Require Import Types.Ty Types.Assign Types.Generic Types.GenericFun.
Extraction Language OCaml.
Extraction "c14_model.ml"
  ty_eqb equal deep_equal underlying true_underlying true_list_underlying list_true_underlying
  list_elem nested_list_elem
  is_primitive is_numeric is_list is_void is_struct is_type_alias is_type_def is_any is_generic
  cast_type_def wf_types
  init_ok assign_ok cast_ok cast_assignable_ok arg_ok return_ok
  gstate0 get_inst unify instantiate_type check_args subst
  fstate0 fstep.
