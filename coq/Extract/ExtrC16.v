From Coq Require Import List NArith Extraction ExtrOcamlBasic.
From DDP Require Import Det.Sorting Det.Sites Det.C16Model.
Extraction Language OCaml.
Extraction "c16_model.ml" predict_import predict_import_fixed predict_import_order predict_call predict_call_fixed
  predict_unify predict_unify_fixed predict_link.
