From Coq Require Import List NArith Extraction ExtrOcamlBasic.
From DDP Require Import Lower.Abi Lower.TypeSpelling.
Extraction Language OCaml.
Extraction "c18_model.ml" lower_sig lower_sig_imported c_sig abi_of_ir abi_of_c call_plan run init_state temp_indices c_ty ll_ty wf_ty lower_gsig c_gsig call_plan_g loose c_rep ll_rep parse_reference_type spelled meant_ty meant_ref.
