From Coq Require Import List NArith ZArith Extraction ExtrOcamlBasic.
From DDP Require Import Lex.LitUtf8 Lex.Literals.
Extraction Language OCaml.
Extraction "c19_model.ml" lit_string lit_char parse_int_lit negate_int_lit parse_float_lit sf_bits parse_string parse_char decode_all encode.
