From Coq Require Import List NArith Extraction ExtrOcamlBasic.
From DDP Require Import Alias.OMap Alias.Trie Alias.TokKey Alias.C20Model.
Extraction Language OCaml.
Extraction "c20_model.ml" c20_run c20_step c20_empty tok_eq tok_less.
