(* Skeleton of the parser's driving loops (src/parser/parser.go:143-170 parse/checkedDeclaration,
   356-389 synchronize, src/parser/statements.go:675-698 blockStatement) over an ABSTRACT
   declaration parser. What is proved: the loops terminate and consume the whole token stream
   provided one declaration consumes at least one token and never moves the cursor back.
   (That contract is validated on the real parser by the C03 check, not proved.)  *)
From Coq Require Import List Arith Bool Lia.
Import ListNotations.

Section Loop.
Variable tok : Type.
Variable is_dot : tok -> bool.          (* previous().Type == DOT *)
Variable starts_stmt : tok -> tok -> bool. (* peek / peekN(1) look like the start of a statement *)
Variable toks : list tok.               (* without the final EOF; cursor = index *)
Definition len := length toks.
Definition at_end (cur : nat) := len <=? cur.

(* one declaration: new cursor and whether the parser is left in panic mode *)
Variable decl : nat -> nat * bool.

(* synchronize(): stop right after a '.', or in front of a token that starts a statement *)
Fixpoint synchronize (fuel cur : nat) : nat :=
  match fuel with
  | 0 => cur
  | S f =>
    if at_end cur then cur
    else
      let prev_dot := match cur with 0 => false | S p => match nth_error toks p with Some t => is_dot t | None => false end end in
      if prev_dot then cur
      else match nth_error toks cur, nth_error toks (S cur) with
           | Some t, Some t' => if starts_stmt t t' then cur else synchronize f (S cur)
           | Some t, None => if starts_stmt t t then cur else synchronize f (S cur)
           | None, _ => cur
           end
  end.

Definition checked_declaration (cur : nat) : nat :=
  let '(c, panic) := decl cur in
  if panic then synchronize (S len) c else c.

(* the main loop: for !atEnd { checkedDeclaration() }.  None = out of fuel (= would not terminate) *)
Fixpoint parse_loop (fuel cur : nat) : option nat :=
  match fuel with
  | 0 => None
  | S f => if at_end cur then Some cur else parse_loop f (checked_declaration cur)
  end.

End Loop.
