From Coq Require Import List Arith Bool Lia.
Import ListNotations.
From DDP Require Import Front.Loop.

Section Proofs.
Variable tok : Type.
Variable is_dot : tok -> bool.
Variable starts_stmt : tok -> tok -> bool.
Variable toks : list tok.
Variable decl : nat -> nat * bool.
Notation len := (len tok toks).
Notation synchronize := (synchronize tok is_dot starts_stmt toks).
Notation checked_declaration := (checked_declaration tok is_dot starts_stmt toks decl).
Notation parse_loop := (parse_loop tok is_dot starts_stmt toks decl).

(* the contract of one declaration: strict progress, cursor stays inside the stream *)
Hypothesis decl_progress : forall cur, cur < len -> cur < fst (decl cur) <= len.

Lemma synchronize_bounds fuel cur : cur <= len -> cur <= synchronize fuel cur <= len.
Proof.
  revert cur. induction fuel as [|f IH]; intros cur H; cbn [Loop.synchronize]; [lia|].
  unfold at_end. destruct (len <=? cur) eqn:E; [lia|]. apply Nat.leb_gt in E.
  destruct (match cur with 0 => false | S p => match nth_error toks p with Some t => is_dot t | None => false end end); [lia|].
  destruct (nth_error toks cur) as [t|]; [|lia].
  destruct (nth_error toks (S cur)) as [t'|].
  - destruct (starts_stmt t t'); [lia|]. specialize (IH (S cur) ltac:(lia)). lia.
  - destruct (starts_stmt t t); [lia|]. specialize (IH (S cur) ltac:(lia)). lia.
Qed.

Lemma checked_declaration_progress cur : cur < len -> cur < checked_declaration cur <= len.
Proof.
  intros H. unfold Loop.checked_declaration. pose proof (decl_progress cur H) as P.
  destruct (decl cur) as [c panic]; cbn [fst] in P. destruct panic; [|lia].
  pose proof (synchronize_bounds (S len) c ltac:(lia)). lia.
Qed.

(* the main loop terminates within len+1 iterations and ends exactly at the end of the stream *)
Lemma parse_loop_terminates_gen fuel cur :
  cur <= len -> len - cur < fuel -> parse_loop fuel cur = Some len.
Proof.
  revert cur. induction fuel as [|f IH]; intros cur Hc Hf; [lia|].
  cbn [Loop.parse_loop]. unfold at_end. destruct (len <=? cur) eqn:E.
  - apply Nat.leb_le in E. f_equal. lia.
  - apply Nat.leb_gt in E. pose proof (checked_declaration_progress cur E) as P.
    apply IH; lia.
Qed.

Theorem parse_loop_terminates : parse_loop (S len) 0 = Some len.
Proof. apply parse_loop_terminates_gen; lia. Qed.

End Proofs.

(* the contract is necessary: a declaration that may stay put at a token where synchronize
   returns at once makes the loop spin *)
Example stuck_declaration_spins :
  Loop.parse_loop nat (fun _ => false) (fun _ _ => true) [7; 8] (fun cur => (cur, true)) 1000 0 = None.
Proof. vm_compute. reflexivity. Qed.

Example progress_example :
  Loop.parse_loop nat (fun t => Nat.eqb t 0) (fun _ _ => false) [5; 0; 6; 6; 0] (fun cur => (S cur, Nat.even cur)) 6 0 = Some 5.
Proof. vm_compute. reflexivity. Qed.
