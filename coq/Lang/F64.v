(* Kommazahl = IEEE-754 binary64, handled as 64-bit patterns (0 <= bits < 2^64) over Flocq's executable
   binary64.  Every operation canonicalises NaN results to one quiet NaN: DDP never observes NaN
   payloads or the sign of a NaN (Schreibe prints "Keine Zahl (NaN)"). *)
From Coq Require Import ZArith Bool.
From Flocq Require Import Core Binary Bits.
Open Scope Z_scope.

Notation NE := BinarySingleNaN.mode_NE.

Definition fbits := Z.

Definition canon_nan : fbits := 9221120237041090560. (* 0x7FF8000000000000 *)
Definition f_pos_zero : fbits := 0.
Definition f_neg_zero : fbits := 9223372036854775808. (* 0x8000000000000000 *)
Definition f_pos_inf : fbits := 9218868437227405312.  (* 0x7FF0000000000000 *)
Definition f_neg_inf : fbits := 18442240474082181120. (* 0xFFF0000000000000 *)

Definition dec (b : fbits) : binary64 := b64_of_bits (b mod 2^64).

Definition enc (x : binary64) : fbits :=
  if Binary.is_nan 53 1024 x then canon_nan else bits_of_b64 x.

Definition f_is_nan (b : fbits) : bool := Binary.is_nan 53 1024 (dec b).
Definition f_is_inf (b : fbits) : bool :=
  negb (Binary.is_finite 53 1024 (dec b)) && negb (Binary.is_nan 53 1024 (dec b)).
Definition f_sign (b : fbits) : bool := Binary.Bsign 53 1024 (dec b).

Definition f_canon (b : fbits) : fbits := enc (dec b).

Definition f_add (a b : fbits) : fbits := enc (b64_plus NE (dec a) (dec b)).
Definition f_sub (a b : fbits) : fbits := enc (b64_minus NE (dec a) (dec b)).
Definition f_mul (a b : fbits) : fbits := enc (b64_mult NE (dec a) (dec b)).
Definition f_div (a b : fbits) : fbits := enc (b64_div NE (dec a) (dec b)).
Definition f_neg (a : fbits) : fbits := enc (b64_opp (dec a)).

(* integer -> binary64, round to nearest even (LLVM sitofp / uitofp on in-range integers) *)
Definition f_of_Z (z : Z) : fbits :=
  enc (Binary.binary_normalize 53 1024 (eq_refl) (eq_refl) NE z 0 false).

(* truncation toward zero; None for infinities and NaN *)
Definition f_trunc (a : fbits) : option Z :=
  if Binary.is_finite 53 1024 (dec a)
  then Some (BinarySingleNaN.Btrunc (B2BSN 53 1024 (dec a)))
  else None.

Definition f_cmp (a b : fbits) : option comparison := b64_compare (dec a) (dec b).

(* ordered comparisons (false when an operand is NaN) *)
Definition f_eq (a b : fbits) : bool := match f_cmp a b with Some Eq => true | _ => false end.
Definition f_lt (a b : fbits) : bool := match f_cmp a b with Some Lt => true | _ => false end.
Definition f_gt (a b : fbits) : bool := match f_cmp a b with Some Gt => true | _ => false end.
Definition f_le (a b : fbits) : bool := match f_cmp a b with Some Lt | Some Eq => true | _ => false end.
Definition f_ge (a b : fbits) : bool := match f_cmp a b with Some Gt | Some Eq => true | _ => false end.

(* saturating conversion to an integer range (llvm.fptosi.sat / llvm.fptoui.sat): NaN gives 0, values outside
   [lo, hi] (also the infinities) give the nearest bound, everything else is truncated toward zero *)
Definition f_to_Z_sat (lo hi : Z) (a : fbits) : Z :=
  if f_is_nan a then 0
  else match f_trunc a with
       | Some z => if z <? lo then lo else if hi <? z then hi else z
       | None => if f_sign a then lo else hi
       end.
