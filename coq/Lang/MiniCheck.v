(* C04 — the ALGORITHM: how the frontend of /repo decides acceptance of a core program, as a
   transcription of the interplay of parser, resolver and typechecker.  Definitions only.

   Anchors: src/parser/parser.go (checkedDeclaration / checkStatement: every statement, also a
   nested one, is parsed, then resolved, then typechecked, as soon as it is complete),
   src/parser/resolver/resolver.go (names, duplicate detection, loop depth; does NOT descend into
   blocks, they were resolved when they were parsed), src/parser/typechecker/typechecker.go
   (types; DOES descend into blocks again, with the blocks' symbol tables as they are by then),
   src/ast/symbol_table.go (scope chain), src/parser/{declarations,statements,expressions,alias}.go
   (article checks, constants in assignable position, break/continue depth, global return, final
   return, alias matching).

   Three passes per statement, in this order (the order decides which diagnostic is the first):
     pt_*   parse time: type names, articles, alias matching (unknown function, Referenz argument
            that is not a variable), `Speichere .. in <Konstante>`, return outside a function;
            nested blocks are completely checked here (ck_block);
     rs_*   resolver: undeclared names, names that are not variables, redeclaration;
     tc_*   typechecker: computes a type for every expression even after an error
            (latestReturnedType; `None` is VoidType, the "no type" value) and reports mismatches.

   Defects of the pinned tree that decided acceptance are switchable (record `quirks`): `pinned` is
   the pinned tree, `patched` is the tree after the four repairs, which is what /repo is now (`current`). *)
From Coq Require Import List Arith Bool.
Import ListNotations.
From DDP Require Import Lang.MiniSyntax Lang.MiniTyping.

Inductive diag :=
| DBadType          (* type name does not denote a visible type *)
| DArticle          (* SYN_GENDER_MISMATCH *)
| DUnknownFun       (* no alias matches: the call does not parse *)
| DBadRef           (* Referenz parameter given something that is not a variable *)
| DConstRef         (* SEM_CONSTANT_IS_NOT_ASSIGNABLE in an argument *)
| DConstAssign      (* SEM_CONSTANT_IS_NOT_ASSIGNABLE in Speichere .. in *)
| DUndef            (* SEM_NAME_UNDEFINED *)
| DNotVar           (* SEM_BAD_NAME_CONTEXT *)
| DDup              (* SEM_NAME_ALREADY_DEFINED *)
| DBreak            (* SEM_BREAK_CONTINUE_NOT_IN_LOOP *)
| DGlobalReturn     (* SEM_GLOBAL_RETURN *)
| DMissingReturn    (* SEM_MISSING_RETURN *)
| DImportUndef      (* SEM_NAME_UNDEFINED of an import list *)
| DTypeOp           (* TYP_TYPE_MISMATCH of an operator *)
| DTypeCast         (* TYP_BAD_CAST *)
| DNoField          (* TYP_BAD_FIELD_ACCESS *)
| DPrivField        (* TYP_PRIVATE_FIELD_ACCESS *)
| DTypeArg          (* TYP_TYPE_MISMATCH of an argument *)
| DTypeInit         (* TYP_BAD_ASSIGNEMENT of a declaration *)
| DTypeAssign       (* TYP_BAD_ASSIGNEMENT *)
| DTypeCond         (* TYP_BAD_CONDITION *)
| DTypeFor          (* TYP_BAD_FOR *)
| DTypeRet          (* TYP_WRONG_RETURN_TYPE *)
| DPanic.           (* the Go code panics (type assertion in checkFieldAccess) *)

Record quirks := {
  (* `gleich` / `ungleich` only compare the operand types: two operands WITHOUT a type (call of a
     function that returns nothing, unresolved name, field of a non-Kombination) are accepted *)
  q_void_eq : bool;
  (* `Gib <expression without a type> zurück.` is accepted in a function that returns nothing *)
  q_void_ret : bool;
  (* the typechecker looks names up again in the table as it is when it runs (it ignores the
     declarations the resolver bound): the initialiser of a declaration sees the variable being
     declared, nested blocks are checked again against their final tables, and it goes unnoticed
     that the resolver resolves the bounds of a counting loop in the table of the loop body *)
  q_tc_by_name : bool;
  (* checkFieldAccess only protects private fields if the Kombination itself is visible *)
  q_field_unimported : bool;
  (* assigneable() (expressions.go) looks the FIELD name of `Speichere e in f von x` up as if it were a variable:
     a Konstante / function / Kombination that happens to be called f makes the assignment an error.
     Rejects well-formed programs only (no effect on soundness) *)
  q_field_name_lookup : bool
}.

Definition pinned : quirks := {| q_void_eq := true; q_void_ret := true; q_tc_by_name := true; q_field_unimported := true; q_field_name_lookup := true |}.
Definition patched : quirks := {| q_void_eq := false; q_void_ret := false; q_tc_by_name := false; q_field_unimported := false; q_field_name_lookup := false |}.

Definition vty := option ty.        (* None = ddptypes.VoidType{} *)

Definition vty_eqb (a b : vty) : bool :=
  match a, b with
  | Some x, Some y => ty_eqb x y
  | None, None => true
  | _, _ => false
  end.

Definition vnumeric (a : vty) : bool := match a with Some t => numeric t | None => false end.
Definition vindex (a : vty) : bool := match a with Some t => is_index t | None => false end.
Definition vbool (a : vty) : bool := match a with Some TBool => true | _ => false end.
Definition vprimitive (a : vty) : bool := match a with Some t => primitive t | None => false end.

Definition vseq (a : vty) : bool := match a with Some t => seqlike t | None => false end.
Definition vlist (a : vty) : bool := match a with Some t => is_listb t | None => false end.
Definition vtextish (a : vty) : bool := match a with Some t => textish t | None => false end.
Definition velem (a : vty) : vty := match a with Some t => Some (lelem t) | None => None end.

Definition when (b : bool) (d : diag) : list diag := if b then [d] else [].
Definition unless (b : bool) (d : diag) : list diag := if b then [] else [d].

Section Check.
Variable Q : quirks.
Variable M : imod.

(* ---- parse time ----------------------------------------------------------------------------- *)
Definition pt_type (G : env) (t : ty) : list diag := unless (ty_ok G t) DBadType.

(* declarations.go:185-187, statements.go forStatement, type_parsing.go:327-329 *)
Definition art_diag (t : ty) (a : article) : list diag :=
  match gender M t with Some g => unless (article_eqb g a) DArticle | None => [DBadType] end.

(* alias.go: an argument for a Referenz parameter is parsed by assigneable() (expressions.go:782-785) *)
Definition pt_ref (G : env) (e : expr) : list diag :=
  match e with
  | EVar x => match lookup G x with Some (BVar _) | None => [] | Some _ => [DConstRef] end
  | _ => [DBadRef]
  end.

Fixpoint pt_expr (F : fenv) (G : env) (e : expr) : list diag :=
  match e with
  | ELit _ | EVar _ => []
  | EEmpty t => pt_type G t
  | EUn _ e => pt_expr F G e
  | EBin _ l r => pt_expr F G l ++ pt_expr F G r
  | ECast e t => pt_expr F G e ++ pt_type G t
  | EField _ e => pt_expr F G e
  | ECall f a => match assoc f F with None => [DUnknownFun] | Some (ps, _) => pt_args F G a ps end
  | ESlice l i j => pt_expr F G l ++ pt_expr F G i ++ pt_expr F G j
  | EList e a => pt_expr F G e ++ pt_args F G a (repeat (TZahl, false) (alen a))
  end
with pt_args (F : fenv) (G : env) (a : args) (ps : list (ty * bool)) : list diag :=
  match a, ps with
  | ANil, [] => []
  | ACons e a', (_, false) :: ps' => pt_expr F G e ++ pt_args F G a' ps'
  | ACons e a', (_, true) :: ps' => pt_ref G e ++ pt_args F G a' ps'
  | _, _ => [DUnknownFun]
  end.

(* ---- resolver ------------------------------------------------------------------------------- *)
(* resolver.go VisitIdent *)
Definition rs_ident (G : env) (x : name) : list diag :=
  match lookup G x with
  | None => [DUndef]
  | Some (BVar _) | Some (BConst _) => []
  | Some _ => [DNotVar]
  end.

Fixpoint rs_expr (G : env) (e : expr) : list diag :=
  match e with
  | ELit _ | EEmpty _ => []
  | EVar x => rs_ident G x
  | EUn _ e => rs_expr G e
  | EBin _ l r => rs_expr G l ++ rs_expr G r
  | ECast e _ => rs_expr G e
  | EField _ e => rs_expr G e                      (* the field name is not resolved *)
  | ECall _ a => rs_args G a
  | ESlice l i j => rs_expr G l ++ rs_expr G i ++ rs_expr G j
  | EList e a => rs_expr G e ++ rs_args G a
  end
with rs_args (G : env) (a : args) : list diag :=
  match a with
  | ANil => []
  | ACons e a' => rs_expr G e ++ rs_args G a'
  end.

(* ---- typechecker: expressions ------------------------------------------------------------- *)
Definition tc_un (o : unop) (t : vty) : vty * list diag :=
  match o with
  | UNot => (Some TBool, unless (vbool t) DTypeOp)
  | UNeg => (match t with Some TByte => Some TZahl | _ => t end, unless (vnumeric t) DTypeOp)
  | ULen => (Some TZahl, unless (match t with Some (TList _) | Some TText => true | _ => false end) DTypeOp)
  end.

Definition validate2 (p : vty -> bool) (a b : vty) : list diag := unless (p a) DTypeOp ++ unless (p b) DTypeOp.

Definition tc_bin (o : binop) (a b : vty) : vty * list diag :=
  match o with
  | BPlus | BMinus | BMal =>
      (match a, b with
       | Some TZahl, Some TZahl => Some TZahl
       | Some TByte, Some TByte => Some TByte
       | Some TKomma, _ | _, Some TKomma => Some TKomma
       | _, _ => Some TZahl                      (* Zahl and Byte mixed: the Byte is widened (5ca8f5e) *)
       end, validate2 vnumeric a b)
  | BDurch => (Some TKomma, validate2 vnumeric a b)
  | BMod => (if vty_eqb a (Some TZahl) || vty_eqb b (Some TZahl) then Some TZahl else Some TByte, validate2 vindex a b)
  | BKleiner | BGroesser => (Some TBool, validate2 vnumeric a b)
  | BGleich | BUngleich =>
      (Some TBool,
       if vty_eqb a b then when (match a with None => negb (q_void_eq Q) | Some _ => false end) DTypeOp
       else [DTypeOp])
  | BUnd | BOder => (Some TBool, validate2 vbool a b)
  | BStelle =>
      (match a with Some (TList t) => Some t | Some TText => Some TChar | _ => b end,
       unless (vseq a) DTypeOp ++ unless (vindex b) DTypeOp)
  | BVerkettet =>
      (* typechecker.go BIN_CONCAT; since d293d7b operands without a type are rejected in the list form too
         (before, two of them built a list "of nothing" that `die Länge von` etc. accepted) *)
      if negb (vlist a) && negb (vlist b) && (vty_eqb a (Some TText) || vty_eqb b (Some TText))
      then (Some TText, validate2 vtextish a b)
      else (match velem a with Some t => Some (TList t) | None => None end,
            if vty_eqb (velem a) (velem b) then unless (match velem a with Some _ => true | None => false end) DTypeOp
            else [DTypeOp])
  | BAb | BBis =>
      (match a with Some (TList _) | Some TText => a | _ => b end, unless (vseq a) DTypeOp ++ unless (vindex b) DTypeOp)
  end.

(* typechecker.go VisitCastExpr restricted to the core types *)
Definition vcast_ok (s : vty) (t : ty) : bool :=
  match s with Some s' => cast_okb s' t | None => false end.

(* typechecker.go checkFieldAccess: the Kombination always belongs to the imported module.
   Before 581329c the declaration was only looked up by name in the scope chain (no protection when the
   Kombination is not visible, type assertion panic when the name is bound to something else); since then
   findStructDecl finds it by type in the scope or in the imported modules *)
Definition tc_field_priv (G : env) (s : name) (pub : bool) : list diag :=
  if q_field_unimported Q then
    match lookup G s with
    | Some BStruct => unless pub DPrivField
    | None => []
    | Some _ => [DPanic]
    end
  else unless pub DPrivField.

Fixpoint tc_expr (F : fenv) (G : env) (e : expr) : vty * list diag :=
  match e with
  | ELit l => (Some (lit_ty l), [])
  | EEmpty t => (Some (TList t), [])
  | EVar x => (match lookup G x with Some (BVar t) | Some (BConst t) => Some t | _ => None end, [])
  | EUn o e => let (t, d) := tc_expr F G e in let (r, d') := tc_un o t in (r, d ++ d')
  | EBin o l r =>
      let (a, d1) := tc_expr F G l in
      let (b, d2) := tc_expr F G r in
      let (c, d3) := tc_bin o a b in (c, d1 ++ d2 ++ d3)
  | ECast e t => let (s, d) := tc_expr F G e in (Some t, d ++ unless (vcast_ok s t) DTypeCast)
  | EField f e =>
      let (s, d) := tc_expr F G e in
      match s with
      | Some (TStruct st) =>
          match field_of M st f with
          | None => (None, d ++ [DNoField])
          | Some (pub, tf) => (Some tf, d ++ tc_field_priv G st pub)
          end
      | _ => (None, d)                            (* no diagnostic: "already reported by the resolver" *)
      end
  | ECall f a => match assoc f F with None => (None, []) | Some (ps, r) => (r, tc_args F G a ps) end
  | ESlice l i j =>
      (* TER_SLICE *)
      let (a, d1) := tc_expr F G l in
      let (ti, d2) := tc_expr F G i in
      let (tj, d3) := tc_expr F G j in
      (match a with Some (TList _) | Some TText => a | _ => tj end,
       d1 ++ d2 ++ d3 ++ unless (vseq a) DTypeOp ++ unless (vindex ti) DTypeOp ++ unless (vindex tj) DTypeOp)
  | EList e a =>
      (* VisitListLit; since d293d7b a first element without a type is an error (TYP_BAD_LIST_LITERAL) *)
      let (t, d) := tc_expr F G e in
      match t with
      | Some t0 => (Some (TList t0), d ++ when (is_listb t0) DTypeOp ++ tc_args F G a (repeat (t0, false) (alen a)))
      | None => (None, d ++ [DTypeOp])
      end
  end
with tc_args (F : fenv) (G : env) (a : args) (ps : list (ty * bool)) : list diag :=
  match a, ps with
  | ACons e a', (t, _) :: ps' =>
      let (t0, d) := tc_expr F G e in d ++ unless (vty_eqb t0 (Some t)) DTypeArg ++ tc_args F G a' ps'
  | _, _ => []
  end.

(* ---- typechecker: statements -------------------------------------------------------------- *)
(* VisitVarDecl / VisitAssignStmt: equal types or both numeric *)
Definition vassign_ok (src : vty) (dst : vty) : bool := vty_eqb dst src || (vnumeric dst && vnumeric src).

Definition tc_cond (F : fenv) (G : env) (c : expr) : list diag :=
  let (t, d) := tc_expr F G c in d ++ unless (vbool t) DTypeCond.

Definition tc_numeric (F : fenv) (G : env) (e : expr) : list diag :=
  let (t, d) := tc_expr F G e in d ++ unless (vnumeric t) DTypeFor.

Definition tc_init (F : fenv) (G : env) (e : expr) (t : ty) : list diag :=
  let (t0, d) := tc_expr F G e in d ++ unless (vassign_ok t0 (Some t)) DTypeInit.

(* VisitForRangeStmt: the loop variable takes the elements of a list or the characters of a Text *)
Definition tc_iter (F : fenv) (G : env) (e : expr) (t : ty) : list diag :=
  let (te, d) := tc_expr F G e in
  d ++ unless (match te with Some (TList el) => ty_eqb t el | Some TText => ty_eqb t TChar | _ => false end) DTypeFor.

(* VisitReturnStmt *)
Definition tc_return (F : fenv) (G : env) (r : retctx) (oe : option expr) : list diag :=
  let (t0, d) := match oe with Some e => tc_expr F G e | None => (None, []) end in
  d ++ match r with
       | RGlobal => []
       | RFun rt =>
           if vty_eqb rt t0
           then when (match oe, t0 with Some _, None => negb (q_void_ret Q) | _, _ => false end) DTypeRet
           else [DTypeRet]
       end.

(* the symbol table of a block once all of its statements have been resolved *)
Definition scope_add (sc : scope) (x : name) (b : binding) : scope :=
  match assoc x sc with Some _ => sc | None => (x, b) :: sc end.

Fixpoint final_scope (sc : scope) (b : block) : scope :=
  match b with
  | BNil => sc
  | BCons (SVar _ t x _) r => final_scope (scope_add sc x (BVar t)) r
  | BCons (SConst _ x l) r => final_scope (scope_add sc x (BConst (lit_ty l))) r
  | BCons _ r => final_scope sc r
  end.

(* the typechecker's visit of one statement with the scope chain G as it is at that time; with
   `deep` it descends into nested blocks (VisitBlockStmt sets CurrentTable to the block's table) *)
Fixpoint tcs_stmt (deep : bool) (F : fenv) (G : env) (r : retctx) (s : stmt) : list diag :=
  match s with
  | SVar _ t _ e => tc_init F G e t
  | SConst _ _ _ => []
  | SAssign x e =>
      let (t0, d) := tc_expr F G e in
      let (tx, _) := tc_expr F G (EVar x) in
      d ++ unless (vassign_ok t0 tx) DTypeAssign
  | SAssignIdx x i e =>
      (* VisitAssignStmt: value, then the target (VisitIndexing: index, then the indexed variable) *)
      let (t0, d) := tc_expr F G e in
      let (ti, di) := tc_expr F G i in
      let (tx, _) := tc_expr F G (EVar x) in
      d ++ di ++ unless (vindex ti) DTypeOp ++ unless (vseq tx) DTypeOp ++
      unless (vassign_ok t0 (match tx with Some (TList t) => Some t | _ => Some TChar end)) DTypeAssign
  | SAssignField f x e =>
      let (t0, d) := tc_expr F G e in
      let (tf, df) := tc_expr F G (EField f (EVar x)) in
      d ++ df ++ unless (match tf with Some _ => true | None => false end) DNoField ++ unless (vassign_ok t0 tf) DTypeAssign
  | SIf c th el =>
      tc_cond F G c ++
      (if deep then tcs_block deep F (final_scope [] th :: G) r th ++ tcs_block deep F (final_scope [] el :: G) r el else [])
  | SWhile c b =>
      tc_cond F G c ++ (if deep then tcs_block deep F (final_scope [] b :: G) r b else [])
  | SFor _ t x from to step b =>
      tc_init F G from t ++ unless (numeric t) DTypeFor ++ tc_numeric F G to ++
      match step with Some e => tc_numeric F G e | None => [] end ++
      (if deep then tcs_block deep F (final_scope [(x, BVar t)] b :: G) r b else [])
  | SForEach _ t x e b =>
      tc_iter F G e t ++ (if deep then tcs_block deep F (final_scope [(x, BVar t)] b :: G) r b else [])
  | SRepeat b n =>
      (let (tn, d) := tc_expr F G n in d ++ unless (vindex tn) DTypeOp) ++
      (if deep then tcs_block deep F (final_scope [] b :: G) r b else [])
  | SDoWhile b c =>
      tc_cond F G c ++ (if deep then tcs_block deep F (final_scope [] b :: G) r b else [])
  | SBreak | SContinue => []
  | SReturn oe => tc_return F G r oe
  | SBlock b => if deep then tcs_block deep F (final_scope [] b :: G) r b else []
  | SCall f a => snd (tc_expr F G (ECall f a))
  end
with tcs_block (deep : bool) (F : fenv) (G : env) (r : retctx) (b : block) : list diag :=
  match b with
  | BNil => []
  | BCons s b' => tcs_stmt deep F G r s ++ tcs_block deep F G r b'
  end.

(* ---- one statement: parse, resolve, typecheck --------------------------------------------- *)
(* symbol_table.go InsertDecl: only the current table is consulted, an existing entry stays *)
Definition insert (G : env) (x : name) (b : binding) : env * list diag :=
  if in_top G x then (G, [DDup]) else (bind G x b, []).

Definition rs_opt (G : env) (o : option expr) : list diag := match o with Some e => rs_expr G e | None => [] end.
Definition pt_opt (F : fenv) (G : env) (o : option expr) : list diag := match o with Some e => pt_expr F G e | None => [] end.

Fixpoint ck_stmt (F : fenv) (G : env) (d : nat) (r : retctx) (s : stmt) : list diag * env :=
  match s with
  | SVar a t x e =>
      let dp := pt_type G t ++ art_diag t a ++ pt_expr F G e in
      let dr := rs_expr G e in
      let (G', dd) := insert G x (BVar t) in
      (* resolver.VisitVarDecl inserts the variable before the typechecker evaluates the initialiser *)
      let dt := tcs_stmt (q_tc_by_name Q) F (if q_tc_by_name Q then G' else G) r s in
      (dp ++ dr ++ dd ++ dt, G')
  | SConst a x l =>
      let (G', dd) := insert G x (BConst (lit_ty l)) in
      (unless (article_eqb a Die) DArticle ++ dd, G')
  | SAssign x e =>
      (* statements.go assignNoLiteral: expression, then assigneable() *)
      let dp := pt_expr F G e ++ match lookup G x with Some (BVar _) | None => [] | Some _ => [DConstAssign] end in
      (* resolver.VisitAssignStmt: target, then right-hand side *)
      let dr := match lookup G x with
                | None => [DUndef]
                | Some (BVar _) => []
                | Some (BConst _) => [DConstAssign]
                | Some _ => [DNotVar]
                end ++ rs_expr G e in
      (dp ++ dr ++ tcs_stmt (q_tc_by_name Q) F G r s, G)
  | SAssignIdx x i e =>
      (* assignNoLiteral: value, assigneable() (the indexed name, then the index) *)
      let dp := pt_expr F G e ++ match lookup G x with Some (BVar _) | None => [] | Some _ => [DConstAssign] end ++ pt_expr F G i in
      (* resolver.VisitAssignStmt, *ast.Indexing: the indexed expression, the index, the value *)
      let dr := rs_ident G x ++ rs_expr G i ++ rs_expr G e in
      (dp ++ dr ++ tcs_stmt (q_tc_by_name Q) F G r s, G)
  | SAssignField f x e =>
      let dp := pt_expr F G e ++
                (if q_field_name_lookup Q then match lookup G f with Some (BVar _) | None => [] | Some _ => [DConstAssign] end else []) ++
                match lookup G x with Some (BVar _) | None => [] | Some _ => [DConstAssign] end in
      let dr := rs_ident G x ++ rs_expr G e in
      (dp ++ dr ++ tcs_stmt (q_tc_by_name Q) F G r s, G)
  | SIf c th el =>
      let dp := pt_expr F G c in
      let (d1, _) := ck_block F (push G) d r th in
      let (d2, _) := ck_block F (push G) d r el in
      (dp ++ d1 ++ d2 ++ rs_expr G c ++ tcs_stmt (q_tc_by_name Q) F G r s, G)
  | SWhile c b =>
      let dp := pt_expr F G c in
      let (d1, _) := ck_block F (push G) (S d) r b in
      (dp ++ d1 ++ rs_expr G c ++ tcs_stmt (q_tc_by_name Q) F G r s, G)
  | SFor a t x from to step b =>
      let dp := pt_type G t ++ art_diag t a ++ pt_expr F G from ++ pt_expr F G to ++ pt_opt F G step in
      let (d1, Gb) := ck_block F (bind (push G) x (BVar t)) (S d) r b in
      (* resolver.VisitForStmt: r.setScope(stmt.Body.Symbols) — the bounds are resolved in the
         table of the (already parsed) body.  Harmless only as long as the typechecker does not use the
         resolver's bindings; the patch that makes it use them resolves the bounds in the loop's own scope *)
      let Gr := if q_tc_by_name Q then Gb else G in
      let dr := rs_expr Gr from ++ rs_expr Gr to ++ rs_opt Gr step in
      (dp ++ d1 ++ dr ++ tcs_stmt (q_tc_by_name Q) F G r s, G)
  | SForEach a t x e b =>
      let dp := pt_type G t ++ art_diag t a ++ pt_expr F G e in
      let (d1, _) := ck_block F (bind (push G) x (BVar t)) (S d) r b in
      (dp ++ d1 ++ rs_expr G e ++ tcs_stmt (q_tc_by_name Q) F G r s, G)
  | SRepeat b n =>
      (* the count is parsed after the body *)
      let (d1, _) := ck_block F (push G) (S d) r b in
      (d1 ++ pt_expr F G n ++ rs_expr G n ++ tcs_stmt (q_tc_by_name Q) F G r s, G)
  | SDoWhile b c =>
      let (d1, _) := ck_block F (push G) (S d) r b in
      (d1 ++ pt_expr F G c ++ rs_expr G c ++ tcs_stmt (q_tc_by_name Q) F G r s, G)
  | SBreak | SContinue => (match d with O => [DBreak] | S _ => [] end, G)
  | SReturn oe =>
      let dp := pt_opt F G oe ++ match r with RGlobal => [DGlobalReturn] | RFun _ => [] end in
      (dp ++ rs_opt G oe ++ tcs_stmt (q_tc_by_name Q) F G r s, G)
  | SBlock b =>
      let (d1, _) := ck_block F (push G) d r b in
      (d1 ++ tcs_stmt (q_tc_by_name Q) F G r s, G)
  | SCall f a =>
      (pt_expr F G (ECall f a) ++ rs_args G a ++ tcs_stmt (q_tc_by_name Q) F G r s, G)
  end
with ck_block (F : fenv) (G : env) (d : nat) (r : retctx) (b : block) : list diag * env :=
  match b with
  | BNil => ([], G)
  | BCons s b' =>
      let (d1, G1) := ck_stmt F G d r s in
      let (d2, G2) := ck_block F G1 d r b' in
      (d1 ++ d2, G2)
  end.

(* ---- function declarations (declarations.go funcDeclaration / parseFunctionBody) ---------- *)
Fixpoint dup_names (l : list name) : list diag :=
  match l with
  | [] => []
  | x :: r => when (existsb (Nat.eqb x) r) DDup ++ dup_names r
  end.

Definition ck_params (G : env) (ps : list param) : list diag :=
  dup_names (map pname ps) ++
  flat_map (fun p => unless (param_name_ok G (pname p)) DDup ++ pt_type G (ptype p)) ps.

Definition ck_fun (F : fenv) (G : env) (f : fdecl) : list diag * env * fenv :=
  let dname := match lookup G (f_name f) with Some _ => [DDup] | None => [] end in
  let dparams := ck_params G (f_params f) in
  let dret_type := match f_ret f with Some (_, t) => pt_type G t | None => [] end in
  let dret_art := match f_ret f with Some (a, t) => art_diag t a | None => [] end in
  match dparams ++ dret_type with
  | _ :: _ => (dname ++ dparams ++ dret_type ++ dret_art, G, F)        (* BadDecl: no aliases, no body *)
  | [] =>
      let F' := (f_name f, sig_of f) :: F in
      let G' := match lookup G (f_name f) with Some _ => G | None => bind G (f_name f) BFun end in
      let (db, _) := ck_block F' (param_scope f :: G') 0 (RFun (option_map snd (f_ret f))) (f_body f) in
      (* declarations.go:760-775 ensureReturnStatementPresent *)
      let dfin := match f_ret f with Some _ => unless (ends_in_returnb (f_body f)) DMissingReturn | None => [] end in
      (dname ++ dret_art ++ db ++ dfin, G', F')
  end.

Fixpoint ck_tops (F : fenv) (G : env) (l : list top) : list diag :=
  match l with
  | [] => []
  | TFun f :: r => let '(d1, G1, F1) := ck_fun F G f in d1 ++ ck_tops F1 G1 r
  | TStmt s :: r => let (d1, G1) := ck_stmt F G 0 RGlobal s in d1 ++ ck_tops F G1 r
  end.

(* ---- import (resolver.VisitImportStmt, parser.resolveModuleImport) -------------------------- *)
Definition ck_import_decl (st : list diag * env * fenv) (d : idecl) : list diag * env * fenv :=
  let '(ds, G, F) := st in
  let (G', dd) := insert G (idecl_name d) (idecl_binding d) in
  (ds ++ dd, G', match dd with [] => rev (idecl_fun M d) ++ F | _ => F end).

Definition ck_import_name (st : list diag * env * fenv) (x : name) : list diag * env * fenv :=
  match find_pub M x with
  | Some d => ck_import_decl st d
  | None => let '(ds, G, F) := st in (ds ++ [DImportUndef], G, F)
  end.

Definition ck_import (i : import) : list diag * env * fenv :=
  match i with
  | ImpNone => ([], [[]], [])
  | ImpAll => fold_left ck_import_decl (filter idecl_pub M) ([], [[]], [])
  | ImpSome xs => fold_left ck_import_name xs ([], [[]], [])
  end.

End Check.

Definition check_with (Q : quirks) (p : prog) : list diag :=
  let '(di, G0, F0) := ck_import (p_mod p) (p_imp p) in
  di ++ ck_tops Q (p_mod p) F0 G0 (p_tops p).

(* the frontend as it is in /repo now: the four unsoundness defects were repaired by ec4b99d (gleich/ungleich), 328cc02
   (return), 4309fac (VisitIdent uses the resolver's binding; loop bounds resolved outside the body), 581329c (private
   fields), d293d7b (lists of elements without a type); the field-name lookup of assigneable() (a false rejection,
   not a C04 matter) is still there and mirrored by q_field_name_lookup *)
Definition current : quirks :=
  {| q_void_eq := false; q_void_ret := false; q_tc_by_name := false; q_field_unimported := false; q_field_name_lookup := true |}.
Definition check (p : prog) : list diag := check_with current p.
(* the frontend of the pinned tree, before the repairs (kept for the regression facts) *)
Definition check_pinned (p : prog) : list diag := check_with pinned p.
(* the repaired frontend under its old name (= check) *)
Definition check_patched (p : prog) : list diag := check_with patched p.
