(* C04 — soundness of the algorithm (MiniCheck) with respect to the specification (MiniTyping).

   check_with Q p = []  ->  guard Q p = true  ->  wf p

   `guard Q` only constrains the constructs on which a switched-on quirk of Q matters; for
   `patched` it is vacuous (full soundness of the patched frontend), for `pinned` it is the
   syntactic predicate `quirk_free`.  The pinned frontend itself is unsound: witnesses below. *)
From Coq Require Import List Arith Bool Lia.
Import ListNotations.
From DDP Require Import Lang.MiniSyntax Lang.MiniTyping Lang.MiniTypingProofs Lang.MiniCheck Lang.MiniGuard.

(* ---- small facts -------------------------------------------------------------------------- *)
Lemma app_nil2 : forall {A} (a b : list A), a ++ b = [] -> a = [] /\ b = [].
Proof. intros A a b H; apply app_eq_nil; auto. Qed.

Lemma unless_nil : forall b d, unless b d = [] -> b = true.
Proof. intros [|] d H; [auto | discriminate H]. Qed.

Lemma when_nil : forall b d, when b d = [] -> b = false.
Proof. intros [|] d H; [discriminate H | auto]. Qed.

Lemma vty_eqb_some : forall a t, vty_eqb a (Some t) = true -> a = Some t.
Proof. intros [a|] t H; cbn in H; [apply ty_eqb_eq in H; subst; auto | discriminate H]. Qed.

Lemma vty_eqb_some_l : forall a t, vty_eqb (Some t) a = true -> a = Some t.
Proof. intros [a|] t H; cbn in H; [apply ty_eqb_eq in H; subst; auto | discriminate H]. Qed.

Lemma assoc_bind_scope_eq : forall {A} x (b : A) s, assoc x ((x, b) :: s) = Some b.
Proof. intros; cbn; rewrite Nat.eqb_refl; reflexivity. Qed.

Lemma lookup_bind_eq : forall G x b, lookup (bind G x b) x = Some b.
Proof. intros [| s G] x b; cbn; rewrite Nat.eqb_refl; reflexivity. Qed.

Lemma lookup_bind_neq : forall G x b y, y <> x -> lookup (bind G x b) y = lookup G y.
Proof.
  intros [| s G] x b y H; cbn.
  - apply Nat.eqb_neq in H; rewrite H; reflexivity.
  - apply Nat.eqb_neq in H; rewrite H; reflexivity.
Qed.

Lemma mem_false : forall x l, mem x l = false -> ~ In x l.
Proof. intros x l H Hin. apply existsb_eqb_In in Hin. unfold mem in H. congruence. Qed.

Lemma mem_app_false : forall x l1 l2, mem x (l1 ++ l2) = false -> mem x l1 = false /\ mem x l2 = false.
Proof. intros x l1 l2 H; unfold mem in *; rewrite existsb_app in H; apply orb_false_iff in H; auto. Qed.

Section Sound.
Variable Q : quirks.
Variable M : imod.

Notation gde := (gd_expr Q M).
Notation gda := (gd_args Q M).

(* ---- operator tables of the typechecker --------------------------------------------------- *)
Lemma tc_un_sound : forall o a r, tc_un o a = (r, []) -> exists t tr, a = Some t /\ r = Some tr /\ un_res o t = Some tr.
Proof.
  intros o [t|] r H; destruct o; cbn in H; injection H as Hr Hd; try discriminate Hd;
    apply unless_nil in Hd; destruct t; try discriminate Hd; subst; cbn; eauto.
Qed.

Lemma tc_concat_some : forall ta tb c, tc_bin Q BVerkettet (Some ta) (Some tb) = (c, []) ->
  exists tc, c = Some tc /\ bin_res BVerkettet ta tb = Some tc.
Proof.
  intros ta tb c H. cbn in H. unfold bin_res, concat_is_list.
  destruct (negb (is_listb ta) && negb (is_listb tb) && (ty_eqb ta TText || ty_eqb tb TText)) eqn:Ec.
  - injection H as <- Hd. unfold validate2 in Hd. apply app_nil2 in Hd as [H1 H2]. apply unless_nil in H1. apply unless_nil in H2.
    cbn in H1, H2. destruct ta; try discriminate H1; destruct tb; try discriminate H2; cbn in *; try discriminate Ec; eauto.
  - injection H as <- Hd. destruct (ty_eqb (lelem ta) (lelem tb)) eqn:E; [| discriminate Hd].
    exists (TList (lelem ta)); split; auto.
    assert (Hl : is_listb ta || is_listb tb || negb (is_text ta || is_text tb) = true).
    { destruct ta; destruct tb; cbn in *; try discriminate Ec; reflexivity. }
    rewrite Hl. reflexivity.
Qed.

Lemma tc_bin_some : forall o ta tb c, tc_bin Q o (Some ta) (Some tb) = (c, []) -> exists tc, c = Some tc /\ bin_res o ta tb = Some tc.
Proof.
  intros o ta tb c H. destruct (match o with BVerkettet => true | _ => false end) eqn:Eo.
  { destruct o; try discriminate Eo. apply tc_concat_some; auto. }
  destruct o; try discriminate Eo; cbn in H; inversion H as [[Hc Hd]]; clear H.
  1-7, 10-11: unfold validate2 in Hd; apply app_nil2 in Hd as [H1 H2]; apply unless_nil in H1; apply unless_nil in H2;
       destruct ta; try discriminate H1; destruct tb; try discriminate H2; cbn; eauto.
  - destruct (ty_eqb ta tb) eqn:E; [| discriminate Hd]. exists TBool; split; auto. unfold bin_res; rewrite E; auto.
  - destruct (ty_eqb ta tb) eqn:E; [| discriminate Hd]. exists TBool; split; auto. unfold bin_res; rewrite E; auto.
  - apply app_nil2 in Hd as [H1 H2]; apply unless_nil in H1; apply unless_nil in H2.
    destruct ta; try discriminate H1; unfold bin_res; cbn in H2; rewrite H2; eauto.
  - apply app_nil2 in Hd as [H1 H2]; apply unless_nil in H1; apply unless_nil in H2. cbn in H1, H2.
    unfold bin_res. rewrite H1, H2. destruct ta; try discriminate H1; eauto.
  - apply app_nil2 in Hd as [H1 H2]; apply unless_nil in H1; apply unless_nil in H2. cbn in H1, H2.
    unfold bin_res. rewrite H1, H2. destruct ta; try discriminate H1; eauto.
Qed.

Lemma tc_bin_none : forall o a b c, tc_bin Q o a b = (c, []) -> a = None \/ b = None ->
  is_eq o = true /\ a = None /\ b = None /\ q_void_eq Q = true.
Proof.
  intros o a b c H Hn. destruct (match o with BVerkettet => true | _ => false end) eqn:Eo.
  { exfalso. destruct o; try discriminate Eo. cbn in H.
    destruct (negb (vlist a) && negb (vlist b) && (vty_eqb a (Some TText) || vty_eqb b (Some TText))).
    - injection H as _ Hd. unfold validate2 in Hd. apply app_nil2 in Hd as [H1 H2]. apply unless_nil in H1. apply unless_nil in H2.
      destruct Hn as [-> | ->]; cbn in *; discriminate.
    - injection H as _ Hd. destruct Hn as [-> | ->]; cbn in Hd.
      + destruct (velem b); cbn in Hd; discriminate Hd.
      + destruct (velem a); cbn in Hd; discriminate Hd. }
  destruct o; try discriminate Eo; cbn in H; inversion H as [[Hc Hd]]; clear H.
  1-7, 10-11: unfold validate2 in Hd; apply app_nil2 in Hd as [H1 H2]; apply unless_nil in H1; apply unless_nil in H2;
       destruct Hn as [-> | ->]; cbn in *; discriminate.
  - destruct a as [ta|], b as [tb|]; cbn in Hd; try discriminate Hd.
    + destruct Hn as [E | E]; discriminate E.
    + apply when_nil in Hd. apply negb_false_iff in Hd. auto.
  - destruct a as [ta|], b as [tb|]; cbn in Hd; try discriminate Hd.
    + destruct Hn as [E | E]; discriminate E.
    + apply when_nil in Hd. apply negb_false_iff in Hd. auto.
  - apply app_nil2 in Hd as [H1 H2]; apply unless_nil in H1; apply unless_nil in H2.
    destruct Hn as [-> | ->]; cbn in *; discriminate.
  - apply app_nil2 in Hd as [H1 H2]; apply unless_nil in H1; apply unless_nil in H2.
    destruct Hn as [-> | ->]; cbn in *; discriminate.
  - apply app_nil2 in Hd as [H1 H2]; apply unless_nil in H1; apply unless_nil in H2.
    destruct Hn as [-> | ->]; cbn in *; discriminate.
Qed.

Lemma struct_of_in : forall s g fs, struct_of M s = Some (g, fs) -> exists p, In (IStruct p s g fs) M.
Proof.
  induction M as [| d M' IH]; intros s g fs H; cbn in H; [discriminate H |].
  destruct d as [p x t | p x t | p f ps r | p s' g' fs' | c0 s0 fs0].
  1-3, 5: destruct (IH _ _ _ H) as [p0 Hp]; exists p0; right; auto.
  destruct (Nat.eqb s s') eqn:E.
  - apply Nat.eqb_eq in E; subst. inversion H; subst. exists p; left; auto.
  - destruct (IH _ _ _ H) as [p0 Hp]; exists p0; right; auto.
Qed.

Lemma field_in_priv : forall fs f t, field_in fs f = Some (false, t) ->
  existsb (fun q : bool * name * ty => match q with (false, h, _) => Nat.eqb f h | _ => false end) fs = true.
Proof.
  induction fs as [| [[p h] t'] fs IH]; intros f t H; cbn in H; [discriminate H |].
  cbn. destruct (Nat.eqb f h) eqn:E.
  - inversion H; subst. reflexivity.
  - rewrite (IH _ _ H). destruct p; reflexivity.
Qed.

Lemma priv_field_false : forall s f pub t, priv_field M f = false -> field_of M s f = Some (pub, t) -> pub = true.
Proof.
  intros s f pub t Hp Hf. unfold field_of in Hf. destruct (struct_of M s) as [[g fs]|] eqn:E; [| discriminate Hf].
  destruct pub; auto. apply struct_of_in in E as [p Hin]. apply field_in_priv in Hf.
  unfold priv_field in Hp. assert (Ht : existsb (fun d => match d with
                    | IStruct _ _ _ fs => existsb (fun q => match q with (false, h, _) => Nat.eqb f h | _ => false end) fs
                    | _ => false end) M = true).
  { apply existsb_exists. exists (IStruct p s g fs); split; auto. }
  congruence.
Qed.

Lemma tc_field_priv_nil : forall G s f pub t, tc_field_priv Q G s pub = [] -> field_of M s f = Some (pub, t) ->
  (q_field_unimported Q = true -> priv_field M f = false) -> pub = true.
Proof.
  intros G s f pub t H Hf Hg. unfold tc_field_priv in H. destruct (q_field_unimported Q).
  - destruct (lookup G s) as [[| | |]|]; try discriminate H.
    + apply unless_nil in H; auto.
    + eapply priv_field_false; eauto.
  - apply unless_nil in H; auto.
Qed.

Lemma tc_args_cons : forall F G e a t r ps,
  tc_args Q M F G (ACons e a) ((t, r) :: ps) =
  (let (t0, d) := tc_expr Q M F G e in d ++ unless (vty_eqb t0 (Some t)) DTypeArg ++ tc_args Q M F G a ps).
Proof. reflexivity. Qed.

Lemma tc_call_eq : forall F G f a,
  tc_expr Q M F G (ECall f a) = match assoc f F with None => (None, []) | Some (ps, r) => (r, tc_args Q M F G a ps) end.
Proof. reflexivity. Qed.

(* ---- expressions: resolver and typechecker run on the same table ------------------------------- *)
Lemma pt_ref_nil : forall G e, pt_ref G e = [] -> exists x, e = EVar x /\ (lookup G x = None \/ exists t, lookup G x = Some (BVar t)).
Proof.
  intros G e H; destruct e; cbn in H; try discriminate H. exists x; split; auto.
  destruct (lookup G x) as [[| | |]|]; try discriminate H; eauto.
Qed.

Lemma pt_args_repeat : forall F G a t1 t2,
  pt_args F G a (repeat (t1, false) (alen a)) = pt_args F G a (repeat (t2, false) (alen a)).
Proof. intros F G; induction a as [| e a IH]; intros t1 t2; cbn; [reflexivity |]. rewrite (IH t1 t2). reflexivity. Qed.

Lemma tc_slice_eq : forall F G l i j, tc_expr Q M F G (ESlice l i j) =
  (let (a, d1) := tc_expr Q M F G l in
   let (ti, d2) := tc_expr Q M F G i in
   let (tj, d3) := tc_expr Q M F G j in
   (match a with Some (TList _) | Some TText => a | _ => tj end,
    d1 ++ d2 ++ d3 ++ unless (vseq a) DTypeOp ++ unless (vindex ti) DTypeOp ++ unless (vindex tj) DTypeOp)).
Proof. reflexivity. Qed.

Lemma tc_list_eq : forall F G e a, tc_expr Q M F G (EList e a) =
  (let (t, d) := tc_expr Q M F G e in
   match t with
   | Some t0 => (Some (TList t0), d ++ when (is_listb t0) DTypeOp ++ tc_args Q M F G a (repeat (t0, false) (alen a)))
   | None => (None, d ++ [DTypeOp])
   end).
Proof. reflexivity. Qed.

Lemma vseq_some : forall a, vseq a = true -> exists t, a = Some t /\ seqlike t = true.
Proof. intros [t|] H; [eauto | discriminate H]. Qed.
Lemma vindex_some : forall a, vindex a = true -> exists t, a = Some t /\ is_index t = true.
Proof. intros [t|] H; [eauto | discriminate H]. Qed.

Lemma tc_sound : forall F G,
  (forall e v, pt_expr F G e = [] -> rs_expr G e = [] -> gde e = true -> tc_expr Q M F G e = (v, []) ->
     match v with Some t => type_of M F G e = Some t | None => callish e = true end) /\
  (forall a ps, pt_args F G a ps = [] -> rs_args G a = [] -> gda a = true -> tc_args Q M F G a ps = [] ->
     args_chk M F G a ps = true).
Proof.
  intros F G; apply expr_args_ind.
  - intros l v _ _ _ H; inversion H; reflexivity.
  - intros t v Hp _ _ H; inversion H; cbn. cbn in Hp. apply unless_nil in Hp. rewrite Hp; reflexivity.
  - intros x v _ Hr _ H; cbn in *. unfold rs_ident in Hr.
    destruct (lookup G x) as [[| | |]|]; try discriminate Hr; inversion H; reflexivity.
  - intros o e IH v Hp Hr Hg H; cbn in *.
    destruct (tc_expr Q M F G e) as [t d] eqn:E. destruct (tc_un o t) as [r d'] eqn:Eu.
    inversion H; subst. apply app_nil2 in H2 as [-> ->].
    apply tc_un_sound in Eu as [t0 [tr [-> [-> Hu]]]].
    specialize (IH _ Hp Hr Hg eq_refl). cbn in IH. rewrite IH; auto.
  - intros o l IHl r IHr v Hp Hr Hg H; cbn in *.
    apply app_nil2 in Hp as [Hpl Hpr]. apply app_nil2 in Hr as [Hrl Hrr].
    apply andb_true_iff in Hg as [Hg Hge]. apply andb_true_iff in Hg as [Hgl Hgr].
    destruct (tc_expr Q M F G l) as [a d1] eqn:El. destruct (tc_expr Q M F G r) as [b d2] eqn:Er.
    destruct (tc_bin Q o a b) as [c d3] eqn:Eb. inversion H; subst.
    apply app_nil2 in H2 as [-> H2]. apply app_nil2 in H2 as [-> ->].
    specialize (IHl _ Hpl Hrl Hgl eq_refl). specialize (IHr _ Hpr Hrr Hgr eq_refl).
    destruct a as [ta|], b as [tb|].
    + apply tc_bin_some in Eb as [tc [-> Hb]]. rewrite IHl, IHr; auto.
    + apply tc_bin_none in Eb as [He [Ha _]]; auto. discriminate Ha.
    + apply tc_bin_none in Eb as [He [_ [Hb _]]]; auto. discriminate Hb.
    + apply tc_bin_none in Eb as [He [_ [_ Hq]]]; auto. rewrite Hq, He in Hge. cbn in Hge.
      rewrite IHl in Hge. discriminate Hge.
  - intros e IH t v Hp Hr Hg H; cbn in *. apply app_nil2 in Hp as [Hpe Hpt]. apply unless_nil in Hpt.
    destruct (tc_expr Q M F G e) as [s d] eqn:E. inversion H; subst.
    apply app_nil2 in H2 as [-> Hc]. apply unless_nil in Hc.
    destruct s as [s|]; [| discriminate Hc]. cbn in Hc.
    specialize (IH _ Hpe Hr Hg eq_refl). cbn in IH. rewrite IH, Hpt, Hc; reflexivity.
  - intros f e IH v Hp Hr Hg H; cbn in *. apply andb_true_iff in Hg as [Hg Hgf].
    destruct (tc_expr Q M F G e) as [s d] eqn:E.
    destruct s as [[| | | | | | |st]|]; try (inversion H; subst; reflexivity).
    destruct (field_of M st f) as [[pub tf]|] eqn:Ef.
    + inversion H; subst. apply app_nil2 in H2 as [-> Hpv].
      specialize (IH _ Hp Hr Hg eq_refl). cbn in IH. rewrite IH, Ef.
      assert (pub = true) as ->; [| reflexivity].
      eapply tc_field_priv_nil; eauto. intros Hq; rewrite Hq in Hgf. apply negb_true_iff in Hgf; auto.
    + inversion H; subst. apply app_nil2 in H2 as [_ H2]; discriminate H2.
  - intros f a IH v Hp Hr Hg H; cbn in *.
    destruct (assoc f F) as [[ps r]|] eqn:Ef; [| discriminate Hp].
    inversion H; subst. destruct v as [t|]; auto.
    rewrite (IH _ Hp Hr Hg H2); reflexivity.
  - intros l IHl i IHi j IHj v Hp Hr Hg H. rewrite tc_slice_eq in H. cbn in Hp, Hr, Hg.
    apply app_nil2 in Hp as [Hpl Hp]. apply app_nil2 in Hp as [Hpi Hpj].
    apply app_nil2 in Hr as [Hrl Hr]. apply app_nil2 in Hr as [Hri Hrj].
    apply andb_true_iff in Hg as [Hg Hgj]. apply andb_true_iff in Hg as [Hgl Hgi].
    destruct (tc_expr Q M F G l) as [a d1] eqn:El. destruct (tc_expr Q M F G i) as [ti d2] eqn:Ei.
    destruct (tc_expr Q M F G j) as [tj d3] eqn:Ej. injection H as Hv Hd.
    apply app_nil2 in Hd as [-> Hd]. apply app_nil2 in Hd as [-> Hd]. apply app_nil2 in Hd as [-> Hd].
    apply app_nil2 in Hd as [H1 Hd]. apply app_nil2 in Hd as [H2 H3].
    apply unless_nil in H1. apply unless_nil in H2. apply unless_nil in H3.
    apply vseq_some in H1 as [ta [-> Hta]]. apply vindex_some in H2 as [t2 [-> Ht2]]. apply vindex_some in H3 as [t3 [-> Ht3]].
    specialize (IHl _ Hpl Hrl Hgl eq_refl). specialize (IHi _ Hpi Hri Hgi eq_refl). specialize (IHj _ Hpj Hrj Hgj eq_refl).
    cbn in IHl, IHi, IHj. assert (v = Some ta) as -> by (destruct ta; try discriminate Hta; auto).
    cbn. rewrite IHl, IHi, IHj, Hta, Ht2, Ht3. reflexivity.
  - intros e IHe a IHa v Hp Hr Hg H. rewrite tc_list_eq in H. cbn in Hp, Hr, Hg.
    apply app_nil2 in Hp as [Hpe Hpa]. apply app_nil2 in Hr as [Hre Hra]. apply andb_true_iff in Hg as [Hge Hga].
    destruct (tc_expr Q M F G e) as [t d] eqn:Ee. destruct t as [t0|].
    + injection H as <- Hd. apply app_nil2 in Hd as [-> Hd]. apply app_nil2 in Hd as [Hl Ha]. apply when_nil in Hl.
      specialize (IHe _ Hpe Hre Hge eq_refl). cbn in IHe. rewrite (pt_args_repeat F G a TZahl t0) in Hpa.
      cbn. rewrite IHe, Hl, (IHa _ Hpa Hra Hga Ha). reflexivity.
    + injection H as _ Hd. apply app_nil2 in Hd as [_ Hd]. discriminate Hd.
  - intros ps Hp _ _ _; destruct ps; [reflexivity | discriminate Hp].
  - intros e IHe a IHa ps Hp Hr Hg H; cbn in Hr, Hg.
    apply app_nil2 in Hr as [Hre Hra]. apply andb_true_iff in Hg as [Hge Hga].
    destruct ps as [| [t [|]] ps]; cbn in Hp; try discriminate Hp.
    + apply app_nil2 in Hp as [Hpr Hpa]. apply pt_ref_nil in Hpr as [x [-> Hx]].
      rewrite tc_args_cons in H. cbn in Hre. unfold rs_ident in Hre.
      cbn [args_chk]. cbn [tc_expr] in H. destruct (lookup G x) as [[t0| | |]|] eqn:El; try discriminate Hre.
      * cbn in H. apply app_nil2 in H as [Ht Ha]. apply unless_nil in Ht. rewrite Ht. apply IHa; auto.
      * destruct Hx as [Hx | [? Hx]]; discriminate Hx.
    + apply app_nil2 in Hp as [Hpe Hpa]. rewrite tc_args_cons in H.
      destruct (tc_expr Q M F G e) as [t0 d] eqn:E.
      apply app_nil2 in H as [-> H]. apply app_nil2 in H as [Ht Ha]. apply unless_nil in Ht. apply vty_eqb_some in Ht; subst.
      specialize (IHe _ Hpe Hre Hge eq_refl). cbn in IHe. cbn. rewrite IHe, ty_eqb_refl. apply IHa; auto.
Qed.

(* ---- expressions: the typechecker alone, when `gleich` does not accept operands without a type -- *)
Lemma tc_sound_nors : q_void_eq Q = false -> forall F G,
  (forall e t, pt_expr F G e = [] -> gde e = true -> tc_expr Q M F G e = (Some t, []) -> type_of M F G e = Some t) /\
  (forall a ps, pt_args F G a ps = [] -> gda a = true -> tc_args Q M F G a ps = [] -> args_chk M F G a ps = true).
Proof.
  intros Hq F G; apply expr_args_ind.
  - intros l t _ _ H; inversion H; reflexivity.
  - intros t0 t Hp _ H; inversion H; cbn. cbn in Hp. apply unless_nil in Hp. rewrite Hp; reflexivity.
  - intros x t _ _ H; cbn in *. destruct (lookup G x) as [[| | |]|]; inversion H; reflexivity.
  - intros o e IH t Hp Hg H; cbn in *.
    destruct (tc_expr Q M F G e) as [t0 d] eqn:E. destruct (tc_un o t0) as [r d'] eqn:Eu.
    inversion H; subst. apply app_nil2 in H2 as [-> ->].
    apply tc_un_sound in Eu as [t1 [tr [-> [Hr Hu]]]]. inversion Hr; subst.
    rewrite (IH _ Hp Hg eq_refl); auto.
  - intros o l IHl r IHr t Hp Hg H; cbn in *.
    apply app_nil2 in Hp as [Hpl Hpr].
    apply andb_true_iff in Hg as [Hg Hge]. apply andb_true_iff in Hg as [Hgl Hgr].
    destruct (tc_expr Q M F G l) as [a d1] eqn:El. destruct (tc_expr Q M F G r) as [b d2] eqn:Er.
    destruct (tc_bin Q o a b) as [c d3] eqn:Eb. inversion H; subst.
    apply app_nil2 in H2 as [-> H2]. apply app_nil2 in H2 as [-> ->].
    destruct a as [ta|], b as [tb|].
    + apply tc_bin_some in Eb as [tc [Hc Hb]]. inversion Hc; subst.
      rewrite (IHl _ Hpl Hgl eq_refl), (IHr _ Hpr Hgr eq_refl); auto.
    + apply tc_bin_none in Eb as [_ [Ha _]]; auto. discriminate Ha.
    + apply tc_bin_none in Eb as [_ [_ [Hb _]]]; auto. discriminate Hb.
    + apply tc_bin_none in Eb as [_ [_ [_ Hq']]]; auto. congruence.
  - intros e IH t0 t Hp Hg H; cbn in *. apply app_nil2 in Hp as [Hpe Hpt]. apply unless_nil in Hpt.
    destruct (tc_expr Q M F G e) as [s d] eqn:E. injection H as Ht0 Hd. inversion Ht0; subst t0.
    apply app_nil2 in Hd as [-> Hc]. apply unless_nil in Hc.
    destruct s as [s|]; [| discriminate Hc]. cbn in Hc.
    rewrite (IH _ Hpe Hg eq_refl), Hpt, Hc; reflexivity.
  - intros f e IH t Hp Hg H; cbn in *. apply andb_true_iff in Hg as [Hg Hgf].
    destruct (tc_expr Q M F G e) as [s d] eqn:E.
    destruct s as [[| | | | | | |st]|]; try (inversion H; fail).
    destruct (field_of M st f) as [[pub tf]|] eqn:Ef.
    + injection H as Ht0 Hd. inversion Ht0; subst tf. apply app_nil2 in Hd as [-> Hpv].
      rewrite (IH _ Hp Hg eq_refl), Ef.
      assert (pub = true) as ->; [| reflexivity].
      eapply tc_field_priv_nil; eauto. intros Hq'; rewrite Hq' in Hgf. apply negb_true_iff in Hgf; auto.
    + inversion H.
  - intros f a IH t Hp Hg H; cbn in *.
    destruct (assoc f F) as [[ps r]|] eqn:Ef; [| discriminate Hp].
    injection H as Hr Hd. subst r. rewrite (IH _ Hp Hg Hd); reflexivity.
  - intros l IHl i IHi j IHj t Hp Hg H. rewrite tc_slice_eq in H. cbn in Hp, Hg.
    apply app_nil2 in Hp as [Hpl Hp]. apply app_nil2 in Hp as [Hpi Hpj].
    apply andb_true_iff in Hg as [Hg Hgj]. apply andb_true_iff in Hg as [Hgl Hgi].
    destruct (tc_expr Q M F G l) as [a d1] eqn:El. destruct (tc_expr Q M F G i) as [ti d2] eqn:Ei.
    destruct (tc_expr Q M F G j) as [tj d3] eqn:Ej. injection H as Hv Hd.
    apply app_nil2 in Hd as [-> Hd]. apply app_nil2 in Hd as [-> Hd]. apply app_nil2 in Hd as [-> Hd].
    apply app_nil2 in Hd as [H1 Hd]. apply app_nil2 in Hd as [H2 H3].
    apply unless_nil in H1. apply unless_nil in H2. apply unless_nil in H3.
    apply vseq_some in H1 as [ta [-> Hta]]. apply vindex_some in H2 as [t2 [-> Ht2]]. apply vindex_some in H3 as [t3 [-> Ht3]].
    assert (t = ta) as -> by (destruct ta; try discriminate Hta; inversion Hv; auto).
    cbn. rewrite (IHl _ Hpl Hgl eq_refl), (IHi _ Hpi Hgi eq_refl), (IHj _ Hpj Hgj eq_refl), Hta, Ht2, Ht3. reflexivity.
  - intros e IHe a IHa t Hp Hg H. rewrite tc_list_eq in H. cbn in Hp, Hg.
    apply app_nil2 in Hp as [Hpe Hpa]. apply andb_true_iff in Hg as [Hge Hga].
    destruct (tc_expr Q M F G e) as [t1 d] eqn:Ee. destruct t1 as [t0|].
    + injection H as <- Hd. apply app_nil2 in Hd as [-> Hd]. apply app_nil2 in Hd as [Hl Ha]. apply when_nil in Hl.
      rewrite (pt_args_repeat F G a TZahl t0) in Hpa.
      cbn. rewrite (IHe _ Hpe Hge eq_refl), Hl, (IHa _ Hpa Hga Ha). reflexivity.
    + injection H as Hv _. discriminate Hv.
  - intros ps Hp _ _; destruct ps; [reflexivity | discriminate Hp].
  - intros e IHe a IHa ps Hp Hg H; cbn in Hg.
    apply andb_true_iff in Hg as [Hge Hga].
    destruct ps as [| [t [|]] ps]; cbn in Hp; try discriminate Hp.
    + apply app_nil2 in Hp as [Hpr Hpa]. apply pt_ref_nil in Hpr as [x [-> Hx]].
      rewrite tc_args_cons in H. cbn [tc_expr] in H. cbn [args_chk].
      destruct (lookup G x) as [[t0| | |]|] eqn:El; cbn in H; try discriminate H.
      * apply app_nil2 in H as [Ht Ha]; apply unless_nil in Ht. rewrite Ht. apply IHa; auto.
      * destruct Hx as [Hx | [? Hx]]; discriminate Hx.
    + apply app_nil2 in Hp as [Hpe Hpa]. rewrite tc_args_cons in H.
      destruct (tc_expr Q M F G e) as [t0 d] eqn:E.
      apply app_nil2 in H as [-> H]. apply app_nil2 in H as [Ht Ha]. apply unless_nil in Ht. apply vty_eqb_some in Ht; subst.
      cbn. rewrite (IHe _ Hpe Hge eq_refl), ty_eqb_refl. apply IHa; auto.
Qed.

(* ---- the initialiser evaluated with the declared variable already in the table ----------------- *)
Lemma tc_bind_inv : forall F G x tx,
  (forall e v, ~ In x (fv_expr e) -> tc_expr Q M F (bind G x (BVar tx)) e = (v, []) -> tc_expr Q M F G e = (v, [])) /\
  (forall a ps, ~ In x (fv_args a) -> tc_args Q M F (bind G x (BVar tx)) a ps = [] -> tc_args Q M F G a ps = []).
Proof.
  intros F G x tx; apply expr_args_ind.
  - intros l v _ H; exact H.
  - intros t v _ H; exact H.
  - intros y v Hn H; cbn in *. rewrite lookup_bind_neq in H; auto.
  - intros o e IH v Hn H; cbn in *.
    destruct (tc_expr Q M F (bind G x (BVar tx)) e) as [t d] eqn:E. destruct (tc_un o t) as [r d'] eqn:Eu.
    injection H as Hv Hd; subst v. apply app_nil2 in Hd as [-> ->]. rewrite (IH _ Hn eq_refl), Eu; reflexivity.
  - intros o l IHl r IHr v Hn H; cbn in *.
    destruct (tc_expr Q M F (bind G x (BVar tx)) l) as [a d1] eqn:El.
    destruct (tc_expr Q M F (bind G x (BVar tx)) r) as [b d2] eqn:Er.
    destruct (tc_bin Q o a b) as [c d3] eqn:Eb. injection H as Hv Hd; subst v.
    apply app_nil2 in Hd as [-> Hd]. apply app_nil2 in Hd as [-> ->].
    rewrite (IHl _ (fun Hi => Hn (in_or_app _ _ _ (or_introl Hi))) eq_refl),
            (IHr _ (fun Hi => Hn (in_or_app _ _ _ (or_intror Hi))) eq_refl), Eb; reflexivity.
  - intros e IH t v Hn H; cbn in *.
    destruct (tc_expr Q M F (bind G x (BVar tx)) e) as [s d] eqn:E. injection H as Hv Hd; subst v.
    apply app_nil2 in Hd as [-> Hc]. rewrite (IH _ Hn eq_refl), Hc; reflexivity.
  - intros f e IH v Hn H; cbn in *.
    destruct (tc_expr Q M F (bind G x (BVar tx)) e) as [s d] eqn:E.
    destruct s as [[| | | | | | |st]|];
      try (injection H as Hv Hd; subst v d; rewrite (IH _ Hn eq_refl); reflexivity).
    destruct (field_of M st f) as [[pub tf]|] eqn:Ef.
    + injection H as Hv Hd; subst v. apply app_nil2 in Hd as [-> Hpv]. rewrite (IH _ Hn eq_refl), Ef.
      unfold tc_field_priv in *. destruct (q_field_unimported Q); [| rewrite Hpv; reflexivity].
      destruct (Nat.eq_dec st x) as [-> | Hne].
      * rewrite lookup_bind_eq in Hpv. discriminate Hpv.
      * rewrite lookup_bind_neq in Hpv; auto. rewrite Hpv; reflexivity.
    + injection H as Hv Hd. apply app_nil2 in Hd as [_ Hd]; discriminate Hd.
  - intros f a IH v Hn H. rewrite tc_call_eq in *. cbn [fv_expr] in Hn. destruct (assoc f F) as [[ps r]|]; auto.
    injection H as Hv Hd; subst v. rewrite (IH _ Hn Hd); reflexivity.
  - intros l IHl i IHi j IHj v Hn H. rewrite tc_slice_eq in *. cbn [fv_expr] in Hn.
    destruct (tc_expr Q M F (bind G x (BVar tx)) l) as [a d1] eqn:El.
    destruct (tc_expr Q M F (bind G x (BVar tx)) i) as [ti d2] eqn:Ei.
    destruct (tc_expr Q M F (bind G x (BVar tx)) j) as [tj d3] eqn:Ej. injection H as Hv Hd.
    apply app_nil2 in Hd as [-> Hd]. apply app_nil2 in Hd as [-> Hd]. apply app_nil2 in Hd as [-> Hd].
    rewrite (IHl _ (fun Hi => Hn (in_or_app _ _ _ (or_introl Hi))) eq_refl),
            (IHi _ (fun Hi => Hn (in_or_app _ _ _ (or_intror (in_or_app _ _ _ (or_introl Hi))))) eq_refl),
            (IHj _ (fun Hi => Hn (in_or_app _ _ _ (or_intror (in_or_app _ _ _ (or_intror Hi))))) eq_refl).
    subst v. rewrite Hd. reflexivity.
  - intros e IHe a IHa v Hn H. rewrite tc_list_eq in *. cbn [fv_expr] in Hn.
    destruct (tc_expr Q M F (bind G x (BVar tx)) e) as [t d] eqn:Ee. destruct t as [t0|].
    + injection H as Hv Hd. apply app_nil2 in Hd as [-> Hd]. apply app_nil2 in Hd as [Hl Ha].
      rewrite (IHe _ (fun Hi => Hn (in_or_app _ _ _ (or_introl Hi))) eq_refl), Hl,
              (IHa _ (fun Hi => Hn (in_or_app _ _ _ (or_intror Hi))) Ha). subst v. reflexivity.
    + injection H as _ Hd. apply app_nil2 in Hd as [_ Hd]. discriminate Hd.
  - intros ps _ H; exact H.
  - intros e IHe a IHa ps Hn H. destruct ps as [| [t r] ps]; auto.
    rewrite tc_args_cons in *. cbn in Hn.
    destruct (tc_expr Q M F (bind G x (BVar tx)) e) as [t0 d] eqn:E.
    apply app_nil2 in H as [-> H]. apply app_nil2 in H as [Ht Ha].
    rewrite (IHe _ (fun Hi => Hn (in_or_app _ _ _ (or_introl Hi))) eq_refl), Ht.
    rewrite (IHa _ (fun Hi => Hn (in_or_app _ _ _ (or_intror Hi))) Ha). reflexivity.
Qed.

(* ---- the resolver only depends on the bindings of the variables of the expression -------------- *)
Lemma rs_ext : forall G1 G2,
  (forall e, (forall y, In y (fv_expr e) -> lookup G1 y = lookup G2 y) -> rs_expr G1 e = rs_expr G2 e) /\
  (forall a, (forall y, In y (fv_args a) -> lookup G1 y = lookup G2 y) -> rs_args G1 a = rs_args G2 a).
Proof.
  intros G1 G2; apply expr_args_ind; cbn; intros; auto.
  - unfold rs_ident. rewrite H; auto.
  - rewrite H, H0; auto; intros y Hy; apply H1; apply in_or_app; auto.
  - rewrite H, H0, H1; auto; intros y Hy; apply H2; apply in_or_app; auto; right; apply in_or_app; auto.
  - rewrite H, H0; auto; intros y Hy; apply H1; apply in_or_app; auto.
  - rewrite H, H0; auto; intros y Hy; apply H1; apply in_or_app; auto.
Qed.

(* ---- unfolding equations (the mutual fixpoints do not refold under cbn) -------------------------- *)
Lemma ck_var_eq : forall F G d r a t x e, ck_stmt Q M F G d r (SVar a t x e) =
  (let (G', dd) := insert G x (BVar t) in
   ((pt_type G t ++ art_diag M t a ++ pt_expr F G e) ++ rs_expr G e ++ dd ++
    tcs_stmt Q M (q_tc_by_name Q) F (if q_tc_by_name Q then G' else G) r (SVar a t x e), G')).
Proof. reflexivity. Qed.
Lemma ck_const_eq : forall F G d r a x l, ck_stmt Q M F G d r (SConst a x l) =
  (let (G', dd) := insert G x (BConst (lit_ty l)) in (unless (article_eqb a Die) DArticle ++ dd, G')).
Proof. reflexivity. Qed.
Lemma ck_assign_eq : forall F G d r x e, ck_stmt Q M F G d r (SAssign x e) =
  ((pt_expr F G e ++ match lookup G x with Some (BVar _) | None => [] | Some _ => [DConstAssign] end) ++
   (match lookup G x with None => [DUndef] | Some (BVar _) => [] | Some (BConst _) => [DConstAssign] | Some _ => [DNotVar] end ++ rs_expr G e) ++
   tcs_stmt Q M (q_tc_by_name Q) F G r (SAssign x e), G).
Proof. reflexivity. Qed.
Lemma ck_assignidx_eq : forall F G d r x i e, ck_stmt Q M F G d r (SAssignIdx x i e) =
  ((pt_expr F G e ++ match lookup G x with Some (BVar _) | None => [] | Some _ => [DConstAssign] end ++ pt_expr F G i) ++
   (rs_ident G x ++ rs_expr G i ++ rs_expr G e) ++ tcs_stmt Q M (q_tc_by_name Q) F G r (SAssignIdx x i e), G).
Proof. reflexivity. Qed.
Lemma ck_assignfield_eq : forall F G d r f x e, ck_stmt Q M F G d r (SAssignField f x e) =
  ((pt_expr F G e ++
    (if q_field_name_lookup Q then match lookup G f with Some (BVar _) | None => [] | Some _ => [DConstAssign] end else []) ++
    match lookup G x with Some (BVar _) | None => [] | Some _ => [DConstAssign] end) ++
   (rs_ident G x ++ rs_expr G e) ++ tcs_stmt Q M (q_tc_by_name Q) F G r (SAssignField f x e), G).
Proof. reflexivity. Qed.
Lemma ck_foreach_eq : forall F G d r a t x e b, ck_stmt Q M F G d r (SForEach a t x e b) =
  (let (d1, _) := ck_block Q M F (bind (push G) x (BVar t)) (S d) r b in
   ((pt_type G t ++ art_diag M t a ++ pt_expr F G e) ++ d1 ++ rs_expr G e ++
    tcs_stmt Q M (q_tc_by_name Q) F G r (SForEach a t x e b), G)).
Proof. reflexivity. Qed.
Lemma ck_repeat_eq : forall F G d r b n, ck_stmt Q M F G d r (SRepeat b n) =
  (let (d1, _) := ck_block Q M F (push G) (S d) r b in
   (d1 ++ pt_expr F G n ++ rs_expr G n ++ tcs_stmt Q M (q_tc_by_name Q) F G r (SRepeat b n), G)).
Proof. reflexivity. Qed.
Lemma ck_dowhile_eq : forall F G d r b c, ck_stmt Q M F G d r (SDoWhile b c) =
  (let (d1, _) := ck_block Q M F (push G) (S d) r b in
   (d1 ++ pt_expr F G c ++ rs_expr G c ++ tcs_stmt Q M (q_tc_by_name Q) F G r (SDoWhile b c), G)).
Proof. reflexivity. Qed.
Lemma tcs_assignidx_eq : forall deep F G r x i e, tcs_stmt Q M deep F G r (SAssignIdx x i e) =
  (let (t0, d) := tc_expr Q M F G e in
   let (ti, di) := tc_expr Q M F G i in
   let (tx, _) := tc_expr Q M F G (EVar x) in
   d ++ di ++ unless (vindex ti) DTypeOp ++ unless (vseq tx) DTypeOp ++
   unless (vassign_ok t0 (match tx with Some (TList t) => Some t | _ => Some TChar end)) DTypeAssign).
Proof. reflexivity. Qed.
Lemma tcs_assignfield_eq : forall deep F G r f x e, tcs_stmt Q M deep F G r (SAssignField f x e) =
  (let (t0, d) := tc_expr Q M F G e in
   let (tf, df) := tc_expr Q M F G (EField f (EVar x)) in
   d ++ df ++ unless (match tf with Some _ => true | None => false end) DNoField ++ unless (vassign_ok t0 tf) DTypeAssign).
Proof. reflexivity. Qed.
Lemma tcs_foreach_eq : forall deep F G r a t x e b, tcs_stmt Q M deep F G r (SForEach a t x e b) =
  tc_iter Q M F G e t ++ (if deep then tcs_block Q M deep F (final_scope [(x, BVar t)] b :: G) r b else []).
Proof. reflexivity. Qed.
Lemma tcs_repeat_eq : forall deep F G r b n, tcs_stmt Q M deep F G r (SRepeat b n) =
  (let (tn, d) := tc_expr Q M F G n in d ++ unless (vindex tn) DTypeOp) ++
  (if deep then tcs_block Q M deep F (final_scope [] b :: G) r b else []).
Proof. reflexivity. Qed.
Lemma tcs_dowhile_eq : forall deep F G r b c, tcs_stmt Q M deep F G r (SDoWhile b c) =
  tc_cond Q M F G c ++ (if deep then tcs_block Q M deep F (final_scope [] b :: G) r b else []).
Proof. reflexivity. Qed.
Lemma ck_if_eq : forall F G d r c th el, ck_stmt Q M F G d r (SIf c th el) =
  (let (d1, _) := ck_block Q M F (push G) d r th in
   let (d2, _) := ck_block Q M F (push G) d r el in
   (pt_expr F G c ++ d1 ++ d2 ++ rs_expr G c ++ tcs_stmt Q M (q_tc_by_name Q) F G r (SIf c th el), G)).
Proof. reflexivity. Qed.
Lemma ck_while_eq : forall F G d r c b, ck_stmt Q M F G d r (SWhile c b) =
  (let (d1, _) := ck_block Q M F (push G) (S d) r b in
   (pt_expr F G c ++ d1 ++ rs_expr G c ++ tcs_stmt Q M (q_tc_by_name Q) F G r (SWhile c b), G)).
Proof. reflexivity. Qed.
Lemma ck_for_eq : forall F G d r a t x from to step b, ck_stmt Q M F G d r (SFor a t x from to step b) =
  (let (d1, Gb) := ck_block Q M F (bind (push G) x (BVar t)) (S d) r b in
   ((pt_type G t ++ art_diag M t a ++ pt_expr F G from ++ pt_expr F G to ++ pt_opt F G step) ++ d1 ++
    (rs_expr (if q_tc_by_name Q then Gb else G) from ++ rs_expr (if q_tc_by_name Q then Gb else G) to ++
     rs_opt (if q_tc_by_name Q then Gb else G) step) ++
    tcs_stmt Q M (q_tc_by_name Q) F G r (SFor a t x from to step b), G)).
Proof. reflexivity. Qed.
Lemma ck_return_eq : forall F G d r oe, ck_stmt Q M F G d r (SReturn oe) =
  ((pt_opt F G oe ++ match r with RGlobal => [DGlobalReturn] | RFun _ => [] end) ++ rs_opt G oe ++
   tcs_stmt Q M (q_tc_by_name Q) F G r (SReturn oe), G).
Proof. reflexivity. Qed.
Lemma ck_blockstmt_eq : forall F G d r b, ck_stmt Q M F G d r (SBlock b) =
  (let (d1, _) := ck_block Q M F (push G) d r b in (d1 ++ tcs_stmt Q M (q_tc_by_name Q) F G r (SBlock b), G)).
Proof. reflexivity. Qed.
Lemma ck_call_eq : forall F G d r f a, ck_stmt Q M F G d r (SCall f a) =
  (pt_expr F G (ECall f a) ++ rs_args G a ++ tcs_stmt Q M (q_tc_by_name Q) F G r (SCall f a), G).
Proof. reflexivity. Qed.
Lemma ck_cons_eq : forall F G d r s b, ck_block Q M F G d r (BCons s b) =
  (let (d1, G1) := ck_stmt Q M F G d r s in let (d2, G2) := ck_block Q M F G1 d r b in (d1 ++ d2, G2)).
Proof. reflexivity. Qed.

Lemma tcs_var_eq : forall deep F G r a t x e, tcs_stmt Q M deep F G r (SVar a t x e) = tc_init Q M F G e t.
Proof. reflexivity. Qed.
Lemma tcs_assign_eq : forall deep F G r x e, tcs_stmt Q M deep F G r (SAssign x e) =
  (let (t0, d) := tc_expr Q M F G e in
   let (tx, _) := tc_expr Q M F G (EVar x) in d ++ unless (vassign_ok t0 tx) DTypeAssign).
Proof. reflexivity. Qed.
Lemma tcs_return_eq : forall deep F G r oe, tcs_stmt Q M deep F G r (SReturn oe) = tc_return Q M F G r oe.
Proof. reflexivity. Qed.
Lemma tcs_call_eq : forall deep F G r f a, tcs_stmt Q M deep F G r (SCall f a) = snd (tc_expr Q M F G (ECall f a)).
Proof. reflexivity. Qed.
Lemma tcs_if_eq : forall deep F G r c th el, tcs_stmt Q M deep F G r (SIf c th el) =
  tc_cond Q M F G c ++
  (if deep then tcs_block Q M deep F (final_scope [] th :: G) r th ++ tcs_block Q M deep F (final_scope [] el :: G) r el else []).
Proof. reflexivity. Qed.
Lemma tcs_while_eq : forall deep F G r c b, tcs_stmt Q M deep F G r (SWhile c b) =
  tc_cond Q M F G c ++ (if deep then tcs_block Q M deep F (final_scope [] b :: G) r b else []).
Proof. reflexivity. Qed.
Lemma tcs_for_eq : forall deep F G r a t x from to step b, tcs_stmt Q M deep F G r (SFor a t x from to step b) =
  tc_init Q M F G from t ++ unless (numeric t) DTypeFor ++ tc_numeric Q M F G to ++
  match step with Some e => tc_numeric Q M F G e | None => [] end ++
  (if deep then tcs_block Q M deep F (final_scope [(x, BVar t)] b :: G) r b else []).
Proof. reflexivity. Qed.
Lemma tcs_blockstmt_eq : forall deep F G r b, tcs_stmt Q M deep F G r (SBlock b) =
  (if deep then tcs_block Q M deep F (final_scope [] b :: G) r b else []).
Proof. reflexivity. Qed.
Lemma tcs_cons_eq : forall deep F G r s b, tcs_block Q M deep F G r (BCons s b) =
  tcs_stmt Q M deep F G r s ++ tcs_block Q M deep F G r b.
Proof. reflexivity. Qed.

(* ---- shape of the tables the statement checker returns ------------------------------------------ *)
Lemma insert_shape : forall G x b G' dd, insert G x b = (G', dd) -> dd = [] -> in_top G x = false /\ G' = bind G x b.
Proof. intros G x b G' dd H Hd; unfold insert in H; destruct (in_top G x); inversion H; subst; [discriminate | auto]. Qed.

Lemma assoc_names : forall (sc : scope) y, assoc y sc <> None <-> In y (map fst sc).
Proof.
  induction sc as [| [z b] sc IH]; intros y; cbn.
  - split; [intros H; contradiction | intros []].
  - destruct (Nat.eqb y z) eqn:E.
    + apply Nat.eqb_eq in E; subst. split; [auto | intros _ H; discriminate H].
    + rewrite IH. split; [auto |]. intros [H | H]; auto. subst. rewrite Nat.eqb_refl in E; discriminate E.
Qed.

(* the table a block leaves: same enclosing chain, head extended by names the block declares *)
Definition grows (G G' : env) (names : list name) : Prop :=
  match G, G' with
  | sc :: r, sc' :: r' => r' = r /\ forall y, In y (map fst sc') -> In y (map fst sc) \/ In y names
  | _, _ => False
  end.

Lemma grows_refl : forall sc r l, grows (sc :: r) (sc :: r) l.
Proof. intros; cbn; auto. Qed.

Definition decl_of (s : stmt) : option (name * binding) :=
  match s with
  | SVar _ t x _ => Some (x, BVar t)
  | SConst _ x l => Some (x, BConst (lit_ty l))
  | _ => None
  end.

Lemma ck_stmt_env : forall F s G d r ds G', ck_stmt Q M F G d r s = (ds, G') ->
  G' = G \/ exists x b, decl_of s = Some (x, b) /\ G' = bind G x b.
Proof.
  intros F s G d r ds G' H. destruct s.
  - rewrite ck_var_eq in H. destruct (insert G x (BVar t)) as [G1 dd] eqn:E. injection H as _ <-. unfold insert in E.
    destruct (in_top G x); injection E as <- _; auto. right; exists x, (BVar t); split; auto.
  - rewrite ck_const_eq in H. destruct (insert G x (BConst (lit_ty l))) as [G1 dd] eqn:E. injection H as _ <-. unfold insert in E.
    destruct (in_top G x); injection E as <- _; auto. right; exists x, (BConst (lit_ty l)); split; auto.
  - rewrite ck_assign_eq in H. injection H as _ <-; auto.
  - rewrite ck_assignidx_eq in H. injection H as _ <-; auto.
  - rewrite ck_assignfield_eq in H. injection H as _ <-; auto.
  - rewrite ck_if_eq in H. destruct (ck_block Q M F (push G) d r th), (ck_block Q M F (push G) d r el). injection H as _ <-; auto.
  - rewrite ck_while_eq in H. destruct (ck_block Q M F (push G) (S d) r b). injection H as _ <-; auto.
  - rewrite ck_for_eq in H. destruct (ck_block Q M F (bind (push G) x (BVar t)) (S d) r b). injection H as _ <-; auto.
  - rewrite ck_foreach_eq in H. destruct (ck_block Q M F (bind (push G) x (BVar t)) (S d) r b). injection H as _ <-; auto.
  - rewrite ck_repeat_eq in H. destruct (ck_block Q M F (push G) (S d) r b). injection H as _ <-; auto.
  - rewrite ck_dowhile_eq in H. destruct (ck_block Q M F (push G) (S d) r b). injection H as _ <-; auto.
  - cbn in H. injection H as _ <-; auto.
  - cbn in H. injection H as _ <-; auto.
  - rewrite ck_return_eq in H. injection H as _ <-; auto.
  - rewrite ck_blockstmt_eq in H. destruct (ck_block Q M F (push G) d r b). injection H as _ <-; auto.
  - rewrite ck_call_eq in H. injection H as _ <-; auto.
Qed.

Lemma block_decls_cons : forall s b, block_decls (BCons s b) =
  match decl_of s with Some (x, _) => x :: block_decls b | None => block_decls b end.
Proof. intros s b; destruct s; reflexivity. Qed.

Lemma ck_block_grows : forall F b sc r0 d r ds G', ck_block Q M F (sc :: r0) d r b = (ds, G') ->
  grows (sc :: r0) G' (block_decls b).
Proof.
  intros F; induction b as [| s b IH]; intros sc r0 d r ds G' H.
  - cbn in H. injection H as _ <-. apply grows_refl.
  - rewrite ck_cons_eq in H. destruct (ck_stmt Q M F (sc :: r0) d r s) as [d1 G1] eqn:E1.
    destruct (ck_block Q M F G1 d r b) as [d2 G2] eqn:E2. injection H as _ <-.
    rewrite block_decls_cons.
    apply ck_stmt_env in E1 as [-> | [x [bd [Hs ->]]]].
    + apply IH in E2. destruct G2 as [| sc' r']; cbn in *; auto. destruct E2 as [-> E2]. split; auto.
      intros y Hy. destruct (E2 y Hy); auto. right. destruct (decl_of s) as [[? ?]|]; cbn; auto.
    + cbn [bind] in E2. apply IH in E2. destruct G2 as [| sc' r']; cbn in *; auto. destruct E2 as [-> E2]. split; auto.
      rewrite Hs. intros y Hy. destruct (E2 y Hy) as [[<- | Hy'] | Hy']; cbn; auto.
Qed.

Lemma lookup_skip : forall (sc : scope) r y, ~ In y (map fst sc) -> lookup (sc :: r) y = lookup r y.
Proof.
  intros sc r y H; cbn. destruct (assoc y sc) eqn:E; auto.
  exfalso; apply H. apply assoc_names. congruence.
Qed.

(* ---- statements ------------------------------------------------------------------------------- *)
Lemma tc_cond_sound : forall F G c, pt_expr F G c = [] -> rs_expr G c = [] -> gde c = true -> tc_cond Q M F G c = [] ->
  has_typeb M F G c TBool = true.
Proof.
  intros F G c Hp Hr Hg H. unfold tc_cond in H. destruct (tc_expr Q M F G c) as [t d] eqn:E.
  apply app_nil2 in H as [-> Hb]. apply unless_nil in Hb.
  destruct t as [[| | | | | | |]|]; try discriminate Hb.
  pose proof (proj1 (tc_sound F G) _ _ Hp Hr Hg E) as Ht. cbn in Ht. unfold has_typeb. rewrite Ht. reflexivity.
Qed.

Lemma vassign_some : forall t0 t, vassign_ok t0 (Some t) = true -> exists s, t0 = Some s /\ assignableb s t = true.
Proof.
  intros [s|] t H; unfold vassign_ok in H; cbn in H.
  - exists s; split; auto. unfold assignableb. apply orb_true_iff in H as [H | H].
    + apply ty_eqb_eq in H; subst. rewrite ty_eqb_refl; reflexivity.
    + apply andb_true_iff in H as [H1 H2]. rewrite H1, H2. apply orb_true_r.
  - rewrite andb_false_r in H. discriminate H.
Qed.

Lemma tc_init_sound : forall F G e t, pt_expr F G e = [] -> rs_expr G e = [] -> gde e = true -> tc_init Q M F G e t = [] ->
  assign_chk M F G e t = true.
Proof.
  intros F G e t Hp Hr Hg H. unfold tc_init in H. destruct (tc_expr Q M F G e) as [t0 d] eqn:E.
  apply app_nil2 in H as [-> Hb]. apply unless_nil in Hb. apply vassign_some in Hb as [s [-> Hs]].
  pose proof (proj1 (tc_sound F G) _ _ Hp Hr Hg E) as Ht. cbn in Ht. unfold assign_chk. rewrite Ht. auto.
Qed.

Lemma tc_init_sound_nors : q_void_eq Q = false -> forall F G e t, pt_expr F G e = [] -> gde e = true ->
  tc_init Q M F G e t = [] -> assign_chk M F G e t = true.
Proof.
  intros Hq F G e t Hp Hg H. unfold tc_init in H. destruct (tc_expr Q M F G e) as [t0 d] eqn:E.
  apply app_nil2 in H as [-> Hb]. apply unless_nil in Hb. apply vassign_some in Hb as [s [-> Hs]].
  pose proof (proj1 (tc_sound_nors Hq F G) _ _ Hp Hg E) as Ht. unfold assign_chk. rewrite Ht. auto.
Qed.

Lemma tc_numeric_sound : forall F G e, pt_expr F G e = [] -> rs_expr G e = [] -> gde e = true -> tc_numeric Q M F G e = [] ->
  numericb_expr M F G e = true.
Proof.
  intros F G e Hp Hr Hg H. unfold tc_numeric in H. destruct (tc_expr Q M F G e) as [t0 d] eqn:E.
  apply app_nil2 in H as [-> Hb]. apply unless_nil in Hb. destruct t0 as [s|]; [| discriminate Hb].
  pose proof (proj1 (tc_sound F G) _ _ Hp Hr Hg E) as Ht. cbn in Ht. unfold numericb_expr. rewrite Ht. auto.
Qed.

Lemma tc_numeric_sound_nors : q_void_eq Q = false -> forall F G e, pt_expr F G e = [] -> gde e = true ->
  tc_numeric Q M F G e = [] -> numericb_expr M F G e = true.
Proof.
  intros Hq F G e Hp Hg H. unfold tc_numeric in H. destruct (tc_expr Q M F G e) as [t0 d] eqn:E.
  apply app_nil2 in H as [-> Hb]. apply unless_nil in Hb. destruct t0 as [s|]; [| discriminate Hb].
  pose proof (proj1 (tc_sound_nors Hq F G) _ _ Hp Hg E) as Ht. unfold numericb_expr. rewrite Ht. auto.
Qed.

Lemma disjointb_spec : forall l1 l2 y, disjointb l1 l2 = true -> In y l1 -> ~ In y l2.
Proof.
  intros l1 l2 y H Hy. unfold disjointb in H. rewrite forallb_forall in H. apply H in Hy.
  apply negb_true_iff in Hy. apply mem_false; auto.
Qed.

Lemma ck_sound : forall F,
  (forall s G d r G', ck_stmt Q M F G d r s = ([], G') -> gd_stmt Q M s = true -> stmt_chk M F G d r s = Some G') /\
  (forall b G d r G', ck_block Q M F G d r b = ([], G') -> gd_block Q M b = true -> block_chk M F G d r b = Some G').
Proof.
  intros F; apply stmt_block_ind.
  - (* SVar *)
    intros a t x e G d r G' H Hg. rewrite ck_var_eq in H. cbn in Hg. apply andb_true_iff in Hg as [Hge Hgx].
    destruct (insert G x (BVar t)) as [G1 dd] eqn:Ei. injection H as Hd HG; subst G1.
    apply app_nil2 in Hd as [Hp Hd]. apply app_nil2 in Hd as [Hr Hd]. apply app_nil2 in Hd as [-> Ht].
    apply insert_shape in Ei as [Hin ->]; auto.
    apply app_nil2 in Hp as [Hpt Hp]. apply app_nil2 in Hp as [Hpa Hpe]. unfold pt_type in Hpt. apply unless_nil in Hpt.
    rewrite tcs_var_eq in Ht.
    assert (Hinit : tc_init Q M F G e t = []).
    { destruct (q_tc_by_name Q) eqn:Eq; auto.
      apply negb_true_iff in Hgx. apply mem_false in Hgx.
      unfold tc_init in *. destruct (tc_expr Q M F (bind G x (BVar t)) e) as [t0 d0] eqn:E.
      apply app_nil2 in Ht as [-> Ht]. rewrite (proj1 (tc_bind_inv F G x t) _ _ Hgx E). auto. }
    cbn. rewrite Hpt, (tc_init_sound _ _ _ _ Hpe Hr Hge Hinit), Hin.
    unfold art_diag in Hpa. unfold genderb. destruct (gender M t) as [g|] eqn:Eg.
    + apply unless_nil in Hpa. rewrite Hpa. reflexivity.
    + discriminate Hpa.
  - (* SConst *)
    intros a x l G d r G' H _. rewrite ck_const_eq in H.
    destruct (insert G x (BConst (lit_ty l))) as [G1 dd] eqn:Ei. injection H as Hd HG; subst G1.
    apply app_nil2 in Hd as [Ha ->]. apply unless_nil in Ha. apply insert_shape in Ei as [Hin ->]; auto.
    cbn. rewrite Ha, Hin. reflexivity.
  - (* SAssign *)
    intros x e G d r G' H Hg. rewrite ck_assign_eq in H. cbn in Hg. injection H as Hd <-.
    apply app_nil2 in Hd as [Hp Hd]. apply app_nil2 in Hd as [Hr Ht]. apply app_nil2 in Hp as [Hpe _].
    apply app_nil2 in Hr as [Hx Hre].
    destruct (lookup G x) as [[t| | |]|] eqn:El; try discriminate Hx.
    rewrite tcs_assign_eq in Ht. destruct (tc_expr Q M F G e) as [t0 d0] eqn:E. cbn [tc_expr] in Ht. rewrite El in Ht.
    apply app_nil2 in Ht as [-> Hv]. apply unless_nil in Hv. apply vassign_some in Hv as [s [-> Hs]].
    pose proof (proj1 (tc_sound F G) _ _ Hpe Hre Hg E) as Hty. cbn in Hty.
    cbn. rewrite El. unfold assign_chk. rewrite Hty, Hs. reflexivity.
  - (* SAssignIdx *)
    intros x i e G d r G' H Hg. rewrite ck_assignidx_eq in H. cbn in Hg. apply andb_true_iff in Hg as [Hgi Hge].
    injection H as Hd <-. apply app_nil2 in Hd as [Hp Hd]. apply app_nil2 in Hd as [Hr Ht].
    apply app_nil2 in Hp as [Hpe Hp]. apply app_nil2 in Hp as [Hc Hpi].
    apply app_nil2 in Hr as [Hx Hr]. apply app_nil2 in Hr as [Hri Hre]. unfold rs_ident in Hx.
    destruct (lookup G x) as [[tx| | |]|] eqn:El; try discriminate Hx; try discriminate Hc.
    rewrite tcs_assignidx_eq in Ht. destruct (tc_expr Q M F G e) as [t0 d0] eqn:Ee. destruct (tc_expr Q M F G i) as [ti di] eqn:Ei.
    cbn [tc_expr] in Ht. rewrite El in Ht.
    apply app_nil2 in Ht as [-> Ht]. apply app_nil2 in Ht as [-> Ht]. apply app_nil2 in Ht as [H1 Ht]. apply app_nil2 in Ht as [H2 H3].
    apply unless_nil in H1. apply unless_nil in H2. apply unless_nil in H3. cbn in H2.
    apply vindex_some in H1 as [t1 [-> Ht1]].
    pose proof (proj1 (tc_sound F G) _ _ Hpi Hri Hgi Ei) as Hti. cbn in Hti.
    destruct tx; try discriminate H2; cbn in H3; apply vassign_some in H3 as [s [-> Hs]];
      pose proof (proj1 (tc_sound F G) _ _ Hpe Hre Hge Ee) as Hte; cbn in Hte;
      cbn; rewrite El; cbn; unfold indexb_expr, assign_chk; rewrite Hti, Hte, Ht1; cbn; rewrite Hs; reflexivity.
  - (* SAssignField *)
    intros f x e G d r G' H Hg. rewrite ck_assignfield_eq in H. cbn in Hg. apply andb_true_iff in Hg as [Hge Hgf].
    injection H as Hd <-. apply app_nil2 in Hd as [Hp Hd]. apply app_nil2 in Hd as [Hr Ht].
    apply app_nil2 in Hp as [Hpe Hc]. apply app_nil2 in Hc as [_ Hc]. apply app_nil2 in Hr as [Hx Hre].
    rewrite tcs_assignfield_eq in Ht. destruct (tc_expr Q M F G e) as [t0 d0] eqn:Ee.
    destruct (tc_expr Q M F G (EField f (EVar x))) as [tf df] eqn:Ef.
    apply app_nil2 in Ht as [-> Ht]. apply app_nil2 in Ht as [-> Ht]. apply app_nil2 in Ht as [H1 H2].
    apply unless_nil in H1. apply unless_nil in H2. destruct tf as [tf|]; [| discriminate H1].
    apply vassign_some in H2 as [s [-> Hs]].
    pose proof (proj1 (tc_sound F G) _ _ Hpe Hre Hge Ee) as Hte. cbn in Hte.
    assert (Hgfe : gd_expr Q M (EField f (EVar x)) = true) by (cbn; exact Hgf).
    assert (Hrf : rs_expr G (EField f (EVar x)) = []) by (cbn; exact Hx).
    pose proof (proj1 (tc_sound F G) (EField f (EVar x)) _ eq_refl Hrf Hgfe Ef) as Htf. cbn in Htf.
    unfold rs_ident in Hx. cbn.
    destruct (lookup G x) as [[tx| | |]|] eqn:El; try discriminate Hx; try discriminate Hc.
    destruct tx as [| | | | | | |st]; try discriminate Htf.
    destruct (field_of M st f) as [[[|] tf']|]; try discriminate Htf. injection Htf as ->.
    unfold assign_chk. rewrite Hte, Hs. reflexivity.
  - (* SIf *)
    intros c th IHth el IHel G d r G' H Hg. rewrite ck_if_eq in H. cbn in Hg.
    apply andb_true_iff in Hg as [Hg Hgel]. apply andb_true_iff in Hg as [Hgc Hgth].
    destruct (ck_block Q M F (push G) d r th) as [d1 G1] eqn:E1.
    destruct (ck_block Q M F (push G) d r el) as [d2 G2] eqn:E2. injection H as Hd <-.
    apply app_nil2 in Hd as [Hp Hd]. apply app_nil2 in Hd as [-> Hd]. apply app_nil2 in Hd as [-> Hd].
    apply app_nil2 in Hd as [Hr Ht]. rewrite tcs_if_eq in Ht. apply app_nil2 in Ht as [Hc _].
    cbn. rewrite (tc_cond_sound _ _ _ Hp Hr Hgc Hc), (IHth _ _ _ _ E1 Hgth), (IHel _ _ _ _ E2 Hgel). reflexivity.
  - (* SWhile *)
    intros c b IHb G d r G' H Hg. rewrite ck_while_eq in H. cbn in Hg. apply andb_true_iff in Hg as [Hgc Hgb].
    destruct (ck_block Q M F (push G) (S d) r b) as [d1 G1] eqn:E1. injection H as Hd <-.
    apply app_nil2 in Hd as [Hp Hd]. apply app_nil2 in Hd as [-> Hd]. apply app_nil2 in Hd as [Hr Ht].
    rewrite tcs_while_eq in Ht. apply app_nil2 in Ht as [Hc _].
    cbn. rewrite (tc_cond_sound _ _ _ Hp Hr Hgc Hc), (IHb _ _ _ _ E1 Hgb). reflexivity.
  - (* SFor *)
    intros a t x from to step b IHb G d r G' H Hg. rewrite ck_for_eq in H. cbn in Hg.
    apply andb_true_iff in Hg as [Hg Hgd]. apply andb_true_iff in Hg as [Hg Hgb]. apply andb_true_iff in Hg as [Hg Hgs].
    apply andb_true_iff in Hg as [Hgf Hgt].
    destruct (ck_block Q M F (bind (push G) x (BVar t)) (S d) r b) as [d1 Gb] eqn:E1. injection H as Hd <-.
    apply app_nil2 in Hd as [Hp Hd]. apply app_nil2 in Hd as [-> Hd]. apply app_nil2 in Hd as [Hr Ht].
    apply app_nil2 in Hp as [Hpt Hp]. apply app_nil2 in Hp as [Hpa Hp]. apply app_nil2 in Hp as [Hpf Hp].
    apply app_nil2 in Hp as [Hpto Hps]. unfold pt_type in Hpt. apply unless_nil in Hpt.
    apply app_nil2 in Hr as [Hrf Hr]. apply app_nil2 in Hr as [Hrt Hrs].
    rewrite tcs_for_eq in Ht. apply app_nil2 in Ht as [Hti Ht]. apply app_nil2 in Ht as [Hn Ht]. apply unless_nil in Hn.
    apply app_nil2 in Ht as [Htt Ht]. apply app_nil2 in Ht as [Hts _].
    assert (Hfrom : assign_chk M F G from t = true /\ numericb_expr M F G to = true /\
                    match step with Some e => numericb_expr M F G e | None => true end = true).
    { destruct (q_void_eq Q) eqn:Hq.
      - (* the bounds do not mention names of the body's table: resolving there is resolving here *)
        assert (Hres : rs_expr G from = [] /\ rs_expr G to = [] /\ rs_opt G step = []).
        { destruct (q_tc_by_name Q); [| auto].
          pose proof (ck_block_grows _ _ _ _ _ _ _ _ E1) as Hgr. cbn [bind push] in Hgr.
          destruct Gb as [| scb rb]; [contradiction |]. destruct Hgr as [-> Hnames].
          assert (Hsame : forall y, In y (fv_expr from ++ fv_expr to ++ fv_opt step) -> lookup (scb :: G) y = lookup G y).
          { intros y Hy. apply lookup_skip. intros Hin. apply Hnames in Hin.
            apply (disjointb_spec _ _ _ Hgd Hy). cbn in Hin. destruct Hin as [[<- | []] | Hin]; [left | right]; auto. }
          rewrite (proj1 (rs_ext (scb :: G) G) from) in Hrf by (intros y Hy; apply Hsame; apply in_or_app; auto).
          rewrite (proj1 (rs_ext (scb :: G) G) to) in Hrt by (intros y Hy; apply Hsame; apply in_or_app; right; apply in_or_app; auto).
          split; [auto | split; [auto |]]. destruct step as [e|]; auto. cbn in *.
          rewrite (proj1 (rs_ext (scb :: G) G) e) in Hrs by (intros y Hy; apply Hsame; apply in_or_app; right; apply in_or_app; auto).
          auto. }
        destruct Hres as [Hrf' [Hrt' Hrs']].
        split; [apply tc_init_sound; auto | split; [apply tc_numeric_sound; auto |]].
        destruct step as [e|]; auto. cbn in *.
        apply tc_numeric_sound; auto.
      - split; [apply tc_init_sound_nors; auto | split; [apply tc_numeric_sound_nors; auto |]].
        destruct step as [e|]; auto. cbn in *. apply tc_numeric_sound_nors; auto. }
    destruct Hfrom as [Hf1 [Hf2 Hf3]].
    cbn [stmt_chk]. rewrite Hpt, Hn, Hf1, Hf2, Hf3, (IHb _ _ _ _ E1 Hgb).
    unfold art_diag in Hpa. unfold genderb. destruct (gender M t) as [g|] eqn:Eg; [| discriminate Hpa].
    apply unless_nil in Hpa. rewrite Hpa. reflexivity.
  - (* SForEach *)
    intros a t x e b IHb G d r G' H Hg. rewrite ck_foreach_eq in H. cbn in Hg. apply andb_true_iff in Hg as [Hge Hgb].
    destruct (ck_block Q M F (bind (push G) x (BVar t)) (S d) r b) as [d1 Gb] eqn:E1. injection H as Hd <-.
    apply app_nil2 in Hd as [Hp Hd]. apply app_nil2 in Hd as [-> Hd]. apply app_nil2 in Hd as [Hr Ht].
    apply app_nil2 in Hp as [Hpt Hp]. apply app_nil2 in Hp as [Hpa Hpe]. unfold pt_type in Hpt. apply unless_nil in Hpt.
    rewrite tcs_foreach_eq in Ht. apply app_nil2 in Ht as [Hit _]. unfold tc_iter in Hit.
    destruct (tc_expr Q M F G e) as [te de] eqn:Ee. apply app_nil2 in Hit as [-> Hit]. apply unless_nil in Hit.
    destruct te as [te|]; [| discriminate Hit].
    pose proof (proj1 (tc_sound F G) _ _ Hpe Hr Hge Ee) as Hte. cbn in Hte.
    cbn [stmt_chk]. rewrite Hpt, Hte, (IHb _ _ _ _ E1 Hgb).
    unfold art_diag in Hpa. unfold genderb. destruct (gender M t) as [g|] eqn:Eg; [| discriminate Hpa].
    apply unless_nil in Hpa. rewrite Hpa.
    assert (Hi : iter_okb te t = true).
    { unfold iter_okb. destruct te; try discriminate Hit; apply ty_eqb_eq in Hit; subst; apply ty_eqb_refl. }
    rewrite Hi. reflexivity.
  - (* SRepeat *)
    intros b IHb n G d r G' H Hg. rewrite ck_repeat_eq in H. cbn in Hg. apply andb_true_iff in Hg as [Hgb Hgn].
    destruct (ck_block Q M F (push G) (S d) r b) as [d1 Gb] eqn:E1. injection H as Hd <-.
    apply app_nil2 in Hd as [-> Hd]. apply app_nil2 in Hd as [Hp Hd]. apply app_nil2 in Hd as [Hr Ht].
    rewrite tcs_repeat_eq in Ht. apply app_nil2 in Ht as [Hn _].
    destruct (tc_expr Q M F G n) as [tn dn] eqn:En. apply app_nil2 in Hn as [-> Hn]. apply unless_nil in Hn.
    apply vindex_some in Hn as [t1 [-> Ht1]].
    pose proof (proj1 (tc_sound F G) _ _ Hp Hr Hgn En) as Htn. cbn in Htn.
    cbn. rewrite (IHb _ _ _ _ E1 Hgb). unfold indexb_expr. rewrite Htn, Ht1. reflexivity.
  - (* SDoWhile *)
    intros b IHb c G d r G' H Hg. rewrite ck_dowhile_eq in H. cbn in Hg. apply andb_true_iff in Hg as [Hgb Hgc].
    destruct (ck_block Q M F (push G) (S d) r b) as [d1 Gb] eqn:E1. injection H as Hd <-.
    apply app_nil2 in Hd as [-> Hd]. apply app_nil2 in Hd as [Hp Hd]. apply app_nil2 in Hd as [Hr Ht].
    rewrite tcs_dowhile_eq in Ht. apply app_nil2 in Ht as [Hc _].
    cbn. rewrite (IHb _ _ _ _ E1 Hgb), (tc_cond_sound _ _ _ Hp Hr Hgc Hc). reflexivity.
  - (* SBreak *)
    intros G d r G' H _. cbn in *. destruct d; [discriminate H | injection H as <-; reflexivity].
  - (* SContinue *)
    intros G d r G' H _. cbn in *. destruct d; [discriminate H | injection H as <-; reflexivity].
  - (* SReturn *)
    intros oe G d r G' H Hg. rewrite ck_return_eq in H. injection H as Hd <-.
    apply app_nil2 in Hd as [Hp Hd]. apply app_nil2 in Hd as [Hr Ht]. apply app_nil2 in Hp as [Hpe Hrg].
    destruct r as [| rt]; [discriminate Hrg |]. rewrite tcs_return_eq in Ht. unfold tc_return in Ht.
    destruct oe as [e|].
    + cbn in Hg, Hpe, Hr. apply andb_true_iff in Hg as [Hge Hgc].
      destruct (tc_expr Q M F G e) as [t0 d0] eqn:E. apply app_nil2 in Ht as [-> Ht].
      destruct (vty_eqb rt t0) eqn:Ev; [| discriminate Ht]. apply when_nil in Ht.
      pose proof (proj1 (tc_sound F G) _ _ Hpe Hr Hge E) as Hty.
      destruct t0 as [t0|].
      * apply vty_eqb_some in Ev; subst rt. cbn. unfold has_typeb. rewrite Hty, ty_eqb_refl. reflexivity.
      * apply negb_false_iff in Ht. rewrite Ht in Hgc. rewrite Hty in Hgc. discriminate Hgc.
    + apply app_nil2 in Ht as [_ Ht]. destruct (vty_eqb rt None) eqn:Ev; [| discriminate Ht].
      destruct rt; [discriminate Ev | reflexivity].
  - (* SBlock *)
    intros b IHb G d r G' H Hg. rewrite ck_blockstmt_eq in H. cbn in Hg.
    destruct (ck_block Q M F (push G) d r b) as [d1 G1] eqn:E1. injection H as Hd <-.
    apply app_nil2 in Hd as [-> _]. cbn. rewrite (IHb _ _ _ _ E1 Hg). reflexivity.
  - (* SCall *)
    intros f a G d r G' H Hg. rewrite ck_call_eq in H. cbn in Hg. injection H as Hd <-.
    apply app_nil2 in Hd as [Hp Hd]. apply app_nil2 in Hd as [Hr Ht]. rewrite tcs_call_eq, tc_call_eq in Ht.
    cbn [pt_expr] in Hp. cbn [stmt_chk]. destruct (assoc f F) as [[ps ro]|]; [| discriminate Hp].
    cbn in Ht. rewrite (proj2 (tc_sound F G) _ _ Hp Hr Hg Ht). reflexivity.
  - (* BNil *)
    intros G d r G' H _. cbn in *. injection H as <-. reflexivity.
  - (* BCons *)
    intros s IHs b IHb G d r G' H Hg. rewrite ck_cons_eq in H. cbn in Hg. apply andb_true_iff in Hg as [Hgs Hgb].
    destruct (ck_stmt Q M F G d r s) as [d1 G1] eqn:E1. destruct (ck_block Q M F G1 d r b) as [d2 G2] eqn:E2.
    injection H as Hd <-. apply app_nil2 in Hd as [-> ->].
    cbn. rewrite (IHs _ _ _ _ E1 Hgs). apply IHb; auto.
Qed.

(* ---- functions and the top level -------------------------------------------------------------- *)
Lemma dup_names_nil : forall l, dup_names l = [] -> nodupb l = true.
Proof.
  induction l as [| x l IH]; cbn; intros H; auto. apply app_nil2 in H as [H1 H2].
  apply when_nil in H1. rewrite H1, (IH H2). reflexivity.
Qed.

Lemma flat_map_nil : forall {A B} (f : A -> list B) l, flat_map f l = [] -> forall x, In x l -> f x = [].
Proof.
  induction l as [| y l IH]; cbn; intros H x Hx; [contradiction |]. apply app_nil2 in H as [H1 H2].
  destruct Hx as [<- | Hx]; auto.
Qed.

Lemma ck_fun_sound : forall F G f ds G' F', ck_fun Q M F G f = (ds, G', F') -> ds = [] -> gd_block Q M (f_body f) = true ->
  fun_chk M F G f = true /\ G' = bind G (f_name f) BFun /\ F' = (f_name f, sig_of f) :: F.
Proof.
  intros F G f ds G' F' H Hds Hg. unfold ck_fun in H.
  destruct (ck_params G (f_params f) ++ match f_ret f with Some (_, t) => pt_type G t | None => [] end) as [| x l] eqn:Eh.
  - apply app_nil2 in Eh as [Hps Hrt].
    match type of H with context [ck_block ?a ?b ?c ?d ?e ?f0 ?g] => destruct (ck_block a b c d e f0 g) as [db Gb] eqn:Eb end.
    injection H as Hd <- <-. subst ds. rename Hds into Hd.
    apply app_nil2 in Hd as [Hn Hd]. apply app_nil2 in Hd as [Hra Hd]. apply app_nil2 in Hd as [-> Hfin].
    destruct (lookup G (f_name f)) eqn:El; [discriminate Hn |].
    split; [| split; reflexivity].
    unfold fun_chk. rewrite El.
    unfold ck_params in Hps. apply app_nil2 in Hps as [Hdup Hps].
    rewrite (dup_names_nil _ Hdup).
    assert (Hall : forallb (fun p => param_name_ok G (pname p) && ty_ok G (ptype p)) (f_params f) = true).
    { apply forallb_forall; intros q Hq. pose proof (flat_map_nil _ _ Hps q Hq) as Hx. cbn in Hx.
      apply app_nil2 in Hx as [H1 H2]. apply unless_nil in H1. unfold pt_type in H2. apply unless_nil in H2.
      rewrite H1, H2; reflexivity. }
    rewrite Hall. rewrite (proj2 (ck_sound _) _ _ _ _ _ Eb Hg).
    assert (Hret : ret_okb M G (f_ret f) = true).
    { destruct (f_ret f) as [[a t]|]; auto. cbn. unfold pt_type in Hrt. apply unless_nil in Hrt. rewrite Hrt.
      unfold art_diag in Hra. unfold genderb. destruct (gender M t); [| discriminate Hra].
      apply unless_nil in Hra. rewrite Hra; reflexivity. }
    rewrite Hret. cbn. destruct (f_ret f); auto. apply unless_nil in Hfin; auto.
  - injection H as Hd _ _. subst ds. rename Hds into Hd. exfalso.
    apply app_nil2 in Hd as [_ Hd]. rewrite app_assoc in Hd. apply app_nil2 in Hd as [Hd _].
    rewrite Eh in Hd. discriminate Hd.
Qed.

Lemma ck_tops_sound : forall l F G, ck_tops Q M F G l = [] -> forallb (gd_top Q M) l = true -> tops_chk M F G l = true.
Proof.
  induction l as [| [f|s] l IH]; intros F G H Hg; cbn in *; auto.
  - apply andb_true_iff in Hg as [Hgf Hgl].
    destruct (ck_fun Q M F G f) as [[d1 G1] F1] eqn:Ef. apply app_nil2 in H as [-> H].
    apply ck_fun_sound in Ef as [Hf [-> ->]]; auto. rewrite Hf. apply IH; auto.
  - apply andb_true_iff in Hg as [Hgs Hgl].
    destruct (ck_stmt Q M F G 0 RGlobal s) as [d1 G1] eqn:Es. apply app_nil2 in H as [-> H].
    rewrite (proj1 (ck_sound _) _ _ _ _ _ Es Hgs). apply IH; auto.
Qed.

End Sound.

(* ---- imports ------------------------------------------------------------------------------------ *)
Lemma import_fold_mono : forall M l ds0 G F ds1 G1 F1,
  fold_left (ck_import_decl M) l (ds0, G, F) = (ds1, G1, F1) -> ds1 = [] -> ds0 = [].
Proof.
  intros M; induction l as [| d l IH]; intros ds0 G F ds1 G1 F1 H Hn; cbn in H.
  - injection H as -> _ _; auto.
  - destruct (insert G (idecl_name d) (idecl_binding d)) as [G' dd] eqn:Ei.
    apply IH in H; auto. apply app_eq_nil in H as [H _]; auto.
Qed.

Lemma import_fold_ok : forall M l sc F0 G1 F1,
  fold_left (ck_import_decl M) l ([], [sc], F0) = ([], G1, F1) ->
  G1 = [rev (map (fun d => (idecl_name d, idecl_binding d)) l) ++ sc] /\
  F1 = rev (flat_map (idecl_fun M) l) ++ F0 /\
  NoDup (map idecl_name l) /\ (forall d, In d l -> assoc (idecl_name d) sc = None).
Proof.
  induction l as [| d l IH]; intros sc F0 G1 F1 H; cbn in H.
  - injection H as <- <-. split; [reflexivity | split; [reflexivity | split; [apply NoDup_nil | intros d []]]].
  - unfold insert in H. cbn [in_top] in H. destruct (assoc (idecl_name d) sc) eqn:Ea.
    + apply import_fold_mono in H; auto. discriminate H.
    + cbn [bind app] in H. apply IH in H as [-> [-> [Hnd Hfresh]]].
      repeat split.
      * cbn. rewrite <- app_assoc. reflexivity.
      * cbn. rewrite rev_app_distr, <- app_assoc. reflexivity.
      * cbn. constructor; auto. intros Hin. apply in_map_iff in Hin as [d' [Hn Hd']].
        specialize (Hfresh d' Hd'). cbn in Hfresh. rewrite Hn, Nat.eqb_refl in Hfresh. discriminate Hfresh.
      * intros d' [<- | Hd']; auto. specialize (Hfresh d' Hd'). cbn in Hfresh.
        destruct (Nat.eqb (idecl_name d') (idecl_name d)); [discriminate Hfresh | auto].
Qed.

Lemma find_pub_name : forall M x d, find_pub M x = Some d -> idecl_name d = x.
Proof.
  induction M as [| d0 M IH]; intros x d H; cbn in H; [discriminate H |].
  destruct (Nat.eqb (idecl_name d0) x && idecl_pub d0) eqn:E; auto.
  injection H as <-. apply andb_true_iff in E as [E _]. apply Nat.eqb_eq in E; auto.
Qed.

Lemma import_names_mono : forall M xs ds0 G F ds1 G1 F1,
  fold_left (ck_import_name M) xs (ds0, G, F) = (ds1, G1, F1) -> ds1 = [] -> ds0 = [].
Proof.
  intros M; induction xs as [| x xs IH]; intros ds0 G F ds1 G1 F1 H Hn; cbn in H.
  - injection H as -> _ _; auto.
  - unfold ck_import_name in H at 2. destruct (find_pub M x) as [d|].
    + cbn in H. destruct (insert G (idecl_name d) (idecl_binding d)) as [G' dd] eqn:Ei.
      apply IH in H; auto. apply app_eq_nil in H as [H _]; auto.
    + apply IH in H; auto. apply app_eq_nil in H as [H _]; auto.
Qed.

Lemma import_names_ok : forall M xs st G1 F1,
  fold_left (ck_import_name M) xs st = ([], G1, F1) -> fst (fst st) = [] ->
  exists ds, find_all_pub M xs = Some ds /\ fold_left (ck_import_decl M) ds st = ([], G1, F1).
Proof.
  intros M; induction xs as [| x xs IH]; intros [[ds0 G] F] G1 F1 H H0; cbn in H0; subst ds0; cbn in H.
  - exists []; split; auto.
  - unfold ck_import_name in H at 2. destruct (find_pub M x) as [d|] eqn:Ef.
    + destruct (ck_import_decl M ([], G, F) d) as [[ds' G'] F'] eqn:Ed.
      assert (ds' = []) as -> by (eapply import_names_mono; eauto).
      apply IH in H as [ds [Hall Hfold]]; auto. exists (d :: ds); split.
      * cbn. rewrite Ef, Hall. reflexivity.
      * cbn [fold_left]. rewrite Ed. auto.
    + apply import_names_mono in H; auto. discriminate H.
Qed.

Lemma find_all_pub_names : forall M xs ds, find_all_pub M xs = Some ds -> map idecl_name ds = xs.
Proof.
  intros M; induction xs as [| x xs IH]; intros ds H; cbn in H.
  - injection H as <-; reflexivity.
  - destruct (find_pub M x) as [d|] eqn:Ef; [| discriminate H].
    destruct (find_all_pub M xs) as [ds'|] eqn:Ea; [| discriminate H]. injection H as <-.
    cbn. rewrite (find_pub_name _ _ _ Ef), (IH _ eq_refl). reflexivity.
Qed.

Lemma ck_import_sound : forall M i G0 F0, ck_import M i = ([], G0, F0) ->
  exists ds, import_decls M i = Some ds /\ G0 = [scope_of_decls ds] /\ F0 = funs_of_decls M ds.
Proof.
  intros M i G0 F0 H. destruct i as [| | xs]; cbn in H.
  - injection H as <- <-. exists []; repeat split.
  - apply import_fold_ok in H as [-> [-> [Hnd _]]]. exists (filter idecl_pub M). cbn.
    apply nodupb_iff in Hnd. rewrite Hnd. unfold scope_of_decls, funs_of_decls. rewrite !app_nil_r. repeat split.
  - apply import_names_ok in H as [ds [Hall Hfold]]; auto.
    apply import_fold_ok in Hfold as [-> [-> [Hnd _]]]. exists ds. cbn.
    rewrite (find_all_pub_names _ _ _ Hall) in Hnd. apply nodupb_iff in Hnd. rewrite Hnd.
    unfold scope_of_decls, funs_of_decls. rewrite !app_nil_r. repeat split; auto.
Qed.

(* ---- the theorems -------------------------------------------------------------------------------- *)
Theorem check_with_sound : forall Q p, check_with Q p = [] -> guard Q p = true -> wf p.
Proof.
  intros Q p H Hg. apply wfb_iff. unfold check_with in H. unfold wfb.
  destruct (ck_import (p_mod p) (p_imp p)) as [[di G0] F0] eqn:Ei.
  apply app_nil2 in H as [-> H]. apply ck_import_sound in Ei as [ds [Hi [-> ->]]].
  rewrite Hi. eapply ck_tops_sound; eauto.
Qed.

Lemma guard_patched_expr : forall M,
  (forall e, gd_expr patched M e = true) /\ (forall a, gd_args patched M a = true).
Proof.
  intros M; apply expr_args_ind; intros; try reflexivity.
  - change (gd_expr patched M (EUn o e)) with (gd_expr patched M e); auto.
  - change (gd_expr patched M (EBin o l r)) with (gd_expr patched M l && gd_expr patched M r && true).
    rewrite H, H0; reflexivity.
  - change (gd_expr patched M (ECast e t)) with (gd_expr patched M e); auto.
  - change (gd_expr patched M (EField f e)) with (gd_expr patched M e && true). rewrite H; reflexivity.
  - change (gd_expr patched M (ECall f a)) with (gd_args patched M a); auto.
  - change (gd_expr patched M (ESlice l i j)) with (gd_expr patched M l && gd_expr patched M i && gd_expr patched M j).
    rewrite H, H0, H1; reflexivity.
  - change (gd_expr patched M (EList e a)) with (gd_expr patched M e && gd_args patched M a). rewrite H, H0; reflexivity.
  - change (gd_args patched M (ACons e a)) with (gd_expr patched M e && gd_args patched M a). rewrite H, H0; reflexivity.
Qed.

Lemma guard_patched_stmt : forall M,
  (forall s, gd_stmt patched M s = true) /\ (forall b, gd_block patched M b = true).
Proof.
  intros M; destruct (guard_patched_expr M) as [He Ha]; apply stmt_block_ind; intros; try reflexivity.
  - change (gd_stmt patched M (SVar a t x e)) with (gd_expr patched M e && true). rewrite He; reflexivity.
  - change (gd_stmt patched M (SAssign x e)) with (gd_expr patched M e). auto.
  - change (gd_stmt patched M (SAssignIdx x i e)) with (gd_expr patched M i && gd_expr patched M e). rewrite !He; reflexivity.
  - change (gd_stmt patched M (SAssignField f x e)) with (gd_expr patched M e && true). rewrite He; reflexivity.
  - change (gd_stmt patched M (SIf c th el)) with (gd_expr patched M c && gd_block patched M th && gd_block patched M el).
    rewrite He, H, H0; reflexivity.
  - change (gd_stmt patched M (SWhile c b)) with (gd_expr patched M c && gd_block patched M b). rewrite He, H; reflexivity.
  - change (gd_stmt patched M (SFor a t x from to step b)) with
      (gd_expr patched M from && gd_expr patched M to && gd_opt patched M step && gd_block patched M b && true).
    rewrite !He, H. destruct step; cbn [gd_opt]; rewrite ?He; reflexivity.
  - change (gd_stmt patched M (SForEach a t x e b)) with (gd_expr patched M e && gd_block patched M b). rewrite He, H; reflexivity.
  - change (gd_stmt patched M (SRepeat b n)) with (gd_block patched M b && gd_expr patched M n). rewrite He, H; reflexivity.
  - change (gd_stmt patched M (SDoWhile b c)) with (gd_block patched M b && gd_expr patched M c). rewrite He, H; reflexivity.
  - destruct e as [e|]; [| reflexivity].
    change (gd_stmt patched M (SReturn (Some e))) with (gd_expr patched M e && true). rewrite He; reflexivity.
  - change (gd_stmt patched M (SBlock b)) with (gd_block patched M b). auto.
  - change (gd_stmt patched M (SCall f a)) with (gd_args patched M a). auto.
  - change (gd_block patched M (BCons s b)) with (gd_stmt patched M s && gd_block patched M b). rewrite H, H0; reflexivity.
Qed.

Lemma guard_patched : forall p, guard patched p = true.
Proof.
  intros p; unfold guard. apply forallb_forall. intros [f|s] _; cbn; apply guard_patched_stmt.
Qed.

Lemma guard_current_expr : forall M,
  (forall e, gd_expr current M e = true) /\ (forall a, gd_args current M a = true).
Proof.
  intros M; apply expr_args_ind; intros; try reflexivity.
  - change (gd_expr current M (EUn o e)) with (gd_expr current M e); auto.
  - change (gd_expr current M (EBin o l r)) with (gd_expr current M l && gd_expr current M r && true).
    rewrite H, H0; reflexivity.
  - change (gd_expr current M (ECast e t)) with (gd_expr current M e); auto.
  - change (gd_expr current M (EField f e)) with (gd_expr current M e && true). rewrite H; reflexivity.
  - change (gd_expr current M (ECall f a)) with (gd_args current M a); auto.
  - change (gd_expr current M (ESlice l i j)) with (gd_expr current M l && gd_expr current M i && gd_expr current M j).
    rewrite H, H0, H1; reflexivity.
  - change (gd_expr current M (EList e a)) with (gd_expr current M e && gd_args current M a). rewrite H, H0; reflexivity.
  - change (gd_args current M (ACons e a)) with (gd_expr current M e && gd_args current M a). rewrite H, H0; reflexivity.
Qed.

Lemma guard_current_stmt : forall M,
  (forall s, gd_stmt current M s = true) /\ (forall b, gd_block current M b = true).
Proof.
  intros M; destruct (guard_current_expr M) as [He Ha]; apply stmt_block_ind; intros; try reflexivity.
  - change (gd_stmt current M (SVar a t x e)) with (gd_expr current M e && true). rewrite He; reflexivity.
  - change (gd_stmt current M (SAssign x e)) with (gd_expr current M e). auto.
  - change (gd_stmt current M (SAssignIdx x i e)) with (gd_expr current M i && gd_expr current M e). rewrite !He; reflexivity.
  - change (gd_stmt current M (SAssignField f x e)) with (gd_expr current M e && true). rewrite He; reflexivity.
  - change (gd_stmt current M (SIf c th el)) with (gd_expr current M c && gd_block current M th && gd_block current M el).
    rewrite He, H, H0; reflexivity.
  - change (gd_stmt current M (SWhile c b)) with (gd_expr current M c && gd_block current M b). rewrite He, H; reflexivity.
  - change (gd_stmt current M (SFor a t x from to step b)) with
      (gd_expr current M from && gd_expr current M to && gd_opt current M step && gd_block current M b && true).
    rewrite !He, H. destruct step; cbn [gd_opt]; rewrite ?He; reflexivity.
  - change (gd_stmt current M (SForEach a t x e b)) with (gd_expr current M e && gd_block current M b). rewrite He, H; reflexivity.
  - change (gd_stmt current M (SRepeat b n)) with (gd_block current M b && gd_expr current M n). rewrite He, H; reflexivity.
  - change (gd_stmt current M (SDoWhile b c)) with (gd_block current M b && gd_expr current M c). rewrite He, H; reflexivity.
  - destruct e as [e|]; [| reflexivity].
    change (gd_stmt current M (SReturn (Some e))) with (gd_expr current M e && true). rewrite He; reflexivity.
  - change (gd_stmt current M (SBlock b)) with (gd_block current M b). auto.
  - change (gd_stmt current M (SCall f a)) with (gd_args current M a). auto.
  - change (gd_block current M (BCons s b)) with (gd_stmt current M s && gd_block current M b). rewrite H, H0; reflexivity.
Qed.

Lemma guard_current : forall p, guard current p = true.
Proof.
  intros p; unfold guard. apply forallb_forall. intros [f|s] _; cbn; apply guard_current_stmt.
Qed.

(* the frontend as it is now (all four repairs) never accepts an ill-formed core program *)
Theorem check_patched_sound : forall p, check_patched p = [] -> wf p.
Proof. intros p H; apply (check_with_sound patched); auto using guard_patched. Qed.

Theorem check_sound : forall p, check p = [] -> wf p.
Proof. intros p H; apply (check_with_sound current); auto using guard_current. Qed.

(* the pinned frontend was sound only on programs where its quirks do not matter *)
Theorem check_pinned_sound_partial : forall p, check_pinned p = [] -> quirk_free p = true -> wf p.
Proof. intros p H Hq; apply (check_with_sound pinned); auto. Qed.

(* ---- regression facts: the pinned frontend accepted ill-formed programs, one witness per defect ------------------------ *)
Definition fvoid (n : name) : top :=
  TFun {| f_name := n; f_params := []; f_ret := None; f_body := BCons (SVar Die TZahl (S n) (ELit LZahl)) BNil |}.

(* Der Wahrheitswert x3 ist (f1) gleich (f1) ist. *)
Definition w_void_eq : prog :=
  {| p_mod := []; p_imp := ImpNone;
     p_tops := [fvoid 1; TStmt (SVar Der TBool 3 (EBin BGleich (ECall 1 ANil) (ECall 1 ANil)))] |}.

(* Die Funktion f3 gibt nichts zurück, macht: Gib (f1) zurück. *)
Definition w_void_ret : prog :=
  {| p_mod := []; p_imp := ImpNone;
     p_tops := [fvoid 1; TFun {| f_name := 3; f_params := []; f_ret := None; f_body := BCons (SReturn (Some (ECall 1 ANil))) BNil |}] |}.

(* Der Text x1 ist "..". Wenn wahr, dann: Die Zahl x1 ist x1. *)
Definition w_init_self : prog :=
  {| p_mod := []; p_imp := ImpNone;
     p_tops := [TStmt (SVar Der TText 1 (ELit LText));
                TStmt (SIf (ELit LBool) (BCons (SVar Die TZahl 1 (EVar 1)) BNil) BNil)] |}.

(* Binde x10 aus "modul" ein. Die Zahl x20 ist (x3 von x10).   -- x3 is a private field *)
Definition w_priv_field : prog :=
  {| p_mod := [IStruct true 1 Der [(true, 2, TZahl); (false, 3, TZahl)]; IVar true 10 (TStruct 1)];
     p_imp := ImpSome [10];
     p_tops := [TStmt (SVar Die TZahl 20 (EField 3 (EVar 10)))] |}.

(* Für jede Zahl x1 von 1 bis ((x2 gleich x2 ist) als Zahl), mache: Die Zahl x2 ist 1. *)
Definition w_for_scope : prog :=
  {| p_mod := []; p_imp := ImpNone;
     p_tops := [TStmt (SFor Die TZahl 1 (ELit LZahl) (ECast (EBin BGleich (EVar 2) (EVar 2)) TZahl) None
                            (BCons (SVar Die TZahl 2 (ELit LZahl)) BNil))] |}.

Lemma witnesses_accepted_illformed :
  Forall (fun p => check_pinned p = [] /\ wfb p = false /\ check p <> [])
         [w_void_eq; w_void_ret; w_init_self; w_priv_field; w_for_scope].
Proof. repeat constructor; vm_compute; try reflexivity; discriminate. Qed.

Theorem check_pinned_sound_refuted : exists p, check_pinned p = [] /\ ~ wf p.
Proof.
  exists w_void_eq. split; [vm_compute; reflexivity |].
  intros H; apply wfb_iff in H. vm_compute in H. discriminate H.
Qed.

(* each quirk alone suffices (the other three patched) *)
Definition only (i : nat) : quirks :=
  {| q_void_eq := Nat.eqb i 0; q_void_ret := Nat.eqb i 1; q_tc_by_name := Nat.eqb i 2; q_field_unimported := Nat.eqb i 3; q_field_name_lookup := false |}.

(* the loop-bound witness needs two of them: the resolver's misplaced resolution is only harmless while `gleich`
   rejects operands without a type *)
Definition void_eq_and_by_name : quirks :=
  {| q_void_eq := true; q_void_ret := false; q_tc_by_name := true; q_field_unimported := false; q_field_name_lookup := false |}.

Lemma each_quirk_unsound :
  check_with (only 0) w_void_eq = [] /\ check_with (only 1) w_void_ret = [] /\
  check_with (only 2) w_init_self = [] /\ check_with (only 3) w_priv_field = [] /\
  check_with void_eq_and_by_name w_for_scope = [] /\
  Forall (fun p => check_patched p <> []) [w_void_eq; w_void_ret; w_init_self; w_priv_field; w_for_scope].
Proof. repeat split; try (vm_compute; reflexivity). repeat constructor; vm_compute; discriminate. Qed.
