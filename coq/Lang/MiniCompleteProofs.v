(* C04 — completeness of the algorithm on the shadow-free class, and its failure outside of it.

     wf p -> shadow_free p = true -> check_with Q p = []          (any setting of the quirks)
     wf p -> check p = []                                          (the frontend as it is now)
     exists p, wf p /\ check_pinned p <> []                        (pinned frontend, late shadowing)   *)
From Coq Require Import List Arith Bool Lia.
Import ListNotations.
From DDP Require Import Lang.MiniSyntax Lang.MiniTyping Lang.MiniTypingProofs Lang.MiniCheck Lang.MiniGuard Lang.MiniCheckProofs
                        Lang.MiniShadowFree.

(* G' binds everything G binds, in the same way *)
Definition ext (G G' : env) : Prop := forall y b, lookup G y = Some b -> lookup G' y = Some b.

(* names of Kombinationen of the module are bound to nothing else *)
Definition sok (M : imod) (G : env) : Prop :=
  forall st, is_struct_name M st = true -> lookup G st = None \/ lookup G st = Some BStruct.

Lemma ext_refl : forall G, ext G G.
Proof. intros G y b H; auto. Qed.

Lemma ext_trans : forall G1 G2 G3, ext G1 G2 -> ext G2 G3 -> ext G1 G3.
Proof. intros G1 G2 G3 H1 H2 y b H; auto. Qed.

Lemma ext_bind : forall G x b, lookup G x = None -> ext G (bind G x b).
Proof.
  intros G x b H y b' Hy. destruct (Nat.eq_dec y x) as [-> | Hne]; [congruence |].
  rewrite lookup_bind_neq; auto.
Qed.

Lemma ext_push : forall G, ext G (push G).
Proof. intros G y b H; cbn; auto. Qed.

Lemma ext_cons_same : forall sc G G', ext G G' -> ext (sc :: G) (sc :: G').
Proof. intros sc G G' H y b Hy; cbn in *. destruct (assoc y sc); auto. Qed.

Lemma sok_bind : forall M G x b, sok M G -> is_struct_name M x = false -> sok M (bind G x b).
Proof.
  intros M G x b H Hx st Hst. destruct (Nat.eq_dec st x) as [-> | Hne]; [congruence |].
  rewrite lookup_bind_neq; auto.
Qed.

Lemma sok_push : forall M G, sok M G -> sok M (push G).
Proof. intros M G H st Hst; cbn; auto. Qed.

Lemma ty_ok_ext : forall G G' t, ext G G' -> ty_ok G t = true -> ty_ok G' t = true.
Proof.
  intros G G' t H; induction t; cbn; auto.
  destruct (lookup G s) as [[| | |]|] eqn:E; try discriminate. intros _. rewrite (H _ _ E); reflexivity.
Qed.

Lemma fresh_ok_spec : forall M G x, fresh_ok M G x = true -> lookup G x = None /\ is_struct_name M x = false.
Proof.
  intros M G x H; unfold fresh_ok in H. destruct (lookup G x); [discriminate H |].
  apply negb_true_iff in H; auto.
Qed.

Section Complete.
Variable Q : quirks.
Variable M : imod.

(* ---- operator tables ------------------------------------------------------------------------ *)
Lemma tc_un_complete : forall o t r, un_res o t = Some r -> tc_un o (Some t) = (Some r, []).
Proof. intros o t r H; destruct o, t; cbn in *; inversion H; reflexivity. Qed.

Lemma tc_bin_complete : forall o a b c, bin_res o a b = Some c -> tc_bin Q o (Some a) (Some b) = (Some c, []).
Proof.
  intros o a b c H; destruct o.
  1-7, 10-11: destruct a, b; cbn in *; inversion H; reflexivity.
  - unfold bin_res in H. destruct (ty_eqb a b) eqn:E; inversion H; subst. cbn. rewrite E. reflexivity.
  - unfold bin_res in H. destruct (ty_eqb a b) eqn:E; inversion H; subst. cbn. rewrite E. reflexivity.
  - unfold bin_res in H. destruct (is_index b) eqn:E; [| discriminate H].
    destruct a; inversion H; subst; cbn; rewrite E; reflexivity.
  - unfold bin_res, concat_is_list in H. unfold tc_bin, vlist, velem, vtextish, validate2. cbn [vty_eqb].
    destruct (is_listb a || is_listb b || negb (is_text a || is_text b)) eqn:Ec.
    + destruct (ty_eqb (lelem a) (lelem b)) eqn:E; inversion H; subst.
      assert (Hn : negb (is_listb a) && negb (is_listb b) && (ty_eqb a TText || ty_eqb b TText) = false).
      { destruct a; destruct b; cbn in *; try discriminate Ec; reflexivity. }
      rewrite Hn. reflexivity.
    + destruct (textish a) eqn:Ha, (textish b) eqn:Hb; inversion H; subst.
      destruct a; try discriminate Ha; destruct b; try discriminate Hb; cbn in *; try discriminate Ec; reflexivity.
  - unfold bin_res in H. destruct (seqlike a) eqn:Ea, (is_index b) eqn:Eb; inversion H; subst. cbn. rewrite Ea, Eb.
    destruct c; try discriminate Ea; reflexivity.
  - unfold bin_res in H. destruct (seqlike a) eqn:Ea, (is_index b) eqn:Eb; inversion H; subst. cbn. rewrite Ea, Eb.
    destruct c; try discriminate Ea; reflexivity.
Qed.

Lemma field_of_struct : forall s f x, field_of M s f = Some x -> is_struct_name M s = true.
Proof. intros s f x H; unfold field_of in H; unfold is_struct_name; destruct (struct_of M s); [auto | discriminate H]. Qed.

(* ---- expressions ---------------------------------------------------------------------------- *)
Lemma tc_complete_gen : forall F G G', ext G G' -> (q_field_unimported Q = true -> sok M G') ->
  (forall e t, type_of M F G e = Some t ->
     tc_expr Q M F G' e = (Some t, []) /\ rs_expr G' e = [] /\ pt_expr F G' e = []) /\
  (forall a ps, args_chk M F G a ps = true ->
     tc_args Q M F G' a ps = [] /\ rs_args G' a = [] /\ pt_args F G' a ps = []).
Proof.
  intros F G G' Hext Hsok; apply expr_args_ind.
  - intros l t H; inversion H; repeat split.
  - intros t0 t H; cbn in H. destruct (ty_ok G t0) eqn:E; inversion H; subst. repeat split.
    cbn. unfold pt_type. rewrite (ty_ok_ext _ _ _ Hext E). reflexivity.
  - intros x t H; cbn in H. destruct (lookup G x) as [[t1| t1 | |]|] eqn:E; inversion H; subst;
      cbn; unfold rs_ident; rewrite (Hext _ _ E); repeat split.
  - intros o e IH t H; cbn in H. destruct (type_of M F G e) as [t0|] eqn:E; [| discriminate H].
    destruct (IH _ eq_refl) as [H1 [H2 H3]]. cbn. rewrite H1, (tc_un_complete _ _ _ H). repeat split; auto.
  - intros o l IHl r IHr t H; cbn in H.
    destruct (type_of M F G l) as [a|] eqn:El; [| discriminate H].
    destruct (type_of M F G r) as [b|] eqn:Er; [| discriminate H].
    destruct (IHl _ eq_refl) as [H1 [H2 H3]]. destruct (IHr _ eq_refl) as [H4 [H5 H6]].
    cbn. rewrite H1, H4, (tc_bin_complete _ _ _ _ H), H2, H5, H3, H6. repeat split.
  - intros e IH t0 t H; cbn in H. destruct (type_of M F G e) as [s|] eqn:E; [| discriminate H].
    destruct (ty_ok G t0) eqn:Et; [| discriminate H]. destruct (cast_okb s t0) eqn:Ec; inversion H; subst.
    destruct (IH _ eq_refl) as [H1 [H2 H3]]. cbn. rewrite H1, H2, H3. cbn. rewrite Ec. cbn.
    unfold pt_type. rewrite (ty_ok_ext _ _ _ Hext Et). repeat split.
  - intros f e IH t H; cbn in H. destruct (type_of M F G e) as [[| | | | | | |s]|] eqn:E; try discriminate H.
    destruct (field_of M s f) as [[[|] tf]|] eqn:Ef; inversion H; subst.
    destruct (IH _ eq_refl) as [H1 [H2 H3]]. cbn. rewrite H1, Ef, H2, H3.
    unfold tc_field_priv. destruct (q_field_unimported Q) eqn:Eq; [| repeat split].
    destruct (Hsok eq_refl s (field_of_struct _ _ _ Ef)) as [Hl | Hl]; rewrite Hl; repeat split.
  - intros f a IH t H. cbn [type_of] in H. rewrite tc_call_eq. cbn [rs_expr pt_expr].
    destruct (assoc f F) as [[ps [r|]]|] eqn:Ef; try discriminate H.
    destruct (args_chk M F G a ps) eqn:Ea; inversion H; subst.
    destruct (IH _ Ea) as [H1 [H2 H3]]. rewrite H1. repeat split; auto.
  - intros l IHl i IHi j IHj t H. cbn [type_of] in H. rewrite tc_slice_eq. cbn [rs_expr pt_expr].
    destruct (type_of M F G l) as [a|] eqn:El; [| discriminate H].
    destruct (type_of M F G i) as [ti|] eqn:Ei; [| discriminate H].
    destruct (type_of M F G j) as [tj|] eqn:Ej; [| discriminate H].
    destruct (seqlike a) eqn:Ha; [| discriminate H]. destruct (is_index ti) eqn:Hi; [| discriminate H].
    destruct (is_index tj) eqn:Hj; inversion H; subst.
    destruct (IHl _ eq_refl) as [H1 [H2 H3]]. destruct (IHi _ eq_refl) as [H4 [H5 H6]]. destruct (IHj _ eq_refl) as [H7 [H8 H9]].
    rewrite H1, H4, H7, H2, H5, H8, H3, H6, H9. cbn. rewrite Ha, Hi, Hj. cbn.
    destruct t; try discriminate Ha; repeat split.
  - intros e IHe a IHa t H. cbn [type_of] in H. rewrite tc_list_eq. cbn [rs_expr pt_expr].
    destruct (type_of M F G e) as [t0|] eqn:Ee; [| discriminate H].
    destruct (is_listb t0) eqn:Hl; [discriminate H |]. cbn in H.
    destruct (args_chk M F G a (repeat (t0, false) (alen a))) eqn:Ea; inversion H; subst.
    destruct (IHe _ eq_refl) as [H1 [H2 H3]]. destruct (IHa _ Ea) as [H4 [H5 H6]].
    rewrite H1, Hl, H4, H2, H5, H3, (pt_args_repeat F G' a TZahl t0), H6. repeat split.
  - intros ps H; destruct ps; [repeat split | discriminate H].
  - intros e IHe a IHa ps H. destruct ps as [| [t [|]] ps]; cbn [args_chk] in H; try discriminate H.
    + destruct e; try discriminate H. destruct (lookup G x) as [[t0| | |]|] eqn:El; try discriminate H.
      apply andb_true_iff in H as [Ht Ha]. apply ty_eqb_eq in Ht; subst t0.
      destruct (IHa _ Ha) as [H1 [H2 H3]]. rewrite tc_args_cons. cbn [tc_expr rs_args rs_expr pt_args pt_ref].
      unfold rs_ident. rewrite (Hext _ _ El). cbn. rewrite ty_eqb_refl. cbn. rewrite H1, H2, H3. repeat split.
    + destruct (type_of M F G e) as [t0|] eqn:E; [| discriminate H].
      apply andb_true_iff in H as [Ht Ha]. apply ty_eqb_eq in Ht; subst t0.
      destruct (IHe _ eq_refl) as [H1 [H2 H3]]. destruct (IHa _ Ha) as [H4 [H5 H6]].
      rewrite tc_args_cons, H1. cbn [rs_args pt_args]. cbn. rewrite ty_eqb_refl. cbn. rewrite H4, H2, H5, H3, H6. repeat split.
Qed.

Lemma tc_complete : forall F G G', ext G G' -> sok M G' ->
  (forall e t, type_of M F G e = Some t ->
     tc_expr Q M F G' e = (Some t, []) /\ rs_expr G' e = [] /\ pt_expr F G' e = []) /\
  (forall a ps, args_chk M F G a ps = true ->
     tc_args Q M F G' a ps = [] /\ rs_args G' a = [] /\ pt_args F G' a ps = []).
Proof. intros F G G' Hext Hsok; apply tc_complete_gen; auto. Qed.

(* ---- expression slots of statements ----------------------------------------------------------- *)
Section Slots.
Variables (F : fenv) (G G' : env).
Hypothesis Hext : ext G G'.
Hypothesis Hsok : q_field_unimported Q = true -> sok M G'.

Lemma tc_init_complete : forall e t, assign_chk M F G e t = true ->
  tc_init Q M F G' e t = [] /\ rs_expr G' e = [] /\ pt_expr F G' e = [].
Proof.
  intros e t H. unfold assign_chk in H. destruct (type_of M F G e) as [t0|] eqn:E; [| discriminate H].
  destruct (proj1 (tc_complete_gen F G G' Hext Hsok) _ _ E) as [H1 [H2 H3]]. unfold tc_init. rewrite H1.
  repeat split; auto. unfold vassign_ok; cbn. unfold assignableb in H. apply orb_true_iff in H as [H | H].
  - apply ty_eqb_eq in H; subst. rewrite ty_eqb_refl. reflexivity.
  - apply andb_true_iff in H as [Ha Hb]. rewrite Ha, Hb, orb_true_r. reflexivity.
Qed.

Lemma tc_cond_complete : forall c, has_typeb M F G c TBool = true ->
  tc_cond Q M F G' c = [] /\ rs_expr G' c = [] /\ pt_expr F G' c = [].
Proof.
  intros c H. unfold has_typeb in H. destruct (type_of M F G c) as [t0|] eqn:E; [| discriminate H].
  apply ty_eqb_eq in H; subst.
  destruct (proj1 (tc_complete_gen F G G' Hext Hsok) _ _ E) as [H1 [H2 H3]]. unfold tc_cond. rewrite H1. repeat split; auto.
Qed.

Lemma tc_numeric_complete : forall e, numericb_expr M F G e = true ->
  tc_numeric Q M F G' e = [] /\ rs_expr G' e = [] /\ pt_expr F G' e = [].
Proof.
  intros e H. unfold numericb_expr in H. destruct (type_of M F G e) as [t0|] eqn:E; [| discriminate H].
  destruct (proj1 (tc_complete_gen F G G' Hext Hsok) _ _ E) as [H1 [H2 H3]]. unfold tc_numeric. rewrite H1. cbn. rewrite H.
  repeat split; auto.
Qed.

Lemma vassign_of_assignable : forall s t, assignableb s t = true -> vassign_ok (Some s) (Some t) = true.
Proof.
  intros s t H. unfold vassign_ok; cbn. unfold assignableb in H. apply orb_true_iff in H as [H | H].
  - apply ty_eqb_eq in H; subst. rewrite ty_eqb_refl. reflexivity.
  - apply andb_true_iff in H as [Ha Hb]. rewrite Ha, Hb, orb_true_r. reflexivity.
Qed.

Lemma tc_index_complete : forall e, indexb_expr M F G e = true ->
  exists t, tc_expr Q M F G' e = (Some t, []) /\ is_index t = true /\ rs_expr G' e = [] /\ pt_expr F G' e = [].
Proof.
  intros e H. unfold indexb_expr in H. destruct (type_of M F G e) as [t|] eqn:E; [| discriminate H].
  destruct (proj1 (tc_complete_gen F G G' Hext Hsok) _ _ E) as [H1 [H2 H3]]. eauto.
Qed.

Lemma tc_assign_complete : forall e t, assign_chk M F G e t = true ->
  exists t0, tc_expr Q M F G' e = (Some t0, []) /\ vassign_ok (Some t0) (Some t) = true /\ rs_expr G' e = [] /\ pt_expr F G' e = [].
Proof.
  intros e t H. unfold assign_chk in H. destruct (type_of M F G e) as [t0|] eqn:E; [| discriminate H].
  destruct (proj1 (tc_complete_gen F G G' Hext Hsok) _ _ E) as [H1 [H2 H3]]. exists t0. auto using vassign_of_assignable.
Qed.

Lemma tcs_assignidx_ok : forall deep r x i e tx, lookup G x = Some (BVar tx) -> seqlike tx = true ->
  indexb_expr M F G i = true -> assign_chk M F G e (selem tx) = true ->
  tcs_stmt Q M deep F G' r (SAssignIdx x i e) = [] /\ rs_ident G' x = [] /\ lookup G' x = Some (BVar tx) /\
  rs_expr G' i = [] /\ pt_expr F G' i = [] /\ rs_expr G' e = [] /\ pt_expr F G' e = [].
Proof.
  intros deep r x i e tx El Hs Hi Ha.
  destruct (tc_index_complete _ Hi) as [ti [H1 [H2 [H3 H4]]]]. destruct (tc_assign_complete _ _ Ha) as [t0 [H5 [H6 [H7 H8]]]].
  rewrite tcs_assignidx_eq, H5, H1. cbn [tc_expr]. unfold rs_ident. rewrite (Hext _ _ El). cbn. rewrite H2, Hs. cbn.
  repeat split; auto. destruct tx; try discriminate Hs; cbn in *; rewrite H6; reflexivity.
Qed.

Lemma tcs_assignfield_ok : forall deep r f x e s tf, lookup G x = Some (BVar (TStruct s)) -> field_of M s f = Some (true, tf) ->
  assign_chk M F G e tf = true ->
  tcs_stmt Q M deep F G' r (SAssignField f x e) = [] /\ rs_ident G' x = [] /\ lookup G' x = Some (BVar (TStruct s)) /\
  rs_expr G' e = [] /\ pt_expr F G' e = [].
Proof.
  intros deep r f x e s tf El Ef Ha.
  destruct (tc_assign_complete _ _ Ha) as [t0 [H5 [H6 [H7 H8]]]].
  assert (Et : type_of M F G (EField f (EVar x)) = Some tf) by (cbn; rewrite El, Ef; reflexivity).
  destruct (proj1 (tc_complete_gen F G G' Hext Hsok) _ _ Et) as [H1 _].
  rewrite tcs_assignfield_eq, H5, H1. unfold rs_ident. rewrite (Hext _ _ El). cbn. rewrite H6. repeat split; auto.
Qed.

Lemma tc_iter_complete : forall e te t, type_of M F G e = Some te -> iter_okb te t = true ->
  tc_iter Q M F G' e t = [] /\ rs_expr G' e = [] /\ pt_expr F G' e = [].
Proof.
  intros e te t E Hi. destruct (proj1 (tc_complete_gen F G G' Hext Hsok) _ _ E) as [H1 [H2 H3]].
  unfold tc_iter. rewrite H1. repeat split; auto. unfold iter_okb in Hi.
  destruct te; try discriminate Hi; apply ty_eqb_eq in Hi; subst; cbn; rewrite ?ty_eqb_refl; reflexivity.
Qed.

End Slots.

(* ---- shape of the environments ---------------------------------------------------------------- *)
Lemma in_top_cons : forall sc G x, in_top (sc :: G) x = false -> assoc x sc = None.
Proof. intros sc G x H; cbn in H. destruct (assoc x sc); [discriminate H | auto]. Qed.

Lemma stmt_chk_shape : forall F s sc G d r G1, stmt_chk M F (sc :: G) d r s = Some G1 ->
  G1 = final_scope sc (BCons s BNil) :: G.
Proof.
  intros F s sc G d r G1 H.
  destruct s; cbn [stmt_chk] in H;
    try (repeat match type of H with
                | (if ?c then _ else _) = _ => destruct c; try discriminate H
                | match ?c with _ => _ end = _ => destruct c; try discriminate H
                end; injection H as <-; reflexivity).
  - destruct (ty_ok (sc :: G) t && genderb M t a && assign_chk M F (sc :: G) e t) ; [| discriminate H].
    cbn in H. destruct (match assoc x sc with Some _ => true | None => false end) eqn:E; inversion H; subst.
    cbn. unfold scope_add. destruct (assoc x sc); [discriminate E | reflexivity].
  - destruct (article_eqb a Die); [| discriminate H].
    cbn in H. destruct (match assoc x sc with Some _ => true | None => false end) eqn:E; inversion H; subst.
    cbn. unfold scope_add. destruct (assoc x sc); [discriminate E | reflexivity].
Qed.

Lemma final_scope_cons : forall s b sc, final_scope sc (BCons s b) = final_scope (final_scope sc (BCons s BNil)) b.
Proof. intros s b sc; destruct s; reflexivity. Qed.

Lemma block_chk_final : forall F b sc G d r G1, block_chk M F (sc :: G) d r b = Some G1 -> G1 = final_scope sc b :: G.
Proof.
  intros F; induction b as [| s b IH]; intros sc G d r G1 H; cbn in H.
  - inversion H; reflexivity.
  - destruct (stmt_chk M F (sc :: G) d r s) as [G2|] eqn:E; [| discriminate H].
    apply stmt_chk_shape in E; subst G2. apply IH in H. rewrite final_scope_cons. auto.
Qed.

Lemma sok_cons_swap : forall sc G G', sok M (sc :: G) -> sok M G' -> sok M (sc :: G').
Proof.
  intros sc G G' H1 H2 st Hst. specialize (H1 st Hst). specialize (H2 st Hst). cbn in *.
  destruct (assoc st sc); auto.
Qed.

(* ---- shadow-free statements only extend the environment ---------------------------------------- *)
Lemma sf_same : forall F,
  (forall s G d r G1 G2, stmt_chk M F G d r s = Some G1 -> sf_stmt M G s = Some G2 -> G1 = G2) /\
  (forall b G d r G1 G2, block_chk M F G d r b = Some G1 -> sf_block M G b = Some G2 -> G1 = G2).
Proof.
  intros F; apply stmt_block_ind; intros;
    try (match goal with
         | H1 : stmt_chk _ _ _ _ _ _ = Some _, H2 : sf_stmt _ _ _ = Some _ |- _ =>
             cbn [stmt_chk sf_stmt] in H1, H2;
             repeat match type of H1 with
                    | (if ?c then _ else _) = _ => destruct c; try discriminate H1
                    | match ?c with _ => _ end = _ => destruct c; try discriminate H1
                    end;
             repeat match type of H2 with
                    | (if ?c then _ else _) = _ => destruct c; try discriminate H2
                    | match ?c with _ => _ end = _ => destruct c; try discriminate H2
                    end;
             congruence
         end).
  - cbn in *. congruence.
  - cbn in H1, H2.
    destruct (stmt_chk M F G d r s) as [Ga|] eqn:Ea; [| discriminate H1].
    destruct (sf_stmt M G s) as [Gb|] eqn:Eb; [| discriminate H2].
    rewrite (H _ _ _ _ _ Ea Eb) in H1. eapply H0; eauto.
Qed.

Lemma sf_step : forall s G G1, sf_stmt M G s = Some G1 -> ext G G1 /\ (sok M G -> sok M G1).
Proof.
  intros s G G1 H. destruct s; cbn in H;
    try (injection H as <-; split; [apply ext_refl | auto]; fail).
  - destruct (fresh_ok M G x) eqn:E; [| discriminate H]. injection H as <-.
    apply fresh_ok_spec in E as [E1 E2]. split; [apply ext_bind; auto | intros Hs; apply sok_bind; auto].
  - destruct (fresh_ok M G x) eqn:E; [| discriminate H]. injection H as <-.
    apply fresh_ok_spec in E as [E1 E2]. split; [apply ext_bind; auto | intros Hs; apply sok_bind; auto].
  - destruct (sf_block M (push G) th); [| discriminate H]. destruct (sf_block M (push G) el); [| discriminate H].
    injection H as <-. split; [apply ext_refl | auto].
  - destruct (sf_block M (push G) b); [| discriminate H]. injection H as <-. split; [apply ext_refl | auto].
  - destruct (fresh_ok M G x); [| discriminate H].
    match type of H with match ?c with _ => _ end = _ => destruct c; [| discriminate H] end.
    injection H as <-. split; [apply ext_refl | auto].
  - destruct (fresh_ok M G x); [| discriminate H].
    match type of H with match ?c with _ => _ end = _ => destruct c; [| discriminate H] end.
    injection H as <-. split; [apply ext_refl | auto].
  - destruct (sf_block M (push G) b); [| discriminate H]. injection H as <-. split; [apply ext_refl | auto].
  - destruct (sf_block M (push G) b); [| discriminate H]. injection H as <-. split; [apply ext_refl | auto].
  - destruct (sf_block M (push G) b); [| discriminate H]. injection H as <-. split; [apply ext_refl | auto].
Qed.

Lemma sf_block_step : forall b G G1, sf_block M G b = Some G1 -> ext G G1 /\ (sok M G -> sok M G1).
Proof.
  induction b as [| s b IH]; intros G G1 H; cbn in H.
  - injection H as <-. split; [apply ext_refl | auto].
  - destruct (sf_stmt M G s) as [G2|] eqn:E; [| discriminate H].
    apply sf_step in E as [E1 E2]. apply IH in H as [H1 H2]. split; [eapply ext_trans; eauto | auto].
Qed.

(* ---- the typechecker's (re-)visit of a statement in any extension of its environment ------------- *)
Lemma nested_ok : forall F b G0 d r Gb G' deep,
  (forall G'' deep', ext Gb G'' -> sok M G'' -> tcs_block Q M deep' F G'' r b = []) ->
  block_chk M F G0 d r b = Some Gb -> sf_block M G0 b <> None -> sok M G0 ->
  forall sc G, G0 = sc :: G -> ext G G' -> sok M G' ->
  tcs_block Q M deep F (final_scope sc b :: G') r b = [].
Proof.
  intros F b G0 d r Gb G' deep IH Hb Hsf Hs sc G -> Hext Hsok'.
  destruct (sf_block M (sc :: G) b) as [X|] eqn:Ex; [| contradiction].
  pose proof (proj2 (sf_same F) _ _ _ _ _ _ Hb Ex) as <-.
  pose proof (block_chk_final _ _ _ _ _ _ _ Hb) as ->.
  apply IH.
  - apply ext_cons_same; auto.
  - apply sok_cons_swap with (G := G); auto. apply (proj2 (sf_block_step _ _ _ Ex)); auto.
Qed.

Lemma rerun_ok : forall F,
  (forall s G d r G1, stmt_chk M F G d r s = Some G1 -> sf_stmt M G s = Some G1 -> sok M G ->
       forall G' deep, ext G G' -> sok M G' -> tcs_stmt Q M deep F G' r s = []) /\
  (forall b G d r G1, block_chk M F G d r b = Some G1 -> sf_block M G b = Some G1 -> sok M G ->
       forall G' deep, ext G1 G' -> sok M G' -> tcs_block Q M deep F G' r b = []).
Proof.
  intros F; apply stmt_block_ind.
  - (* SVar *)
    intros a t x e G d r G1 H1 H2 Hs G' deep Hext Hsok'. cbn in H1.
    destruct (ty_ok G t && genderb M t a && assign_chk M F G e t && negb (in_top G x)) eqn:E; [| discriminate H1].
    apply andb_true_iff in E as [E _]. apply andb_true_iff in E as [_ E3].
    rewrite tcs_var_eq. apply (tc_init_complete F G G' Hext (fun _ => Hsok') _ _ E3).
  - intros; reflexivity.
  - (* SAssign *)
    intros x e G d r G1 H1 H2 Hs G' deep Hext Hsok'. cbn in H1.
    destruct (lookup G x) as [[t| | |]|] eqn:El; try discriminate H1.
    destruct (assign_chk M F G e t) eqn:Ea; [| discriminate H1].
    rewrite tcs_assign_eq. unfold assign_chk in Ea. destruct (type_of M F G e) as [t0|] eqn:E; [| discriminate Ea].
    destruct (proj1 (tc_complete F G G' Hext Hsok') _ _ E) as [Ht _]. rewrite Ht. cbn [tc_expr]. rewrite (Hext _ _ El).
    cbn. unfold vassign_ok; cbn. unfold assignableb in Ea. apply orb_true_iff in Ea as [Ea | Ea].
    + apply ty_eqb_eq in Ea; subst. rewrite ty_eqb_refl. reflexivity.
    + apply andb_true_iff in Ea as [Ha Hb]. rewrite Ha, Hb, orb_true_r. reflexivity.
  - (* SAssignIdx *)
    intros x i e G d r G1 H1 H2 Hs G' deep Hext Hsok'. cbn in H1. destruct (lookup G x) as [[tx| | |]|] eqn:El; try discriminate H1.
    destruct (seqlike tx) eqn:E1; [| discriminate H1]. destruct (indexb_expr M F G i) eqn:E2; [| discriminate H1].
    destruct (assign_chk M F G e (selem tx)) eqn:E3; [| discriminate H1].
    apply (tcs_assignidx_ok F G G' Hext (fun _ => Hsok') deep r x i e tx El E1 E2 E3).
  - (* SAssignField *)
    intros f x e G d r G1 H1 H2 Hs G' deep Hext Hsok'. cbn in H1. destruct (lookup G x) as [[[| | | | | | |s]| | |]|] eqn:El; try discriminate H1.
    destruct (field_of M s f) as [[[|] tf]|] eqn:Ef; try discriminate H1.
    destruct (assign_chk M F G e tf) eqn:E3; [| discriminate H1].
    apply (tcs_assignfield_ok F G G' Hext (fun _ => Hsok') deep r f x e s tf El Ef E3).
  - (* SIf *)
    intros c th IHth el IHel G d r G1 H1 H2 Hs G' deep Hext Hsok'. cbn in H1, H2.
    destruct (has_typeb M F G c TBool) eqn:Ec; [| discriminate H1].
    destruct (block_chk M F (push G) d r th) as [Gth|] eqn:Eth; [| discriminate H1].
    destruct (block_chk M F (push G) d r el) as [Gel|] eqn:Eel; [| discriminate H1].
    destruct (sf_block M (push G) th) as [Xth|] eqn:Sth; [| discriminate H2].
    destruct (sf_block M (push G) el) as [Xel|] eqn:Sel; [| discriminate H2].
    rewrite tcs_if_eq. destruct (tc_cond_complete F G G' Hext (fun _ => Hsok') _ Ec) as [-> _]. cbn [app].
    destruct deep; auto.
    pose proof (proj2 (sf_same F) _ _ _ _ _ _ Eth Sth) as <-. pose proof (proj2 (sf_same F) _ _ _ _ _ _ Eel Sel) as <-.
    rewrite (nested_ok F th (push G) d r Gth G' true) with (sc := []) (G := G); auto using sok_push.
    + rewrite (nested_ok F el (push G) d r Gel G' true) with (sc := []) (G := G); auto using sok_push.
      * intros G'' deep' He Hk. eapply IHel; eauto using sok_push.
      * congruence.
    + intros G'' deep' He Hk. eapply IHth; eauto using sok_push.
    + congruence.
  - (* SWhile *)
    intros c b IHb G d r G1 H1 H2 Hs G' deep Hext Hsok'. cbn in H1, H2.
    destruct (has_typeb M F G c TBool) eqn:Ec; [| discriminate H1].
    destruct (block_chk M F (push G) (S d) r b) as [Gb|] eqn:Eb; [| discriminate H1].
    destruct (sf_block M (push G) b) as [Xb|] eqn:Sb; [| discriminate H2].
    rewrite tcs_while_eq. destruct (tc_cond_complete F G G' Hext (fun _ => Hsok') _ Ec) as [-> _]. cbn [app].
    destruct deep; auto.
    pose proof (proj2 (sf_same F) _ _ _ _ _ _ Eb Sb) as <-.
    apply (nested_ok F b (push G) (S d) r Gb G' true) with (sc := []) (G := G); auto using sok_push.
    + intros G'' deep' He Hk. eapply IHb; eauto using sok_push.
    + congruence.
  - (* SFor *)
    intros a t x from to step b IHb G d r G1 H1 H2 Hs G' deep Hext Hsok'. cbn [stmt_chk sf_stmt] in H1, H2.
    match type of H1 with (if ?c then _ else _) = _ => destruct c eqn:E; [| discriminate H1] end.
    destruct (block_chk M F (bind (push G) x (BVar t)) (S d) r b) as [Gb|] eqn:Eb; [| discriminate H1].
    destruct (fresh_ok M G x) eqn:Ef; [| discriminate H2].
    destruct (sf_block M (bind (push G) x (BVar t)) b) as [Xb|] eqn:Sb; [| discriminate H2].
    apply andb_true_iff in E as [E E6]. apply andb_true_iff in E as [E E5]. apply andb_true_iff in E as [E E4].
    apply andb_true_iff in E as [E E3].
    rewrite tcs_for_eq. destruct (tc_init_complete F G G' Hext (fun _ => Hsok') _ _ E4) as [-> _].
    destruct (tc_numeric_complete F G G' Hext (fun _ => Hsok') _ E5) as [-> _]. rewrite E3. cbn [unless app].
    assert (Hstep : match step with Some e => tc_numeric Q M F G' e | None => [] end = []).
    { destruct step as [e|]; auto. apply (tc_numeric_complete F G G' Hext (fun _ => Hsok') _ E6). }
    rewrite Hstep. cbn [app]. destruct deep; auto.
    pose proof (proj2 (sf_same F) _ _ _ _ _ _ Eb Sb) as <-.
    apply fresh_ok_spec in Ef as [Ef1 Ef2].
    assert (Hs0 : sok M (bind (push G) x (BVar t))) by (apply sok_bind; auto using sok_push).
    apply (nested_ok F b (bind (push G) x (BVar t)) (S d) r Gb G' true) with (sc := [(x, BVar t)]) (G := G); auto.
    + intros G'' deep' He Hk. eapply IHb; eauto.
    + congruence.
  - (* SForEach *)
    intros a t x e b IHb G d r G1 H1 H2 Hs G' deep Hext Hsok'. cbn [stmt_chk sf_stmt] in H1, H2.
    match type of H1 with (if ?c then _ else _) = _ => destruct c eqn:E; [| discriminate H1] end.
    destruct (block_chk M F (bind (push G) x (BVar t)) (S d) r b) as [Gb|] eqn:Eb; [| discriminate H1].
    destruct (fresh_ok M G x) eqn:Ef; [| discriminate H2].
    destruct (sf_block M (bind (push G) x (BVar t)) b) as [Xb|] eqn:Sb; [| discriminate H2].
    apply andb_true_iff in E as [E E3]. destruct (type_of M F G e) as [te|] eqn:Ee; [| discriminate E3].
    rewrite tcs_foreach_eq. destruct (tc_iter_complete F G G' Hext (fun _ => Hsok') _ _ _ Ee E3) as [-> _]. cbn [app].
    destruct deep; auto.
    pose proof (proj2 (sf_same F) _ _ _ _ _ _ Eb Sb) as <-.
    apply fresh_ok_spec in Ef as [Ef1 Ef2].
    assert (Hs0 : sok M (bind (push G) x (BVar t))) by (apply sok_bind; auto using sok_push).
    apply (nested_ok F b (bind (push G) x (BVar t)) (S d) r Gb G' true) with (sc := [(x, BVar t)]) (G := G); auto.
    + intros G'' deep' He Hk. eapply IHb; eauto.
    + congruence.
  - (* SRepeat *)
    intros b IHb n G d r G1 H1 H2 Hs G' deep Hext Hsok'. cbn in H1, H2.
    destruct (block_chk M F (push G) (S d) r b) as [Gb|] eqn:Eb; [| discriminate H1].
    destruct (indexb_expr M F G n) eqn:En; [| discriminate H1].
    destruct (sf_block M (push G) b) as [Xb|] eqn:Sb; [| discriminate H2].
    rewrite tcs_repeat_eq. destruct (tc_index_complete F G G' Hext (fun _ => Hsok') _ En) as [tn [-> [Hi _]]]. cbn. rewrite Hi. cbn.
    destruct deep; auto.
    pose proof (proj2 (sf_same F) _ _ _ _ _ _ Eb Sb) as <-.
    apply (nested_ok F b (push G) (S d) r Gb G' true) with (sc := []) (G := G); auto using sok_push.
    + intros G'' deep' He Hk. eapply IHb; eauto using sok_push.
    + congruence.
  - (* SDoWhile *)
    intros b IHb c G d r G1 H1 H2 Hs G' deep Hext Hsok'. cbn in H1, H2.
    destruct (block_chk M F (push G) (S d) r b) as [Gb|] eqn:Eb; [| discriminate H1].
    destruct (has_typeb M F G c TBool) eqn:Ec; [| discriminate H1].
    destruct (sf_block M (push G) b) as [Xb|] eqn:Sb; [| discriminate H2].
    rewrite tcs_dowhile_eq. destruct (tc_cond_complete F G G' Hext (fun _ => Hsok') _ Ec) as [-> _]. cbn [app].
    destruct deep; auto.
    pose proof (proj2 (sf_same F) _ _ _ _ _ _ Eb Sb) as <-.
    apply (nested_ok F b (push G) (S d) r Gb G' true) with (sc := []) (G := G); auto using sok_push.
    + intros G'' deep' He Hk. eapply IHb; eauto using sok_push.
    + congruence.
  - intros; reflexivity.
  - intros; reflexivity.
  - (* SReturn *)
    intros oe G d r G1 H1 H2 Hs G' deep Hext Hsok'. rewrite tcs_return_eq. unfold tc_return. cbn in H1.
    destruct oe as [e|]; destruct r as [| [t|]]; try discriminate H1.
    + destruct (has_typeb M F G e t) eqn:E; [| discriminate H1]. unfold has_typeb in E.
      destruct (type_of M F G e) as [t0|] eqn:Et; [| discriminate E]. apply ty_eqb_eq in E; subst t0.
      destruct (proj1 (tc_complete F G G' Hext Hsok') _ _ Et) as [Ht _]. rewrite Ht. cbn. rewrite ty_eqb_refl. reflexivity.
    + reflexivity.
  - (* SBlock *)
    intros b IHb G d r G1 H1 H2 Hs G' deep Hext Hsok'. cbn in H1, H2.
    destruct (block_chk M F (push G) d r b) as [Gb|] eqn:Eb; [| discriminate H1].
    destruct (sf_block M (push G) b) as [Xb|] eqn:Sb; [| discriminate H2].
    rewrite tcs_blockstmt_eq. destruct deep; auto.
    pose proof (proj2 (sf_same F) _ _ _ _ _ _ Eb Sb) as <-.
    apply (nested_ok F b (push G) d r Gb G' true) with (sc := []) (G := G); auto using sok_push.
    + intros G'' deep' He Hk. eapply IHb; eauto using sok_push.
    + congruence.
  - (* SCall *)
    intros f a G d r G1 H1 H2 Hs G' deep Hext Hsok'. rewrite tcs_call_eq, tc_call_eq. cbn in H1.
    destruct (assoc f F) as [[ps ro]|]; [| discriminate H1].
    destruct (args_chk M F G a ps) eqn:Ea; [| discriminate H1].
    cbn. apply (proj2 (tc_complete F G G' Hext Hsok') _ _ Ea).
  - intros; reflexivity.
  - (* BCons *)
    intros s IHs b IHb G d r G1 H1 H2 Hs G' deep Hext Hsok'. cbn in H1, H2.
    destruct (stmt_chk M F G d r s) as [Ga|] eqn:Ea; [| discriminate H1].
    destruct (sf_stmt M G s) as [Gb|] eqn:Esf; [| discriminate H2].
    pose proof (proj1 (sf_same F) _ _ _ _ _ _ Ea Esf) as <-.
    destruct (sf_step _ _ _ Esf) as [Hx1 Hk1]. destruct (sf_block_step _ _ _ H2) as [Hx2 Hk2].
    rewrite tcs_cons_eq.
    rewrite (IHs _ _ _ _ Ea Esf Hs G' deep (ext_trans _ _ _ Hx1 (ext_trans _ _ _ Hx2 Hext)) Hsok').
    rewrite (IHb _ _ _ _ H1 H2 (Hk1 Hs) G' deep Hext Hsok'). reflexivity.
Qed.

(* ---- the first visit of a statement: parse, resolve, typecheck ------------------------------------ *)
Lemma art_diag_ok : forall t a, genderb M t a = true -> art_diag M t a = [].
Proof.
  intros t a H; unfold genderb in H; unfold art_diag. destruct (gender M t); [| discriminate H]. rewrite H; reflexivity.
Qed.

(* from here on: the field name of a field assignment is not looked up as a variable *)
Hypothesis Hq3 : q_field_name_lookup Q = false.

Lemma ck_complete : forall F,
  (forall s G d r G1, stmt_chk M F G d r s = Some G1 -> sf_stmt M G s = Some G1 -> sok M G ->
       ck_stmt Q M F G d r s = ([], G1)) /\
  (forall b G d r G1, block_chk M F G d r b = Some G1 -> sf_block M G b = Some G1 -> sok M G ->
       ck_block Q M F G d r b = ([], G1)).
Proof.
  intros F; apply stmt_block_ind.
  - (* SVar *)
    intros a t x e G d r G1 H1 H2 Hs.
    pose proof (proj1 (rerun_ok F) _ _ _ _ _ H1 H2 Hs) as Hre. cbn in H1, H2.
    destruct (ty_ok G t && genderb M t a && assign_chk M F G e t && negb (in_top G x)) eqn:E; [| discriminate H1].
    injection H1 as <-.
    apply andb_true_iff in E as [E E4]. apply andb_true_iff in E as [E E3]. apply andb_true_iff in E as [E1 E2].
    apply negb_true_iff in E4. destruct (fresh_ok M G x) eqn:Ef; [| discriminate H2]. apply fresh_ok_spec in Ef as [Ef1 Ef2].
    rewrite ck_var_eq. unfold insert. rewrite E4. unfold pt_type. rewrite E1, (art_diag_ok _ _ E2).
    destruct (tc_init_complete F G G (ext_refl G) (fun _ => Hs) _ _ E3) as [_ [-> ->]]. cbn [unless app].
    rewrite Hre; auto. destruct (q_tc_by_name Q); [apply ext_bind; auto | apply ext_refl].
    destruct (q_tc_by_name Q); [apply sok_bind; auto | auto].
  - (* SConst *)
    intros a x l G d r G1 H1 H2 Hs. cbn in H1.
    destruct (article_eqb a Die && negb (in_top G x)) eqn:E; [| discriminate H1]. injection H1 as <-.
    apply andb_true_iff in E as [E1 E2]. apply negb_true_iff in E2.
    rewrite ck_const_eq. unfold insert. rewrite E2, E1. reflexivity.
  - (* SAssign *)
    intros x e G d r G1 H1 H2 Hs.
    pose proof (proj1 (rerun_ok F) _ _ _ _ _ H1 H2 Hs) as Hre. cbn in H1.
    destruct (lookup G x) as [[t| | |]|] eqn:El; try discriminate H1.
    destruct (assign_chk M F G e t) eqn:Ea; [| discriminate H1]. injection H1 as <-.
    rewrite ck_assign_eq, El. destruct (tc_init_complete F G G (ext_refl G) (fun _ => Hs) _ _ Ea) as [_ [-> ->]].
    rewrite Hre; auto using ext_refl.
  - (* SAssignIdx *)
    intros x i e G d r G1 H1 H2 Hs. cbn in H1. destruct (lookup G x) as [[tx| | |]|] eqn:El; try discriminate H1.
    destruct (seqlike tx) eqn:E1; [| discriminate H1]. destruct (indexb_expr M F G i) eqn:E2; [| discriminate H1].
    destruct (assign_chk M F G e (selem tx)) eqn:E3; [| discriminate H1]. injection H1 as <-.
    destruct (tcs_assignidx_ok F G G (ext_refl G) (fun _ => Hs) (q_tc_by_name Q) r x i e tx El E1 E2 E3) as [Ht [Hx [_ [Hri [Hpi [Hre Hpe]]]]]].
    rewrite ck_assignidx_eq, El, Hpe, Hpi, Hx, Hri, Hre, Ht. reflexivity.
  - (* SAssignField *)
    intros f x e G d r G1 H1 H2 Hs. cbn in H1. destruct (lookup G x) as [[[| | | | | | |s]| | |]|] eqn:El; try discriminate H1.
    destruct (field_of M s f) as [[[|] tf]|] eqn:Ef; try discriminate H1.
    destruct (assign_chk M F G e tf) eqn:E3; [| discriminate H1]. injection H1 as <-.
    destruct (tcs_assignfield_ok F G G (ext_refl G) (fun _ => Hs) (q_tc_by_name Q) r f x e s tf El Ef E3) as [Ht [Hx [_ [Hre Hpe]]]].
    rewrite ck_assignfield_eq, Hq3, El, Hpe, Hx, Hre, Ht. reflexivity.
  - (* SIf *)
    intros c th IHth el IHel G d r G1 H1 H2 Hs.
    pose proof (proj1 (rerun_ok F) _ _ _ _ _ H1 H2 Hs) as Hre. cbn in H1, H2.
    destruct (has_typeb M F G c TBool) eqn:Ec; [| discriminate H1].
    destruct (block_chk M F (push G) d r th) as [Gth|] eqn:Eth; [| discriminate H1].
    destruct (block_chk M F (push G) d r el) as [Gel|] eqn:Eel; [| discriminate H1]. injection H1 as <-.
    destruct (sf_block M (push G) th) as [Xth|] eqn:Sth; [| discriminate H2].
    destruct (sf_block M (push G) el) as [Xel|] eqn:Sel; [| discriminate H2].
    pose proof (proj2 (sf_same F) _ _ _ _ _ _ Eth Sth) as <-. pose proof (proj2 (sf_same F) _ _ _ _ _ _ Eel Sel) as <-.
    rewrite ck_if_eq, (IHth _ _ _ _ Eth Sth (sok_push _ _ Hs)), (IHel _ _ _ _ Eel Sel (sok_push _ _ Hs)).
    destruct (tc_cond_complete F G G (ext_refl G) (fun _ => Hs) _ Ec) as [_ [-> ->]].
    rewrite Hre; auto using ext_refl.
  - (* SWhile *)
    intros c b IHb G d r G1 H1 H2 Hs.
    pose proof (proj1 (rerun_ok F) _ _ _ _ _ H1 H2 Hs) as Hre. cbn in H1, H2.
    destruct (has_typeb M F G c TBool) eqn:Ec; [| discriminate H1].
    destruct (block_chk M F (push G) (S d) r b) as [Gb|] eqn:Eb; [| discriminate H1]. injection H1 as <-.
    destruct (sf_block M (push G) b) as [Xb|] eqn:Sb; [| discriminate H2].
    pose proof (proj2 (sf_same F) _ _ _ _ _ _ Eb Sb) as <-.
    rewrite ck_while_eq, (IHb _ _ _ _ Eb Sb (sok_push _ _ Hs)).
    destruct (tc_cond_complete F G G (ext_refl G) (fun _ => Hs) _ Ec) as [_ [-> ->]].
    rewrite Hre; auto using ext_refl.
  - (* SFor *)
    intros a t x from to step b IHb G d r G1 H1 H2 Hs.
    pose proof (proj1 (rerun_ok F) _ _ _ _ _ H1 H2 Hs) as Hre. cbn [stmt_chk sf_stmt] in H1, H2.
    match type of H1 with (if ?c then _ else _) = _ => destruct c eqn:E; [| discriminate H1] end.
    destruct (block_chk M F (bind (push G) x (BVar t)) (S d) r b) as [Gb|] eqn:Eb; [| discriminate H1]. injection H1 as <-.
    destruct (fresh_ok M G x) eqn:Ef; [| discriminate H2].
    destruct (sf_block M (bind (push G) x (BVar t)) b) as [Xb|] eqn:Sb; [| discriminate H2].
    pose proof (proj2 (sf_same F) _ _ _ _ _ _ Eb Sb) as <-.
    apply andb_true_iff in E as [E E6]. apply andb_true_iff in E as [E E5]. apply andb_true_iff in E as [E E4].
    apply andb_true_iff in E as [E E3]. apply andb_true_iff in E as [E1 E2].
    apply fresh_ok_spec in Ef as [Ef1 Ef2].
    assert (Hs0 : sok M (bind (push G) x (BVar t))) by (apply sok_bind; auto using sok_push).
    assert (Hx0 : ext G (bind (push G) x (BVar t))) by (eapply ext_trans; [apply ext_push | apply ext_bind; cbn; auto]).
    destruct (sf_block_step _ _ _ Sb) as [Hxb Hkb].
    assert (HxG : ext G Gb) by (eapply ext_trans; eauto).
    rewrite ck_for_eq, (IHb _ _ _ _ Eb Sb Hs0). unfold pt_type. rewrite E1, (art_diag_ok _ _ E2).
    destruct (tc_init_complete F G G (ext_refl G) (fun _ => Hs) _ _ E4) as [_ [_ ->]].
    destruct (tc_numeric_complete F G G (ext_refl G) (fun _ => Hs) _ E5) as [_ [_ ->]].
    assert (HxGr : ext G (if q_tc_by_name Q then Gb else G)) by (destruct (q_tc_by_name Q); auto using ext_refl).
    assert (HkGr : sok M (if q_tc_by_name Q then Gb else G)) by (destruct (q_tc_by_name Q); auto).
    destruct (tc_init_complete F G _ HxGr (fun _ => HkGr) _ _ E4) as [_ [-> _]].
    destruct (tc_numeric_complete F G _ HxGr (fun _ => HkGr) _ E5) as [_ [-> _]].
    assert (Hst : pt_opt F G step = [] /\ rs_opt (if q_tc_by_name Q then Gb else G) step = []).
    { destruct step as [e|]; [| split; reflexivity]. cbn.
      destruct (tc_numeric_complete F G G (ext_refl G) (fun _ => Hs) _ E6) as [_ [_ ->]].
      destruct (tc_numeric_complete F G _ HxGr (fun _ => HkGr) _ E6) as [_ [-> _]]. split; reflexivity. }
    destruct Hst as [-> ->]. cbn [unless app].
    rewrite Hre; auto using ext_refl.
  - (* SForEach *)
    intros a t x e b IHb G d r G1 H1 H2 Hs.
    pose proof (proj1 (rerun_ok F) _ _ _ _ _ H1 H2 Hs) as Hre. cbn [stmt_chk sf_stmt] in H1, H2.
    match type of H1 with (if ?c then _ else _) = _ => destruct c eqn:E; [| discriminate H1] end.
    destruct (block_chk M F (bind (push G) x (BVar t)) (S d) r b) as [Gb|] eqn:Eb; [| discriminate H1]. injection H1 as <-.
    destruct (fresh_ok M G x) eqn:Ef; [| discriminate H2].
    destruct (sf_block M (bind (push G) x (BVar t)) b) as [Xb|] eqn:Sb; [| discriminate H2].
    pose proof (proj2 (sf_same F) _ _ _ _ _ _ Eb Sb) as <-.
    apply andb_true_iff in E as [E E3]. apply andb_true_iff in E as [E1 E2].
    destruct (type_of M F G e) as [te|] eqn:Ee; [| discriminate E3].
    apply fresh_ok_spec in Ef as [Ef1 Ef2].
    assert (Hs0 : sok M (bind (push G) x (BVar t))) by (apply sok_bind; auto using sok_push).
    rewrite ck_foreach_eq, (IHb _ _ _ _ Eb Sb Hs0). unfold pt_type. rewrite E1, (art_diag_ok _ _ E2).
    destruct (tc_iter_complete F G G (ext_refl G) (fun _ => Hs) _ _ _ Ee E3) as [_ [-> ->]]. cbn [unless app].
    rewrite Hre; auto using ext_refl.
  - (* SRepeat *)
    intros b IHb n G d r G1 H1 H2 Hs.
    pose proof (proj1 (rerun_ok F) _ _ _ _ _ H1 H2 Hs) as Hre. cbn in H1, H2.
    destruct (block_chk M F (push G) (S d) r b) as [Gb|] eqn:Eb; [| discriminate H1].
    destruct (indexb_expr M F G n) eqn:En; [| discriminate H1]. injection H1 as <-.
    destruct (sf_block M (push G) b) as [Xb|] eqn:Sb; [| discriminate H2].
    pose proof (proj2 (sf_same F) _ _ _ _ _ _ Eb Sb) as <-.
    rewrite ck_repeat_eq, (IHb _ _ _ _ Eb Sb (sok_push _ _ Hs)).
    destruct (tc_index_complete F G G (ext_refl G) (fun _ => Hs) _ En) as [tn [_ [_ [-> ->]]]].
    rewrite Hre; auto using ext_refl.
  - (* SDoWhile *)
    intros b IHb c G d r G1 H1 H2 Hs.
    pose proof (proj1 (rerun_ok F) _ _ _ _ _ H1 H2 Hs) as Hre. cbn in H1, H2.
    destruct (block_chk M F (push G) (S d) r b) as [Gb|] eqn:Eb; [| discriminate H1].
    destruct (has_typeb M F G c TBool) eqn:Ec; [| discriminate H1]. injection H1 as <-.
    destruct (sf_block M (push G) b) as [Xb|] eqn:Sb; [| discriminate H2].
    pose proof (proj2 (sf_same F) _ _ _ _ _ _ Eb Sb) as <-.
    rewrite ck_dowhile_eq, (IHb _ _ _ _ Eb Sb (sok_push _ _ Hs)).
    destruct (tc_cond_complete F G G (ext_refl G) (fun _ => Hs) _ Ec) as [_ [-> ->]].
    rewrite Hre; auto using ext_refl.
  - intros G d r G1 H1 _ _. cbn in *. destruct d; inversion H1; reflexivity.
  - intros G d r G1 H1 _ _. cbn in *. destruct d; inversion H1; reflexivity.
  - (* SReturn *)
    intros oe G d r G1 H1 H2 Hs.
    pose proof (proj1 (rerun_ok F) _ _ _ _ _ H1 H2 Hs) as Hre. cbn in H1.
    rewrite ck_return_eq.
    destruct oe as [e|]; destruct r as [| [t|]]; try discriminate H1.
    + destruct (has_typeb M F G e t) eqn:E; [| discriminate H1]. injection H1 as <-.
      unfold has_typeb in E. destruct (type_of M F G e) as [t0|] eqn:Et; [| discriminate E].
      destruct (proj1 (tc_complete F G G (ext_refl G) Hs) _ _ Et) as [_ [Hr Hp]]. cbn [pt_opt rs_opt]. rewrite Hr, Hp.
      rewrite Hre; auto using ext_refl.
    + injection H1 as <-. cbn [pt_opt rs_opt app]. rewrite Hre; auto using ext_refl.
  - (* SBlock *)
    intros b IHb G d r G1 H1 H2 Hs.
    pose proof (proj1 (rerun_ok F) _ _ _ _ _ H1 H2 Hs) as Hre. cbn in H1, H2.
    destruct (block_chk M F (push G) d r b) as [Gb|] eqn:Eb; [| discriminate H1]. injection H1 as <-.
    destruct (sf_block M (push G) b) as [Xb|] eqn:Sb; [| discriminate H2].
    pose proof (proj2 (sf_same F) _ _ _ _ _ _ Eb Sb) as <-.
    rewrite ck_blockstmt_eq, (IHb _ _ _ _ Eb Sb (sok_push _ _ Hs)). rewrite Hre; auto using ext_refl.
  - (* SCall *)
    intros f a G d r G1 H1 H2 Hs.
    pose proof (proj1 (rerun_ok F) _ _ _ _ _ H1 H2 Hs) as Hre. cbn in H1.
    rewrite ck_call_eq. cbn [pt_expr].
    destruct (assoc f F) as [[ps ro]|]; [| discriminate H1].
    destruct (args_chk M F G a ps) eqn:Ea; [| discriminate H1]. injection H1 as <-.
    destruct (proj2 (tc_complete F G G (ext_refl G) Hs) _ _ Ea) as [_ [-> ->]].
    rewrite Hre; auto using ext_refl.
  - intros G d r G1 H1 _ _. cbn in *. injection H1 as <-; reflexivity.
  - (* BCons *)
    intros s IHs b IHb G d r G1 H1 H2 Hs. cbn in H1, H2.
    destruct (stmt_chk M F G d r s) as [Ga|] eqn:Ea; [| discriminate H1].
    destruct (sf_stmt M G s) as [Gb|] eqn:Esf; [| discriminate H2].
    pose proof (proj1 (sf_same F) _ _ _ _ _ _ Ea Esf) as <-.
    destruct (sf_step _ _ _ Esf) as [_ Hk1].
    rewrite ck_cons_eq, (IHs _ _ _ _ Ea Esf Hs), (IHb _ _ _ _ H1 H2 (Hk1 Hs)). reflexivity.
Qed.

(* ---- functions and the top level -------------------------------------------------------------------- *)
Lemma nodupb_dup_names : forall l, nodupb l = true -> dup_names l = [].
Proof.
  induction l as [| x l IH]; cbn; intros H; auto. apply andb_true_iff in H as [H1 H2].
  apply negb_true_iff in H1. rewrite H1, (IH H2). reflexivity.
Qed.

Lemma sok_scope : forall sc G, (forall y, In y (map fst sc) -> is_struct_name M y = false) -> sok M G -> sok M (sc :: G).
Proof.
  intros sc G Hn Hs st Hst. cbn. destruct (assoc st sc) eqn:E; auto.
  exfalso. assert (In st (map fst sc)) by (apply assoc_names; congruence). rewrite (Hn _ H) in Hst. discriminate Hst.
Qed.

Lemma ck_params_flat : forall G l, forallb (fun p => param_name_ok G (pname p) && ty_ok G (ptype p)) l = true ->
  flat_map (fun p => unless (param_name_ok G (pname p)) DDup ++ pt_type G (ptype p)) l = [].
Proof.
  intros G; induction l as [| q l IH]; cbn; intros H; auto. apply andb_true_iff in H as [Hq Hl].
  apply andb_true_iff in Hq as [Hq1 Hq2]. unfold pt_type. rewrite Hq1, Hq2. cbn. auto.
Qed.

Lemma ck_fun_complete : forall F G f, fun_chk M F G f = true -> sf_fun M G f = true -> sok M G ->
  ck_fun Q M F G f = ([], bind G (f_name f) BFun, (f_name f, sig_of f) :: F).
Proof.
  intros F G f H Hsf Hs. unfold fun_chk in H. destruct (lookup G (f_name f)) eqn:El; [discriminate H |].
  apply andb_true_iff in H as [H Hfin]. apply andb_true_iff in H as [H Hblk].
  apply andb_true_iff in H as [H Hret]. apply andb_true_iff in H as [Hnd Hps].
  destruct (block_chk M ((f_name f, sig_of f) :: F) (param_scope f :: bind G (f_name f) BFun) 0
                      (RFun (option_map snd (f_ret f))) (f_body f)) as [G1|] eqn:Eb; [| discriminate Hblk].
  unfold sf_fun in Hsf. apply andb_true_iff in Hsf as [Hsf Hsb]. apply andb_true_iff in Hsf as [Hsn Hsp].
  apply negb_true_iff in Hsn.
  destruct (sf_block M (param_scope f :: bind G (f_name f) BFun) (f_body f)) as [X|] eqn:Sb; [| discriminate Hsb].
  pose proof (proj2 (sf_same _) _ _ _ _ _ _ Eb Sb) as <-.
  assert (Hs0 : sok M (param_scope f :: bind G (f_name f) BFun)).
  { apply sok_scope; [| apply sok_bind; auto]. intros y Hy. unfold param_scope in Hy. rewrite map_map in Hy. cbn in Hy.
    apply in_map_iff in Hy as [q [<- Hq]]. apply filter_In in Hq as [Hq _].
    rewrite forallb_forall in Hsp. apply Hsp in Hq. apply andb_true_iff in Hq as [Hq _]. apply fresh_ok_spec in Hq as [_ Hq]; auto. }
  pose proof (proj2 (ck_complete _) _ _ _ _ _ Eb Sb Hs0) as Hck.
  unfold ck_fun. rewrite El.
  assert (Hparams : ck_params G (f_params f) = []).
  { unfold ck_params. rewrite (nodupb_dup_names _ Hnd). cbn [app]. apply ck_params_flat; auto. }
  rewrite Hparams.
  assert (Hrt : match f_ret f with Some (_, t) => pt_type G t | None => [] end = [] /\
                match f_ret f with Some (a, t) => art_diag M t a | None => [] end = []).
  { destruct (f_ret f) as [[a t]|]; [| split; reflexivity]. cbn in Hret. apply andb_true_iff in Hret as [Hr1 Hr2].
    unfold pt_type. rewrite Hr1, (art_diag_ok _ _ Hr2). split; reflexivity. }
  destruct Hrt as [-> ->]. cbn [app]. rewrite Hck.
  destruct (f_ret f); [rewrite Hfin |]; reflexivity.
Qed.

Lemma ck_tops_complete : forall l F G, tops_chk M F G l = true -> sf_tops M G l = true -> sok M G -> ck_tops Q M F G l = [].
Proof.
  induction l as [| [f|s] l IH]; intros F G H Hsf Hs; cbn in *; auto.
  - apply andb_true_iff in H as [Hf Hl]. apply andb_true_iff in Hsf as [Hsf Hsl].
    rewrite (ck_fun_complete _ _ _ Hf Hsf Hs). cbn [app]. apply IH; auto.
    apply sok_bind; auto. unfold sf_fun in Hsf. apply andb_true_iff in Hsf as [Hsf _]. apply andb_true_iff in Hsf as [Hsf _].
    apply negb_true_iff in Hsf; auto.
  - destruct (stmt_chk M F G 0 RGlobal s) as [G1|] eqn:Es; [| discriminate H].
    destruct (sf_stmt M G s) as [G2|] eqn:Ss; [| discriminate Hsf].
    pose proof (proj1 (sf_same _) _ _ _ _ _ _ Es Ss) as <-.
    rewrite (proj1 (ck_complete _) _ _ _ _ _ Es Ss Hs). cbn [app]. apply IH; auto.
    apply (proj2 (sf_step _ _ _ Ss)); auto.
Qed.

End Complete.

(* ---- imports ------------------------------------------------------------------------------------------ *)
Lemma import_fold_complete : forall M l sc F0,
  NoDup (map idecl_name l) -> (forall d, In d l -> assoc (idecl_name d) sc = None) ->
  fold_left (ck_import_decl M) l ([], [sc], F0) =
  ([], [rev (map (fun d => (idecl_name d, idecl_binding d)) l) ++ sc], rev (flat_map (idecl_fun M) l) ++ F0).
Proof.
  intros M; induction l as [| d l IH]; intros sc F0 Hnd Hfresh; cbn [fold_left]; [reflexivity |].
  unfold ck_import_decl at 2. unfold insert. cbn [in_top]. rewrite (Hfresh d (or_introl eq_refl)). cbn [bind app].
  inversion Hnd as [| x xs Hnot Hnd']; subst.
  rewrite IH; auto.
  - cbn [map rev flat_map]. rewrite rev_app_distr, <- !app_assoc. reflexivity.
  - intros d' Hd'. cbn. destruct (Nat.eqb (idecl_name d') (idecl_name d)) eqn:E.
    + apply Nat.eqb_eq in E. exfalso; apply Hnot. rewrite <- E. apply in_map; auto.
    + apply Hfresh; right; auto.
Qed.

Lemma import_names_fold : forall M xs ds st, find_all_pub M xs = Some ds ->
  fold_left (ck_import_name M) xs st = fold_left (ck_import_decl M) ds st.
Proof.
  intros M; induction xs as [| x xs IH]; intros ds st H; cbn in H.
  - injection H as <-; reflexivity.
  - destruct (find_pub M x) as [d|] eqn:Ef; [| discriminate H].
    destruct (find_all_pub M xs) as [ds'|] eqn:Ea; [| discriminate H]. injection H as <-.
    cbn [fold_left]. unfold ck_import_name at 2. rewrite Ef. apply IH; auto.
Qed.

Lemma ck_import_complete : forall M i ds, import_decls M i = Some ds ->
  ck_import M i = ([], [scope_of_decls ds], funs_of_decls M ds).
Proof.
  intros M i ds H. destruct i as [| | xs]; cbn in H.
  - injection H as <-. reflexivity.
  - destruct (nodupb (map idecl_name (filter idecl_pub M))) eqn:E; [| discriminate H]. injection H as <-.
    cbn. rewrite import_fold_complete; [| apply nodupb_iff; auto | intros; reflexivity].
    unfold scope_of_decls, funs_of_decls. rewrite !app_nil_r. reflexivity.
  - destruct (nodupb xs) eqn:E; [| discriminate H].
    cbn. rewrite (import_names_fold _ _ _ _ H). rewrite import_fold_complete.
    + unfold scope_of_decls, funs_of_decls. rewrite !app_nil_r. reflexivity.
    + rewrite (find_all_pub_names _ _ _ H). apply nodupb_iff; auto.
    + intros; reflexivity.
Qed.

Lemma find_pub_in : forall M x d, find_pub M x = Some d -> In d M.
Proof.
  induction M as [| d0 M IH]; intros x d H; cbn in H; [discriminate H |].
  destruct (Nat.eqb (idecl_name d0) x && idecl_pub d0); [injection H as <-; left; auto | right; eauto].
Qed.

Lemma find_all_pub_in : forall M xs ds, find_all_pub M xs = Some ds -> forall d, In d ds -> In d M.
Proof.
  intros M; induction xs as [| x xs IH]; intros ds H d Hd; cbn in H.
  - injection H as <-; contradiction.
  - destruct (find_pub M x) as [d0|] eqn:Ef; [| discriminate H].
    destruct (find_all_pub M xs) as [ds'|] eqn:Ea; [| discriminate H]. injection H as <-.
    destruct Hd as [<- | Hd]; [eapply find_pub_in; eauto | eapply IH; eauto].
Qed.

Lemma import_decls_in : forall M i ds, import_decls M i = Some ds -> forall d, In d ds -> In d M.
Proof.
  intros M i ds H d Hd. destruct i as [| | xs]; cbn in H.
  - injection H as <-; contradiction.
  - destruct (nodupb (map idecl_name (filter idecl_pub M))); [| discriminate H]. injection H as <-.
    apply filter_In in Hd as [Hd _]; auto.
  - destruct (nodupb xs); [| discriminate H]. eapply find_all_pub_in; eauto.
Qed.

Lemma assoc_in : forall {A} x (l : list (name * A)) b, assoc x l = Some b -> In (x, b) l.
Proof.
  induction l as [| [y c] l IH]; intros b H; cbn in H; [discriminate H |].
  destruct (Nat.eqb x y) eqn:E; [apply Nat.eqb_eq in E; subst; injection H as <-; left; auto | right; auto].
Qed.

Lemma sok_import : forall M ds, mod_ok M = true -> (forall d, In d ds -> In d M) -> sok M [scope_of_decls ds].
Proof.
  intros M ds Hm Hin st Hst. cbn. destruct (assoc st (scope_of_decls ds)) as [b|] eqn:E; auto. right.
  apply assoc_in in E. unfold scope_of_decls in E. apply in_rev in E. apply in_map_iff in E as [d [Hd Hdin]].
  injection Hd as Hn Hb. subst st b. apply Hin in Hdin. unfold mod_ok in Hm. rewrite forallb_forall in Hm. apply Hm in Hdin.
  destruct d; cbn in *; try reflexivity; rewrite Hst in Hdin; discriminate Hdin.
Qed.

(* ---- full completeness when the typechecker uses the resolver's bindings and fields are protected by type ---- *)
Section Full.
Variable Q : quirks.
Variable M : imod.
Hypothesis Hq1 : q_tc_by_name Q = false.
Hypothesis Hq2 : q_field_unimported Q = false.
Hypothesis Hq3 : q_field_name_lookup Q = false.

Lemma nosok : forall G, q_field_unimported Q = true -> sok M G.
Proof. intros G E; rewrite Hq2 in E; discriminate E. Qed.

Lemma tcs_shallow : forall F s G d r G1, stmt_chk M F G d r s = Some G1 -> tcs_stmt Q M false F G r s = [].
Proof.
  intros F s G d r G1 H1. destruct s.
  - cbn in H1. destruct (ty_ok G t && genderb M t a && assign_chk M F G e t && negb (in_top G x)) eqn:E; [| discriminate H1].
    apply andb_true_iff in E as [E _]. apply andb_true_iff in E as [_ E3].
    rewrite tcs_var_eq. apply (tc_init_complete Q M F G G (ext_refl G) (nosok G) _ _ E3).
  - reflexivity.
  - cbn in H1. destruct (lookup G x) as [[t| | |]|] eqn:El; try discriminate H1.
    destruct (assign_chk M F G e t) eqn:Ea; [| discriminate H1].
    rewrite tcs_assign_eq. unfold assign_chk in Ea. destruct (type_of M F G e) as [t0|] eqn:E; [| discriminate Ea].
    destruct (proj1 (tc_complete_gen Q M F G G (ext_refl G) (nosok G)) _ _ E) as [Ht _]. rewrite Ht. cbn [tc_expr]. rewrite El.
    cbn. unfold vassign_ok; cbn. unfold assignableb in Ea. apply orb_true_iff in Ea as [Ea | Ea].
    + apply ty_eqb_eq in Ea; subst. rewrite ty_eqb_refl. reflexivity.
    + apply andb_true_iff in Ea as [Ha Hb]. rewrite Ha, Hb, orb_true_r. reflexivity.
  - cbn in H1. destruct (lookup G x) as [[tx| | |]|] eqn:El; try discriminate H1.
    destruct (seqlike tx) eqn:E1; [| discriminate H1]. destruct (indexb_expr M F G i) eqn:E2; [| discriminate H1].
    destruct (assign_chk M F G e (selem tx)) eqn:E3; [| discriminate H1].
    apply (tcs_assignidx_ok Q M F G G (ext_refl G) (nosok G) false r x i e tx El E1 E2 E3).
  - cbn in H1. destruct (lookup G x) as [[[| | | | | | |s]| | |]|] eqn:El; try discriminate H1.
    destruct (field_of M s f) as [[[|] tf]|] eqn:Ef; try discriminate H1.
    destruct (assign_chk M F G e tf) eqn:E3; [| discriminate H1].
    apply (tcs_assignfield_ok Q M F G G (ext_refl G) (nosok G) false r f x e s tf El Ef E3).
  - cbn in H1. destruct (has_typeb M F G c TBool) eqn:Ec; [| discriminate H1].
    rewrite tcs_if_eq. destruct (tc_cond_complete Q M F G G (ext_refl G) (nosok G) _ Ec) as [-> _]. reflexivity.
  - cbn in H1. destruct (has_typeb M F G c TBool) eqn:Ec; [| discriminate H1].
    rewrite tcs_while_eq. destruct (tc_cond_complete Q M F G G (ext_refl G) (nosok G) _ Ec) as [-> _]. reflexivity.
  - cbn [stmt_chk] in H1.
    match type of H1 with (if ?c then _ else _) = _ => destruct c eqn:E; [| discriminate H1] end.
    apply andb_true_iff in E as [E E6]. apply andb_true_iff in E as [E E5]. apply andb_true_iff in E as [E E4].
    apply andb_true_iff in E as [E E3].
    rewrite tcs_for_eq. destruct (tc_init_complete Q M F G G (ext_refl G) (nosok G) _ _ E4) as [-> _].
    destruct (tc_numeric_complete Q M F G G (ext_refl G) (nosok G) _ E5) as [-> _]. rewrite E3. cbn [unless app].
    destruct step as [e|]; [| reflexivity].
    destruct (tc_numeric_complete Q M F G G (ext_refl G) (nosok G) _ E6) as [-> _]. reflexivity.
  - cbn [stmt_chk] in H1.
    match type of H1 with (if ?c then _ else _) = _ => destruct c eqn:E; [| discriminate H1] end.
    apply andb_true_iff in E as [E E3]. destruct (type_of M F G e) as [te|] eqn:Ee; [| discriminate E3].
    rewrite tcs_foreach_eq. destruct (tc_iter_complete Q M F G G (ext_refl G) (nosok G) _ _ _ Ee E3) as [-> _]. reflexivity.
  - cbn in H1. destruct (block_chk M F (push G) (S d) r b); [| discriminate H1].
    destruct (indexb_expr M F G n) eqn:En; [| discriminate H1].
    rewrite tcs_repeat_eq. destruct (tc_index_complete Q M F G G (ext_refl G) (nosok G) _ En) as [tn [-> [Hi _]]]. cbn. rewrite Hi. reflexivity.
  - cbn in H1. destruct (block_chk M F (push G) (S d) r b); [| discriminate H1].
    destruct (has_typeb M F G c TBool) eqn:Ec; [| discriminate H1].
    rewrite tcs_dowhile_eq. destruct (tc_cond_complete Q M F G G (ext_refl G) (nosok G) _ Ec) as [-> _]. reflexivity.
  - reflexivity.
  - reflexivity.
  - rewrite tcs_return_eq. unfold tc_return. cbn in H1.
    destruct e as [e|]; destruct r as [| [t|]]; try discriminate H1.
    + destruct (has_typeb M F G e t) eqn:E; [| discriminate H1]. unfold has_typeb in E.
      destruct (type_of M F G e) as [t0|] eqn:Et; [| discriminate E]. apply ty_eqb_eq in E; subst t0.
      destruct (proj1 (tc_complete_gen Q M F G G (ext_refl G) (nosok G)) _ _ Et) as [Ht _]. rewrite Ht. cbn. rewrite ty_eqb_refl. reflexivity.
    + reflexivity.
  - rewrite tcs_blockstmt_eq. reflexivity.
  - rewrite tcs_call_eq, tc_call_eq. cbn in H1.
    destruct (assoc f F) as [[ps ro]|]; [| discriminate H1].
    destruct (args_chk M F G a ps) eqn:Ea; [| discriminate H1].
    cbn. apply (proj2 (tc_complete_gen Q M F G G (ext_refl G) (nosok G)) _ _ Ea).
Qed.

Lemma ck_complete_full : forall F,
  (forall s G d r G1, stmt_chk M F G d r s = Some G1 -> ck_stmt Q M F G d r s = ([], G1)) /\
  (forall b G d r G1, block_chk M F G d r b = Some G1 -> ck_block Q M F G d r b = ([], G1)).
Proof.
  intros F; apply stmt_block_ind.
  - intros a t x e G d r G1 H1. pose proof (tcs_shallow F _ _ _ _ _ H1) as Hre. cbn in H1.
    destruct (ty_ok G t && genderb M t a && assign_chk M F G e t && negb (in_top G x)) eqn:E; [| discriminate H1].
    injection H1 as <-.
    apply andb_true_iff in E as [E E4]. apply andb_true_iff in E as [E E3]. apply andb_true_iff in E as [E1 E2].
    apply negb_true_iff in E4.
    rewrite ck_var_eq. unfold insert. rewrite E4. unfold pt_type. rewrite E1, (art_diag_ok M _ _ E2).
    destruct (tc_init_complete Q M F G G (ext_refl G) (nosok G) _ _ E3) as [_ [-> ->]]. cbn [unless app].
    rewrite Hq1, Hre. reflexivity.
  - intros a x l G d r G1 H1. cbn in H1.
    destruct (article_eqb a Die && negb (in_top G x)) eqn:E; [| discriminate H1]. injection H1 as <-.
    apply andb_true_iff in E as [E1 E2]. apply negb_true_iff in E2.
    rewrite ck_const_eq. unfold insert. rewrite E2, E1. reflexivity.
  - intros x e G d r G1 H1. pose proof (tcs_shallow F _ _ _ _ _ H1) as Hre. cbn in H1.
    destruct (lookup G x) as [[t| | |]|] eqn:El; try discriminate H1.
    destruct (assign_chk M F G e t) eqn:Ea; [| discriminate H1]. injection H1 as <-.
    rewrite ck_assign_eq, El. destruct (tc_init_complete Q M F G G (ext_refl G) (nosok G) _ _ Ea) as [_ [-> ->]].
    rewrite Hq1, Hre. reflexivity.
  - intros x i e G d r G1 H1. pose proof (tcs_shallow F _ _ _ _ _ H1) as Hre. cbn in H1. destruct (lookup G x) as [[tx| | |]|] eqn:El; try discriminate H1.
    destruct (seqlike tx) eqn:E1; [| discriminate H1]. destruct (indexb_expr M F G i) eqn:E2; [| discriminate H1].
    destruct (assign_chk M F G e (selem tx)) eqn:E3; [| discriminate H1]. injection H1 as <-.
    destruct (tcs_assignidx_ok Q M F G G (ext_refl G) (nosok G) false r x i e tx El E1 E2 E3) as [_ [Hx [_ [Hri [Hpi [Hr Hp]]]]]].
    rewrite ck_assignidx_eq, El, Hp, Hpi, Hx, Hri, Hr, Hq1, Hre. reflexivity.
  - intros f x e G d r G1 H1. pose proof (tcs_shallow F _ _ _ _ _ H1) as Hre. cbn in H1. destruct (lookup G x) as [[[| | | | | | |s]| | |]|] eqn:El; try discriminate H1.
    destruct (field_of M s f) as [[[|] tf]|] eqn:Ef; try discriminate H1.
    destruct (assign_chk M F G e tf) eqn:E3; [| discriminate H1]. injection H1 as <-.
    destruct (tcs_assignfield_ok Q M F G G (ext_refl G) (nosok G) false r f x e s tf El Ef E3) as [_ [Hx [_ [Hr Hp]]]].
    rewrite ck_assignfield_eq, Hq3, El, Hp, Hx, Hr, Hq1, Hre. reflexivity.
  - intros c th IHth el IHel G d r G1 H1. pose proof (tcs_shallow F _ _ _ _ _ H1) as Hre. cbn in H1.
    destruct (has_typeb M F G c TBool) eqn:Ec; [| discriminate H1].
    destruct (block_chk M F (push G) d r th) as [Gth|] eqn:Eth; [| discriminate H1].
    destruct (block_chk M F (push G) d r el) as [Gel|] eqn:Eel; [| discriminate H1]. injection H1 as <-.
    rewrite ck_if_eq, (IHth _ _ _ _ Eth), (IHel _ _ _ _ Eel).
    destruct (tc_cond_complete Q M F G G (ext_refl G) (nosok G) _ Ec) as [_ [-> ->]].
    rewrite Hq1, Hre. reflexivity.
  - intros c b IHb G d r G1 H1. pose proof (tcs_shallow F _ _ _ _ _ H1) as Hre. cbn in H1.
    destruct (has_typeb M F G c TBool) eqn:Ec; [| discriminate H1].
    destruct (block_chk M F (push G) (S d) r b) as [Gb|] eqn:Eb; [| discriminate H1]. injection H1 as <-.
    rewrite ck_while_eq, (IHb _ _ _ _ Eb).
    destruct (tc_cond_complete Q M F G G (ext_refl G) (nosok G) _ Ec) as [_ [-> ->]].
    rewrite Hq1, Hre. reflexivity.
  - intros a t x from to step b IHb G d r G1 H1. pose proof (tcs_shallow F _ _ _ _ _ H1) as Hre. cbn [stmt_chk] in H1.
    match type of H1 with (if ?c then _ else _) = _ => destruct c eqn:E; [| discriminate H1] end.
    destruct (block_chk M F (bind (push G) x (BVar t)) (S d) r b) as [Gb|] eqn:Eb; [| discriminate H1]. injection H1 as <-.
    apply andb_true_iff in E as [E E6]. apply andb_true_iff in E as [E E5]. apply andb_true_iff in E as [E E4].
    apply andb_true_iff in E as [E E3]. apply andb_true_iff in E as [E1 E2].
    rewrite ck_for_eq, (IHb _ _ _ _ Eb), Hq1. unfold pt_type. rewrite E1, (art_diag_ok M _ _ E2).
    destruct (tc_init_complete Q M F G G (ext_refl G) (nosok G) _ _ E4) as [_ [-> ->]].
    destruct (tc_numeric_complete Q M F G G (ext_refl G) (nosok G) _ E5) as [_ [-> ->]].
    assert (Hst : pt_opt F G step = [] /\ rs_opt G step = []).
    { destruct step as [e|]; [| split; reflexivity]. cbn.
      destruct (tc_numeric_complete Q M F G G (ext_refl G) (nosok G) _ E6) as [_ [-> ->]]. split; reflexivity. }
    destruct Hst as [-> ->]. cbn [unless app]. rewrite Hre. reflexivity.
  - intros a t x e b IHb G d r G1 H1. pose proof (tcs_shallow F _ _ _ _ _ H1) as Hre. cbn [stmt_chk] in H1.
    match type of H1 with (if ?c then _ else _) = _ => destruct c eqn:E; [| discriminate H1] end.
    destruct (block_chk M F (bind (push G) x (BVar t)) (S d) r b) as [Gb|] eqn:Eb; [| discriminate H1]. injection H1 as <-.
    apply andb_true_iff in E as [E E3]. apply andb_true_iff in E as [E1 E2].
    destruct (type_of M F G e) as [te|] eqn:Ee; [| discriminate E3].
    rewrite ck_foreach_eq, (IHb _ _ _ _ Eb), Hq1. unfold pt_type. rewrite E1, (art_diag_ok M _ _ E2).
    destruct (tc_iter_complete Q M F G G (ext_refl G) (nosok G) _ _ _ Ee E3) as [_ [-> ->]]. cbn [unless app].
    rewrite Hre. reflexivity.
  - intros b IHb n G d r G1 H1. pose proof (tcs_shallow F _ _ _ _ _ H1) as Hre. cbn in H1.
    destruct (block_chk M F (push G) (S d) r b) as [Gb|] eqn:Eb; [| discriminate H1].
    destruct (indexb_expr M F G n) eqn:En; [| discriminate H1]. injection H1 as <-.
    rewrite ck_repeat_eq, (IHb _ _ _ _ Eb), Hq1.
    destruct (tc_index_complete Q M F G G (ext_refl G) (nosok G) _ En) as [tn [_ [_ [-> ->]]]]. rewrite Hre. reflexivity.
  - intros b IHb c G d r G1 H1. pose proof (tcs_shallow F _ _ _ _ _ H1) as Hre. cbn in H1.
    destruct (block_chk M F (push G) (S d) r b) as [Gb|] eqn:Eb; [| discriminate H1].
    destruct (has_typeb M F G c TBool) eqn:Ec; [| discriminate H1]. injection H1 as <-.
    rewrite ck_dowhile_eq, (IHb _ _ _ _ Eb), Hq1.
    destruct (tc_cond_complete Q M F G G (ext_refl G) (nosok G) _ Ec) as [_ [-> ->]]. rewrite Hre. reflexivity.
  - intros G d r G1 H1. cbn in *. destruct d; inversion H1; reflexivity.
  - intros G d r G1 H1. cbn in *. destruct d; inversion H1; reflexivity.
  - intros oe G d r G1 H1. pose proof (tcs_shallow F _ _ _ _ _ H1) as Hre. cbn in H1.
    rewrite ck_return_eq, Hq1.
    destruct oe as [e|]; destruct r as [| [t|]]; try discriminate H1.
    + destruct (has_typeb M F G e t) eqn:E; [| discriminate H1]. injection H1 as <-.
      unfold has_typeb in E. destruct (type_of M F G e) as [t0|] eqn:Et; [| discriminate E].
      destruct (proj1 (tc_complete_gen Q M F G G (ext_refl G) (nosok G)) _ _ Et) as [_ [Hr Hp]]. cbn [pt_opt rs_opt]. rewrite Hr, Hp, Hre.
      reflexivity.
    + injection H1 as <-. cbn [pt_opt rs_opt app]. rewrite Hre. reflexivity.
  - intros b IHb G d r G1 H1. pose proof (tcs_shallow F _ _ _ _ _ H1) as Hre. cbn in H1.
    destruct (block_chk M F (push G) d r b) as [Gb|] eqn:Eb; [| discriminate H1]. injection H1 as <-.
    rewrite ck_blockstmt_eq, (IHb _ _ _ _ Eb), Hq1, Hre. reflexivity.
  - intros f a G d r G1 H1. pose proof (tcs_shallow F _ _ _ _ _ H1) as Hre. cbn in H1.
    rewrite ck_call_eq, Hq1. cbn [pt_expr].
    destruct (assoc f F) as [[ps ro]|]; [| discriminate H1].
    destruct (args_chk M F G a ps) eqn:Ea; [| discriminate H1]. injection H1 as <-.
    destruct (proj2 (tc_complete_gen Q M F G G (ext_refl G) (nosok G)) _ _ Ea) as [_ [-> ->]].
    rewrite Hre. reflexivity.
  - intros G d r G1 H1. cbn in *. injection H1 as <-; reflexivity.
  - intros s IHs b IHb G d r G1 H1. cbn in H1.
    destruct (stmt_chk M F G d r s) as [Ga|] eqn:Ea; [| discriminate H1].
    rewrite ck_cons_eq, (IHs _ _ _ _ Ea), (IHb _ _ _ _ H1). reflexivity.
Qed.

Lemma ck_fun_complete_full : forall F G f, fun_chk M F G f = true ->
  ck_fun Q M F G f = ([], bind G (f_name f) BFun, (f_name f, sig_of f) :: F).
Proof.
  intros F G f H. unfold fun_chk in H. destruct (lookup G (f_name f)) eqn:El; [discriminate H |].
  apply andb_true_iff in H as [H Hfin]. apply andb_true_iff in H as [H Hblk].
  apply andb_true_iff in H as [H Hret]. apply andb_true_iff in H as [Hnd Hps].
  destruct (block_chk M ((f_name f, sig_of f) :: F) (param_scope f :: bind G (f_name f) BFun) 0
                      (RFun (option_map snd (f_ret f))) (f_body f)) as [G1|] eqn:Eb; [| discriminate Hblk].
  pose proof (proj2 (ck_complete_full _) _ _ _ _ _ Eb) as Hck.
  unfold ck_fun. rewrite El.
  assert (Hparams : ck_params G (f_params f) = []).
  { unfold ck_params. rewrite (nodupb_dup_names _ Hnd). cbn [app]. apply ck_params_flat; auto. }
  rewrite Hparams.
  assert (Hrt : match f_ret f with Some (_, t) => pt_type G t | None => [] end = [] /\
                match f_ret f with Some (a, t) => art_diag M t a | None => [] end = []).
  { destruct (f_ret f) as [[a t]|]; [| split; reflexivity]. cbn in Hret. apply andb_true_iff in Hret as [Hr1 Hr2].
    unfold pt_type. rewrite Hr1, (art_diag_ok M _ _ Hr2). split; reflexivity. }
  destruct Hrt as [-> ->]. cbn [app]. rewrite Hck.
  destruct (f_ret f); [rewrite Hfin |]; reflexivity.
Qed.

Lemma ck_tops_complete_full : forall l F G, tops_chk M F G l = true -> ck_tops Q M F G l = [].
Proof.
  induction l as [| [f|s] l IH]; intros F G H; cbn in *; auto.
  - apply andb_true_iff in H as [Hf Hl]. rewrite (ck_fun_complete_full _ _ _ Hf). cbn [app]. apply IH; auto.
  - destruct (stmt_chk M F G 0 RGlobal s) as [G1|] eqn:Es; [| discriminate H].
    rewrite (proj1 (ck_complete_full _) _ _ _ _ _ Es). cbn [app]. apply IH; auto.
Qed.

End Full.

(* ---- the theorems ---------------------------------------------------------------------------------- *)
(* every quirk setting without the field-name lookup: complete on shadow-free programs *)
Theorem check_with_complete : forall Q p, q_field_name_lookup Q = false -> wf p -> shadow_free p = true -> check_with Q p = [].
Proof.
  intros Q p Hq Hwf Hsf. apply wfb_iff in Hwf. unfold wfb in Hwf. unfold shadow_free in Hsf. unfold check_with.
  apply andb_true_iff in Hsf as [Hm Hsf].
  destruct (import_decls (p_mod p) (p_imp p)) as [ds|] eqn:Ei; [| discriminate Hwf].
  rewrite (ck_import_complete _ _ _ Ei). cbn [app].
  apply ck_tops_complete; auto. apply sok_import; auto. eapply import_decls_in; eauto.
Qed.

(* settings in which the typechecker uses the resolver's bindings, fields are protected by type and field names are
   not looked up as variables: complete *)
Theorem check_with_complete_full : forall Q p, q_tc_by_name Q = false -> q_field_unimported Q = false ->
  q_field_name_lookup Q = false -> wf p -> check_with Q p = [].
Proof.
  intros Q p H1 H2 H3 Hwf. apply wfb_iff in Hwf. unfold wfb in Hwf. unfold check_with.
  destruct (import_decls (p_mod p) (p_imp p)) as [ds|] eqn:Ei; [| discriminate Hwf].
  rewrite (ck_import_complete _ _ _ Ei). cbn [app]. apply ck_tops_complete_full; auto.
Qed.

(* the frontend with all repairs (also of the field-name lookup) accepts exactly the well-formed core programs *)
Theorem check_patched_complete : forall p, wf p -> check_patched p = [].
Proof. intros p; apply check_with_complete_full; reflexivity. Qed.

Theorem check_patched_iff_wf : forall p, check_patched p = [] <-> wf p.
Proof. intros p; split; [apply check_patched_sound | apply check_patched_complete]. Qed.

(* the frontend as it is now still rejects a well-formed program: a Konstante that is called like a field
     Binde "modul" ein.  Die Konstante x2 ist 1.  Speichere 3 in x2 von x10.        (x2: public field of x10's Kombination) *)
Definition w_field_name : prog :=
  {| p_mod := [IStruct true 1 Der [(true, 2, TZahl)]; IVar true 10 (TStruct 1)]; p_imp := ImpAll;
     p_tops := [TStmt (SConst Die 2 LZahl); TStmt (SAssignField 2 10 (ELit LZahl))] |}.

Theorem check_complete_refuted : exists p, wf p /\ check p <> [] /\ check_patched p = [].
Proof.
  exists w_field_name. split; [apply wfb_iff; vm_compute; reflexivity |].
  split; [vm_compute; discriminate | vm_compute; reflexivity].
Qed.

(* the pinned frontend: complete only without shadowing (and without the field-name lookup mattering) *)
Theorem check_pinned_complete_core : forall p, wf p -> shadow_free p = true ->
  check_with {| q_void_eq := true; q_void_ret := true; q_tc_by_name := true; q_field_unimported := true; q_field_name_lookup := false |} p = [].
Proof. intros p; apply check_with_complete; reflexivity. Qed.

(* regression fact: the pinned frontend rejected this well-formed program
     Die Zahl x1 ist 1.
     Wenn wahr, dann:
         Die Zahl x2 ist x1.        (x1 is the outer Zahl)
         Der Text x1 ist "..".      (declared afterwards; legal shadowing)
   (its re-visit of the block looked x1 up in the block's final table and found the Text) *)
Definition w_late_shadow : prog :=
  {| p_mod := []; p_imp := ImpNone;
     p_tops := [TStmt (SVar Die TZahl 1 (ELit LZahl));
                TStmt (SIf (ELit LBool) (BCons (SVar Die TZahl 2 (EVar 1)) (BCons (SVar Der TText 1 (ELit LText)) BNil)) BNil)] |}.

Theorem check_pinned_complete_refuted : exists p, wf p /\ check_pinned p <> [] /\ check p = [].
Proof.
  exists w_late_shadow. split; [apply wfb_iff; vm_compute; reflexivity |].
  split; [vm_compute; discriminate | vm_compute; reflexivity].
Qed.

(* non-vacuity: a shadow-free well-formed program with a function, a loop, a call and an import *)
Definition ex_ok : prog :=
  {| p_mod := [IStruct true 1 Der [(true, 2, TZahl); (false, 3, TZahl)]; IAlias 40 1 [2; 3]; IVar true 10 (TStruct 1); IFun true 30 [(TZahl, false)] (Some TZahl)];
     p_imp := ImpAll;
     p_tops := [TStmt (SVar Die TZahl 100 (EField 2 (EVar 10)));
                TStmt (SConst Die 104 LZahl);
                TStmt (SIf (EBin BKleiner (EVar 100) (EVar 104)) (BCons (SAssign 100 (EVar 104)) BNil) BNil);
                TFun {| f_name := 101; f_params := [(102, TZahl, true)]; f_ret := Some (Die, TZahl);
                        f_body := BCons (SAssign 102 (EBin BPlus (EVar 102) (ELit LZahl))) (BCons (SReturn (Some (EVar 102))) BNil) |};
                TStmt (SFor Die TZahl 103 (ELit LZahl) (ECall 30 (ACons (EVar 100) ANil)) None
                            (BCons (SCall 101 (ACons (EVar 100) ANil)) (BCons SBreak BNil)));
                TStmt (SVar Die (TList TZahl) 105 (EList (ELit LZahl) (ACons (EVar 100) ANil)));
                TStmt (SAssignIdx 105 (ELit LZahl) (EVar 104));
                TStmt (SAssignField 2 10 (EVar 100));
                TStmt (SForEach Die TZahl 106 (EBin BVerkettet (EVar 105) (EVar 100)) (BCons (SAssign 100 (EVar 106)) BNil));
                TStmt (SRepeat (BCons (SAssign 100 (EUn ULen (ESlice (EVar 105) (ELit LZahl) (EVar 100)))) BNil) (ELit LZahl));
                TStmt (SDoWhile (BCons (SAssign 100 (ELit LZahl)) BNil) (ELit LBool));
                TStmt (SConst Die 107 LText);
                TStmt (SVar Der (TStruct 1) 108 (ECall 40 (ACons (EVar 100) (ACons (ELit LZahl) ANil))))] |}.

Lemma ex_ok_facts : wfb ex_ok = true /\ shadow_free ex_ok = true /\ quirk_free ex_ok = true /\ check ex_ok = [] /\ check_pinned ex_ok = [].
Proof. repeat split; vm_compute; reflexivity. Qed.
