(* C04 — the programs on which the quirks of the frontend do not matter: `guard Q p` constrains only the
   constructs on which a switched-on quirk of Q (MiniCheck.quirks) decides acceptance; it is `true` for every
   program when Q = patched.  `quirk_free = guard pinned` is the domain of the partial soundness theorem of the
   pinned tree.  Definitions only (proofs: MiniCheckProofs.v). *)
From Coq Require Import List Arith Bool.
Import ListNotations.
From DDP Require Import Lang.MiniSyntax Lang.MiniTyping Lang.MiniCheck.

(* ---- syntactic guards ------------------------------------------------------------------------ *)
Definition callish (e : expr) : bool := match e with ECall _ _ | EField _ _ => true | _ => false end.

Fixpoint fv_expr (e : expr) : list name :=
  match e with
  | ELit _ | EEmpty _ => []
  | EVar x => [x]
  | EUn _ e => fv_expr e
  | EBin _ l r => fv_expr l ++ fv_expr r
  | ECast e _ => fv_expr e
  | EField _ e => fv_expr e
  | ECall _ a => fv_args a
  | ESlice l i j => fv_expr l ++ fv_expr i ++ fv_expr j
  | EList e a => fv_expr e ++ fv_args a
  end
with fv_args (a : args) : list name :=
  match a with ANil => [] | ACons e a' => fv_expr e ++ fv_args a' end.

Definition fv_opt (o : option expr) : list name := match o with Some e => fv_expr e | None => [] end.

Definition priv_field (M : imod) (f : name) : bool :=
  existsb (fun d => match d with
                    | IStruct _ _ _ fs => existsb (fun q => match q with (false, h, _) => Nat.eqb f h | _ => false end) fs
                    | _ => false
                    end) M.

(* names a block declares directly (they end up in the block's own symbol table) *)
Fixpoint block_decls (b : block) : list name :=
  match b with
  | BNil => []
  | BCons (SVar _ _ x _) r | BCons (SConst _ x _) r => x :: block_decls r
  | BCons _ r => block_decls r
  end.

Definition mem (x : name) (l : list name) : bool := existsb (Nat.eqb x) l.
Definition disjointb (l1 l2 : list name) : bool := forallb (fun x => negb (mem x l2)) l1.

Section Guard.
Variable Q : quirks.
Variable M : imod.

Fixpoint gd_expr (e : expr) : bool :=
  match e with
  | ELit _ | EEmpty _ | EVar _ => true
  | EUn _ e => gd_expr e
  | EBin o l r => gd_expr l && gd_expr r &&
                  (if q_void_eq Q && is_eq o then negb (callish l) && negb (callish r) else true)
  | ECast e _ => gd_expr e
  | EField f e => gd_expr e && (if q_field_unimported Q then negb (priv_field M f) else true)
  | ECall _ a => gd_args a
  | ESlice l i j => gd_expr l && gd_expr i && gd_expr j
  | EList e a => gd_expr e && gd_args a
  end
with gd_args (a : args) : bool :=
  match a with ANil => true | ACons e a' => gd_expr e && gd_args a' end.

Definition gd_opt (o : option expr) : bool := match o with Some e => gd_expr e | None => true end.

Fixpoint gd_stmt (s : stmt) : bool :=
  match s with
  | SVar _ _ x e => gd_expr e && (if q_tc_by_name Q then negb (mem x (fv_expr e)) else true)
  | SConst _ _ _ | SBreak | SContinue | SReturn None => true
  | SAssign _ e => gd_expr e
  | SAssignIdx _ i e => gd_expr i && gd_expr e
  | SAssignField f _ e => gd_expr e && (if q_field_unimported Q then negb (priv_field M f) else true)
  | SIf c th el => gd_expr c && gd_block th && gd_block el
  | SWhile c b => gd_expr c && gd_block b
  | SFor _ _ x f to st b =>
      gd_expr f && gd_expr to && gd_opt st && gd_block b &&
      (if q_void_eq Q then disjointb (fv_expr f ++ fv_expr to ++ fv_opt st) (x :: block_decls b) else true)
  | SForEach _ _ _ e b => gd_expr e && gd_block b
  | SRepeat b n => gd_block b && gd_expr n
  | SDoWhile b c => gd_block b && gd_expr c
  | SReturn (Some e) => gd_expr e && (if q_void_ret Q then negb (callish e) else true)
  | SBlock b => gd_block b
  | SCall _ a => gd_args a
  end
with gd_block (b : block) : bool :=
  match b with BNil => true | BCons s r => gd_stmt s && gd_block r end.

Definition gd_top (t : top) : bool := match t with TFun f => gd_block (f_body f) | TStmt s => gd_stmt s end.

End Guard.

Definition guard (Q : quirks) (p : prog) : bool := forallb (gd_top Q (p_mod p)) (p_tops p).

(* the programs on which none of the quirks of the pinned frontend matters *)
Definition quirk_free (p : prog) : bool := guard pinned p.

