(* C04 — fault injection: for every fault class of the property, ALL single-fault mutants of a core
   program at every applicable site.  Definitions only (proofs: MiniMutateProofs.v).

   A class is a `gen`: what may replace a sub-expression, what may replace a statement, what may
   be inserted at a statement position, what may replace a function declaration / be inserted at
   top level / replace the import.  The engine (`rw*`) walks the program, computes the environment
   of every position with the SPECIFICATION's own functions (MiniTyping.stmt_chk ...) and keeps a
   candidate only if the specification rejects it AT THAT POSITION (`type_of = None`,
   `stmt_chk = None`, ...).  MiniMutateProofs shows that such a local failure makes the whole
   program ill-formed, so every mutant the harness runs is ill-formed by the specification. *)
From Coq Require Import List Arith Bool.
Import ListNotations.
From DDP Require Import Lang.MiniSyntax Lang.MiniTyping.

Inductive fault :=
| FUndeclared        (* use of a name that is declared nowhere *)
| FOutOfScope        (* use of a name that is declared elsewhere in the program but not visible here *)
| FRedeclare         (* second declaration of a name in one scope *)
| FWrongOperand      (* operand of a wrong type *)
| FWrongArg          (* argument of a wrong type *)
| FWrongInit         (* initialiser of a wrong type *)
| FWrongAssign       (* assigned value of a wrong type *)
| FWrongCond         (* condition of a wrong type *)
| FWrongBound        (* loop bound (start, end, step, counter) of a wrong type *)
| FWrongReturn       (* returned value of a wrong type *)
| FConstAssign       (* assignment to a Konstante *)
| FConstRef          (* Referenz-passing of a Konstante *)
| FBreakOutside      (* break / continue outside of a loop *)
| FMissingReturn     (* value-returning function without a final return *)
| FPrivate           (* use of a non-public declaration or field of the imported module *)
| FArticle           (* article does not agree with the gender of the type *)
| FConstElem         (* assignment to an element / a field of a Konstante *)
| FWrongElemValue    (* element / field assigned a value of a wrong type, index of a wrong type *)
| FWrongIter         (* for-each over a non-list, loop variable of another type than the elements, repeat count / do-while condition of a wrong type *)
| FWrongListElem.    (* list literal with elements of different types or with list elements *)

Definition all_faults : list fault :=
  [FUndeclared; FOutOfScope; FRedeclare; FWrongOperand; FWrongArg; FWrongInit; FWrongAssign; FWrongCond;
   FWrongBound; FWrongReturn; FConstAssign; FConstRef; FBreakOutside; FMissingReturn; FPrivate; FArticle;
   FConstElem; FWrongElemValue; FWrongIter; FWrongListElem].

Record gen := {
  g_expr : fenv -> env -> expr -> list expr;                       (* replacements of a sub-expression *)
  g_stmt : fenv -> env -> nat -> retctx -> stmt -> list stmt;      (* replacements of a statement *)
  g_ins : fenv -> env -> nat -> retctx -> list stmt;               (* insertions at a statement position *)
  g_fun : fenv -> env -> fdecl -> list fdecl;                      (* replacements of a function declaration *)
  g_top : fenv -> env -> list top;                                 (* insertions at top level *)
  g_imp : import -> list import                                    (* replacements of the import *)
}.

(* ============================================================================================ *)
(* engine                                                                                       *)
(* ============================================================================================ *)
Section Engine.
Variable M : imod.
Variable g : gen.

Definition untypable (F : fenv) (G : env) (e : expr) : bool :=
  match type_of M F G e with None => true | Some _ => false end.
Definition stmt_fails (F : fenv) (G : env) (d : nat) (r : retctx) (s : stmt) : bool :=
  match stmt_chk M F G d r s with None => true | Some _ => false end.

Fixpoint rwE (F : fenv) (G : env) (e : expr) : list expr :=
  filter (untypable F G) (g_expr g F G e) ++
  match e with
  | EUn o e1 => map (EUn o) (rwE F G e1)
  | EBin o l r => map (fun l' => EBin o l' r) (rwE F G l) ++ map (fun r' => EBin o l r') (rwE F G r)
  | ECast e1 t => map (fun x => ECast x t) (rwE F G e1)
  | EField f e1 => map (EField f) (rwE F G e1)
  | ECall f a => map (ECall f) (rwA F G a)
  | ESlice l i j => map (fun x => ESlice x i j) (rwE F G l) ++ map (fun x => ESlice l x j) (rwE F G i) ++
                    map (fun x => ESlice l i x) (rwE F G j)
  | EList e a => map (fun x => EList x a) (rwE F G e) ++ map (EList e) (rwA F G a)
  | _ => []
  end
with rwA (F : fenv) (G : env) (a : args) : list args :=
  match a with
  | ANil => []
  | ACons e a' => map (fun e' => ACons e' a') (rwE F G e) ++ map (ACons e) (rwA F G a')
  end.

(* rewrites inside the expressions a statement owns directly *)
Definition rw_slots (F : fenv) (G : env) (s : stmt) : list stmt :=
  match s with
  | SVar a t x e => map (SVar a t x) (rwE F G e)
  | SAssign x e => map (SAssign x) (rwE F G e)
  | SAssignIdx x i e => map (fun i' => SAssignIdx x i' e) (rwE F G i) ++ map (SAssignIdx x i) (rwE F G e)
  | SAssignField f x e => map (SAssignField f x) (rwE F G e)
  | SForEach a t x e b => map (fun e' => SForEach a t x e' b) (rwE F G e)
  | SRepeat b n => map (SRepeat b) (rwE F G n)
  | SDoWhile b c => map (SDoWhile b) (rwE F G c)
  | SIf c th el => map (fun c' => SIf c' th el) (rwE F G c)
  | SWhile c b => map (fun c' => SWhile c' b) (rwE F G c)
  | SFor a t x from to step b =>
      map (fun e' => SFor a t x e' to step b) (rwE F G from) ++
      map (fun e' => SFor a t x from e' step b) (rwE F G to) ++
      match step with
      | Some e => map (fun e' => SFor a t x from to (Some e') b) (rwE F G e)
      | None => []
      end
  | SReturn (Some e) => map (fun e' => SReturn (Some e')) (rwE F G e)
  | SCall f a => map (SCall f) (rwA F G a)
  | _ => []
  end.

Fixpoint rwS (F : fenv) (G : env) (d : nat) (r : retctx) (s : stmt) : list stmt :=
  filter (stmt_fails F G d r) (g_stmt g F G d r s) ++
  rw_slots F G s ++
  match s with
  | SIf c th el =>
      map (fun th' => SIf c th' el) (rwB F (push G) d r th) ++ map (fun el' => SIf c th el') (rwB F (push G) d r el)
  | SWhile c b => map (SWhile c) (rwB F (push G) (S d) r b)
  | SFor a t x from to step b => map (SFor a t x from to step) (rwB F (bind (push G) x (BVar t)) (S d) r b)
  | SBlock b => map SBlock (rwB F (push G) d r b)
  | SForEach a t x e b => map (SForEach a t x e) (rwB F (bind (push G) x (BVar t)) (S d) r b)
  | SRepeat b n => map (fun b' => SRepeat b' n) (rwB F (push G) (S d) r b)
  | SDoWhile b c => map (fun b' => SDoWhile b' c) (rwB F (push G) (S d) r b)
  | _ => []
  end
with rwB (F : fenv) (G : env) (d : nat) (r : retctx) (b : block) : list block :=
  map (fun s' => BCons s' b) (filter (stmt_fails F G d r) (g_ins g F G d r)) ++
  match b with
  | BNil => []
  | BCons s b' =>
      map (fun s' => BCons s' b') (rwS F G d r s) ++
      match stmt_chk M F G d r s with
      | Some G1 => map (BCons s) (rwB F G1 d r b')
      | None => []
      end
  end.

Definition with_body (f : fdecl) (b : block) : fdecl :=
  {| f_name := f_name f; f_params := f_params f; f_ret := f_ret f; f_body := b |}.

Definition rwF (F : fenv) (G : env) (f : fdecl) : list fdecl :=
  filter (fun f' => negb (fun_chk M F G f')) (g_fun g F G f) ++
  map (with_body f)
      (rwB ((f_name f, sig_of f) :: F) (param_scope f :: bind G (f_name f) BFun) 0
           (RFun (option_map snd (f_ret f))) (f_body f)).

Definition top_fails (F : fenv) (G : env) (t : top) : bool :=
  match t with
  | TFun f => negb (fun_chk M F G f)
  | TStmt s => stmt_fails F G 0 RGlobal s
  end.

Fixpoint rwT (F : fenv) (G : env) (l : list top) : list (list top) :=
  map (fun t => t :: l)
      (filter (top_fails F G) (map TStmt (g_ins g F G 0 RGlobal) ++ g_top g F G)) ++
  match l with
  | [] => []
  | TFun f :: r =>
      map (fun f' => TFun f' :: r) (rwF F G f) ++
      (if fun_chk M F G f then map (cons (TFun f)) (rwT ((f_name f, sig_of f) :: F) (bind G (f_name f) BFun) r) else [])
  | TStmt s :: r =>
      map (fun s' => TStmt s' :: r) (rwS F G 0 RGlobal s) ++
      match stmt_chk M F G 0 RGlobal s with
      | Some G1 => map (cons (TStmt s)) (rwT F G1 r)
      | None => []
      end
  end.

Definition rwI (i : import) : list import :=
  filter (fun i' => match import_decls M i' with None => true | Some _ => false end) (g_imp g i).

End Engine.

Definition with_tops (p : prog) (l : list top) : prog := {| p_mod := p_mod p; p_imp := p_imp p; p_tops := l |}.
Definition with_imp (p : prog) (i : import) : prog := {| p_mod := p_mod p; p_imp := i; p_tops := p_tops p |}.

Definition mutants_gen (g : gen) (p : prog) : list prog :=
  map (with_imp p) (rwI (p_mod p) g (p_imp p)) ++
  match import_decls (p_mod p) (p_imp p) with
  | Some ds => map (with_tops p) (rwT (p_mod p) g (funs_of_decls (p_mod p) ds) [scope_of_decls ds] (p_tops p))
  | None => []
  end.

(* ============================================================================================ *)
(* program-wide information the generators use                                                  *)
(* ============================================================================================ *)
Fixpoint nm_ty (t : ty) : list name :=
  match t with TList e => nm_ty e | TStruct s => [s] | _ => [] end.

Fixpoint nm_expr (e : expr) : list name :=
  match e with
  | ELit _ => []
  | EEmpty t => nm_ty t
  | EVar x => [x]
  | EUn _ e => nm_expr e
  | EBin _ l r => nm_expr l ++ nm_expr r
  | ECast e t => nm_expr e ++ nm_ty t
  | EField f e => f :: nm_expr e
  | ECall f a => f :: nm_args a
  | ESlice l i j => nm_expr l ++ nm_expr i ++ nm_expr j
  | EList e a => nm_expr e ++ nm_args a
  end
with nm_args (a : args) : list name :=
  match a with ANil => [] | ACons e a' => nm_expr e ++ nm_args a' end.

Definition nm_opt (o : option expr) : list name := match o with Some e => nm_expr e | None => [] end.

Fixpoint nm_stmt (s : stmt) : list name :=
  match s with
  | SVar _ t x e => x :: nm_ty t ++ nm_expr e
  | SConst _ x _ => [x]
  | SAssign x e => x :: nm_expr e
  | SAssignIdx x i e => x :: nm_expr i ++ nm_expr e
  | SAssignField f x e => f :: x :: nm_expr e
  | SForEach _ t x e b => x :: nm_ty t ++ nm_expr e ++ nm_block b
  | SRepeat b n => nm_block b ++ nm_expr n
  | SDoWhile b c => nm_block b ++ nm_expr c
  | SIf c th el => nm_expr c ++ nm_block th ++ nm_block el
  | SWhile c b => nm_expr c ++ nm_block b
  | SFor _ t x f to st b => x :: nm_ty t ++ nm_expr f ++ nm_expr to ++ nm_opt st ++ nm_block b
  | SBreak | SContinue => []
  | SReturn o => nm_opt o
  | SBlock b => nm_block b
  | SCall f a => f :: nm_args a
  end
with nm_block (b : block) : list name :=
  match b with BNil => [] | BCons s r => nm_stmt s ++ nm_block r end.

Definition nm_fun (f : fdecl) : list name :=
  f_name f :: flat_map (fun p => pname p :: nm_ty (ptype p)) (f_params f) ++
  match f_ret f with Some (_, t) => nm_ty t | None => [] end ++ nm_block (f_body f).

Definition nm_top (t : top) : list name := match t with TFun f => nm_fun f | TStmt s => nm_stmt s end.

Definition nm_idecl (d : idecl) : list name :=
  match d with
  | IVar _ x t | IConst _ x t => x :: nm_ty t
  | IFun _ f ps r => f :: flat_map (fun p => nm_ty (fst p)) ps ++ match r with Some t => nm_ty t | None => [] end
  | IStruct _ s _ fs => s :: flat_map (fun q => snd (fst q) :: nm_ty (snd q)) fs
  | IAlias c s fs => c :: s :: fs
  end.

Definition nm_prog (p : prog) : list name :=
  flat_map nm_idecl (p_mod p) ++ match p_imp p with ImpSome xs => xs | _ => [] end ++ flat_map nm_top (p_tops p).

Definition fresh (p : prog) : name := S (fold_right Nat.max 0 (nm_prog p)).

(* names declared as variables / constants / counters / parameters anywhere in the main module *)
Fixpoint dn_stmt (s : stmt) : list name :=
  match s with
  | SVar _ _ x _ | SConst _ x _ => [x]
  | SIf _ th el => dn_block th ++ dn_block el
  | SWhile _ b | SBlock b | SRepeat b _ | SDoWhile b _ => dn_block b
  | SFor _ _ x _ _ _ b | SForEach _ _ x _ b => x :: dn_block b
  | _ => []
  end
with dn_block (b : block) : list name :=
  match b with BNil => [] | BCons s r => dn_stmt s ++ dn_block r end.

Definition dn_top (t : top) : list name :=
  match t with TFun f => map pname (f_params f) ++ dn_block (f_body f) | TStmt s => dn_stmt s end.

Fixpoint dedup (l : list name) : list name :=
  match l with
  | [] => []
  | x :: r => if existsb (Nat.eqb x) r then dedup r else x :: dedup r
  end.

Record info := {
  i_fresh : name;
  i_declared : list name;
  i_nonvars : list name;          (* names of functions and Kombinationen: visible, but not variables *)
  i_priv_vars : list name;        (* non-public variables and constants of the imported module *)
  i_priv_funs : list name;
  i_priv_fields : list name;
  i_priv_all : list name
}.

Definition info_of (p : prog) : info :=
  let M := p_mod p in
  {| i_fresh := fresh p;
     i_declared := dedup (flat_map dn_top (p_tops p));
     i_nonvars := dedup (flat_map (fun t => match t with TFun f => [f_name f] | TStmt _ => [] end) (p_tops p) ++
                         flat_map (fun d => match d with IFun _ f _ _ => [f] | IStruct _ s _ _ => [s] | _ => [] end) M);
     i_priv_vars := flat_map (fun d => match d with IVar false x _ | IConst false x _ => [x] | _ => [] end) M;
     i_priv_funs := flat_map (fun d => match d with
                                       | IFun false f _ _ => [f]
                                       | IAlias c s _ => if existsb (fun d' => match d' with IStruct true s' _ _ => Nat.eqb s s' | _ => false end) M then [] else [c]
                                       | _ => [] end) M;
     i_priv_fields := dedup (flat_map (fun d => match d with
                                                | IStruct _ _ _ fs => flat_map (fun q => match q with (false, f, _) => [f] | _ => [] end) fs
                                                | _ => [] end) M);
     i_priv_all := flat_map (fun d => if idecl_pub d then [] else [idecl_name d]) M |}.

(* ---- expressions of a known type to put where another type is required --------------------- *)
Definition dflt_expr (t : ty) : option expr :=
  match t with
  | TZahl => Some (ELit LZahl)
  | TKomma => Some (ELit LKomma)
  | TBool => Some (ELit LBool)
  | TChar => Some (ELit LChar)
  | TText => Some (ELit LText)
  | TByte => Some (ECast (ELit LZahl) TByte)
  | TList e => Some (EEmpty e)
  | TStruct _ => None
  end.

Fixpoint dflt_args (ps : list (ty * bool)) : option args :=
  match ps with
  | [] => Some ANil
  | (t, false) :: r => match dflt_expr t, dflt_args r with Some e, Some a => Some (ACons e a) | _, _ => None end
  | (_, true) :: _ => None
  end.

(* the variables and constants visible in G, innermost first, without shadowed entries *)
Definition visible (G : env) : list (name * binding) :=
  filter (fun xb => match lookup G (fst xb), snd xb with
                    | Some (BVar t), BVar t' | Some (BConst t), BConst t' => ty_eqb t t'
                    | _, _ => false
                    end)
         (concat G).

Fixpoint first_per_type (seen : list ty) (l : list (name * binding)) : list expr :=
  match l with
  | [] => []
  | (x, BVar t) :: r | (x, BConst t) :: r =>
      if existsb (ty_eqb t) seen then first_per_type seen r else EVar x :: first_per_type (t :: seen) r
  | _ :: r => first_per_type seen r
  end.

Definition void_calls (F : fenv) : list expr :=
  flat_map (fun fs => match fs with
                      | (f, (ps, None)) => match dflt_args ps with Some a => [ECall f a] | None => [] end
                      | _ => []
                      end) F.

Definition pool (F : fenv) (G : env) : list expr :=
  [ELit LZahl; ELit LKomma; ELit LBool; ELit LChar; ELit LText; ECast (ELit LZahl) TByte; EEmpty TZahl; EEmpty TText] ++
  first_per_type [] (visible G) ++
  firstn 1 (void_calls F).

Definition consts_of (G : env) : list (name * ty) :=
  flat_map (fun xb => match xb with (x, BConst t) => [(x, t)] | _ => [] end) (visible G).

(* every way to replace exactly one argument by one of ws *)
Fixpoint subst_args (ws : list expr) (a : args) : list args :=
  match a with
  | ANil => []
  | ACons e a' => map (fun w => ACons w a') ws ++ map (ACons e) (subst_args ws a')
  end.

(* replace the argument of one Referenz position by a constant of the parameter's type *)
Fixpoint const_ref_args (G : env) (a : args) (ps : list (ty * bool)) : list args :=
  match a, ps with
  | ACons e a', (t, isref) :: ps' =>
      (if isref then map (fun kt => ACons (EVar (fst kt)) a') (filter (fun kt => ty_eqb (snd kt) t) (consts_of G)) else []) ++
      map (ACons e) (const_ref_args G a' ps')
  | _, _ => []
  end.

Definition other_articles (a : article) : list article :=
  match a with Der => [Die; Das] | Die => [Der; Das] | Das => [Der; Die] end.

Fixpoint block_drop_last (b : block) : block :=
  match b with
  | BNil => BNil
  | BCons _ BNil => BNil
  | BCons s r => BCons s (block_drop_last r)
  end.

Fixpoint block_wrap_last (b : block) : block :=
  match b with
  | BNil => BNil
  | BCons s BNil => BCons (SIf (ELit LBool) (BCons s BNil) BNil) BNil
  | BCons s r => BCons s (block_wrap_last r)
  end.

(* the newest and the oldest entry of a scope *)
Definition ends {A} (l : list A) : list A :=
  match l with
  | [] => []
  | [x] => [x]
  | x :: r => [x; last r x]
  end.

Definition no_gen : gen :=
  {| g_expr := fun _ _ _ => []; g_stmt := fun _ _ _ _ _ => []; g_ins := fun _ _ _ _ => [];
     g_fun := fun _ _ _ => []; g_top := fun _ _ => []; g_imp := fun _ => [] |}.

Definition with_params (f : fdecl) (ps : list param) : fdecl :=
  {| f_name := f_name f; f_params := ps; f_ret := f_ret f; f_body := f_body f |}.
Definition with_ret (f : fdecl) (r : option (article * ty)) : fdecl :=
  {| f_name := f_name f; f_params := f_params f; f_ret := r; f_body := f_body f |}.

Definition dummy_stmt (z : name) : stmt := SVar Die TZahl z (ELit LZahl).

Definition gen_of (fc : fault) (I : info) : gen :=
  match fc with
  | FUndeclared =>
      {| g_expr := fun _ _ e => match e with
                               | EVar _ => [EVar (i_fresh I)]
                               | ECall _ a => [ECall (i_fresh I) a]
                               | _ => [] end;
         g_stmt := fun _ _ _ _ s => match s with
                                    | SAssign _ e => [SAssign (i_fresh I) e]
                                    | SAssignIdx _ i e => [SAssignIdx (i_fresh I) i e]
                                    | SAssignField f _ e => [SAssignField f (i_fresh I) e; SAssignField (i_fresh I) (i_fresh I) e]
                                    | SCall _ a => [SCall (i_fresh I) a]
                                    | _ => [] end;
         g_ins := g_ins no_gen; g_fun := g_fun no_gen; g_top := g_top no_gen; g_imp := g_imp no_gen |}
  | FOutOfScope =>
      {| g_expr := fun _ _ e => match e with EVar _ => map EVar (i_declared I ++ i_nonvars I) | _ => [] end;
         g_stmt := fun _ _ _ _ s => match s with
                                    | SAssign _ e => map (fun y => SAssign y e) (i_declared I ++ i_nonvars I)
                                    | SAssignIdx _ i e => map (fun y => SAssignIdx y i e) (i_declared I ++ i_nonvars I)
                                    | SAssignField f _ e => map (fun y => SAssignField f y e) (i_declared I ++ i_nonvars I)
                                    | _ => [] end;
         g_ins := g_ins no_gen; g_fun := g_fun no_gen; g_top := g_top no_gen; g_imp := g_imp no_gen |}
  | FRedeclare =>
      {| g_expr := g_expr no_gen; g_stmt := g_stmt no_gen;
         g_ins := fun _ G _ _ => flat_map (fun xb => [SVar Die TZahl (fst xb) (ELit LZahl); SConst Die (fst xb) LZahl])
                                          (ends (match G with s :: _ => s | [] => [] end));
         g_fun := fun _ _ f => match f_params f with p :: _ => [with_params f (f_params f ++ [p])] | [] => [] end;
         g_top := fun _ G => map (fun xb => TFun {| f_name := fst xb; f_params := []; f_ret := None;
                                                   f_body := BCons (dummy_stmt (i_fresh I)) BNil |})
                                 (match G with s :: _ => s | [] => [] end);
         g_imp := fun i => match i with ImpSome (x :: r) => [ImpSome (x :: r ++ [x])] | _ => [] end |}
  | FWrongOperand =>
      {| g_expr := fun F G e =>
                     let P := pool F G in
                     match e with
                     | EUn o _ => map (EUn o) P
                     | EBin o l r => map (fun w => EBin o w r) P ++ map (fun w => EBin o l w) P
                     | ECast _ t => map (fun w => ECast w t) P
                     | EField f _ => map (EField f) P
                     | ESlice l i j => map (fun w => ESlice w i j) P ++ map (fun w => ESlice l w j) P ++ map (fun w => ESlice l i w) P
                     | _ => [] end;
         g_stmt := g_stmt no_gen; g_ins := g_ins no_gen; g_fun := g_fun no_gen; g_top := g_top no_gen; g_imp := g_imp no_gen |}
  | FWrongArg =>
      {| g_expr := fun F G e => match e with ECall f a => map (ECall f) (subst_args (pool F G) a) | _ => [] end;
         g_stmt := fun F G _ _ s => match s with SCall f a => map (SCall f) (subst_args (pool F G) a) | _ => [] end;
         g_ins := g_ins no_gen; g_fun := g_fun no_gen; g_top := g_top no_gen; g_imp := g_imp no_gen |}
  | FWrongInit =>
      {| g_expr := g_expr no_gen;
         g_stmt := fun F G _ _ s => match s with SVar a t x _ => map (SVar a t x) (pool F G) | _ => [] end;
         g_ins := g_ins no_gen; g_fun := g_fun no_gen; g_top := g_top no_gen; g_imp := g_imp no_gen |}
  | FWrongAssign =>
      {| g_expr := g_expr no_gen;
         g_stmt := fun F G _ _ s => match s with SAssign x _ => map (SAssign x) (pool F G) | _ => [] end;
         g_ins := g_ins no_gen; g_fun := g_fun no_gen; g_top := g_top no_gen; g_imp := g_imp no_gen |}
  | FWrongCond =>
      {| g_expr := g_expr no_gen;
         g_stmt := fun F G _ _ s => match s with
                                    | SIf _ th el => map (fun w => SIf w th el) (pool F G)
                                    | SWhile _ b => map (fun w => SWhile w b) (pool F G)
                                    | _ => [] end;
         g_ins := g_ins no_gen; g_fun := g_fun no_gen; g_top := g_top no_gen; g_imp := g_imp no_gen |}
  | FWrongBound =>
      {| g_expr := g_expr no_gen;
         g_stmt := fun F G _ _ s => match s with
                                    | SFor a t x f to st b =>
                                        let P := pool F G in
                                        map (fun w => SFor a t x w to st b) P ++
                                        map (fun w => SFor a t x f w st b) P ++
                                        map (fun w => SFor a t x f to (Some w) b) P ++
                                        [SFor Der TText x (ELit LText) to st b; SFor Der TBool x (ELit LBool) to st b]
                                    | _ => [] end;
         g_ins := g_ins no_gen; g_fun := g_fun no_gen; g_top := g_top no_gen; g_imp := g_imp no_gen |}
  | FWrongReturn =>
      {| g_expr := g_expr no_gen;
         g_stmt := fun F G _ _ s => match s with
                                    | SReturn (Some _) => SReturn None :: map (fun w => SReturn (Some w)) (pool F G)
                                    | SReturn None => map (fun w => SReturn (Some w)) (pool F G)
                                    | _ => [] end;
         g_ins := g_ins no_gen; g_fun := g_fun no_gen; g_top := g_top no_gen; g_imp := g_imp no_gen |}
  | FConstAssign =>
      {| g_expr := g_expr no_gen;
         g_stmt := fun _ G _ _ s => match s with
                                    | SAssign _ e => map (fun kt => SAssign (fst kt) e) (consts_of G)
                                    | _ => [] end;
         g_ins := fun _ G _ _ => flat_map (fun kt => match dflt_expr (snd kt) with
                                                      | Some e => [SAssign (fst kt) e]
                                                      | None => [] end) (consts_of G);
         g_fun := g_fun no_gen; g_top := g_top no_gen; g_imp := g_imp no_gen |}
  | FConstRef =>
      {| g_expr := fun F G e => match e with
                                | ECall f a => match assoc f F with
                                               | Some (ps, _) => map (ECall f) (const_ref_args G a ps)
                                               | None => [] end
                                | _ => [] end;
         g_stmt := fun F G _ _ s => match s with
                                    | SCall f a => match assoc f F with
                                                   | Some (ps, _) => map (SCall f) (const_ref_args G a ps)
                                                   | None => [] end
                                    | _ => [] end;
         g_ins := g_ins no_gen; g_fun := g_fun no_gen; g_top := g_top no_gen; g_imp := g_imp no_gen |}
  | FBreakOutside =>
      {| g_expr := g_expr no_gen; g_stmt := g_stmt no_gen;
         g_ins := fun _ _ d _ => match d with O => [SBreak; SContinue] | S _ => [] end;
         g_fun := g_fun no_gen; g_top := g_top no_gen; g_imp := g_imp no_gen |}
  | FMissingReturn =>
      {| g_expr := g_expr no_gen; g_stmt := g_stmt no_gen; g_ins := g_ins no_gen;
         g_fun := fun _ _ f => match f_ret f with
                               | Some _ => [with_body f (block_drop_last (f_body f));
                                            with_body f (block_wrap_last (f_body f));
                                            with_body f (block_app (f_body f) (BCons (dummy_stmt (i_fresh I)) BNil))]
                               | None => [] end;
         g_top := g_top no_gen; g_imp := g_imp no_gen |}
  | FPrivate =>
      {| g_expr := fun _ _ e => match e with
                               | EVar _ => map EVar (i_priv_vars I)
                               | ECall _ a => map (fun h => ECall h a) (i_priv_funs I)
                               | EField _ e1 => map (fun h => EField h e1) (i_priv_fields I)
                               | _ => [] end;
         g_stmt := fun _ _ _ _ s => match s with
                                    | SAssign _ e => map (fun y => SAssign y e) (i_priv_vars I)
                                    | SAssignIdx _ i e => map (fun y => SAssignIdx y i e) (i_priv_vars I)
                                    | SAssignField _ x e => map (fun h => SAssignField h x e) (i_priv_fields I)
                                    | SCall _ a => map (fun h => SCall h a) (i_priv_funs I)
                                    | _ => [] end;
         g_ins := g_ins no_gen; g_fun := g_fun no_gen; g_top := g_top no_gen;
         g_imp := fun i => match i with ImpSome xs => map (fun y => ImpSome (xs ++ [y])) (i_priv_all I) | _ => [] end |}
  | FArticle =>
      {| g_expr := g_expr no_gen;
         g_stmt := fun _ _ _ _ s => match s with
                                    | SVar a t x e => map (fun a' => SVar a' t x e) (other_articles a)
                                    | SConst a x l => map (fun a' => SConst a' x l) (other_articles a)
                                    | SFor a t x f to st b => map (fun a' => SFor a' t x f to st b) (other_articles a)
                                    | SForEach a t x e b => map (fun a' => SForEach a' t x e b) (other_articles a)
                                    | _ => [] end;
         g_ins := g_ins no_gen;
         g_fun := fun _ _ f => match f_ret f with
                               | Some (a, t) => map (fun a' => with_ret f (Some (a', t))) (other_articles a)
                               | None => [] end;
         g_top := g_top no_gen; g_imp := g_imp no_gen |}
  | FConstElem =>
      {| g_expr := g_expr no_gen;
         g_stmt := fun _ G _ _ s => match s with
                                    | SAssignIdx _ i e => map (fun kt => SAssignIdx (fst kt) i e) (consts_of G)
                                    | SAssignField f _ e => map (fun kt => SAssignField f (fst kt) e) (consts_of G)
                                    | _ => [] end;
         g_ins := fun _ G _ _ => flat_map (fun kt => match snd kt with
                                                      | TText => [SAssignIdx (fst kt) (ELit LZahl) (ELit LChar)]
                                                      | _ => [] end) (consts_of G);
         g_fun := g_fun no_gen; g_top := g_top no_gen; g_imp := g_imp no_gen |}
  | FWrongElemValue =>
      {| g_expr := g_expr no_gen;
         g_stmt := fun F G _ _ s => match s with
                                    | SAssignIdx x i e => map (SAssignIdx x i) (pool F G) ++ map (fun w => SAssignIdx x w e) (pool F G)
                                    | SAssignField f x e => map (SAssignField f x) (pool F G)
                                    | _ => [] end;
         g_ins := g_ins no_gen; g_fun := g_fun no_gen; g_top := g_top no_gen; g_imp := g_imp no_gen |}
  | FWrongIter =>
      {| g_expr := g_expr no_gen;
         g_stmt := fun F G _ _ s => match s with
                                    | SForEach a t x e b =>
                                        map (fun w => SForEach a t x w b) (pool F G) ++
                                        [SForEach Die TZahl x e b; SForEach Der TText x e b; SForEach Der TChar x e b; SForEach Der TBool x e b]
                                    | SRepeat b n => map (SRepeat b) (pool F G)
                                    | SDoWhile b c => map (SDoWhile b) (pool F G)
                                    | _ => [] end;
         g_ins := g_ins no_gen; g_fun := g_fun no_gen; g_top := g_top no_gen; g_imp := g_imp no_gen |}
  | FWrongListElem =>
      {| g_expr := fun F G e => match e with
                                | EList e0 a => map (fun w => EList w a) (pool F G) ++ map (EList e0) (subst_args (pool F G) a)
                                | _ => [] end;
         g_stmt := g_stmt no_gen; g_ins := g_ins no_gen; g_fun := g_fun no_gen; g_top := g_top no_gen; g_imp := g_imp no_gen |}
  end.

Definition mutants (fc : fault) (p : prog) : list prog := mutants_gen (gen_of fc (info_of p)) p.

(* the interface of the theorems: a site is an index into the list of mutants of a class *)
Definition site_ok (fc : fault) (s : nat) (p : prog) : Prop := s < length (mutants fc p).
Definition inject (fc : fault) (s : nat) (p : prog) : prog := nth s (mutants fc p) p.
