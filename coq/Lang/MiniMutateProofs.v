(* C04 — every mutant the fault injector produces is ill-formed by the specification: a failure
   of the specification at one position (sub-expression without a type, statement that is not ok in
   the environment of its position, function / import that is not ok) makes the whole program
   ill-formed.  Holds for ANY generator `gen`, hence for all 16 fault classes. *)
From Coq Require Import List Arith Bool Lia.
Import ListNotations.
From DDP Require Import Lang.MiniSyntax Lang.MiniTyping Lang.MiniTypingProofs Lang.MiniMutate.

Section Engine.
Variable M : imod.
Variable g : gen.

Lemma untypable_none : forall F G e, untypable M F G e = true -> type_of M F G e = None.
Proof. intros F G e; unfold untypable; destruct (type_of M F G e); [intros H; discriminate H | auto]. Qed.

Lemma stmt_fails_none : forall F G d r s, stmt_fails M F G d r s = true -> stmt_chk M F G d r s = None.
Proof. intros F G d r s; unfold stmt_fails; destruct (stmt_chk M F G d r s); [intros H; discriminate H | auto]. Qed.

(* an argument list with an untypable argument is rejected for every parameter list *)
Lemma args_chk_untypable_head : forall F G e a ps, type_of M F G e = None -> args_chk M F G (ACons e a) ps = false.
Proof.
  intros F G e a ps H. destruct ps as [| [t [|]] ps]; cbn; auto.
  - destruct e; auto. cbn in H. destruct (lookup G x) as [[| | |]|]; auto; discriminate H.
  - rewrite H; reflexivity.
Qed.

Lemma args_chk_bad_tail : forall F G e a ps, (forall ps', args_chk M F G a ps' = false) -> args_chk M F G (ACons e a) ps = false.
Proof.
  intros F G e a ps H. destruct ps as [| [t [|]] ps]; cbn; auto.
  - destruct e; auto. destruct (lookup G x) as [[| | |]|]; auto. rewrite H; apply andb_false_r.
  - destruct (type_of M F G e); auto. rewrite H; apply andb_false_r.
Qed.

Lemma rwE_untypable : forall F G,
  (forall e e', In e' (rwE M g F G e) -> type_of M F G e' = None) /\
  (forall a a', In a' (rwA M g F G a) -> forall ps, args_chk M F G a' ps = false).
Proof.
  intros F G; apply expr_args_ind.
  - intros l e' H; cbn in H. rewrite app_nil_r in H. apply filter_In in H as [_ H]. apply untypable_none; auto.
  - intros t e' H; cbn in H. rewrite app_nil_r in H. apply filter_In in H as [_ H]. apply untypable_none; auto.
  - intros x e' H; cbn in H. rewrite app_nil_r in H. apply filter_In in H as [_ H]. apply untypable_none; auto.
  - intros o e IH e' H; cbn in H. apply in_app_or in H as [H | H].
    + apply filter_In in H as [_ H]. apply untypable_none; auto.
    + apply in_map_iff in H as [x [<- Hx]]. cbn. rewrite (IH _ Hx); reflexivity.
  - intros o l IHl r IHr e' H; cbn in H. apply in_app_or in H as [H | H].
    + apply filter_In in H as [_ H]. apply untypable_none; auto.
    + apply in_app_or in H as [H | H]; apply in_map_iff in H as [x [<- Hx]]; cbn.
      * rewrite (IHl _ Hx); reflexivity.
      * rewrite (IHr _ Hx). destruct (type_of M F G l); reflexivity.
  - intros e IH t e' H; cbn in H. apply in_app_or in H as [H | H].
    + apply filter_In in H as [_ H]. apply untypable_none; auto.
    + apply in_map_iff in H as [x [<- Hx]]. cbn. rewrite (IH _ Hx); reflexivity.
  - intros f e IH e' H; cbn in H. apply in_app_or in H as [H | H].
    + apply filter_In in H as [_ H]. apply untypable_none; auto.
    + apply in_map_iff in H as [x [<- Hx]]. cbn. rewrite (IH _ Hx); reflexivity.
  - intros f a IH e' H; cbn in H. apply in_app_or in H as [H | H].
    + apply filter_In in H as [_ H]. apply untypable_none; auto.
    + apply in_map_iff in H as [x [<- Hx]]. cbn. destruct (assoc f F) as [[ps [r|]]|]; auto.
      rewrite (IH _ Hx); reflexivity.
  - intros l IHl i IHi j IHj e' H; cbn in H. apply in_app_or in H as [H | H].
    + apply filter_In in H as [_ H]. apply untypable_none; auto.
    + apply in_app_or in H as [H | H]; [| apply in_app_or in H as [H | H]]; apply in_map_iff in H as [x [<- Hx]]; cbn.
      * rewrite (IHl _ Hx); reflexivity.
      * rewrite (IHi _ Hx). destruct (type_of M F G l); reflexivity.
      * rewrite (IHj _ Hx). destruct (type_of M F G l); auto. destruct (type_of M F G i); reflexivity.
  - intros e IHe a IHa e' H; cbn in H. apply in_app_or in H as [H | H].
    + apply filter_In in H as [_ H]. apply untypable_none; auto.
    + apply in_app_or in H as [H | H]; apply in_map_iff in H as [x [<- Hx]]; cbn.
      * rewrite (IHe _ Hx); reflexivity.
      * destruct (type_of M F G e); auto. rewrite (IHa _ Hx), andb_false_r. reflexivity.
  - intros a' H; inversion H.
  - intros e IHe a IHa a' H ps; cbn in H. apply in_app_or in H as [H | H]; apply in_map_iff in H as [x [<- Hx]].
    + apply args_chk_untypable_head; auto.
    + apply args_chk_bad_tail; intros ps'; apply IHa; auto.
Qed.

Lemma assign_chk_none : forall F G e t, type_of M F G e = None -> assign_chk M F G e t = false.
Proof. intros F G e t H; unfold assign_chk; rewrite H; reflexivity. Qed.
Lemma has_typeb_none : forall F G e t, type_of M F G e = None -> has_typeb M F G e t = false.
Proof. intros F G e t H; unfold has_typeb; rewrite H; reflexivity. Qed.
Lemma numericb_none : forall F G e, type_of M F G e = None -> numericb_expr M F G e = false.
Proof. intros F G e H; unfold numericb_expr; rewrite H; reflexivity. Qed.

Lemma indexb_none : forall F G e, type_of M F G e = None -> indexb_expr M F G e = false.
Proof. intros F G e H; unfold indexb_expr; rewrite H; reflexivity. Qed.

Lemma rw_slots_fail : forall F G d r s s', In s' (rw_slots M g F G s) -> stmt_chk M F G d r s' = None.
Proof.
  intros F G d r s s' H. destruct (rwE_untypable F G) as [HE HA].
  destruct s; cbn in H; try contradiction.
  - apply in_map_iff in H as [w [<- Hw]]. cbn. rewrite (assign_chk_none _ _ _ _ (HE _ _ Hw)), andb_false_r. reflexivity.
  - apply in_map_iff in H as [w [<- Hw]]. cbn. destruct (lookup G x) as [[| | |]|]; auto.
    rewrite (assign_chk_none _ _ _ _ (HE _ _ Hw)). reflexivity.
  - apply in_app_or in H as [H | H]; apply in_map_iff in H as [w [<- Hw]]; cbn; destruct (lookup G x) as [[| | |]|]; auto.
    + rewrite (indexb_none _ _ _ (HE _ _ Hw)), andb_false_r. reflexivity.
    + rewrite (assign_chk_none _ _ _ _ (HE _ _ Hw)), andb_false_r. reflexivity.
  - apply in_map_iff in H as [w [<- Hw]]. cbn. destruct (lookup G x) as [[[| | | | | | |s]| | |]|]; auto.
    destruct (field_of M s f) as [[[|] tf]|]; auto. rewrite (assign_chk_none _ _ _ _ (HE _ _ Hw)). reflexivity.
  - apply in_map_iff in H as [w [<- Hw]]. cbn. rewrite (has_typeb_none _ _ _ _ (HE _ _ Hw)). reflexivity.
  - apply in_map_iff in H as [w [<- Hw]]. cbn. rewrite (has_typeb_none _ _ _ _ (HE _ _ Hw)). reflexivity.
  - apply in_app_or in H as [H | H]; [| apply in_app_or in H as [H | H]].
    + apply in_map_iff in H as [w [<- Hw]]. cbn. rewrite (assign_chk_none _ _ _ _ (HE _ _ Hw)), !andb_false_r. reflexivity.
    + apply in_map_iff in H as [w [<- Hw]]. cbn. rewrite (numericb_none _ _ _ (HE _ _ Hw)), !andb_false_r. reflexivity.
    + destruct step as [e|]; [| contradiction]. apply in_map_iff in H as [w [<- Hw]]. cbn.
      rewrite (numericb_none _ _ _ (HE _ _ Hw)), !andb_false_r. reflexivity.
  - apply in_map_iff in H as [w [<- Hw]]. cbn [stmt_chk]. rewrite (HE _ _ Hw), !andb_false_r. reflexivity.
  - apply in_map_iff in H as [w [<- Hw]]. cbn. destruct (block_chk M F (push G) (S d) r b); auto.
    rewrite (indexb_none _ _ _ (HE _ _ Hw)). reflexivity.
  - apply in_map_iff in H as [w [<- Hw]]. cbn. destruct (block_chk M F (push G) (S d) r b); auto.
    rewrite (has_typeb_none _ _ _ _ (HE _ _ Hw)). reflexivity.
  - destruct e as [e|]; [| contradiction]. apply in_map_iff in H as [w [<- Hw]]. cbn.
    destruct r as [| [t|]]; auto. rewrite (has_typeb_none _ _ _ _ (HE _ _ Hw)). reflexivity.
  - apply in_map_iff in H as [w [<- Hw]]. cbn. destruct (assoc f F) as [[ps ro]|]; auto. rewrite (HA _ _ Hw). reflexivity.
Qed.

Lemma rwS_fail : forall F,
  (forall s G d r s', In s' (rwS M g F G d r s) -> stmt_chk M F G d r s' = None) /\
  (forall b G d r b', In b' (rwB M g F G d r b) -> block_chk M F G d r b' = None).
Proof.
  intros F; apply stmt_block_ind.
  1-5, 12-14, 16: intros; match goal with H : In _ (rwS _ _ _ _ _ _ _) |- _ => cbn [rwS] in H;
       apply in_app_or in H as [H | H]; [apply filter_In in H as [_ H]; apply stmt_fails_none; auto |];
       apply in_app_or in H as [H | H]; [eapply rw_slots_fail; eauto | inversion H] end.
  - intros c th IHth el IHel G d r s' H. cbn [rwS] in H.
    apply in_app_or in H as [H | H]; [apply filter_In in H as [_ H]; apply stmt_fails_none; auto |].
    apply in_app_or in H as [H | H]; [eapply rw_slots_fail; eauto |].
    apply in_app_or in H as [H | H]; apply in_map_iff in H as [x [<- Hx]]; cbn.
    + rewrite (IHth _ _ _ _ Hx). destruct (has_typeb M F G c TBool); reflexivity.
    + rewrite (IHel _ _ _ _ Hx). destruct (has_typeb M F G c TBool); auto. destruct (block_chk M F (push G) d r th); reflexivity.
  - intros c b IHb G d r s' H. cbn [rwS] in H.
    apply in_app_or in H as [H | H]; [apply filter_In in H as [_ H]; apply stmt_fails_none; auto |].
    apply in_app_or in H as [H | H]; [eapply rw_slots_fail; eauto |].
    apply in_map_iff in H as [x [<- Hx]]; cbn.
    rewrite (IHb _ _ _ _ Hx). destruct (has_typeb M F G c TBool); reflexivity.
  - intros a t x from to step b IHb G d r s' H. cbn [rwS] in H.
    apply in_app_or in H as [H | H]; [apply filter_In in H as [_ H]; apply stmt_fails_none; auto |].
    apply in_app_or in H as [H | H]; [eapply rw_slots_fail; eauto |].
    apply in_map_iff in H as [y [<- Hy]]. cbn [stmt_chk].
    rewrite (IHb _ _ _ _ Hy).
    match goal with |- (if ?c then _ else _) = _ => destruct c; reflexivity end.
  - intros a t x e b IHb G d r s' H. cbn [rwS] in H.
    apply in_app_or in H as [H | H]; [apply filter_In in H as [_ H]; apply stmt_fails_none; auto |].
    apply in_app_or in H as [H | H]; [eapply rw_slots_fail; eauto |].
    apply in_map_iff in H as [y [<- Hy]]. cbn [stmt_chk].
    rewrite (IHb _ _ _ _ Hy).
    match goal with |- (if ?c then _ else _) = _ => destruct c; reflexivity end.
  - intros b IHb n G d r s' H. cbn [rwS] in H.
    apply in_app_or in H as [H | H]; [apply filter_In in H as [_ H]; apply stmt_fails_none; auto |].
    apply in_app_or in H as [H | H]; [eapply rw_slots_fail; eauto |].
    apply in_map_iff in H as [y [<- Hy]]. cbn. rewrite (IHb _ _ _ _ Hy). reflexivity.
  - intros b IHb c G d r s' H. cbn [rwS] in H.
    apply in_app_or in H as [H | H]; [apply filter_In in H as [_ H]; apply stmt_fails_none; auto |].
    apply in_app_or in H as [H | H]; [eapply rw_slots_fail; eauto |].
    apply in_map_iff in H as [y [<- Hy]]. cbn. rewrite (IHb _ _ _ _ Hy). reflexivity.
  - intros b IHb G d r s' H. cbn [rwS] in H.
    apply in_app_or in H as [H | H]; [apply filter_In in H as [_ H]; apply stmt_fails_none; auto |].
    apply in_app_or in H as [H | H]; [eapply rw_slots_fail; eauto |].
    apply in_map_iff in H as [x [<- Hx]]; cbn. rewrite (IHb _ _ _ _ Hx). reflexivity.
  - intros G d r b' H. cbn [rwB] in H. rewrite app_nil_r in H.
    apply in_map_iff in H as [x [<- Hx]]. apply filter_In in Hx as [_ Hx]. cbn.
    rewrite (stmt_fails_none _ _ _ _ _ Hx). reflexivity.
  - intros s IHs b IHb G d r b' H. cbn [rwB] in H.
    apply in_app_or in H as [H | H].
    + apply in_map_iff in H as [x [<- Hx]]. apply filter_In in Hx as [_ Hx]. cbn.
      rewrite (stmt_fails_none _ _ _ _ _ Hx). reflexivity.
    + apply in_app_or in H as [H | H].
      * apply in_map_iff in H as [x [<- Hx]]. cbn. rewrite (IHs _ _ _ _ Hx). reflexivity.
      * destruct (stmt_chk M F G d r s) as [G1|] eqn:E; [| inversion H].
        apply in_map_iff in H as [x [<- Hx]]. cbn. rewrite E. apply IHb; auto.
Qed.

Lemma rwF_fail : forall F G f f', In f' (rwF M g F G f) -> fun_chk M F G f' = false.
Proof.
  intros F G f f' H. unfold rwF in H. apply in_app_or in H as [H | H].
  - apply filter_In in H as [_ H]. apply negb_true_iff in H; auto.
  - apply in_map_iff in H as [b' [<- Hb]]. apply (proj2 (rwS_fail _)) in Hb.
    unfold fun_chk. change (f_name (with_body f b')) with (f_name f). change (f_params (with_body f b')) with (f_params f).
    change (f_ret (with_body f b')) with (f_ret f). change (f_body (with_body f b')) with b'.
    change (sig_of (with_body f b')) with (sig_of f). change (param_scope (with_body f b')) with (param_scope f).
    rewrite Hb. destruct (lookup G (f_name f)); auto. rewrite andb_false_r. reflexivity.
Qed.

Lemma rwT_fail : forall l F G l', In l' (rwT M g F G l) -> tops_chk M F G l' = false.
Proof.
  assert (Hins : forall F G l t, top_fails M F G t = true -> tops_chk M F G (t :: l) = false).
  { intros F G l [f|s] H; cbn in *.
    - apply negb_true_iff in H; rewrite H; reflexivity.
    - rewrite (stmt_fails_none _ _ _ _ _ H); reflexivity. }
  induction l as [| [f|s] l IH]; intros F G l' H; cbn [rwT] in H.
  - rewrite app_nil_r in H. apply in_map_iff in H as [t [<- Ht]]. apply filter_In in Ht as [_ Ht]. apply Hins; auto.
  - apply in_app_or in H as [H | H].
    + apply in_map_iff in H as [t [<- Ht]]. apply filter_In in Ht as [_ Ht]. apply Hins; auto.
    + apply in_app_or in H as [H | H].
      * apply in_map_iff in H as [f' [<- Hf]]. cbn. rewrite (rwF_fail _ _ _ _ Hf). reflexivity.
      * destruct (fun_chk M F G f) eqn:E; [| inversion H].
        apply in_map_iff in H as [x [<- Hx]]. cbn. rewrite E. apply IH; auto.
  - apply in_app_or in H as [H | H].
    + apply in_map_iff in H as [t [<- Ht]]. apply filter_In in Ht as [_ Ht]. apply Hins; auto.
    + apply in_app_or in H as [H | H].
      * apply in_map_iff in H as [s' [<- Hs]]. cbn. rewrite (proj1 (rwS_fail _) _ _ _ _ _ Hs). reflexivity.
      * destruct (stmt_chk M F G 0 RGlobal s) as [G1|] eqn:E; [| inversion H].
        apply in_map_iff in H as [x [<- Hx]]. cbn. rewrite E. apply IH; auto.
Qed.

End Engine.

Lemma mutants_gen_illformed : forall g p p', In p' (mutants_gen g p) -> wfb p' = false.
Proof.
  intros g p p' H. unfold mutants_gen in H. apply in_app_or in H as [H | H].
  - apply in_map_iff in H as [i [<- Hi]]. unfold rwI in Hi. apply filter_In in Hi as [_ Hi].
    unfold wfb; cbn. destruct (import_decls (p_mod p) i); [discriminate Hi | reflexivity].
  - destruct (import_decls (p_mod p) (p_imp p)) as [ds|] eqn:E; [| inversion H].
    apply in_map_iff in H as [l [<- Hl]]. unfold wfb; cbn. rewrite E. eapply rwT_fail; eauto.
Qed.

Theorem mutants_illformed : forall fc p p', In p' (mutants fc p) -> ~ wf p'.
Proof.
  intros fc p p' H Hwf. apply wfb_iff in Hwf.
  unfold mutants in H. apply mutants_gen_illformed in H. congruence.
Qed.

Theorem inject_breaks_wf : forall fc s p, wf p -> site_ok fc s p -> ~ wf (inject fc s p).
Proof.
  intros fc s p _ Hs. unfold inject. apply mutants_illformed with (fc := fc) (p := p). apply nth_In; auto.
Qed.

(* a mutant is never the program it was derived from *)
Corollary inject_changes : forall fc s p, wf p -> site_ok fc s p -> inject fc s p <> p.
Proof. intros fc s p Hwf Hs E. apply (inject_breaks_wf fc s p Hwf Hs). rewrite E; auto. Qed.
